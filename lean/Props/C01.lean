/-
  C01 — DAP2 end-to-end fidelity: what the server holds is what the client reads.
  Composition of the C05 development: `decImpl ∘ encImpl = id` on every value of every declaration,
  through the DDS/`Data:` split and through any lossless content coding.
  What is *not* in these theorems (oracle only, see design_notes/C01.md): webob/requests plumbing,
  gzip itself, the DDS text round trip (C07), the operating system's file I/O under `open_dods_file` (what the
  function does with the bytes of the file — text-mode line loop, offset, binary re-read — IS modelled:
  `Xdr.openDodsFile`, `C01_open_dods_file`).
-/
import PydapModel.XdrTypes
import PydapModel.XdrSpec
import PydapModel.Xdr
import Proofs.XdrEnc
import Proofs.XdrDec
import Proofs.XdrSize
import Proofs.EndToEndText
import Proofs.XdrStream
import Proofs.XdrSrc
import PydapModel.XdrFile
import Proofs.XdrFile
import PydapModel.XdrFileText
import Proofs.XdrFileText
import PydapModel.Handler
import Proofs.Handler
import Proofs.HandlerWF
import Proofs.HandlerWire
import Proofs.HandlerTyped
import Proofs.HandlerDdsSplit
import Proofs.HandlerAscii
namespace Pydap.C01
open Pydap Pydap.Xdr

/-- **round trip**: the client decodes exactly the source values from what the server encodes, for
    every declaration (all eight types, any shape, structures/grids to any depth, flat and nested
    sequences, empty sequences, empty strings), and nothing is left over -/
theorem C01_roundtrip (t : Tmpl) (d : Data) (h : WF t d = true) :
    decImpl t (encImpl t d) = .ok (d, []) := by
  have := decImpl_enc t d [] h
  rw [List.append_nil] at this
  rw [encImpl_eq t d h]
  exact this

/-- several variables / several responses in a row: decoding consumes exactly one encoding, so
    concatenated encodings decode independently -/
theorem C01_roundtrip_framed (t : Tmpl) (d : Data) (rest : Bytes) (h : WF t d = true) :
    decImpl t (encImpl t d ++ rest) = .ok (d, rest) := by
  rw [encImpl_eq t d h]
  exact decImpl_enc t d rest h

/-- what `BaseProxyDap2.__getitem__` does with a response body: split at the separator, decode the data part
    (`open_dods_file` finds the data part differently: `Xdr.openDodsFile`, section "the saved `.dods` file" below) -/
def clientRead (t : Tmpl) (raw : Bytes) : Option (Bytes × Except Err (Data × Bytes)) :=
  (splitBody raw).map fun p => (p.1, decImpl t p.2)

/-- **end to end**: from the body the server emits (DDS ‖ `Data:\n` ‖ XDR) the client recovers the DDS
    text and the source values (`hno`: the separator does not occur inside the DDS, as in C05) -/
theorem C01_end_to_end (dds0 : Bytes) (t : Tmpl) (d : Data) (h : WF t d = true)
    (hno : ∀ i, i < dds0.length →
      ¬ splitPattern.isPrefixOf ((dds0 ++ splitPattern ++ encImpl t d).drop i) = true) :
    clientRead t (body (dds0 ++ [10]) t d) = some (dds0, .ok (d, [])) := by
  have e : body (dds0 ++ [10]) t d = dds0 ++ splitPattern ++ encImpl t d := by
    simp [body, splitPattern]
  unfold clientRead splitBody
  rw [e, splitFirst_at splitPattern (by decide) dds0 (encImpl t d) hno]
  simp [C01_roundtrip t d h]

/-- **transport independence**: for any content coding `z` with a left inverse `unz` (gzip is one;
    that `gzip.decompress ∘ gzip.compress = id` is an assumption about zlib, exercised by the oracle),
    the client reads from the coded response what it reads from the plain one -/
theorem C01_transport (z unz : Bytes → Bytes) (hz : ∀ b, unz (z b) = b)
    (dds0 : Bytes) (t : Tmpl) (d : Data) (h : WF t d = true)
    (hno : ∀ i, i < dds0.length →
      ¬ splitPattern.isPrefixOf ((dds0 ++ splitPattern ++ encImpl t d).drop i) = true) :
    clientRead t (unz (z (body (dds0 ++ [10]) t d))) = some (dds0, .ok (d, [])) := by
  rw [hz]
  exact C01_end_to_end dds0 t d h hno


/-! ### end to end through the response text: DDS printer (C07) ‖ `Data:` ‖ XDR (C05), split, DDS parser, decoder

  `C01_end_to_end` above treats the DDS as an opaque byte string and runs the decoder with the *server's*
  declaration.  The theorems below close that gap with the C07 model: the client's declaration is the one its
  own DDS parser builds from the text it receives.  (`E2E.clientDecode`, `E2E.tmplOfDataset`:
  PydapModel/EndToEnd.lean; lemmas: Proofs/EndToEndText.lean.) -/

/-- **the client parses the DDS without its final newline** (`raw.split(b"\nData:\n", 1)[0]`): C07's round trip
    holds on that text too — for every well-formed dataset the parsed tree is `normDs d` -/
theorem C01_e2e_dds_without_final_newline (d : Dds.Dataset) (s0 : Dds.Text) (hwf : Dds.WFds d)
    (hp : Dds.printDs d = .ok (s0 ++ ['\n'])) : Dds.parseDds s0 = .ok (Dds.normDs d) :=
  E2E.parse_print_nonl d s0 hp hwf

/-- every printed DDS ends with exactly that newline, so the hypothesis above is always met -/
theorem C01_e2e_dds_ends_with_newline (d : Dds.Dataset) (s : Dds.Text) (hp : Dds.printDs d = .ok s) :
    ∃ s0, s = s0 ++ ['\n'] := by
  obtain ⟨b, _, e⟩ := E2E.printDs_ends_nl d s hp
  exact ⟨_, e⟩

/-- **the split needs no knowledge of positions**: if no newline of the DDS is followed by `D` (decidable,
    `E2E.sepFree`; every DDS line starts with a space, `Dataset` or `}`), `safe_dds_and_data` cuts exactly
    between DDS and data, whatever the data bytes are -/
theorem C01_e2e_split (dds0 rest : Bytes) (h : E2E.sepFree dds0 = true) :
    splitBody (dds0 ++ splitPattern ++ rest) = some (dds0, rest) :=
  E2E.split_sepFree dds0 rest h

/-- **declaration bridge**: server declaration (DAP2 type, shape, dimension names) → DDS text → `dds_to_dataset`
    → the declaration `unpack_dap2_data` runs with: type and shape are preserved -/
theorem C01_e2e_declaration_bridge (name : Dds.Text) (dims : List Dds.Text) (ty : Ty) (shape : List Nat)
    (hd : dims = [] ∨ dims.length = shape.length) :
    E2E.baseOfDds (Dds.normBase (E2E.ddsBase name dims ty shape) 0) = some (.base ty shape) :=
  E2E.baseOfDds_normBase name dims ty shape hd

/-- **the response text, any dataset**: for every well-formed dataset `d` (C07's domain) whose DDS text is ASCII with
    no newline followed by `D`, and every declaration/value pair `(t, data)` the parsed DDS converts to, the client
    — split, ASCII decode, DDS parse, declaration conversion, XDR decode — recovers the declared tree and exactly
    the values from the body the server emits, with nothing left over -/
theorem C01_e2e_response_text (d : Dds.Dataset) (s0 : Dds.Text) (t : Tmpl) (data : Data) (hwf : Dds.WFds d)
    (hp : Dds.printDs d = .ok (s0 ++ ['\n'])) (hascii : ∀ c ∈ s0, c.toNat < 128)
    (hsep : E2E.sepFree (E2E.encodeAscii s0) = true)
    (ht : E2E.tmplOfDataset (Dds.normDs d) = some t) (hd : WF t data = true) :
    E2E.clientDecode (body (E2E.encodeAscii (s0 ++ ['\n'])) t data) = .ok (Dds.normDs d, data, []) :=
  E2E.clientDecode_body d s0 t data hwf hp hascii hsep ht hd
/-! ### the served response, from the request to the client's values (round 7)

`C01_end_to_end` takes the declaration, the data and the DDS bytes as given and ASSUMES that the separator does not occur
in the DDS.  Below the three are what the handler model (`Handler.respond`, PydapModel/Handler.lean; tied by C06/C15's
correspondence) produces for a request, and the separator hypothesis is proved (`Handler.ddsText_sepFree`). -/

/-- **what the server holds is what the client reads, for every request**: on a well-formed, typed source dataset and
    for EVERY query that yields a constrained dataset (the whole dataset — empty query — or any projection /
    hyperslab / sequence selection), with the constrained declaration free of empty containers (`Shaped`) and its
    names ASCII without newline (`Plain`): the DDS response is `s0 ‖ \n`; the client's split of the data response
    returns `s0`, and its decoder, driven by the constrained declaration, returns exactly the constrained data
    (`Handler.dataOf cds`: every variable's values, in declaration order) and consumes the body to the last byte -/
theorem C01_served_response_read_back (fmt : Int → Handler.Str) (ds cds : Handler.Dataset) (q : Handler.Str)
    (hw : ds.WF) (ht : ds.TY) (h : Handler.constrained ds q = .ok cds) (hs : cds.Shaped) (hp : cds.Plain) :
    ∃ s0 body, Handler.respond fmt ds cs!"dds" q = .ok .dds (.complete (s0 ++ ['\n'])) ∧
      Handler.respond fmt ds cs!"dods" q = .ok .dods (.complete body) ∧
      clientRead (Handler.tmplOf cds) (Handler.strBytes body)
        = some (Handler.strBytes s0, .ok (Handler.dataOf cds, [])) := by
  have hcw := Handler.constrained_wf ds cds q hw h
  have hx := Handler.xdrWF_of_typed cds hcw (Handler.constrained_ty ds cds q ht h) hs
  obtain ⟨s0, e, hsf⟩ := Handler.ddsText_sepFree cds hp
  have e1 : Handler.rsplitDot (cs!"/d." ++ cs!"dds") = some (cs!"/d", cs!"dds") := by decide
  have e2 : Handler.rsplitDot (cs!"/d." ++ cs!"dods") = some (cs!"/d", cs!"dods") := by decide
  have n1 : (cs!"dds" = cs!"das") = False := by decide
  have n2 : (cs!"dods" = cs!"das") = False := by decide
  have k1 : Handler.lookupKind cs!"dds" = some .dds := by decide
  have k2 : Handler.lookupKind cs!"dods" = some .dods := by decide
  refine ⟨s0, Handler.ddsText cds ++ cs!"Data:\n" ++ Handler.bytesStr (Handler.payload cds), ?_, ?_, ?_⟩
  · rw [← e]
    unfold Handler.respond Handler.handle
    rw [Handler.guarded_eq ds _ q _ _ e1]; simp only [n1, if_false, h, k1]; rfl
  · unfold Handler.respond Handler.handle
    rw [Handler.guarded_eq ds _ q _ _ e2]; simp only [n2, if_false, h, k2]; rfl
  · have hb : Handler.strBytes (Handler.ddsText cds ++ cs!"Data:\n" ++ Handler.bytesStr (Handler.payload cds))
        = Handler.strBytes s0 ++ splitPattern ++ encImpl (Handler.tmplOf cds) (Handler.dataOf cds) := by
      rw [e, Handler.strBytes_append, Handler.strBytes_append, Handler.strBytes_append, Handler.strBytes_bytesStr]
      simp [splitPattern, dataMarker, Handler.strBytes, Handler.payload]
    unfold clientRead splitBody
    rw [hb, E2E.split_sepFree _ _ hsf]
    simp [C01_roundtrip _ _ hx]

/-! ### the streaming transports: `StreamReader` (`open_dods_url`, `SequenceProxy.__iter__`) -/

/-- **round trip through a `StreamReader`, for every delivery**: whatever chunks the server's bytes arrive in
    (1-byte chunks, empty chunks, a boundary anywhere; the stream exhausted when the decoder issues its final
    zero-length reads after a string / Byte array that needs no padding), the client decodes the source values
    and leaves exactly what follows the encoding -/
theorem C01_roundtrip_streamed (t : Tmpl) (d : Data) (rest : Bytes) (cs : List Bytes) (h : WF t d = true)
    (hcs : cs.flatten = encImpl t d ++ rest) : Stream.absSR (decStream t cs) = .ok (d, rest) := by
  rw [decStream_eq, hcs, C01_roundtrip_framed t d rest h]
  rfl

/-- **`open_dods_url`** (what `ServerFunctionResult` fetches with): split, `StreamReader(BytesIO(data))` — chunks
    = lines of the data part — decode: the DDS text and the source values, through any lossless content coding -/
theorem C01_open_dods_url (z unz : Bytes → Bytes) (hz : ∀ b, unz (z b) = b)
    (dds0 : Bytes) (t : Tmpl) (d : Data) (h : WF t d = true)
    (hno : ∀ i, i < dds0.length →
      ¬ splitPattern.isPrefixOf ((dds0 ++ splitPattern ++ encImpl t d).drop i) = true) :
    openDodsUrl t (unz (z (body (dds0 ++ [10]) t d))) = some (dds0, .ok d) := by
  have e : body (dds0 ++ [10]) t d = dds0 ++ splitPattern ++ encImpl t d := by
    simp [body, splitPattern]
  rw [hz, openDodsUrl_eq, e]
  unfold splitBody
  rw [splitFirst_at splitPattern (by decide) dds0 (encImpl t d) hno]
  simp [C01_roundtrip t d h, mapE, Stream.fstOf]

/-- **a streamed sequence** (`SequenceProxy.__iter__`: `Data:\n` searched across the chunks of the response
    as they come, a `StreamReader` over the rest, `unpack_sequence`): for every chunking `cs` of the response
    to a sequence request the client iterates over the source rows (`hfirst`: the XDR part is what follows the
    first `Data:\n` in the response, i.e. the DDS text does not contain `Data:\n`) -/
theorem C01_sequence_streamed (dds : Bytes) (t : Tmpl) (d : Data) (cs : List Bytes) (h : WF t d = true)
    (hcs : cs.flatten = body dds t d)
    (hfirst : Stream.afterFirst Stream.dataPattern (body dds t d) = some (encImpl t d)) :
    seqProxy t cs = .ok d := by
  rw [seqProxy_eq, hcs]
  unfold seqProxySpec
  rw [hfirst]
  simp [C01_roundtrip t d h, mapE, Stream.fstOf]

/-! ### the source representation does not reach the client

`Xdr.NpArr` / `Xdr.encArr` / `Xdr.Src` / `Xdr.encSrc` (PydapModel/XdrSrc.lean): the served arrays as numpy holds them
(dtype char, byte order, strides, offset, memory; `str` or `bytes` items) and the encoder's dispatch on that; see the
section of the same name in Props/C05.lean for the domain (excluded: 8-byte integers beyond 32 bits, text outside
ASCII, dtypes without a DAP2 type — `C05_rep_wide_wraps`, `C05_rep_text_outside_ascii`, `C05_rep_unsupported_dtype`). -/

/-- **what the client reads does not depend on how the server holds it**: two arrays holding the same data of the
    same DAP2 type in any two representations are answered with the same bytes, and the client decodes exactly
    the data held from them (type and shape are those of the declaration it decodes with) -/
theorem C01_representation_independent (a b : NpArr) (ty : Ty) (sh : List Nat) (d : Data)
    (ha : Holds a ty sh d) (hb : Holds b ty sh d) (hwf : WF (.base ty sh) d = true) :
    ∃ bs, encArr a = .ok bs ∧ encArr b = .ok bs ∧ decImpl (.base ty sh) bs = .ok (d, []) := by
  obtain ⟨hty, hsh, hd⟩ := ha
  obtain ⟨hty', hsh', hd'⟩ := hb
  subst hsh
  refine ⟨XdrSpec.enc (.base ty a.shape) d, encArr_eq_spec a ty d hty hd hwf, ?_, ?_⟩
  · have := encArr_eq_spec b ty d hty' hd' (by rw [hsh']; exact hwf)
    rw [hsh'] at this; exact this
  · have := decImpl_enc (.base ty a.shape) d [] hwf
    rwa [List.append_nil] at this

/-- … for whole datasets, through the response body: a tree of structures/grids whose leaves are arrays in any
    representation (or value-level members: sequences), viewed as `(t, d)`, is served as DDS ‖ `Data:\n` ‖ bytes from
    which the client recovers the DDS and exactly `d` — the same for every tree with that view -/
theorem C01_representation_independent_dataset (s s' : Src) (dds0 : Bytes) (t : Tmpl) (d : Data)
    (hs : s.view? = some (t, d)) (hs' : s'.view? = some (t, d)) (hwf : WF t d = true)
    (hno : ∀ i, i < dds0.length →
      ¬ splitPattern.isPrefixOf ((dds0 ++ splitPattern ++ encImpl t d).drop i) = true) :
    ∃ bs, encSrc s = .ok bs ∧ encSrc s' = .ok bs ∧
      clientRead t (dds0 ++ [10] ++ dataMarker ++ bs) = some (dds0, .ok (d, [])) := by
  refine ⟨XdrSpec.enc t d, encSrc_eq s t d hs hwf, encSrc_eq s' t d hs' hwf, ?_⟩
  have := C01_end_to_end dds0 t d hwf hno
  rw [body, encImpl_eq t d hwf] at this
  exact this

/-- … and for sequences: a lazy source whose records hold the rows `vss` as cells of any forms (numpy scalar / 0-d
    array of any dtype char of the column's type, Python int/float/bool, `str`, `bytes`), or a structured array read
    record by record (`recordsOf`), is answered with bytes from which the client decodes exactly those rows; two such
    sources with the same bytes -/
theorem C01_representation_independent_sequence (tys : List Ty) (rows rows' : List (List (Bool × Cell)))
    (vss : List (List Val)) (h : rowsVals? rows = some vss) (h' : rowsVals? rows' = some vss)
    (hok : ∀ r ∈ rows, ∀ c ∈ r, c.2.ok = true) (hok' : ∀ r ∈ rows', ∀ c ∈ r, c.2.ok = true)
    (ht : ∀ r ∈ rows, r.map (·.2.ty?) = tys.map some) (ht' : ∀ r ∈ rows', r.map (·.2.ty?) = tys.map some)
    (hwf : WF (.seq (tys.map fun ty => .base ty [])) (.rows (vss.map fun vs => .tuple (vs.map Data.scalar))) = true) :
    ∃ bs, encRowsCells tys rows = .ok bs ∧ encRowsCells tys rows' = .ok bs ∧
      decImpl (.seq (tys.map fun ty => .base ty [])) bs
        = .ok (.rows (vss.map fun vs => .tuple (vs.map Data.scalar)), []) := by
  have hw := hwf
  simp only [WF, Bool.and_eq_true] at hw
  refine ⟨XdrSpec.enc (.seq (tys.map fun ty => .base ty [])) (.rows (vss.map fun vs => .tuple (vs.map Data.scalar))),
    ?_, ?_, ?_⟩
  · rw [encRowsCells_eq tys rows vss h hok ht hw.1.2 hw.2]; simp [XdrSpec.enc]
  · rw [encRowsCells_eq tys rows' vss h' hok' ht' hw.1.2 hw.2]; simp [XdrSpec.enc]
  · have := decImpl_enc _ _ [] hwf
    rwa [List.append_nil] at this

/-! ### why the open finding `C01.lazy_type_peek` is not a local repair

A lazy source (`IterData`) carries no declaration: `IterData.dtype` reads the column types off the first record.
With no record there is nothing to read them from — the empty source is a value of EVERY sequence declaration, so
no function of the records alone returns the declaration the publisher meant.  A repair therefore needs types that
are declared somewhere (a new argument of `IterData`, carried through `__copy__`/`__getitem__`/`copy_template`),
not a fallback inside `dtype`; see design_notes/C01.md. -/

/-- the empty source is a well-formed value of EVERY admissible sequence declaration, and it is sent as the same
    four bytes under every one of them: neither the records nor the data bytes determine the column types -/
theorem C01_lazy_type_peek_undetermined :
    (∀ cs, cs ≠ [] → seqCols cs = true → WF (.seq cs) (.rows []) = true) ∧
    (∀ cs, encImpl (.seq cs) (.rows []) = Gen.END_OF_SEQUENCE) := by
  refine ⟨?_, ?_⟩
  · intro cs hne hc
    cases cs with
    | nil => exact absurd rfl hne
    | cons c cs => simp [WF, WFrows, hc]
  · intro cs
    simp only [encImpl]
    split <;> simp [encRowsFlat, encRowsNested]

/-! ### the saved `.dods` file reopened: `open_dods_file` (client.py)

`Xdr.openDodsFile` (PydapModel/XdrFile.lean) follows the Python: the file read as TEXT (`encoding="ascii",
newline="\n", errors="ignore"`) line by line up to the first line with `line.strip() == "Data:"`, the lines before it
accumulated in `dds`; then the file read as BYTES from offset `len(dds) + len("Data:\n")`.  Unlike `clientRead` (which
was standing in for it above) it neither searches `\nData:\n` nor drops the DDS's final newline. -/

/-- **`open_dods_file`**: from the body the server emits, saved and reopened, the client recovers the DDS text (whole,
    with its final newline) and exactly the source values, nothing left over — whatever bytes the values are made of
    (`\nData:\n`, bytes ≥ 128 that the text decoder would drop, any 0x0A: the loop has stopped before them).
    `hascii`: the DDS text is ASCII (C07's printer emits nothing else; a byte ≥ 128 would be dropped from `dds` and
    the offset would fall short); `hno`: no line of the DDS strips to `Data:` (every DDS line ends in `{` or `;`) -/
theorem C01_open_dods_file (dds0 : Bytes) (t : Tmpl) (d : Data) (h : WF t d = true)
    (hascii : ∀ b ∈ dds0, b.toNat < 128)
    (hno : ∀ l ∈ textLines (dds0 ++ [10]), pyStrip l ≠ [68, 97, 116, 97, 58]) :
    openDodsFile t (body (dds0 ++ [10]) t d) = (dds0 ++ [10], .ok (d, [])) :=
  openDodsFile_body dds0 t d h hascii hno

/-- … and through any lossless content coding of the response before it was saved -/
theorem C01_open_dods_file_transport (z unz : Bytes → Bytes) (hz : ∀ b, unz (z b) = b)
    (dds0 : Bytes) (t : Tmpl) (d : Data) (h : WF t d = true)
    (hascii : ∀ b ∈ dds0, b.toNat < 128)
    (hno : ∀ l ∈ textLines (dds0 ++ [10]), pyStrip l ≠ [68, 97, 116, 97, 58]) :
    openDodsFile t (unz (z (body (dds0 ++ [10]) t d))) = (dds0 ++ [10], .ok (d, [])) :=
  openDodsFile_body_coded z unz hz dds0 t d h hascii hno

/-- the file reader and the in-memory reader agree on the served body: same values, and the same DDS text up to the
    final newline that `raw.split(b"\nData:\n", 1)` consumes -/
theorem C01_open_dods_file_agrees (dds0 : Bytes) (t : Tmpl) (d : Data) (h : WF t d = true)
    (hascii : ∀ b ∈ dds0, b.toNat < 128)
    (hno : ∀ l ∈ textLines (dds0 ++ [10]), pyStrip l ≠ [68, 97, 116, 97, 58])
    (hno' : ∀ i, i < dds0.length →
      ¬ splitPattern.isPrefixOf ((dds0 ++ splitPattern ++ encImpl t d).drop i) = true) :
    clientRead t (body (dds0 ++ [10]) t d)
      = some (((openDodsFile t (body (dds0 ++ [10]) t d)).1).dropLast, (openDodsFile t (body (dds0 ++ [10]) t d)).2) := by
  rw [C01_end_to_end dds0 t d h hno', C01_open_dods_file dds0 t d h hascii hno]
  simp

/-- `hno` needs no knowledge of the line structure: a DDS text without a colon has no `Data:` line (DAP2 names in
    C07's domain contain none and the DDS printer adds none) -/
theorem C01_open_dods_file_no_colon (dds0 : Bytes) (t : Tmpl) (d : Data) (h : WF t d = true)
    (hascii : ∀ b ∈ dds0, b.toNat < 128) (hc : (58 : UInt8) ∉ dds0) :
    openDodsFile t (body (dds0 ++ [10]) t d) = (dds0 ++ [10], .ok (d, [])) :=
  openDodsFile_body dds0 t d h hascii (no_dataLine_of_no_colon dds0 hc)

/-- **the saved response text, any dataset** (`E2E.fileDecode`, PydapModel/XdrFileText.lean: `open_dods_file` with its
    own DDS parse — the file counterpart of `C01_e2e_response_text`): for every well-formed dataset `d` (C07's domain)
    whose DDS text is ASCII and has no line that strips to `Data:`, and every declaration/value pair `(t, data)` the
    parsed DDS converts to, the file reader — text loop, DDS parse of the WHOLE printed text (final newline included),
    declaration conversion, seek, XDR decode — recovers the declared tree and exactly the values, nothing left over -/
theorem C01_e2e_saved_response_text (d : Dds.Dataset) (s0 : Dds.Text) (t : Tmpl) (data : Data) (hwf : Dds.WFds d)
    (hp : Dds.printDs d = .ok (s0 ++ ['\n'])) (hascii : ∀ c ∈ s0, c.toNat < 128)
    (hno : ∀ l ∈ textLines (E2E.encodeAscii s0 ++ [10]), pyStrip l ≠ [68, 97, 116, 97, 58])
    (ht : E2E.tmplOfDataset (Dds.normDs d) = some t) (hd : WF t data = true) :
    E2E.fileDecode (body (E2E.encodeAscii (s0 ++ ['\n'])) t data) = .ok (Dds.normDs d, data, []) :=
  E2E.fileDecode_body d s0 t data hwf hp hascii hno ht hd

/-! ### non-vacuity -/

def exT : Tmpl := .struct [.base .uint16 [2, 2], .struct [.base .byte [], .base .string []],
  .seq [.base .int16 [], .base .byte [], .seq [.base .string []]]]
def exD : Data := .tuple [.array [.num 0, .num 1, .num 65535, .num 7],
  .tuple [.scalar (.num 200), .scalar (.str [])],
  .rows [.tuple [.scalar (.num (-32768)), .scalar (.num 255), .rows []],
         .tuple [.scalar (.num 3), .scalar (.num 0), .rows [.tuple [.scalar (.str [104, 105])]]]]]

example : WF exT exD = true := by decide
example : decImpl exT (encImpl exT exD) = .ok (exD, []) := C01_roundtrip exT exD (by decide)
example : ∀ i, i < [32, 125].length →
    ¬ splitPattern.isPrefixOf (([32, 125] ++ splitPattern ++ encImpl exT exD).drop i) = true := by decide

/-- non-vacuity of `C01_served_response_read_back`: a Byte array (values ≥ 128), an Int16 grid, a sequence with a
    String column; the whole dataset (empty query) -/
def exSrv : Handler.Dataset := ⟨cs!"d", [
  .base { name := cs!"flags", ty := cs!"Byte", shape := [3], dims := [], data := [10, 200, 255] },
  .grid cs!"g" { name := cs!"v", ty := cs!"Int16", shape := [2], dims := [cs!"x"], data := [.int (-7), 8] }
    [{ name := cs!"x", ty := cs!"Int32", shape := [2], dims := [cs!"x"], data := [0, 10] }],
  .seq cs!"s" [(cs!"i", cs!"Int32"), (cs!"n", cs!"String")] [[1, .str cs!"ab"], [3, .str []]]]⟩
example : Handler.constrained exSrv [] = .ok exSrv := by decide +kernel
example : exSrv.WF := by decide +kernel
example : Handler.respond Pydap.intText exSrv cs!"dds" [] = .ok .dds (.complete
    cs!"Dataset {\n    Byte flags[flags = 3];\n    Grid {\n        Array:\n            Int16 v[x = 2];\n        Maps:\n            Int32 x[x = 2];\n    } g;\n    Sequence {\n        Int32 i;\n        String n;\n    } s;\n} d;\n") := by
  decide +kernel
example : WF (Handler.tmplOf exSrv) (Handler.dataOf exSrv) = true := by decide +kernel

example : E2E.sepFree (E2E.encodeAscii "Dataset {\n    Int16 a[m0 = 2];\n} ds;".toList) = true := by decide
example : E2E.sepFree (E2E.encodeAscii "x\nData:".toList) = false := by decide
example : E2E.baseOfDds (Dds.normBase (E2E.ddsBase "a".toList ["m0".toList, "m1".toList] .uint16 [2, 3]) 0)
    = some (.base .uint16 [2, 3]) := C01_e2e_declaration_bridge _ _ _ _ (Or.inr rfl)
/-- last variable a 4-character string: the last read of the decoder has length 0 and the stream is exhausted -/
def exL : Tmpl := .struct [.base .byte [4], .base .string []]
def exLD : Data := .tuple [.array [.num 1, .num 2, .num 10, .num 4], .scalar (.str [97, 98, 99, 100])]
example : decTrace exL (encImpl exL exLD) = [4, 4, 4, 0, 4, 4, 0] := by decide
example : Stream.absSR (decStream exL ((encImpl exL exLD).map fun b => [b])) = .ok (exLD, []) :=
  C01_roundtrip_streamed exL exLD [] _ (by decide) (by decide)
example : openDodsUrl exL (body [32, 10] exL exLD) = some ([32], .ok exLD) :=
  C01_open_dods_url id id (fun _ => rfl) [32] exL exLD (by decide) (by decide)
def exQ : Tmpl := .seq [.base .int16 [], .base .string []]
def exQD : Data := .rows [.tuple [.scalar (.num (-3)), .scalar (.str [])]]
example : seqProxy exQ [[32, 10, 68, 97], [116, 97, 58, 10, 0x5a, 0, 0], [0, 0xff, 0xff, 0xff, 0xfd, 0, 0, 0], [],
    [0, 0xa5, 0, 0, 0]] = .ok exQD :=
  C01_sequence_streamed [32, 10] exQ exQD _ (by decide) (by decide) (by decide)
/-- the same Int16 values as little-endian int16 in C order and as int8 read backwards (negative stride) -/
def exRepA : NpArr := storeC .h false [3] [1, -2, 3]
def exRepB : NpArr := ⟨.b, false, 0, [3], [-1], 2, [3, 0xFE, 1]⟩
example : ∃ bs, encArr exRepA = .ok bs ∧ encArr exRepB = .ok bs ∧
    decImpl (.base .int16 [3]) bs = .ok (.array [.num 1, .num (-2), .num 3], []) :=
  C01_representation_independent exRepA exRepB .int16 [3] _ ⟨by decide, by decide, by rfl⟩
    ⟨by decide, by decide, by rfl⟩ (by decide)
/-- a record (Int16, String) as (int8 scalar, `bytes`) and as (big-endian int16 0-d array, `str`) -/
example : ∃ bs, encRowsCells [.int16, .string] [[(false, .num .b (-3)), (false, .bstr [97])]] = .ok bs ∧
    encRowsCells [.int16, .string] [[(true, .num .h (-3)), (false, .ustr [97])]] = .ok bs ∧
    decImpl (.seq [.base .int16 [], .base .string []]) bs
      = .ok (.rows [.tuple [.scalar (.num (-3)), .scalar (.str [97])]], []) :=
  C01_representation_independent_sequence [.int16, .string] _ _ [[.num (-3), .str [97]]] (by decide) (by decide)
    (by decide) (by decide) (by decide) (by decide) (by decide)
example : WF (.seq [.base .int32 []]) (.rows []) = true ∧ WF (.seq [.base .string [], .base .byte []]) (.rows []) = true := by
  decide
example : (Src.struct [.arr exRepA, .val (.base .string []) (.scalar (.str []))]).view?
    = (Src.struct [.arr exRepB, .val (.base .string []) (.scalar (.str []))]).view? := by rfl
example : ∃ bs, encSrc (.struct [.arr exRepA, .val (.base .string []) (.scalar (.str []))]) = .ok bs ∧
    encSrc (.struct [.arr exRepB, .val (.base .string []) (.scalar (.str []))]) = .ok bs ∧
    clientRead (.struct [.base .int16 [3], .base .string []]) ([32] ++ [10] ++ dataMarker ++ bs)
      = some ([32], .ok (.tuple [.array [.num 1, .num (-2), .num 3], .scalar (.str [])], [])) :=
  C01_representation_independent_dataset _ _ [32] _ _ (by rfl) (by rfl) (by decide) (by decide)

/-- `open_dods_file` on a tiny body -/
example : openDodsFile (.struct [.base .int32 []]) (body ([32] ++ [10]) (.struct [.base .int32 []]) (.tuple [.scalar (.num 5)]))
    = ([32, 10], .ok (.tuple [.scalar (.num 5)], [])) := by rfl
example : openDodsFile (.struct [.base .int32 []]) (body ([32] ++ [10]) (.struct [.base .int32 []]) (.tuple [.scalar (.num 5)]))
    = ([32] ++ [10], .ok (.tuple [.scalar (.num 5)], [])) :=
  C01_open_dods_file [32] _ _ (by decide) (by decide) (by decide)
/-- the XDR part holds `\nData:\n` (a Byte array) and bytes ≥ 128 / 0x0A (Byte, Int32): the text loop has stopped
    before them, the offset is computed from the DDS alone -/
def exF : Tmpl := .struct [.base .byte [8], .base .int32 []]
def exFD : Data := .tuple [.array [.num 10, .num 68, .num 97, .num 116, .num 97, .num 58, .num 10, .num 200],
  .scalar (.num (-2147483638))]
example : encImpl exF exFD = [0, 0, 0, 8, 0, 0, 0, 8, 10, 68, 97, 116, 97, 58, 10, 200, 0x80, 0, 0, 10] := by decide
example : (splitPattern ++ [200]).isPrefixOf ((encImpl exF exFD).drop 8) = true := by decide
example : openDodsFile exF (body ([32, 59] ++ [10]) exF exFD) = ([32, 59, 10], .ok (exFD, [])) := by rfl
example : openDodsFile exF (body ([32, 59] ++ [10]) exF exFD) = ([32, 59] ++ [10], .ok (exFD, [])) :=
  C01_open_dods_file [32, 59] exF exFD (by decide) (by decide) (by decide)
/-- the hypotheses are needed.  A DDS byte ≥ 128 is dropped from the text, the offset falls short by one and the
    decoder starts at the marker's last byte (`hascii`); a DDS line that strips to `Data:` ends the loop early (`hno`) -/
example : openDodsFile (.struct [.base .int32 []]) (body ([200] ++ [10]) (.struct [.base .int32 []]) (.tuple [.scalar (.num 5)]))
    = ([10], .ok (.tuple [.scalar (.num 167772160)], [5])) := by rfl
example : openDodsFile (.struct [.base .int32 []])
    (body ([32, 68, 97, 116, 97, 58, 9] ++ [10]) (.struct [.base .int32 []]) (.tuple [.scalar (.num 5)]))
    = ([], .ok (.tuple [.scalar (.num 151667809)], [116, 97, 58, 10, 0, 0, 0, 5])) := by rfl
example : pyStrip [28, 9, 68, 97, 116, 97, 58, 31, 13, 10] = [68, 97, 116, 97, 58] := by decide
example : textLines [97, 10, 10, 98] = [[97, 10], [10], [98]] ∧ textLines [97, 10] = [[97, 10]] := by decide

example : openDodsFile exF (body ([32, 59] ++ [10]) exF exFD) = ([32, 59] ++ [10], .ok (exFD, [])) :=
  C01_open_dods_file_no_colon [32, 59] exF exFD (by decide) (by decide) (by decide)
/-- a printed DDS, saved with its data and reopened: the tree `dds_to_dataset` builds and the value -/
def exSavedDs : Dds.Dataset := E2E.answerDs "ds".toList "a".toList [] .int16 []
def exSavedText : Dds.Text := "Dataset {\n    Int16 a;\n} ds;".toList
example : Dds.printDs exSavedDs = .ok (exSavedText ++ ['\n']) := by decide
example : E2E.fileDecode (body (E2E.encodeAscii (exSavedText ++ ['\n'])) (E2E.answerTmpl .int16 []) (.tuple [.scalar (.num (-3))]))
    = .ok (Dds.normDs exSavedDs, .tuple [.scalar (.num (-3))], []) :=
  C01_e2e_saved_response_text exSavedDs exSavedText _ _
    (E2E.answerDs_wf _ _ _ _ _ ⟨by decide, by decide⟩ ⟨by decide, by decide⟩ (by simp)) (by decide) (by decide) (by decide)
    (E2E.answerDs_tmpl _ _ _ _ _ (Or.inl rfl)) (by decide)

end Pydap.C01
