/-
  C20 — File handlers expose exactly the file: NetCDF and CSV.
  Property statements only; helper lemmas are in `Proofs/FileHandlers.lean`.
  The model (`PydapModel/FileHandlers.lean`) follows the repaired handlers: nearest-enclosing-scope
  dimension lookup in `group_fqn`, `LazyVariable.__getitem__` without the unconditional reshape and with
  rank-0 variables read whole, root coordinate variables read raw.
  netCDF4 / csv / json are trusted: the theorems speak about the handlers' own logic on the libraries'
  description of the file; what the libraries return for a read is a parameter (`read`).
-/
import PydapModel.FileHandlers
import Proofs.FileHandlers
import PydapModel.CsvReader
import Proofs.CsvReader
import Proofs.CsvColumns
import PydapModel.FileSlab
import Proofs.FileSlab
namespace Pydap.C20
open Pydap Pydap.FileHandlers

/-- the group at path `Q` declares dimension `d` -/
def Declares (f : NcFile) (Q : List String) (d : String) : Prop :=
  ∃ g, lookupGrp f Q = some g ∧ d ∈ g.dims.map Prod.fst

/-- `Q` is the nearest enclosing scope of the group at `P` that declares `d` -/
def NearestDecl (f : NcFile) (P : List String) (d : String) (Q : List String) : Prop :=
  Q <+: P ∧ Declares f Q d ∧ ∀ Q', Q' <+: P → Q.length < Q'.length → ¬ Declares f Q' d

private theorem declares_iff (f : NcFile) (Q : List String) (d : String) :
    declaresB f Q d = true ↔ Declares f Q d := by
  unfold declaresB Declares
  cases h : lookupGrp f Q with
  | none => simp
  | some g => simp

/-- **fully qualified dimension names by nearest enclosing scope**: for a variable of the group at
    path `P` using a dimension `d` that some enclosing scope declares, the handler names the
    dimension after the nearest enclosing group declaring it — for any nesting depth and any
    shadowing in sibling or nested groups. -/
theorem C20_dim_nearest_scope (f : NcFile) (P : List String) (d : String)
    (hdecl : ∃ Q, Q <+: P ∧ Declares f Q d) :
    NearestDecl f P d (resolveDim f P d).1 ∧ (resolveDim f P d).2 = d := by
  have hd : ∃ rq, rq <:+ P.reverse ∧ declaresB f rq.reverse d = true := by
    obtain ⟨Q, hq, hdq⟩ := hdecl
    exact ⟨Q.reverse, List.reverse_suffix.mpr hq, by simpa using (declares_iff f Q d).mpr hdq⟩
  obtain ⟨h1, h2, h3⟩ := resolveFrom_nearest f d P.reverse hd
  refine ⟨⟨?_, (declares_iff _ _ _).mp h2, ?_⟩, rfl⟩
  · have := List.reverse_prefix.mpr h1
    simpa [resolveDim] using List.reverse_suffix.mp h1
  · intro Q' hq hl hdq
    have := h3 Q'.reverse (List.reverse_suffix.mpr hq) (by simpa [resolveDim] using hl)
    simp at this
    rw [(declares_iff f Q' d).mpr hdq] at this
    exact Bool.noConfusion this

/-- the pinned tree's rule ("last registered declaration with that name wins") is not nearest
    scope: with `/x`, `/A/x`, `/A/A1/x` registered, a variable of the later sibling group `/B`
    using `x` was named after `/A/A1/x` -/
theorem C20_last_registered_is_not_nearest_scope :
    resolveLastRegistered [([], "x"), (["A"], "x"), (["A", "A1"], "x")] "x" = some (["A", "A1"], "x") ∧
    ¬ (["A", "A1"] <+: ["B"]) := by
  constructor <;> decide

/-- no attribute of a non-root group, or of a variable of one, is literally named `path`
    (pydap keeps the group path of every member of a group in `attributes["path"]`) -/
def NoPathAttr (f : NcFile) : Prop :=
  ∀ g ∈ f.groups, (∀ a ∈ g.attrs, a.1 ≠ "path") ∧ ∀ v ∈ g.vars, ∀ a ∈ v.attrs, a.1 ≠ "path"

/-- what the property demands of the tree: every variable of the file appears under its group's path with the
    file's type, shape, attributes and with each dimension named after the nearest enclosing declaration; root
    variables named like a root dimension are the eager ones -/
def TreeComplete (f : NcFile) : Prop :=
  (∀ v ∈ f.root.vars, Entry.var [] v.name v.ty v.shape (v.dims.map (resolveDim f [])) v.attrs (!isCoord f v)
      ∈ netcdfEntries f) ∧
  (∀ g ∈ f.groups, ∀ v ∈ g.vars,
      Entry.var g.path v.name v.ty v.shape (v.dims.map (resolveDim f g.path)) v.attrs true ∈ netcdfEntries f)

private theorem filter_path_id (l : List (String × String)) (h : ∀ a ∈ l, a.1 ≠ "path") :
    (l.filter fun a => a.1 ≠ "path") = l := by
  apply List.filter_eq_self.mpr
  intro a ha
  simpa using h a ha

private theorem tree_complete_filtered (f : NcFile) (hnames : (f.root.vars.map Var.name).Nodup) :
    (∀ v ∈ f.root.vars, Entry.var [] v.name v.ty v.shape (v.dims.map (resolveDim f [])) v.attrs (!isCoord f v)
        ∈ netcdfEntries f) ∧
    (∀ g ∈ f.groups, ∀ v ∈ g.vars,
      Entry.var g.path v.name v.ty v.shape (v.dims.map (resolveDim f g.path))
        (v.attrs.filter fun a => a.1 ≠ "path") true ∈ netcdfEntries f) := by
  constructor
  · intro v hv
    have hres : v.dims.map (resolveDim f []) = v.dims.map (fun d => (([] : List String), d)) := by
      apply List.map_congr_left
      intro d _
      rfl
    rw [hres]
    by_cases hc : isCoord f v = true
    · unfold netcdfEntries
      apply List.mem_cons_of_mem
      apply List.mem_append_right
      simp only [List.mem_map, List.mem_filterMap]
      refine ⟨v, ⟨v.name, ?_, find_of_nodup _ v hnames hv⟩, by simp [hc]⟩
      simpa [isCoord] using hc
    · unfold netcdfEntries
      apply List.mem_cons_of_mem
      apply List.mem_append_left
      apply List.mem_append_left
      simp only [List.mem_map, List.mem_filter]
      exact ⟨v, ⟨hv, by simpa using hc⟩, by simp [hc]⟩
  · intro g hg v hv
    unfold netcdfEntries
    apply List.mem_cons_of_mem
    apply List.mem_append_left
    apply List.mem_append_right
    simp only [List.mem_flatMap]
    refine ⟨g, hg, ?_⟩
    unfold groupEntries
    apply List.mem_cons_of_mem
    simp only [List.mem_map]
    exact ⟨v, hv, rfl⟩

/-- **one variable per file variable (completeness), under the guard of finding C20.reserved_attribute_path**:
    every variable of the root or of a nested group, of any rank and whatever its name (a root variable named like
    a dimension included: it keeps its own dimensions), appears with the file's type, shape, attributes and
    nearest-scope dimension names -/
theorem C20_tree_complete_partial (f : NcFile) (hnames : (f.root.vars.map Var.name).Nodup) (hp : NoPathAttr f) :
    TreeComplete f := by
  obtain ⟨h1, h2⟩ := tree_complete_filtered f hnames
  refine ⟨h1, ?_⟩
  intro g hg v hv
  have := h2 g hg v hv
  rwa [filter_path_id v.attrs ((hp g hg).2 v hv)] at this

/-- the witness of finding C20.reserved_attribute_path: `/A/u` carries the netCDF attribute `path = "p0"` -/
def pathWitness : NcFile :=
  { root := { path := [], dims := [("x", 2)], attrs := [], vars := [] },
    groups := [{ path := ["A"], dims := [], attrs := [], vars :=
      [{ name := "u", ty := "i4", shape := [2], dims := ["x"], attrs := [("path", "s:p0"), ("units", "s:m")] }] }] }

/-- **the unguarded statement is false** on the code as it is: the handler deletes a file attribute named `path`
    inside groups (the name is taken by pydap's own bookkeeping) -/
theorem C20_tree_complete_refuted :
    ¬ (∀ f : NcFile, (f.root.vars.map Var.name).Nodup → TreeComplete f) := by
  intro h
  have := (h pathWitness (by decide)).2 _ (List.mem_singleton.mpr rfl) _ (List.mem_singleton.mpr rfl)
  revert this
  decide

/-- what is lost inside the finding's class is exactly the `path` entry: every other attribute is kept, in order -/
theorem C20_tree_complete_modulo_path (f : NcFile) (hnames : (f.root.vars.map Var.name).Nodup) :
    ∀ g ∈ f.groups, ∀ v ∈ g.vars,
      Entry.var g.path v.name v.ty v.shape (v.dims.map (resolveDim f g.path))
        (v.attrs.filter fun a => a.1 ≠ "path") true ∈ netcdfEntries f :=
  (tree_complete_filtered f hnames).2

/-- **nothing else (soundness)**, no guard: every entry of the handler's dataset is the dataset / a group of the file with
    its own dimensions and attributes (minus `path` inside groups), a root variable of the file — with the file's type,
    shape, attributes, its own dimension tuple qualified by the root, lazy unless it is named like a root dimension — or a
    variable of a group of the file with the file's type, shape, nearest-scope dimension names and attributes (minus
    `path`).  The handler invents no variable, type, shape, dimension or attribute. -/
theorem C20_tree_sound (f : NcFile) (e : Entry) (he : e ∈ netcdfEntries f) :
    (e = .group [] f.root.dims f.root.attrs ∨
      ∃ g ∈ f.groups, e = .group g.path g.dims (g.attrs.filter fun a => a.1 ≠ "path")) ∨
    (∃ v ∈ f.root.vars,
      e = .var [] v.name v.ty v.shape (v.dims.map (resolveDim f [])) v.attrs (!isCoord f v)) ∨
    (∃ g ∈ f.groups, ∃ v ∈ g.vars,
      e = .var g.path v.name v.ty v.shape (v.dims.map (resolveDim f g.path))
        (v.attrs.filter fun a => a.1 ≠ "path") true) :=
  entries_sound f e he

/-- **one variable per file variable, exactly**: listed by (group path, name), the variable entries of the handler's
    dataset are a permutation of the file's variables — none missing, none twice, none invented (a root variable named
    like a root dimension is moved to the end, not duplicated).  Hypotheses are netCDF's own invariants: names unique
    among the root variables and among the root dimensions.  With `C20_tree_complete_partial` (what each entry holds)
    this is the clause "one variable per file variable" in full. -/
theorem C20_tree_one_per_variable (f : NcFile) (hnames : (f.root.vars.map Var.name).Nodup)
    (hdims : (f.root.dims.map Prod.fst).Nodup) :
    ((netcdfEntries f).filterMap Entry.varKey).Perm (fileVarKeys f) ∧
    ((netcdfEntries f).filterMap Entry.varKey).length
      = f.root.vars.length + (f.groups.map fun g => g.vars.length).sum :=
  ⟨varKeys_perm f hnames hdims, by
    rw [(varKeys_perm f hnames hdims).length_eq]
    simp [fileVarKeys, List.length_flatMap]⟩

/-- **clauses (1)–(4) as one statement, under the guard of finding C20.reserved_attribute_path**: the variable entries of the
    handler's dataset are, up to order, EXACTLY the list the property demands — one entry per file variable, under its
    group's path, with the file's type, shape and attributes, each dimension named after the nearest enclosing
    declaration, eager iff it is a root variable named like a root dimension.  (Order: coordinate variables are moved to
    the end of the root; `fh-netcdf` compares the order too.) -/
theorem C20_tree_exact_partial (f : NcFile) (hnames : (f.root.vars.map Var.name).Nodup)
    (hdims : (f.root.dims.map Prod.fst).Nodup) (hp : NoPathAttr f) :
    ((netcdfEntries f).filter Entry.isVar).Perm (demandedVarEntries f) := by
  rw [demanded_eq_expected f (fun g hg => (hp g hg).2)]
  exact varEntries_perm f hnames hdims

/-- … and without the guard: exactly that list with the attribute `path` removed inside groups (what is lost in the
    finding's class is that one attribute and nothing else, for the whole tree at once) -/
theorem C20_tree_exact_modulo_path (f : NcFile) (hnames : (f.root.vars.map Var.name).Nodup)
    (hdims : (f.root.dims.map Prod.fst).Nodup) :
    ((netcdfEntries f).filter Entry.isVar).Perm (expectedVarEntries f) :=
  varEntries_perm f hnames hdims

/-- groups: every group of the file appears with its own dimensions and attributes -/
theorem C20_tree_groups (f : NcFile) :
    Entry.group [] f.root.dims f.root.attrs ∈ netcdfEntries f ∧
    ∀ g ∈ f.groups, Entry.group g.path g.dims (g.attrs.filter fun a => a.1 ≠ "path") ∈ netcdfEntries f := by
  constructor
  · simp [netcdfEntries]
  · intro g hg
    unfold netcdfEntries
    apply List.mem_cons_of_mem
    apply List.mem_append_left
    apply List.mem_append_right
    simp only [List.mem_flatMap]
    exact ⟨g, hg, by simp [groupEntries]⟩

/-- **serving a hyperslab returns what the library reads for that slice**: for every variable of
    rank ≥ 1 that no client reshaped, every key and whatever the library answers (values or error),
    `LazyVariable.__getitem__` returns exactly the library's answer (`astype` to the variable's own
    type is the identity) -/
theorem C20_hyperslab (read : Key → Except Err Arr) (shape : List Nat) (key : Key) (hrank : shape ≠ []) :
    lazyGet read id shape shape key = read key := by
  unfold lazyGet
  cases shape with
  | nil => exact absurd rfl hrank
  | cons n ns =>
    simp only
    cases read key with
    | ok a => simp
    | error e => rfl

/-- rank-0 variables: the value is read whole and the key applied by numpy; in particular
    `data[np.newaxis]` (how the DODS response makes a scalar iterable) yields shape `[1]` with the
    stored value -/
theorem C20_scalar (read : Key → Except Err Arr) (k : ScalarKey) (a : Arr) (hread : read (.scalar .ellipsis) = .ok a) :
    lazyGet read id [] [] (.scalar k) = .ok (npScalarIndex a k) ∧ (npScalarIndex a k).data = a.data := by
  unfold lazyGet
  simp only [hread]
  cases k <;> simp [npScalarIndex]

/-- a pending client-side `reshape` only ever relabels the shape: the values are always the
    library's, in the library's order -/
theorem C20_lazy_values_preserved (read : Key → Except Err Arr) (shape reshape : List Nat) (key : Key)
    (a b : Arr) (hrank : shape ≠ []) (hread : read key = .ok a)
    (hget : lazyGet read id shape reshape key = .ok b) : b.data = a.data := by
  unfold lazyGet at hget
  cases shape with
  | nil => exact absurd rfl hrank
  | cons n ns =>
    simp only [hread] at hget
    split at hget <;> (injection hget with h; subst h; rfl)

/-- the pinned `__getitem__` (`….reshape(self._reshape)` unconditionally) failed on every read whose
    size differs from the variable's: every proper sub-slab of every variable -/
theorem C20_pinned_getitem_fails_on_proper_subslab (read : Key → Except Err Arr) (shape : List Nat) (key : Key)
    (a : Arr) (hread : read key = .ok a) (hsize : prod a.shape ≠ prod shape) :
    lazyGetPinned read id shape key = .error .reshape := by
  simp [lazyGetPinned, hread, hsize]

/-- **CSV**: one sequence whose columns are the header names and whose records are the file's rows in
    order; every column gets an attribute container -/
theorem C20_csv (header : List String) (rows : List (List Cell)) (sc : Option Sidecar) :
    (csvDataset header rows sc).columns = header ∧ (csvDataset header rows sc).rows = rows ∧
    (csvDataset header rows sc).colAttrs.map Prod.fst = header := by
  cases sc with
  | none => simp [csvDataset, Function.comp_def]
  | some s => simp [csvDataset, csvAttach, Function.comp_def]

/-- side-car attributes: the entry of `"sequence"` named like a column becomes that column's
    attributes; entries naming no column stay with the sequence -/
theorem C20_csv_sidecar (header : List String) (rows : List (List Cell)) (s : Sidecar) (c : String)
    (kv : String × List (String × String)) (hc : c ∈ header) (hf : s.seq.find? (fun kv => kv.1 = c) = some kv) :
    (c, kv.2) ∈ (csvDataset header rows (some s)).colAttrs ∧
    ∀ e ∈ (csvDataset header rows (some s)).seqAttrs, e ∈ s.seq ∧ e.1 ∉ header := by
  constructor
  · simp only [csvDataset, csvAttach, List.mem_map]
    exact ⟨c, hc, by simp [hf]⟩
  · intro e he
    simp only [csvDataset, csvAttach, List.mem_filter] at he
    exact ⟨he.1, by simpa using he.2⟩

/-! ### the `LazyVariable` object -/

private theorem foldl_reshape_fields (ops : List ReshapeArgs) (lv : Lazy) :
    (ops.foldl Lazy.doReshape lv).dtype = lv.dtype ∧ (ops.foldl Lazy.doReshape lv).ndim = lv.ndim ∧
    (ops.foldl Lazy.doReshape lv).shape = lv.shape ∧ (ops.foldl Lazy.doReshape lv).size = lv.size ∧
    (ops.foldl Lazy.doReshape lv).reshape = (match ops.getLast? with | none => lv.reshape | some a => a.target) := by
  induction ops generalizing lv with
  | nil => simp
  | cons a rest ih =>
    obtain ⟨h1, h2, h3, h4, h5⟩ := ih (lv.doReshape a)
    refine ⟨h1, h2, h3, h4, ?_⟩
    simp only [List.foldl_cons, h5]
    cases rest with
    | nil => simp [Lazy.doReshape]
    | cons b r =>
      have : (b :: r).getLast? = some ((b :: r).getLast (by simp)) := List.getLast?_eq_some_getLast (by simp)
      simp [this]

/-- **bookkeeping, every rank, any history of `reshape` calls** (in either calling convention): the object keeps the
    file variable's type, rank (`ndim = len(dimensions)`), shape, size (= product of the extents, 1 for rank 0) and
    `len` (first extent; `TypeError` for rank 0); only the pending reshape changes, to the last one asked for -/
theorem C20_lazy_bookkeeping (v : Var) (ops : List ReshapeArgs) :
    let lv := ops.foldl Lazy.doReshape (Lazy.ofVar v)
    lv.dtype = v.ty ∧ lv.ndim = v.dims.length ∧ lv.shape = v.shape ∧ lv.size = prod v.shape ∧
    lv.len = (match v.shape with | [] => .error .typeError | n :: _ => .ok n) ∧
    lv.reshape = (match ops.getLast? with | none => v.shape | some a => a.target) := by
  obtain ⟨h1, h2, h3, h4, h5⟩ := foldl_reshape_fields ops (Lazy.ofVar v)
  refine ⟨h1, h2, h3, h4, ?_, h5⟩
  simp only [Lazy.len, h3]
  rfl

/-- **reads on a reshaped object**: a read of as many elements as the pending shape holds (a whole-variable read)
    comes back in that shape with the library's values in the library's order; any other read (a proper hyperslab)
    is the library's answer untouched; errors of the library pass through -/
theorem C20_lazy_reshaped_read (lv : Lazy) (read : Key → Except Err Arr) (key : Key) (hrank : lv.shape ≠ []) :
    lv.get read key = (match read key with
      | .error e => .error e
      | .ok a => if lv.reshape ≠ lv.shape ∧ prod a.shape = prod lv.reshape then .ok ⟨lv.reshape, a.data⟩ else .ok a) := by
  unfold Lazy.get lazyGet
  cases hs : lv.shape with
  | nil => exact absurd hs hrank
  | cons n ns =>
    simp only
    cases read key with
    | error e => rfl
    | ok a => simp

/-! ### CSV quoting rules (`csv.reader(quoting=QUOTE_NONNUMERIC)` as the handler uses it) -/

/-- **which cells become strings and which floats, for every file a QUOTE_NONNUMERIC writer produces**: a header of
    (quoted) names followed by any rows whose cells are quoted strings — any characters: delimiters, doubled quotes,
    LF, CR, CRLF inside — unquoted number tokens, or nothing at all; lines ended by LF or CRLF.  The handler's
    columns are the names, its records are the rows in order, a quoted cell is the string itself (also `""`, also
    text that looks like a number), an unquoted token is `float(token)`, an empty unquoted cell is the empty string. -/
theorem C20_csv_quoting (nl : List Char) (hnl : nl = ['\n'] ∨ nl = ['\r', '\n'])
    (float : List Char → Option Nat) (fl : List Char → Nat)
    (names : List (List Char)) (rows : List (List Csv.WCell)) (hnames : names ≠ [])
    (hok : ∀ r ∈ rows, Csv.RowOK r) (hfl : ∀ r ∈ rows, Csv.FloatOK float fl r) :
    Csv.csvFile float (Csv.renderRows nl (names.map Csv.WCell.q :: rows)) =
      .ok (names.map Csv.Cell.str, rows.map fun r => r.map (Csv.cellOf fl)) := by
  have hhdr : Csv.RowOK (names.map Csv.WCell.q) := by
    refine ⟨by simpa using hnames, ?_, ?_⟩
    · cases names with
      | nil => exact absurd rfl hnames
      | cons n ns => cases ns <;> simp
    · intro c hc
      obtain ⟨n, _, rfl⟩ := List.mem_map.mp hc
      trivial
  have hall : ∀ r ∈ names.map Csv.WCell.q :: rows, Csv.RowOK r := by
    intro r hr
    rcases List.mem_cons.mp hr with h | h
    · exact h ▸ hhdr
    · exact hok r h
  have hflh : Csv.FloatOK float fl (names.map Csv.WCell.q) := by
    intro c t hm
    obtain ⟨n, _, hn⟩ := List.mem_map.mp hm
    cases hn
  have hfall : ∀ r ∈ names.map Csv.WCell.q :: rows, Csv.FloatOK float fl r := by
    intro r hr
    rcases List.mem_cons.mp hr with h | h
    · exact h ▸ hflh
    · exact hfl r h
  unfold Csv.csvFile
  rw [Csv.rows_read nl hnl _ hall]
  dsimp only
  rw [Csv.convRows_expect float fl _ hfall]
  simp only [List.map_cons, List.map_map]
  congr 2

/-- unquoted text that is not a number is not served as anything: the file is rejected (`OpenFileError`) -/
theorem C20_csv_unquoted_text_rejected (float : List Char → Option Nat) (hf : float ['a', 'b', 'c'] = none) :
    Csv.csvFile float "\"a\"\nabc\n".toList = .error .notAFloat := by
  simp [Csv.csvFile, Csv.readAll, Csv.readFrom, Csv.step, Csv.stepStartField, Csv.save, Csv.add, Csv.isNl,
    Csv.lineEnds, Csv.reset, Csv.consRow, Csv.convRows, Csv.convRow, Csv.convField, hf]

/-! ### CSV: header / record alignment (`CSVHandler.__init__` header loop + `CSVData.stream`) -/

/-- **every column of the file is a column of the sequence, in order**: when the handler opens the file, the header
    cells are all titles (strings), the sequence has one column per header cell — also for an empty title — in the
    header's order, named by the quoted title (`q` = `pydap.lib._quote`: a title with a blank, comma, period, bracket
    is kept, under its DAP spelling), no two alike, and the records are the file's rows -/
theorem C20_csv_columns (q : List Char → List Char) (float : List Char → Option Nat) (text : List Char) (s : Csv.CsvSeq)
    (hs : Csv.csvHandler q float text = .ok s) :
    ∃ titles : List (List Char), Csv.csvFile float text = .ok (titles.map Csv.Cell.str, s.records) ∧
      s.columns = titles.map q ∧ s.columns.length = titles.length ∧ s.columns.Nodup := by
  obtain ⟨h, hf, hc⟩ := Csv.csvHandler_ok q float text s hs
  obtain ⟨ts, rfl, hcols, hnd⟩ := (Csv.csvColumns_ok_iff q h s.columns).mp hc
  exact ⟨ts, hf, hcols, by simp [hcols], hcols ▸ hnd⟩

/-- **what the code does with duplicated titles** (repaired): a file that reads well but whose header has two titles
    of one quoted name — the same text twice, two empty titles, or `a b` next to `a%20b` — or a title that is an
    unquoted number, is refused as a whole (`OpenFileError`); it is opened iff the quoted titles are pairwise
    distinct.  (Pinned: the later column replaced the earlier one and moved to the end; `"a","b","a"` was served as
    columns `b, a` over records `a, b, a`.) -/
theorem C20_csv_opened_iff_distinct_titles (q : List Char → List Char) (float : List Char → Option Nat)
    (text : List Char) (h : List Csv.Cell) (rows : List (List Csv.Cell)) (hf : Csv.csvFile float text = .ok (h, rows)) :
    (∃ s, Csv.csvHandler q float text = .ok s) ↔ ∃ titles : List (List Char), h = titles.map Csv.Cell.str ∧ (titles.map q).Nodup := by
  simp only [Csv.csvHandler, hf]
  constructor
  · rintro ⟨s, hs⟩
    cases hc : Csv.csvColumns q h with
    | error e => simp [hc] at hs
    | ok cols =>
      obtain ⟨ts, h1, _, h3⟩ := (Csv.csvColumns_ok_iff q h cols).mp hc
      exact ⟨ts, h1, h3⟩
  · rintro ⟨ts, h1, h3⟩
    have := (Csv.csvColumns_ok_iff q h (ts.map q)).mpr ⟨ts, h1, rfl, h3⟩
    exact ⟨⟨ts.map q, rows⟩, by simp [this]⟩

/-- **cell j of every record belongs to column j**: for every file in the reader's domain that the handler opens,
    column `j` of the sequence carries the title of header cell `j`, and read on its own it yields, record by record
    in the file's order, the j-th cell of that record of the file -/
theorem C20_csv_rows_aligned (q : List Char → List Char) (float : List Char → Option Nat) (text : List Char)
    (s : Csv.CsvSeq) (h : List Csv.Cell) (rows : List (List Csv.Cell))
    (hf : Csv.csvFile float text = .ok (h, rows)) (hs : Csv.csvHandler q float text = .ok s) :
    s.records = rows ∧ s.columns.length = h.length ∧
    (∀ (j : Nat) (c : Csv.Cell), h[j]? = some c → ∃ t, c = Csv.Cell.str t ∧ s.columns[j]? = some (q t)) ∧
    (∀ (i : Nat) (r : List Csv.Cell), rows[i]? = some r → ∀ j : Nat, (s.column j)[i]? = some r[j]?) := by
  obtain ⟨h', hf', hc⟩ := Csv.csvHandler_ok q float text s hs
  rw [hf] at hf'
  injection hf' with hf'
  injection hf' with h1 h2
  subst h1
  obtain ⟨ts, rfl, hcols, -⟩ := (Csv.csvColumns_ok_iff q h s.columns).mp hc
  refine ⟨h2.symm, by simp [hcols], ?_, ?_⟩
  · intro j c hj
    rw [List.getElem?_map] at hj
    cases ht : ts[j]? with
    | none => simp [ht] at hj
    | some t =>
      simp only [ht, Option.map_some, Option.some.injEq] at hj
      exact ⟨t, hj.symm, by simp [hcols, ht]⟩
  · intro i r hi j
    simp [Csv.CsvSeq.column, ← h2, List.getElem?_map, hi]

/-- the same, end to end from the text a `QUOTE_NONNUMERIC` writer produces (the domain of `C20_csv_quoting`): the
    sequence served for it has the quoted names as columns and, under column `j`, the j-th cell written in every row -/
theorem C20_csv_written_file_aligned (nl : List Char) (hnl : nl = ['\n'] ∨ nl = ['\r', '\n'])
    (q : List Char → List Char) (float : List Char → Option Nat) (fl : List Char → Nat)
    (names : List (List Char)) (rows : List (List Csv.WCell)) (hnames : names ≠ [])
    (hok : ∀ r ∈ rows, Csv.RowOK r) (hfl : ∀ r ∈ rows, Csv.FloatOK float fl r) (hd : (names.map q).Nodup) :
    Csv.csvHandler q float (Csv.renderRows nl (names.map Csv.WCell.q :: rows)) =
      .ok ⟨names.map q, rows.map fun r => r.map (Csv.cellOf fl)⟩ := by
  have hq := C20_csv_quoting nl hnl float fl names rows hnames hok hfl
  have hc := (Csv.csvColumns_ok_iff q (names.map Csv.Cell.str) (names.map q)).mpr ⟨names, rfl, rfl, hd⟩
  simp only [Csv.csvHandler, hq, hc]

private def qEx (t : List Char) : List Char := t.flatMap fun c => if c = ' ' then "%20".toList else [c]
private def flEx (t : List Char) : Option Nat := if t = "1".toList then some 1 else if t = "2".toList then some 2 else if t = "3".toList then some 3 else none

-- an empty title and a title needing quoting are columns; cell j stays under title j
example : Csv.csvHandler qEx flEx "\"a b\",\"\",\"c\"\n1,2,3\n".toList =
    .ok ⟨["a%20b".toList, [], "c".toList], [[.num 1, .num 2, .num 3]]⟩ := by rfl
example : (Csv.CsvSeq.mk ["a%20b".toList, [], "c".toList] [[.num 1, .num 2, .num 3]]).column 1 = [some (.num 2)] := by rfl
-- duplicated titles (same text; two empty; one name after quoting) and a numeric title: refused
example : Csv.csvHandler qEx flEx "\"a\",\"b\",\"a\"\n1,2,3\n".toList = .error .duplicateTitle := by rfl
example : Csv.csvHandler qEx flEx "\"\",\"\"\n1,2\n".toList = .error .duplicateTitle := by rfl
example : Csv.csvHandler qEx flEx "\"a b\",\"a%20b\"\n1,2\n".toList = .error .duplicateTitle := by rfl
example : Csv.csvHandler qEx flEx "1,\"a\"\n1,2\n".toList = .error .numericTitle := by rfl
-- a short record is served as it is: column 1 has no cell in it
example : (Csv.csvHandler qEx flEx "\"a\",\"b\"\n1\n2,3\n".toList).toOption.map (·.column 1) =
    some [none, some (.num 3)] := by rfl

/-! ### NetCDF: a variable's dimension names, position by position -/

/-- `d` is visible from the group at `P`: some enclosing scope declares it -/
def Visible (f : NcFile) (P : List String) (d : String) : Prop := ∃ Q, Q <+: P ∧ Declares f Q d

/-- **dimension names = the variable's own dimension tuple, in the variable's order, repeated dimensions repeated,
    each fully qualified by the nearest enclosing declaration** — root variables (coordinate variables included) and
    variables of groups at any depth: the entry's dimension list has the variable's rank, and its j-th name is
    `(Q, d)` where `d` is the variable's j-th dimension and `Q` the nearest enclosing scope declaring `d` -/
theorem C20_dims_positional (f : NcFile) (hnames : (f.root.vars.map Var.name).Nodup) (hp : NoPathAttr f) :
    (∀ v ∈ f.root.vars, ∃ ds lazy, Entry.var [] v.name v.ty v.shape ds v.attrs lazy ∈ netcdfEntries f ∧
        ds.length = v.dims.length ∧
        ∀ (j : Nat) (d : String), v.dims[j]? = some d → ds[j]? = some (([] : List String), d) ∧ (Visible f [] d → NearestDecl f [] d [])) ∧
    (∀ g ∈ f.groups, ∀ v ∈ g.vars, ∃ ds, Entry.var g.path v.name v.ty v.shape ds v.attrs true ∈ netcdfEntries f ∧
        ds.length = v.dims.length ∧
        ∀ (j : Nat) (d : String), v.dims[j]? = some d → ∃ Q, ds[j]? = some (Q, d) ∧ (Visible f g.path d → NearestDecl f g.path d Q)) := by
  obtain ⟨h1, h2⟩ := C20_tree_complete_partial f hnames hp
  constructor
  · intro v hv
    refine ⟨_, _, h1 v hv, by simp, ?_⟩
    intro j d hj
    have hr : resolveDim f [] d = ([], d) := rfl
    refine ⟨by simp [List.getElem?_map, hj, hr], ?_⟩
    intro hvis
    have := (C20_dim_nearest_scope f [] d hvis).1
    rwa [hr] at this
  · intro g hg v hv
    refine ⟨_, h2 g hg v hv, by simp, ?_⟩
    intro j d hj
    refine ⟨(resolveDim f g.path d).1, by simp [List.getElem?_map, hj, resolveDim], ?_⟩
    intro hvis
    exact (C20_dim_nearest_scope f g.path d hvis).1

private def repFile : NcFile :=
  { root := { path := [], dims := [("x", 3), ("y", 2)], attrs := [],
              vars := [{ name := "d", ty := "i4", shape := [3, 3], dims := ["x", "x"], attrs := [] },
                       { name := "x", ty := "i4", shape := [3, 3], dims := ["x", "x"], attrs := [] }] },
    groups := [{ path := ["A"], dims := [("x", 2)], attrs := [], vars :=
                  [{ name := "u", ty := "i4", shape := [2, 2, 2], dims := ["x", "y", "x"], attrs := [] }] },
               { path := ["A", "A1"], dims := [], attrs := [], vars :=
                  [{ name := "u2", ty := "i4", shape := [2, 2], dims := ["x", "x"], attrs := [] }] }] }

-- `d(x,x)`: both positions named `/x`; `/A/u(x,y,x)`: `/A/x`, `/y`, `/A/x`; `/A/A1/u2(x,x)`: `/A/x` twice
example : Entry.var [] "d" "i4" [3, 3] [([], "x"), ([], "x")] [] true ∈ netcdfEntries repFile ∧
    Entry.var [] "x" "i4" [3, 3] [([], "x"), ([], "x")] [] false ∈ netcdfEntries repFile ∧
    Entry.var ["A"] "u" "i4" [2, 2, 2] [(["A"], "x"), ([], "y"), (["A"], "x")] [] true ∈ netcdfEntries repFile ∧
    Entry.var ["A", "A1"] "u2" "i4" [2, 2] [(["A"], "x"), (["A"], "x")] [] true ∈ netcdfEntries repFile := by decide
example : NoPathAttr repFile ∧ (repFile.root.vars.map Var.name).Nodup := by
  constructor
  · unfold NoPathAttr; decide
  · decide
example : Visible repFile ["A", "A1"] "x" := ⟨["A"], by decide, _, rfl, by decide⟩

/-! ### hyperslabs whose stride exceeds their span -/

/-- **`[a:s:b]` with a stride larger than the span selects one element**: on every axis where `check_hyperslab`
    (`Handler.validSl`, C15/C02) accepts `slice(a, b+1, s)` and `b - a < s`, the key handed to the NetCDF library
    reads exactly position `a` — so the served array has extent 1 there, and by `C20_hyperslab` holds what the
    library reads at it -/
theorem C20_hyperslab_wide_stride (shape : List Nat) (h : Hyperslab) (hl : shape.length = h.length)
    (hw : ∀ p ∈ shape.zip h, WideAxis p.1 p.2) :
    keyPositions shape (keyOfHyperslab h) = h.map fun t => [t.1] :=
  keyPositions_wide shape h hl hw

/-- one axis, in the terms of C15's `C15_valid_axis` -/
theorem C20_wide_stride_one_axis (N : Nat) (a k b : Int)
    (hv : Handler.validSl N ⟨some a, some (b + 1), some k⟩ = true) (hN : 0 < N) (hk : b - a < k) :
    sel N ⟨some a, some (b + 1), some k⟩ = [a.toNat] :=
  sel_wide_stride N a k b hv hN hk

-- `d[0:5:2][1:9:1]` on a 3×3 variable reads row 0, column 1; `[1:7:1][0:1:2]` reads row 1 whole
example : keyPositions [3, 3] (keyOfHyperslab [(0, 5, 2), (1, 9, 1)]) = [[0], [1]] := by decide
example : keyPositions [3, 3] (keyOfHyperslab [(1, 7, 1), (0, 1, 2)]) = [[1], [0, 1, 2]] := by decide
example : WideAxis 3 (0, 5, 2) ∧ WideAxis 3 (1, 9, 1) := by unfold WideAxis; decide

/-! ### non-vacuity -/

private def exFile : NcFile :=
  { root := { path := [], dims := [("x", 4), ("y", 6)], attrs := [("title", "s:T")],
              vars := [{ name := "v", ty := "i2", shape := [4, 6], dims := ["x", "y"], attrs := [] },
                       { name := "x", ty := "f4", shape := [4], dims := ["x"], attrs := [("units", "s:m")] }] },
    groups := [{ path := ["A"], dims := [("x", 2)], attrs := [], vars :=
                  [{ name := "a", ty := "i4", shape := [2, 6], dims := ["x", "y"], attrs := [] }] },
               { path := ["A", "A1"], dims := [("x", 3)], attrs := [], vars :=
                  [{ name := "a1", ty := "i4", shape := [3], dims := ["x"], attrs := [] }] },
               { path := ["B"], dims := [], attrs := [], vars :=
                  [{ name := "u", ty := "i4", shape := [4], dims := ["x"], attrs := [] }] }] }

example : resolveDim exFile ["B"] "x" = ([], "x") := by decide
example : resolveDim exFile ["A", "A1"] "x" = (["A", "A1"], "x") := by decide
example : resolveDim exFile ["A", "A1"] "y" = ([], "y") := by decide
example : ∃ Q, Q <+: ["B"] ∧ Declares exFile Q "x" := ⟨[], by simp, ⟨exFile.root, rfl, by decide⟩⟩
example : Entry.var ["B"] "u" "i4" [4] [([], "x")] [] true ∈ netcdfEntries exFile := by decide
example : Entry.var [] "x" "f4" [4] [([], "x")] [("units", "s:m")] false ∈ netcdfEntries exFile := by decide
example : NoPathAttr exFile := by unfold NoPathAttr; decide
/-- a root variable `x(y, x)` named like the dimension `x` keeps both dimensions -/
example : Entry.var [] "x" "i2" [6, 4] [([], "y"), ([], "x")] [] false ∈ netcdfEntries
    { exFile with root := { exFile.root with vars := [{ name := "x", ty := "i2", shape := [6, 4], dims := ["y", "x"], attrs := [] }] } } := by
  decide
example : (exFile.root.vars.map Var.name).Nodup := by decide
/-- the example file has 5 variables; the handler's dataset lists them once each, the coordinate variable `x` last -/
example : (exFile.root.dims.map Prod.fst).Nodup ∧
    (netcdfEntries exFile).filterMap Entry.varKey
      = [([], "v"), (["A"], "a"), (["A", "A1"], "a1"), (["B"], "u"), ([], "x")] ∧
    fileVarKeys exFile = [([], "v"), ([], "x"), (["A"], "a"), (["A", "A1"], "a1"), (["B"], "u")] := by decide
/-- the demanded list of the example file, and the handler's variable entries (the coordinate variable last) -/
example : demandedVarEntries exFile =
    [.var [] "v" "i2" [4, 6] [([], "x"), ([], "y")] [] true, .var [] "x" "f4" [4] [([], "x")] [("units", "s:m")] false,
     .var ["A"] "a" "i4" [2, 6] [(["A"], "x"), ([], "y")] [] true, .var ["A", "A1"] "a1" "i4" [3] [(["A", "A1"], "x")] [] true,
     .var ["B"] "u" "i4" [4] [([], "x")] [] true] ∧
    ((netcdfEntries exFile).filter Entry.isVar).length = 5 := by decide
/-- on the finding's witness the demanded and the served lists differ (so the guard of `C20_tree_exact_partial` is needed) -/
example : demandedVarEntries pathWitness ≠ expectedVarEntries pathWitness := by decide
/-- the exactness statement can fail: with the hypothesis on dimension names dropped (a description no netCDF file
    has: `x` declared twice in the root) the coordinate variable would be listed twice -/
example : ((netcdfEntries { exFile with root := { exFile.root with dims := [("x", 4), ("x", 4)] } }).filterMap
    Entry.varKey).count ([], "x") = 2 := by decide
example : lazyGet (fun _ => .ok ⟨[2], [5, 6]⟩) id [4] [4] (.slices [(1, 3, 1)]) = .ok ⟨[2], [5, 6]⟩ := by rfl
example : lazyGetPinned (fun _ => .ok ⟨[2], [5, 6]⟩) id [4] (.slices [(1, 3, 1)]) = .error .reshape := by rfl
example : lazyGet (fun _ => .ok ⟨[], [9]⟩) id [] [] (.scalar .newaxis) = .ok ⟨[1], [9]⟩ := by rfl
example : (csvDataset ["a", "b"] [[.num 1, .str "x"]]
    (some { top := [("NC_GLOBAL", [("t", "s:1")])], seq := [("b", [("units", "s:m")]), ("o", [])] })) =
    { columns := ["a", "b"], rows := [[.num 1, .str "x"]], globalAttrs := [("t", "s:1")],
      colAttrs := [("a", []), ("b", [("units", "s:m")])], seqAttrs := [("o", [])] } := by decide

example : Csv.csvFile (fun t => if t = "1.5".toList then some 7 else none)
    "\"a\",\"b\",\"c\"\r\n1.5,,\"x,\"\"y\r\nz\"\r\n".toList =
    .ok ([.str "a".toList, .str "b".toList, .str "c".toList], [[.num 7, .str [], .str "x,\"y\r\nz".toList]]) := by
  rfl
example : Csv.RowOK [.bare "1.5".toList, .bare [], .q "x,\"y\r\nz".toList] := by
  refine ⟨by simp, by simp, ?_⟩
  intro c hc
  simp at hc
  rcases hc with h | h | h <;> subst h <;> simp [Csv.CellOK, Csv.Plain]

example : ([ReshapeArgs.ints [24], .seq [4, 6]].foldl Lazy.doReshape
      (Lazy.ofVar { name := "v", ty := "i2", shape := [2, 3, 4], dims := ["a", "b", "c"], attrs := [] })) =
    ⟨"i2", 3, [2, 3, 4], [4, 6], 24⟩ := by decide
example : (Lazy.ofVar { name := "s", ty := "f8", shape := [], dims := [], attrs := [] }).len = .error .typeError ∧
    (Lazy.ofVar { name := "s", ty := "f8", shape := [], dims := [], attrs := [] }).size = 1 := ⟨rfl, rfl⟩
example : (Lazy.doReshape (Lazy.ofVar { name := "v", ty := "i2", shape := [2, 2], dims := ["a", "b"], attrs := [] }) (.seq [4])).get
    (fun _ => .ok ⟨[2, 2], [1, 2, 3, 4]⟩) (.slices [(0, 2, 1), (0, 2, 1)]) = .ok ⟨[4], [1, 2, 3, 4]⟩ := by rfl

end Pydap.C20
