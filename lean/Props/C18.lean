/-
  C18 — All traffic of a dataset uses its session; cache keys.
  Session part: heap model `PydapModel/Proxy.lean` (every GET logged with the session of the
  object that issued it).  Cache part: `PydapModel/CacheKey.lean`, the model of
  `patch_session_for_shared_dap_cache` (after the repair d871e84).
  Caching session: `PydapModel/Cache.lean`, what `requests_cache.CachedSession.send` does with
  `create_key` (look up, on a miss forward and store); "with a caching session every read returns
  the same data as with a plain session" is `C18_cache_transparent_*`, for all histories.
  Outside the model: adapter dispatch, expiry, status/method filters, serialisation of the store.
-/
import PydapModel.Proxy
import PydapModel.CacheKey
import Proofs.Proxy
import Proofs.CacheKey
import PydapModel.Cache
import Proofs.Cache
namespace Pydap.C18
open Pydap Pydap.Proxy

/-- a dataset opened with session `σ`: every proxy and `dataset.functions` carry `σ` -/
theorem C18_open_session (b : Name) (bs : List Name) (σ : Sess) (n : Name) (keys : List Name)
    (arrays : List (Name × List Nat × Bool)) : SessInv σ (openHeap b bs σ n keys arrays) := by
  refine ⟨?_, by simp [openHeap]⟩
  intro o ho _
  simp only [openHeap, List.mem_append, List.mem_cons, List.mem_map, List.not_mem_nil, or_false] at ho
  rcases ho with (ho | ⟨a, _, ha⟩) | ho
  · subst ho; rfl
  · subst ha; rfl
  · subst ho; rfl

/-- **Session invariant, any history**: every GET logged by any history of derivations, copies,
    reads, array reads, variable and grid reads (array and maps) and server-function calls, on any objects, carries the session the
    objects were created with — including the GETs of derived sequences, of DAP4 variables and of
    server-function results; never `none` (a fresh anonymous session). -/
theorem C18_session (σ : Sess) (h : Heap) (i : SessInv σ h) (evs : List Ev) :
    (∀ e ∈ (run h evs).log, e.1 = σ) ∧ (∀ o ∈ (run h evs).objs, carries o = true → objSess o = σ) :=
  ⟨(run_sessInv σ h i evs).2, (run_sessInv σ h i evs).1⟩

/-- the two together, from `open_url` -/
theorem C18_session_from_open (b : Name) (bs : List Name) (σ : Nat) (n : Name) (keys : List Name)
    (arrays : List (Name × List Nat × Bool)) (evs : List Ev) :
    ∀ e ∈ (run (openHeap b bs (some σ) n keys arrays) evs).log, e.1 = some σ :=
  (C18_session (some σ) _ (C18_open_session b bs (some σ) n keys arrays) evs).1

/-- what the repair of `__copy__` (13350a5) removed: a filtered sequence was fetched with no
    session (→ a fresh anonymous one in `create_request`) -/
theorem C18_session_old_refuted :
    (runOld (openHeap ['u'] [] (some 7) ['s'] [['i']] []) [.getitem 0 (.ce [['c']]), .iter 2]).log.map (·.1)
      = [none] ∧
    (run (openHeap ['u'] [] (some 7) ['s'] [['i']] []) [.getitem 0 (.ce [['c']]), .iter 2]).log.map (·.1)
      = [some 7] := by decide

/-! ### cache keys -/
open Pydap.CK

/-- **Two requests share a cache entry only if** they have the same URL, or they carry the same
    declared shared constraint, the same scheme and host, and both lie under the declared common
    base (same host as the base, path inside it on segment boundaries) — or both are Earthdata
    requests of the same provider/collection (the documented Earthdata grouping).  `orig` is the
    unpatched `create_key`, assumed injective on URLs. -/
theorem C18_cache_key (orig : List Char → List Char) (horig : ∀ a b, orig a = orig b → a = b)
    (shared : List (List Char)) (base : Option Base) (r1 r2 : CK.Req)
    (h : customKey orig shared base r1 = customKey orig shared base r2) :
    r1.url = r2.url ∨
      (r1.ce = r2.ce ∧ ∃ c, r1.ce = some c ∧ c ∈ shared ∧ r1.scheme = r2.scheme ∧ r1.host = r2.host ∧
        ((underBase base r1 = true ∧ underBase base r2 = true) ∨
         (r1.host = earthdataHost ∧ r2.host = earthdataHost ∧
            ∃ coll, findCollection r1.path = some coll ∧ findCollection r2.path = some coll))) :=
  cacheKey_collide orig horig shared base r1 r2 h

/-- "under the base" is containment on path-segment boundaries on the base's host -/
theorem C18_under_base_segment (b : Base) (r : CK.Req) :
    underBase (some b) r = true ↔
      r.host = b.host ∧ (r.path = b.path ∨ ∃ rest, r.path = rstripSlash b.path ++ '/' :: rest) :=
  underBase_segment b r

/-- and the grouping does happen for requests under the base (the consolidation is not vacuous) -/
theorem C18_cache_shared_hit (orig : List Char → List Char) (shared : List (List Char)) (b : Base) (r1 r2 : CK.Req)
    (c : List Char) (hc1 : r1.ce = some c) (hc2 : r2.ce = some c) (hin : c ∈ shared)
    (hs : r1.scheme = r2.scheme) (hh : r1.host = r2.host) (hne : r1.host ≠ earthdataHost)
    (hu1 : underBase (some b) r1 = true) (hu2 : underBase (some b) r2 = true) :
    customKey orig shared (some b) r1 = customKey orig shared (some b) r2 :=
  (cacheKey_shared_hit orig shared b r1 r2 c hc1 hc2 hin hs hh hne hu1 hu2).1

/-- what the repair d871e84 removed: with the text-prefix test `/data/set2/a.nc.dap` (and the same
    path on another host) collided with `/data/set/c.nc.dap` -/
theorem C18_cache_key_prefix_refuted :
    ¬ (∀ (shared : List (List Char)) (base : Option Base) (r1 r2 : CK.Req),
        customKeyPrefix id shared base r1 = customKeyPrefix id shared base r2 →
        r1.url = r2.url ∨ (underBase base r1 = true ∧ underBase base r2 = true) ∨
          (r1.host = earthdataHost ∧ r2.host = earthdataHost)) :=
  cacheKey_collide_prefix_refuted

/-! ### caching never changes results -/
open Pydap.Cache

/-- the empty store satisfies the cache invariant -/
theorem C18_cache_inv_empty {α κ ρ : Type} (key : α → κ) (server : α → ρ) (adm : α → Prop) :
    CacheInv key server adm ([] : Store κ ρ) :=
  cacheInv_nil key server adm

/-- **Unpatched keys: the cache is transparent.**  If the key function is injective on the requests
    of the history (equal keys ⇒ same request: the assumption on the unpatched `create_key` of
    `C18_cache_key`), then for every history the reads through the caching session, starting from the
    empty store, are exactly the reads of a plain session.  `server` is any function of the request. -/
theorem C18_cache_transparent_url {α κ ρ : Type} [DecidableEq κ] (key : α → κ) (server : α → ρ) (urls : List α)
    (hinj : ∀ u1 ∈ urls, ∀ u2 ∈ urls, key u1 = key u2 → u1 = u2) :
    (runCached key server [] urls).1 = runPlain server urls :=
  (runCached_transparent (adm := (· ∈ urls)) (fun u1 u2 h1 h2 hk => by rw [hinj u1 h1 u2 h2 hk]) urls []
    (cacheInv_nil _ _ _) (fun _ h => h)).1

/-- **Consolidated keys, general form.**  Requests `α` with an identity `ident` (what the unpatched key
    sees), a relation `Shared` (the pairs consolidation lets share an entry), admissible requests `adm`.
    (a) `hkey`: equal keys ⇒ same identity or `Shared` — what `C18_cache_key` proves of `customKey`;
    (b) `hshared`, **EXPLICIT ASSUMPTION ABOUT THE DATA, not about pydap**: the server answers `Shared`
        requests identically (the shared dimensions are the same in every file under the base) — the premise
        under which metadata consolidation is sound at all; `C18_cache_consolidated_needs_shared_equal`
        shows it cannot be dropped;
    (c) `hfun`: the server is a function of the request identity (on the admissible requests).
    Then from any store satisfying the invariant (`C18_cache_inv_empty`: the empty one does), every read of
    every admissible history through the cache equals the read without it, and the invariant is kept. -/
theorem C18_cache_transparent_consolidated {α κ ι ρ : Type} [DecidableEq κ] (key : α → κ) (ident : α → ι)
    (Shared : α → α → Prop) (server : α → ρ) (adm : α → Prop)
    (hkey : ∀ u1 u2, adm u1 → adm u2 → key u1 = key u2 → ident u1 = ident u2 ∨ Shared u1 u2)
    (hshared : ∀ u1 u2, adm u1 → adm u2 → Shared u1 u2 → server u1 = server u2)
    (hfun : ∀ u1 u2, adm u1 → adm u2 → ident u1 = ident u2 → server u1 = server u2)
    (cache : Store κ ρ) (hinv : CacheInv key server adm cache) (urls : List α) (hadm : ∀ u ∈ urls, adm u) :
    (runCached key server cache urls).1 = runPlain server urls ∧
      CacheInv key server adm (runCached key server cache urls).2 :=
  runCached_transparent
    (fun u1 u2 h1 h2 hk => (hkey u1 u2 h1 h2 hk).elim (hfun u1 u2 h1 h2) (hshared u1 u2 h1 h2)) urls cache hinv hadm

/-- **Consolidated keys, the real key function.**  `customKey` is the model of the closure installed by
    `patch_session_for_shared_dap_cache`; hypothesis (a) is discharged by `C18_cache_key`.  What remains:
    `horig` (the unpatched `create_key` is injective on request identities), `hfun` (the server is a function
    of the request identity, on the requests of the history) and the explicit assumption (b) `hshared`, needed only for pairs of requests *of
    the history*: two shared-dimension requests (same declared constraint, scheme and host, both under the
    declared base or in one Earthdata collection) get the same answer.  Then every read of every history through
    the caching session with consolidated keys equals the read through a plain session. -/
theorem C18_cache_transparent_customKey {ρ : Type} (orig : List Char → List Char)
    (horig : ∀ a b, orig a = orig b → a = b) (shared : List (List Char)) (base : Option Base)
    (server : CK.Req → ρ) (urls : List CK.Req)
    (hfun : ∀ r1 ∈ urls, ∀ r2 ∈ urls, r1.url = r2.url → server r1 = server r2)
    (hshared : ∀ r1 ∈ urls, ∀ r2 ∈ urls, SharedDim shared base r1 r2 → server r1 = server r2) :
    (runCached (customKey orig shared base) server [] urls).1 = runPlain server urls :=
  (C18_cache_transparent_consolidated (customKey orig shared base) (·.url) (SharedDim shared base) server (· ∈ urls)
    (fun r1 r2 _ _ hk => C18_cache_key orig horig shared base r1 r2 hk)
    (fun r1 r2 h1 h2 hs => hshared r1 h1 r2 h2 hs) (fun r1 r2 h1 h2 e => hfun r1 h1 r2 h2 e) [] (C18_cache_inv_empty _ _ _) urls (fun _ h => h)).1

/-- Assumption (b) is necessary: two files under the base whose answers to the same shared-dimension
    constraint differ (the server echoes the URL) — the second read through the consolidated cache returns the
    first file's answer. -/
theorem C18_cache_consolidated_needs_shared_equal :
    ¬ (∀ (server : CK.Req → List Char) (urls : List CK.Req),
        (∀ r1 r2 : CK.Req, r1.url = r2.url → server r1 = server r2) →
        (runCached (customKey id [exCe] (some exBase)) server [] urls).1 = runPlain server urls) := by
  intro h
  have := h (·.url) [exInside, exReq "data.example.org" "/data/set/sub/b.nc.dap"] (fun _ _ e => e)
  revert this
  decide

/-- the trace the harness compares (hit flag, response) carries exactly the responses of `runCached`, one per
    read; only requests of the history reach the server -/
theorem C18_cache_trace {α κ ρ : Type} [DecidableEq κ] (key : α → κ) (server : α → ρ) (cache : Store κ ρ)
    (urls : List α) :
    (runTrace key server cache urls).map (·.2) = (runCached key server cache urls).1 ∧
      (runTrace key server cache urls).length = urls.length ∧ (wire key server cache urls).Sublist urls :=
  ⟨runTrace_resp key server urls cache, runTrace_length key server urls cache, wire_sublist key server urls cache⟩

/-! ### non-vacuity -/
example : SessInv (some 3) (openHeap ['u'] [] (some 3) ['s'] [['i']] [(['a'], [2], true)]) :=
  C18_open_session _ _ _ _ _ _
example : (run (openHeap ['u'] [] (some 3) ['s'] [['i']] [(['a'], [2], true)])
    [.aget 1 [Idx.int 0], .fattr 2 ['m'], .fcall 3 ['a'], .rget 4 false, .rget 4 true, .rget 4 true]).log.map (·.1)
    = [some 3, some 3, some 3, some 3] := by decide
example : underBase (some exBase) exInside = true ∧ underBase (some exBase) exSibling = false := by decide

/-- a history with consolidated hits (second read: another file under the base; fourth: a repeat) and a
    sibling directory that is not shared; the server answers the shared constraint identically under the base -/
example :
    (runTrace (customKey id [exCe] (some exBase)) (fun r => if underBase (some exBase) r then exCe else r.url) []
      [exInside, exReq "data.example.org" "/data/set/sub/b.nc.dap", exSibling, exInside]).map (·.1)
      = [false, true, false, true] ∧
    wire (customKey id [exCe] (some exBase)) (fun r => if underBase (some exBase) r then exCe else r.url) []
      [exInside, exReq "data.example.org" "/data/set/sub/b.nc.dap", exSibling, exInside] = [exInside, exSibling] := by
  decide
/-- the hypotheses of `C18_cache_transparent_customKey` hold on that history -/
example : (runCached (customKey id [exCe] (some exBase))
      (fun r => if underBase (some exBase) r ∧ r.ce = some exCe then exCe else r.url) []
      [exInside, exReq "data.example.org" "/data/set/sub/b.nc.dap", exSibling, exInside]).1
    = runPlain (fun r => if underBase (some exBase) r ∧ r.ce = some exCe then exCe else r.url)
      [exInside, exReq "data.example.org" "/data/set/sub/b.nc.dap", exSibling, exInside] := by
  refine C18_cache_transparent_customKey id (fun _ _ h => h) [exCe] (some exBase) _ _ ?_ ?_
  · decide
  · intro r1 h1 r2 h2 hs
    obtain ⟨_, c, _, _, _, _, hh⟩ := hs
    simp only [List.mem_cons, List.not_mem_nil, or_false] at h1 h2
    rcases h1 with rfl | rfl | rfl | rfl <;> rcases h2 with rfl | rfl | rfl | rfl <;>
      first
        | decide
        | (rcases hh with ⟨ha, hb⟩ | ⟨ha, _⟩
           · first | (revert ha; decide) | (revert hb; decide)
           · revert ha; decide)
/-- unpatched keys: a repeated URL is a hit, and the reads are the plain ones -/
example : (runTrace (fun u : Nat => u) (fun u => 10 * u) [] [1, 2, 1]) = [(false, 10), (false, 20), (true, 10)] ∧
    (runCached (fun u : Nat => u) (fun u => 10 * u) [] [1, 2, 1]).1 = runPlain (fun u => 10 * u) [1, 2, 1] :=
  ⟨by decide, C18_cache_transparent_url _ _ _ (fun _ _ _ _ h => h)⟩
/-- a non-injective key does change results (why the hypothesis is there) -/
example : (runCached (fun _ : Nat => 0) (fun u => 10 * u) [] [1, 2]).1 ≠ runPlain (fun u => 10 * u) [1, 2] := by decide

end Pydap.C18
