/-
  C18 — All traffic of a dataset uses its session; cache keys.
  Session part: heap model `PydapModel/Proxy.lean` (every GET logged with the session of the
  object that issued it).  Cache part: `PydapModel/CacheKey.lean`, the model of
  `patch_session_for_shared_dap_cache` (after the repair d871e84).
  Caching session: `PydapModel/Cache.lean`, what `requests_cache.CachedSession.send` does with
  `create_key` (look up, on a miss forward and store); "with a caching session every read returns
  the same data as with a plain session" is `C18_cache_transparent_*`, for all histories.
  Outside the model: adapter dispatch, expiry, status/method filters, serialisation of the store.
  Metadata consolidation: `PydapModel/Consolidate.lean`, the model of `consolidate_metadata` — what it DECLARES to the
  key closure (base, shared constraints) and which GETs it issues; `C18_consolidate_*`, `C18_declared_*`,
  `C18_consolidated_*`.  Outside the model: the thread pool (order of GETs inside a phase), the DMR text → dimensions
  step (C11), HTTP status handling of the pre-fetch.
-/
import PydapModel.Proxy
import PydapModel.CacheKey
import Proofs.Proxy
import Proofs.ProxySess
import Proofs.CacheKey
import PydapModel.Cache
import Proofs.Cache
import PydapModel.Consolidate
import Proofs.Consolidate
import PydapModel.Transport
import Proofs.Transport
import PydapModel.Sessions
import Proofs.Sessions
import Proofs.ClientSrc
namespace Pydap.C18
open Pydap Pydap.Proxy

/-- a dataset opened with session `σ`: every proxy and `dataset.functions` carry `σ` -/
theorem C18_open_session (b : Name) (bs : List Name) (σ : Sess) (n : Name) (keys : List Name)
    (arrays : List (Name × List Nat × Bool)) : SessInv σ (openHeap b bs σ n keys arrays) := by
  refine ⟨?_, by simp [openHeap]⟩
  intro o ho _
  simp only [openHeap, List.mem_append, List.mem_cons, List.mem_map, List.not_mem_nil, or_false] at ho
  rcases ho with (ho | ⟨a, _, ha⟩) | ho
  · subst ho; rfl
  · subst ha; rfl
  · subst ho; rfl

/-- **Session invariant, any history**: every GET logged by any history of derivations, copies,
    reads, array reads, variable and grid reads (array and maps) and server-function calls, on any objects, carries the session the
    objects were created with — including the GETs of derived sequences, of DAP4 variables and of
    server-function results; never `none` (a fresh anonymous session). -/
theorem C18_session (σ : Sess) (h : Heap) (i : SessInv σ h) (evs : List Ev) :
    (∀ e ∈ (run h evs).log, e.1 = σ) ∧ (∀ o ∈ (run h evs).objs, carries o = true → objSess o = σ) :=
  ⟨(run_sessInv σ h i evs).2, (run_sessInv σ h i evs).1⟩

/-- the two together, from `open_url` -/
theorem C18_session_from_open (b : Name) (bs : List Name) (σ : Nat) (n : Name) (keys : List Name)
    (arrays : List (Name × List Nat × Bool)) (evs : List Ev) :
    ∀ e ∈ (run (openHeap b bs (some σ) n keys arrays) evs).log, e.1 = some σ :=
  (C18_session (some σ) _ (C18_open_session b bs (some σ) n keys arrays) evs).1

/-- what the repair of `__copy__` (13350a5) removed: a filtered sequence was fetched with no
    session (→ a fresh anonymous one in `create_request`) -/
theorem C18_session_old_refuted :
    (runOld (openHeap ['u'] [] (some 7) ['s'] [['i']] []) [.getitem 0 (.ce [['c']]), .iter 2]).log.map (·.1)
      = [none] ∧
    (run (openHeap ['u'] [] (some 7) ['s'] [['i']] []) [.getitem 0 (.ce [['c']]), .iter 2]).log.map (·.1)
      = [some 7] := by decide

/-! ### cache keys -/
open Pydap.CK

/-- **Two requests share a cache entry only if** they have the same URL, or they carry the same
    declared shared constraint, the same scheme and host, and both lie under the declared common
    base (same host as the base, path inside it on segment boundaries) — or both are Earthdata
    requests of the same provider/collection (the documented Earthdata grouping).  `orig` is the
    unpatched `create_key`, assumed injective on URLs. -/
theorem C18_cache_key (orig : List Char → List Char) (horig : ∀ a b, orig a = orig b → a = b)
    (shared : List (List Char)) (base : Option Base) (r1 r2 : CK.Req)
    (h : customKey orig shared base r1 = customKey orig shared base r2) :
    r1.url = r2.url ∨
      (r1.ce = r2.ce ∧ ∃ c, r1.ce = some c ∧ c ∈ shared ∧ r1.scheme = r2.scheme ∧ r1.host = r2.host ∧
        ((underBase base r1 = true ∧ underBase base r2 = true) ∨
         (r1.host = earthdataHost ∧ r2.host = earthdataHost ∧
            ∃ coll, findCollection r1.path = some coll ∧ findCollection r2.path = some coll))) :=
  cacheKey_collide orig horig shared base r1 r2 h

/-- **The clause as the property words it, off the Earthdata host (round 7)**: when the first request is not on
    `opendap.earthdata.nasa.gov`, equal keys mean the same URL, or the same declared shared constraint with the same
    scheme and host and BOTH requests under the declared common base — nothing else.  The guard is exact:
    `C18_cache_key_earthdata_refuted`. -/
theorem C18_cache_key_strict (orig : List Char → List Char) (horig : ∀ a b, orig a = orig b → a = b)
    (shared : List (List Char)) (base : Option Base) (r1 r2 : CK.Req) (hne : r1.host ≠ earthdataHost)
    (h : customKey orig shared base r1 = customKey orig shared base r2) :
    r1.url = r2.url ∨
      (r1.ce = r2.ce ∧ ∃ c, r1.ce = some c ∧ c ∈ shared ∧ r1.scheme = r2.scheme ∧ r1.host = r2.host ∧
        underBase base r1 = true ∧ underBase base r2 = true) := by
  rcases C18_cache_key orig horig shared base r1 r2 h with e | ⟨hce, c, hc, hin, hs, hh, hu | ⟨he, _⟩⟩
  · exact Or.inl e
  · exact Or.inr ⟨hce, c, hc, hin, hs, hh, hu⟩
  · exact absurd he hne

/-- **On the Earthdata host the property's wording does not hold of the code** (`C18_cache_key` carries the third
    disjunct for this reason): two granules of one provider/collection share an entry for a declared constraint although
    NO base was declared (or neither lies under it) — the Earthdata branch of `custom_create_key` groups by
    `/providers/P/collections/C`, whatever `compute_base_url_prefix` gave.  Recorded as the documented Earthdata grouping
    (design_notes/C18.md, table, row "cache entry"), replayed on the real `custom_create_key` by props/c18_cachekey.py. -/
theorem C18_cache_key_earthdata_refuted :
    ¬ (∀ (shared : List (List Char)) (base : Option Base) (r1 r2 : CK.Req),
        customKey id shared base r1 = customKey id shared base r2 →
        r1.url = r2.url ∨ (underBase base r1 = true ∧ underBase base r2 = true)) := by
  intro h
  have := h [exCe] none (exReq "opendap.earthdata.nasa.gov" "/providers/P/collections/C2/granules/g3")
    (exReq "opendap.earthdata.nasa.gov" "/providers/P/collections/C2/granules/g4") (by decide)
  revert this
  decide

/-- "under the base" is containment on path-segment boundaries on the base's host -/
theorem C18_under_base_segment (b : Base) (r : CK.Req) :
    underBase (some b) r = true ↔
      r.host = b.host ∧ (r.path = b.path ∨ ∃ rest, r.path = rstripSlash b.path ++ '/' :: rest) :=
  underBase_segment b r

/-- and the grouping does happen for requests under the base (the consolidation is not vacuous) -/
theorem C18_cache_shared_hit (orig : List Char → List Char) (shared : List (List Char)) (b : Base) (r1 r2 : CK.Req)
    (c : List Char) (hc1 : r1.ce = some c) (hc2 : r2.ce = some c) (hin : c ∈ shared)
    (hs : r1.scheme = r2.scheme) (hh : r1.host = r2.host) (hne : r1.host ≠ earthdataHost)
    (hu1 : underBase (some b) r1 = true) (hu2 : underBase (some b) r2 = true) :
    customKey orig shared (some b) r1 = customKey orig shared (some b) r2 :=
  (cacheKey_shared_hit orig shared b r1 r2 c hc1 hc2 hin hs hh hne hu1 hu2).1

/-- what the repair d871e84 removed: with the text-prefix test `/data/set2/a.nc.dap` (and the same
    path on another host) collided with `/data/set/c.nc.dap` -/
theorem C18_cache_key_prefix_refuted :
    ¬ (∀ (shared : List (List Char)) (base : Option Base) (r1 r2 : CK.Req),
        customKeyPrefix id shared base r1 = customKeyPrefix id shared base r2 →
        r1.url = r2.url ∨ (underBase base r1 = true ∧ underBase base r2 = true) ∨
          (r1.host = earthdataHost ∧ r2.host = earthdataHost)) :=
  cacheKey_collide_prefix_refuted

/-! ### caching never changes results -/
open Pydap.Cache

/-- the empty store satisfies the cache invariant -/
theorem C18_cache_inv_empty {α κ ρ : Type} (key : α → κ) (server : α → ρ) (adm : α → Prop) :
    CacheInv key server adm ([] : Store κ ρ) :=
  cacheInv_nil key server adm

/-- **Unpatched keys: the cache is transparent.**  If the key function is injective on the requests
    of the history (equal keys ⇒ same request: the assumption on the unpatched `create_key` of
    `C18_cache_key`), then for every history the reads through the caching session, starting from the
    empty store, are exactly the reads of a plain session.  `server` is any function of the request. -/
theorem C18_cache_transparent_url {α κ ρ : Type} [DecidableEq κ] (key : α → κ) (server : α → ρ) (urls : List α)
    (hinj : ∀ u1 ∈ urls, ∀ u2 ∈ urls, key u1 = key u2 → u1 = u2) :
    (runCached key server [] urls).1 = runPlain server urls :=
  (runCached_transparent (adm := (· ∈ urls)) (fun u1 u2 h1 h2 hk => by rw [hinj u1 h1 u2 h2 hk]) urls []
    (cacheInv_nil _ _ _) (fun _ h => h)).1

/-- **Consolidated keys, general form.**  Requests `α` with an identity `ident` (what the unpatched key
    sees), a relation `Shared` (the pairs consolidation lets share an entry), admissible requests `adm`.
    (a) `hkey`: equal keys ⇒ same identity or `Shared` — what `C18_cache_key` proves of `customKey`;
    (b) `hshared`, **EXPLICIT ASSUMPTION ABOUT THE DATA, not about pydap**: the server answers `Shared`
        requests identically (the shared dimensions are the same in every file under the base) — the premise
        under which metadata consolidation is sound at all; `C18_cache_consolidated_needs_shared_equal`
        shows it cannot be dropped;
    (c) `hfun`: the server is a function of the request identity (on the admissible requests).
    Then from any store satisfying the invariant (`C18_cache_inv_empty`: the empty one does), every read of
    every admissible history through the cache equals the read without it, and the invariant is kept. -/
theorem C18_cache_transparent_consolidated {α κ ι ρ : Type} [DecidableEq κ] (key : α → κ) (ident : α → ι)
    (Shared : α → α → Prop) (server : α → ρ) (adm : α → Prop)
    (hkey : ∀ u1 u2, adm u1 → adm u2 → key u1 = key u2 → ident u1 = ident u2 ∨ Shared u1 u2)
    (hshared : ∀ u1 u2, adm u1 → adm u2 → Shared u1 u2 → server u1 = server u2)
    (hfun : ∀ u1 u2, adm u1 → adm u2 → ident u1 = ident u2 → server u1 = server u2)
    (cache : Store κ ρ) (hinv : CacheInv key server adm cache) (urls : List α) (hadm : ∀ u ∈ urls, adm u) :
    (runCached key server cache urls).1 = runPlain server urls ∧
      CacheInv key server adm (runCached key server cache urls).2 :=
  runCached_transparent
    (fun u1 u2 h1 h2 hk => (hkey u1 u2 h1 h2 hk).elim (hfun u1 u2 h1 h2) (hshared u1 u2 h1 h2)) urls cache hinv hadm

/-- **Consolidated keys, the real key function.**  `customKey` is the model of the closure installed by
    `patch_session_for_shared_dap_cache`; hypothesis (a) is discharged by `C18_cache_key`.  What remains:
    `horig` (the unpatched `create_key` is injective on request identities), `hfun` (the server is a function
    of the request identity, on the requests of the history) and the explicit assumption (b) `hshared`, needed only for pairs of requests *of
    the history*: two shared-dimension requests (same declared constraint, scheme and host, both under the
    declared base or in one Earthdata collection) get the same answer.  Then every read of every history through
    the caching session with consolidated keys equals the read through a plain session. -/
theorem C18_cache_transparent_customKey {ρ : Type} (orig : List Char → List Char)
    (horig : ∀ a b, orig a = orig b → a = b) (shared : List (List Char)) (base : Option Base)
    (server : CK.Req → ρ) (urls : List CK.Req)
    (hfun : ∀ r1 ∈ urls, ∀ r2 ∈ urls, r1.url = r2.url → server r1 = server r2)
    (hshared : ∀ r1 ∈ urls, ∀ r2 ∈ urls, SharedDim shared base r1 r2 → server r1 = server r2) :
    (runCached (customKey orig shared base) server [] urls).1 = runPlain server urls :=
  (C18_cache_transparent_consolidated (customKey orig shared base) (·.url) (SharedDim shared base) server (· ∈ urls)
    (fun r1 r2 _ _ hk => C18_cache_key orig horig shared base r1 r2 hk)
    (fun r1 r2 h1 h2 hs => hshared r1 h1 r2 h2 hs) (fun r1 r2 h1 h2 e => hfun r1 h1 r2 h2 e) [] (C18_cache_inv_empty _ _ _) urls (fun _ h => h)).1

/-- **The requests of a history do not depend on the session (round 7)**: two datasets opened from the same URL with
    sessions `σ` and `τ` (plain, caching, caching with consolidated keys, none) and taken through the same history of
    derivations, copies and reads issue the same requests in the same order, and hold the same objects up to the
    session they carry.  Proof: every event commutes with relabelling the sessions (`Proofs/ProxySess.lean`, `re_step`;
    it fails for the pre-13350a5 `__copy__`, which wrote `None`). -/
theorem C18_requests_any_session (σ τ : Sess) (b : Name) (bs : List Name) (n : Name) (keys : List Name)
    (arrays : List (Name × List Nat × Bool)) (evs : List Ev) :
    (run (openHeap b bs τ n keys arrays) evs).log.map (·.2) = (run (openHeap b bs σ n keys arrays) evs).log.map (·.2) ∧
    (run (openHeap b bs τ n keys arrays) evs).objs = (run (openHeap b bs σ n keys arrays) evs).objs.map (reObj τ) :=
  ⟨(run_requests_any_session σ τ b bs n keys arrays evs).1, (run_requests_any_session σ τ b bs n keys arrays evs).2.1⟩

/-- **The clauses together, for a read history of an opened dataset (round 7)**: take any history of derivations,
    copies, reads, array / DAP4 reads, grid reads and server-function calls; run it on a dataset opened with a caching
    session `c` and on one opened with a plain session `p`.  Then (1) every GET of the first goes through `c` and every
    GET of the second through `p` — never an anonymous session —, (2) both issue the same requests, and (3) when the
    key function of `c` tells the requests of the history apart (the unpatched `create_key`), the answers obtained
    through the cache, request by request from the empty store, are the answers the plain session obtains.  `server` is
    any function of the request.  What this does not say: the history is open-loop (in the heap model the requests are
    determined by the events, not by earlier answers); consolidated keys need `hshared` (`C18_cache_transparent_customKey`
    on `CK.Req`; the heap model's `Req` is the parsed request, the key model's the URL parts — the two are related only
    by the harness). -/
theorem C18_history_session_and_cache {κ ρ : Type} [DecidableEq κ] (b : Name) (bs : List Name) (c p : Nat) (n : Name)
    (keys : List Name) (arrays : List (Name × List Nat × Bool)) (evs : List Ev)
    (key : Proxy.Req → κ) (server : Proxy.Req → ρ)
    (hinj : ∀ q1 ∈ (run (openHeap b bs (some c) n keys arrays) evs).log.map (·.2),
            ∀ q2 ∈ (run (openHeap b bs (some c) n keys arrays) evs).log.map (·.2), key q1 = key q2 → q1 = q2) :
    (∀ e ∈ (run (openHeap b bs (some c) n keys arrays) evs).log, e.1 = some c) ∧
    (∀ e ∈ (run (openHeap b bs (some p) n keys arrays) evs).log, e.1 = some p) ∧
    (run (openHeap b bs (some c) n keys arrays) evs).log.map (·.2)
      = (run (openHeap b bs (some p) n keys arrays) evs).log.map (·.2) ∧
    (runCached key server [] ((run (openHeap b bs (some c) n keys arrays) evs).log.map (·.2))).1
      = runPlain server ((run (openHeap b bs (some p) n keys arrays) evs).log.map (·.2)) := by
  have hreq := (C18_requests_any_session (some p) (some c) b bs n keys arrays evs).1
  refine ⟨C18_session_from_open b bs c n keys arrays evs, C18_session_from_open b bs p n keys arrays evs, hreq, ?_⟩
  rw [← hreq]
  exact C18_cache_transparent_url key server _ hinj

/-- Assumption (b) is necessary: two files under the base whose answers to the same shared-dimension
    constraint differ (the server echoes the URL) — the second read through the consolidated cache returns the
    first file's answer. -/
theorem C18_cache_consolidated_needs_shared_equal :
    ¬ (∀ (server : CK.Req → List Char) (urls : List CK.Req),
        (∀ r1 r2 : CK.Req, r1.url = r2.url → server r1 = server r2) →
        (runCached (customKey id [exCe] (some exBase)) server [] urls).1 = runPlain server urls) := by
  intro h
  have := h (·.url) [exInside, exReq "data.example.org" "/data/set/sub/b.nc.dap"] (fun _ _ e => e)
  revert this
  decide

/-- the trace the harness compares (hit flag, response) carries exactly the responses of `runCached`, one per
    read; only requests of the history reach the server -/
theorem C18_cache_trace {α κ ρ : Type} [DecidableEq κ] (key : α → κ) (server : α → ρ) (cache : Store κ ρ)
    (urls : List α) :
    (runTrace key server cache urls).map (·.2) = (runCached key server cache urls).1 ∧
      (runTrace key server cache urls).length = urls.length ∧ (wire key server cache urls).Sublist urls :=
  ⟨runTrace_resp key server urls cache, runTrace_length key server urls cache, wire_sublist key server urls cache⟩


/-! ### metadata consolidation: what is declared, and what it can collide with -/
open Pydap.Cons

/-- **What `consolidate_metadata` declares.**  When it patches the session (`result = ok (some decl)`): the declared
    constraints are exactly `d[0:1:n-1]` (rendered as the code renders them, `declText`) for the dimensions (d, n) of the
    FIRST file's DMR — not of any later file —, the declared base is `compute_base_url_prefix` of all URLs, the DMR of
    every URL is fetched, and the pre-fetch requests are exactly those constraints on the first file. -/
theorem C18_consolidate_declares (files : List FileIn) (decl : Decl)
    (h : (consolidate true files).result = .ok (some decl)) :
    ∃ f0 rest, files = f0 :: rest ∧ rest ≠ [] ∧
      (∀ c, c ∈ decl.shared ↔ ∃ d n, f0.dims.lookup d = some n ∧ c = declText d n) ∧
      computeBase f0 files = .ok decl.base ∧
      (consolidate true files).dmrGets = files.map dmrReq ∧
      (∀ r, r ∈ (consolidate true files).dimGets ↔ ∃ d n, f0.dims.lookup d = some n ∧ r = dimReq f0 d n) := by
  obtain ⟨f0, rest, sized, hf, hr, _, _, hsz, _, hb, hsh, hdmr, hdim⟩ := consolidate_some h
  have hs := sizesInFirst_ok hsz
  have hmem : ∀ d n, f0.dims.lookup d = some n → (d, n) ∈ sized := by
    intro d n hl
    have hd : d ∈ dimsUnion files := mem_dimsUnion.2 ⟨f0, by rw [hf]; exact List.mem_cons_self, n, lookup_mem' hl⟩
    rw [← hs.1] at hd
    obtain ⟨p, hp, rfl⟩ := List.mem_map.1 hd
    have := hs.2 p hp
    rw [hl] at this
    cases this
    exact hp
  refine ⟨f0, rest, hf, hr, ?_, hb, hdmr, ?_⟩
  · intro c
    rw [hsh, List.mem_map]
    constructor
    · rintro ⟨p, hp, rfl⟩; exact ⟨p.1, p.2, hs.2 p hp, rfl⟩
    · rintro ⟨d, n, hl, rfl⟩; exact ⟨(d, n), hmem d n hl, rfl⟩
  · intro r
    rw [hdim, List.mem_map]
    constructor
    · rintro ⟨p, hp, rfl⟩; exact ⟨p.1, p.2, hs.2 p hp, rfl⟩
    · rintro ⟨d, n, hl, rfl⟩; exact ⟨(d, n), hmem d n hl, rfl⟩

/-- a session that is not a `CachedSession` is left alone: no GET, nothing declared -/
theorem C18_consolidate_plain_session (files : List FileIn) :
    (consolidate false files).result = .ok none ∧ (consolidate false files).dmrGets = [] ∧
      (consolidate false files).dimGets = [] := ⟨rfl, rfl, rfl⟩

/-- **n ≥ 1: the declared constraint is the whole dimension array, and only that.**  For a dimension (d, n), n ≥ 1:
    (a) the declared text is literally the constraint a client read of `d[0:1:n-1]` sends (`hyperslab` prints start,
        step, stop-1);
    (b) on an array of length n it selects every position;
    (c) a read of any variable `v` (names without '[') with any hyperslabs has that constraint text only if it is the
        variable `d` read from 0 with step 1 through n-1 — so no read of a proper part of the array (some position of
        `0..n-1` left out) has it. -/
theorem C18_declared_whole (d : List Char) (n : Nat) (hn : 1 ≤ n) (hd : '[' ∉ d) :
    declText d n = ceText d [(0, 1, n - 1)] ∧
    (∀ i, i < n → i ∈ slabSel n (0, 1, n - 1)) ∧
    (∀ v slabs, '[' ∉ v → ceText v slabs = declText d n → v = d ∧ slabs = [(0, 1, n - 1)]) ∧
    (∀ t : Nat × Nat × Nat, (∃ i, i < n ∧ i ∉ slabSel n t) → ceText d [t] ≠ declText d n) := by
  refine ⟨declText_eq_ceText d hn, ?_, fun v slabs hv h => ceText_eq_declText hn hv hd h, ?_⟩
  · intro i hi; rw [mem_slabSel]; simp only [Nat.zero_le, Nat.sub_zero, Nat.mod_one, true_and, and_true]; omega
  · rintro t ⟨i, hi, hni⟩ h
    have := (ceText_eq_declText hn hd hd h).2
    simp only [List.cons.injEq, and_true] at this
    subst this
    apply hni; rw [mem_slabSel]; simp only [Nat.zero_le, Nat.sub_zero, Nat.mod_one, true_and, and_true]; omega

/-- on a longer array (a later file whose dimension is longer) the same text selects the first n positions only -/
theorem C18_declared_prefix (n m i : Nat) (hn : 1 ≤ n) : i ∈ slabSel m (0, 1, n - 1) ↔ i < m ∧ i < n := by
  rw [mem_slabSel]; simp only [Nat.zero_le, Nat.sub_zero, Nat.mod_one, true_and, and_true]; omega

/-- **n = 0.**  A dimension of size 0 in the first file is declared as `d[0:1:-1]` (`str(0 - 1)`), and that text is
    the constraint of NO client read (names without '['; a read prints three non-negative numbers per axis): in
    particular not of `d[0:1:0]`, the read of element 0 of `d` in another file. -/
theorem C18_declared_zero (d : List Char) (hd : '[' ∉ d) :
    declText d 0 = d ++ ['[', '0', ':', '1', ':', '-', '1', ']'] ∧
    ∀ v slabs, '[' ∉ v → ceText v slabs ≠ declText d 0 :=
  ⟨declText_zero d, fun _ slabs hv => ceText_ne_declText_zero slabs hv hd⟩

/-- **After consolidation two requests share a cache entry only if** they have the same URL, or both carry the same
    constraint `d[0:1:n-1]` of a dimension (d, n) OF THE FIRST FILE, on one scheme and host, both under the base
    `compute_base_url_prefix` declared (or both in one Earthdata collection). -/
theorem C18_consolidated_cache_key (orig : List Char → List Char) (horig : ∀ a b, orig a = orig b → a = b)
    (files : List FileIn) (decl : Decl) (h : (consolidate true files).result = .ok (some decl)) (r1 r2 : CK.Req)
    (hk : keyAfter orig decl r1 = keyAfter orig decl r2) :
    r1.url = r2.url ∨
      ∃ f0 rest d n, files = f0 :: rest ∧ f0.dims.lookup d = some n ∧
        r1.ce = some (declText d n) ∧ r2.ce = some (declText d n) ∧ r1.scheme = r2.scheme ∧ r1.host = r2.host ∧
        ((underBase (some decl.base) r1 = true ∧ underBase (some decl.base) r2 = true) ∨
         (r1.host = earthdataHost ∧ r2.host = earthdataHost ∧
            ∃ coll, findCollection r1.path = some coll ∧ findCollection r2.path = some coll)) := by
  obtain ⟨f0, rest, hf, _, hsh, _⟩ := C18_consolidate_declares files decl h
  rcases C18_cache_key orig horig decl.shared (some decl.base) r1 r2 hk with e | ⟨hce, c, hc, hin, hs, hh, hu⟩
  · exact Or.inl e
  · obtain ⟨d, n, hl, rfl⟩ := (hsh c).1 hin
    exact Or.inr ⟨f0, rest, d, n, hf, hl, hc, hce ▸ hc, hs, hh, hu⟩

/-- … and for two client reads (`BaseProxyDap4.__getitem__`; variable and dimension names without '['): they share an
    entry only if they are the same request, or both read the SAME dimension array `d` of the first file's declaration
    WHOLE (`[0:1:n-1]`, n ≥ 1) on one host.  A dimension of size 0 in the first file lets nothing be shared; reads of
    element 0 (`[0:1:0]`) are shared only when the first file declares that dimension with size 1. -/
theorem C18_consolidated_reads_share (orig : List Char → List Char) (horig : ∀ a b, orig a = orig b → a = b)
    (files : List FileIn) (decl : Decl) (h : (consolidate true files).result = .ok (some decl))
    (g1 g2 : FileIn) (v1 v2 : List Char) (s1 s2 : List (Nat × Nat × Nat))
    (hv1 : '[' ∉ v1) (hv2 : '[' ∉ v2) (hnames : ∀ f ∈ files, ∀ p ∈ f.dims, '[' ∉ p.1)
    (hk : keyAfter orig decl (readReq g1 v1 s1) = keyAfter orig decl (readReq g2 v2 s2)) :
    (readReq g1 v1 s1).url = (readReq g2 v2 s2).url ∨
      ∃ f0 rest d n, files = f0 :: rest ∧ f0.dims.lookup d = some n ∧ 1 ≤ n ∧
        v1 = d ∧ v2 = d ∧ s1 = [(0, 1, n - 1)] ∧ s2 = [(0, 1, n - 1)] ∧ g1.host = g2.host := by
  rcases C18_consolidated_cache_key orig horig files decl h _ _ hk with e | ⟨f0, rest, d, n, hf, hl, h1, h2, _, hh, _⟩
  · exact Or.inl e
  · have hd : '[' ∉ d := hnames f0 (by rw [hf]; exact List.mem_cons_self) (d, n) (lookup_mem' hl)
    simp only [readReq, Option.some.injEq] at h1 h2 hh
    rcases Nat.eq_zero_or_pos n with rfl | hn
    · exact absurd h1 (ceText_ne_declText_zero s1 hv1 hd)
    · have a1 := ceText_eq_declText hn hv1 hd h1
      have a2 := ceText_eq_declText hn hv2 hd h2
      exact Or.inr ⟨f0, rest, d, n, hf, hl, hn, a1.1, a2.1, a1.2, a2.2, hh⟩

/-- **Caching never changes results — consolidated session, any read history over any files.**  The session is the one
    `consolidate_metadata` leaves behind: the store holds the DMR answers (stored through the unpatched key) and then
    serves the pre-fetch requests and any history `reads` of further GETs (reads of any variables of any files, DMRs, …)
    through the patched key.  Hypotheses: `horig` (unpatched key injective on request identities), `hfun` (the server is
    a function of the request identity) and the EXPLICIT ASSUMPTION ABOUT THE DATA `hagree`: for every dimension (d, n)
    of the FIRST file, two requests with the declared constraint `d[0:1:n-1]` on one scheme and host, both under the
    declared base (or in one Earthdata collection), get the same answer — the files agree on the declared dimension
    arrays.  Nothing is assumed about any other constraint (in particular nothing about `d[0:1:0]` when n ≠ 1).
    Then every answer of the pre-fetch and of the history through the caching session is the plain session's. -/
theorem C18_consolidated_transparent {ρ : Type} (orig : List Char → List Char)
    (horig : ∀ a b, orig a = orig b → a = b) (files : List FileIn) (decl : Decl)
    (h : (consolidate true files).result = .ok (some decl)) (server : CK.Req → ρ) (reads : List CK.Req)
    (hfun : ∀ r1 r2, r1 ∈ (consolidate true files).dmrGets ++ (consolidate true files).dimGets ++ reads →
      r2 ∈ (consolidate true files).dmrGets ++ (consolidate true files).dimGets ++ reads →
      r1.url = r2.url → server r1 = server r2)
    (hagree : ∀ f0 rest d n, files = f0 :: rest → f0.dims.lookup d = some n →
      ∀ r1 r2, r1 ∈ (consolidate true files).dmrGets ++ (consolidate true files).dimGets ++ reads →
        r2 ∈ (consolidate true files).dmrGets ++ (consolidate true files).dimGets ++ reads →
        r1.ce = some (declText d n) → r2.ce = some (declText d n) → r1.scheme = r2.scheme → r1.host = r2.host →
        ((underBase (some decl.base) r1 = true ∧ underBase (some decl.base) r2 = true) ∨
         (r1.host = earthdataHost ∧ r2.host = earthdataHost ∧
            ∃ coll, findCollection r1.path = some coll ∧ findCollection r2.path = some coll)) →
        server r1 = server r2) :
    (runCached (keyAfter orig decl) server
        (runCached (keyBefore orig) server [] (consolidate true files).dmrGets).2
        ((consolidate true files).dimGets ++ reads)).1
      = runPlain server ((consolidate true files).dimGets ++ reads) := by
  refine (C18_cache_transparent_consolidated (keyAfter orig decl) (·.url)
    (fun r1 r2 => ∃ f0 rest d n, files = f0 :: rest ∧ f0.dims.lookup d = some n ∧
        r1.ce = some (declText d n) ∧ r2.ce = some (declText d n) ∧ r1.scheme = r2.scheme ∧ r1.host = r2.host ∧
        ((underBase (some decl.base) r1 = true ∧ underBase (some decl.base) r2 = true) ∨
         (r1.host = earthdataHost ∧ r2.host = earthdataHost ∧
            ∃ coll, findCollection r1.path = some coll ∧ findCollection r2.path = some coll)))
    server (· ∈ (consolidate true files).dmrGets ++ (consolidate true files).dimGets ++ reads)
    (fun r1 r2 _ _ hk => C18_consolidated_cache_key orig horig files decl h r1 r2 hk)
    (fun r1 r2 h1 h2 ⟨f0, rest, d, n, hf, hl, c1, c2, hs, hh, hu⟩ => hagree f0 rest d n hf hl r1 r2 h1 h2 c1 c2 hs hh hu)
    hfun _ (cacheInv_after_dmr orig horig decl server _ _ (fun u hu => by simp [hu]) hfun) _ ?_).1
  intro u hu
  rw [List.append_assoc]
  exact List.mem_append_right _ hu

/-- **The declared base contains the collection, and the declaration is effective.**  URL paths as `urlparse` gives them
    (starting with '/').  After consolidation: the base is on the first file's host; every read request and DMR/pre-fetch
    request of every file of the collection on that host passes the containment test of `custom_create_key`; and (outside
    Earthdata) the whole read of a declared dimension array `d[0:1:n-1]` (n ≥ 1) from ANY such file gets exactly the key under
    which the pre-fetch stored the first file's array — so it is answered from the store (`C18_cache_trace`), which is
    what `hagree` of `C18_consolidated_transparent` is about. -/
theorem C18_consolidated_base_contains (orig : List Char → List Char) (files : List FileIn) (decl : Decl)
    (h : (consolidate true files).result = .ok (some decl))
    (hslash : ∀ g ∈ files, ∃ r, g.path = '/' :: r) :
    ∃ f0 rest, files = f0 :: rest ∧ decl.base.host = f0.host ∧
      (∀ f ∈ files, f.host = f0.host → ∀ v slabs, underBase (some decl.base) (readReq f v slabs) = true) ∧
      (∀ d n, underBase (some decl.base) (dimReq f0 d n) = true) ∧
      (f0.host ≠ earthdataHost → ∀ f ∈ files, f.host = f0.host → ∀ d n, f0.dims.lookup d = some n → 1 ≤ n →
        keyAfter orig decl (readReq f d [(0, 1, n - 1)]) = keyAfter orig decl (dimReq f0 d n)) := by
  obtain ⟨f0, rest, sized, hf, _, _, _, hsz, _, hb, hsh, _, _⟩ := consolidate_some h
  have hs := sizesInFirst_ok hsz
  have hf0 : f0 ∈ files := by rw [hf]; exact List.mem_cons_self
  have hhost : decl.base.host = f0.host := (computeBase_under hb hslash hf0 []).1
  have hread : ∀ f ∈ files, f.host = f0.host → ∀ v slabs, underBase (some decl.base) (readReq f v slabs) = true := by
    intro f hfm hh v slabs
    simp only [underBase, readReq, Bool.and_eq_true]
    exact ⟨decide_eq_true (hh.trans hhost.symm), (computeBase_under hb hslash hfm _).2⟩
  have hdim : ∀ d n, underBase (some decl.base) (dimReq f0 d n) = true := by
    intro d n
    simp only [underBase, dimReq, Bool.and_eq_true]
    exact ⟨decide_eq_true hhost.symm, (computeBase_under hb hslash hf0 _).2⟩
  refine ⟨f0, rest, hf, hhost, hread, hdim, ?_⟩
  intro hne f hfm hh d n hl hn
  have hin : declText d n ∈ decl.shared := by
    rw [hsh, List.mem_map]
    have hd : d ∈ dimsUnion files := mem_dimsUnion.2 ⟨f0, hf0, n, lookup_mem' hl⟩
    rw [← hs.1] at hd
    obtain ⟨p, hp, rfl⟩ := List.mem_map.1 hd
    have := hs.2 p hp
    rw [hl] at this
    cases this
    exact ⟨p, hp, rfl⟩
  exact (cacheKey_shared_hit orig decl.shared decl.base (readReq f d [(0, 1, n - 1)]) (dimReq f0 d n) (declText d n)
    (by rw [declText_eq_ceText d hn]; rfl) rfl hin rfl hh (by simpa [readReq, hh] using hne)
    (hread f hfm hh _ _) (hdim d n)).1


/-- `hagree` cannot be dropped: two files under `/data` whose `t` differ (the server echoes the URL): the whole read of `t`
    from the second file through the consolidated session returns the pre-fetched array of the first -/
theorem C18_consolidated_needs_agree :
    ¬ (∀ (server : CK.Req → List Char) (reads : List CK.Req),
        (∀ r1 r2 : CK.Req, r1.url = r2.url → server r1 = server r2) →
        (runCached (keyAfter id exDecl) server (runCached (keyBefore id) server [] (consolidate true exFiles).dmrGets).2
            ((consolidate true exFiles).dimGets ++ reads)).1
          = runPlain server ((consolidate true exFiles).dimGets ++ reads)) :=
  consolidated_needs_agree

/-! ### non-vacuity -/
example : SessInv (some 3) (openHeap ['u'] [] (some 3) ['s'] [['i']] [(['a'], [2], true)]) :=
  C18_open_session _ _ _ _ _ _
example : (run (openHeap ['u'] [] (some 3) ['s'] [['i']] [(['a'], [2], true)])
    [.aget 1 [Idx.int 0], .fattr 2 ['m'], .fcall 3 ['a'], .rget 4 false, .rget 4 true, .rget 4 true]).log.map (·.1)
    = [some 3, some 3, some 3, some 3] := by decide
example : underBase (some exBase) exInside = true ∧ underBase (some exBase) exSibling = false := by decide
/-- `C18_cache_key_strict` is not vacuous: two different requests under the base, off the Earthdata host, share a key -/
example : exInside.host ≠ earthdataHost ∧ exInside.url ≠ (exReq "data.example.org" "/data/set/sub/b.nc.dap").url ∧
    customKey id [exCe] (some exBase) exInside = customKey id [exCe] (some exBase) (exReq "data.example.org" "/data/set/sub/b.nc.dap") := by
  decide
/-- `C18_history_session_and_cache` on a history with a repeated read (a hit): hypotheses hold with the identity key -/
example : (runCached (fun q : Proxy.Req => q) (fun q => q.ids)
      [] ((run (openHeap ['u'] [] (some 3) ['s'] [['i']] [(['a'], [2], true)]) [.aget 1 [Idx.int 0], .iter 0, .aget 1 [Idx.int 0]]).log.map (·.2))).1
    = runPlain (fun q => q.ids) ((run (openHeap ['u'] [] (some 4) ['s'] [['i']] [(['a'], [2], true)]) [.aget 1 [Idx.int 0], .iter 0, .aget 1 [Idx.int 0]]).log.map (·.2)) :=
  (C18_history_session_and_cache ['u'] [] 3 4 ['s'] [['i']] [(['a'], [2], true)] _ _ _ (fun _ _ _ _ h => h)).2.2.2
/-- the relabelling is not the identity: the objects of the two runs differ in the session, the requests do not; and the
    old `__copy__` does not commute with it (a filtered sequence was read through no session whatever the dataset's) -/
example : (run (openHeap ['u'] [] (some 3) ['s'] [['i']] []) [.getitem 0 (.ce [['c']]), .iter 2]).log
      ≠ (run (openHeap ['u'] [] (some 4) ['s'] [['i']] []) [.getitem 0 (.ce [['c']]), .iter 2]).log ∧
    (runOld (openHeap ['u'] [] (some 3) ['s'] [['i']] []) [.getitem 0 (.ce [['c']]), .iter 2]).log
      = (runOld (openHeap ['u'] [] (some 4) ['s'] [['i']] []) [.getitem 0 (.ce [['c']]), .iter 2]).log := by decide

/-- a history with consolidated hits (second read: another file under the base; fourth: a repeat) and a
    sibling directory that is not shared; the server answers the shared constraint identically under the base -/
example :
    (runTrace (customKey id [exCe] (some exBase)) (fun r => if underBase (some exBase) r then exCe else r.url) []
      [exInside, exReq "data.example.org" "/data/set/sub/b.nc.dap", exSibling, exInside]).map (·.1)
      = [false, true, false, true] ∧
    wire (customKey id [exCe] (some exBase)) (fun r => if underBase (some exBase) r then exCe else r.url) []
      [exInside, exReq "data.example.org" "/data/set/sub/b.nc.dap", exSibling, exInside] = [exInside, exSibling] := by
  decide
/-- the hypotheses of `C18_cache_transparent_customKey` hold on that history -/
example : (runCached (customKey id [exCe] (some exBase))
      (fun r => if underBase (some exBase) r ∧ r.ce = some exCe then exCe else r.url) []
      [exInside, exReq "data.example.org" "/data/set/sub/b.nc.dap", exSibling, exInside]).1
    = runPlain (fun r => if underBase (some exBase) r ∧ r.ce = some exCe then exCe else r.url)
      [exInside, exReq "data.example.org" "/data/set/sub/b.nc.dap", exSibling, exInside] := by
  refine C18_cache_transparent_customKey id (fun _ _ h => h) [exCe] (some exBase) _ _ ?_ ?_
  · decide
  · intro r1 h1 r2 h2 hs
    obtain ⟨_, c, _, _, _, _, hh⟩ := hs
    simp only [List.mem_cons, List.not_mem_nil, or_false] at h1 h2
    rcases h1 with rfl | rfl | rfl | rfl <;> rcases h2 with rfl | rfl | rfl | rfl <;>
      first
        | decide
        | (rcases hh with ⟨ha, hb⟩ | ⟨ha, _⟩
           · first | (revert ha; decide) | (revert hb; decide)
           · revert ha; decide)
/-- unpatched keys: a repeated URL is a hit, and the reads are the plain ones -/
example : (runTrace (fun u : Nat => u) (fun u => 10 * u) [] [1, 2, 1]) = [(false, 10), (false, 20), (true, 10)] ∧
    (runCached (fun u : Nat => u) (fun u => 10 * u) [] [1, 2, 1]).1 = runPlain (fun u => 10 * u) [1, 2, 1] :=
  ⟨by decide, C18_cache_transparent_url _ _ _ (fun _ _ _ _ h => h)⟩
/-- a non-injective key does change results (why the hypothesis is there) -/
example : (runCached (fun _ : Nat => 0) (fun u => 10 * u) [] [1, 2]).1 ≠ runPlain (fun u => 10 * u) [1, 2] := by decide

/-- consolidation of two files: `t` of size 2 in the first (declared `t[0:1:1]`), base `/data` -/
example : (consolidate true exFiles).result = .ok (some exDecl) ∧ exDecl.shared = [declText "t".toList 2] ∧
    (consolidate true exFiles).dimGets = [dimReq exFileA "t".toList 2] := ⟨exFiles_result, rfl, exFiles_dimGets⟩
/-- a first file with an empty dimension declares `t[0:1:-1]`; a file list of one URL, mixed schemes, a dimension
    missing in the first file and files without a common directory do not patch -/
example : (consolidate true [exFileZ, exFileB]).result = .ok (some ⟨exDecl.base, [declText "t".toList 0]⟩) ∧
    (consolidate true [exFileA]).result = .error .typeError ∧
    (consolidate true [{ exFileA with scheme := httpLit }, exFileB]).result = .error .valueError ∧
    (consolidate true [{ exFileA with dims := [] }, exFileB]).result = .error .keyError ∧
    (consolidate true [{ exFileA with path := "/A.nc".toList }, exFileB]).result = .error .valueError :=
  ⟨by rfl, by rfl, by rfl, by rfl, by rfl⟩
/-- the whole read of `t` from the second file gets the key of the pre-fetch (the consolidation is not vacuous);
    the read of element 0 does not -/
example : keyAfter id exDecl (readReq exFileB "t".toList [(0, 1, 1)]) = keyAfter id exDecl (dimReq exFileA "t".toList 2) ∧
    keyAfter id exDecl (readReq exFileB "t".toList [(0, 1, 0)]) ≠ keyAfter id exDecl (readReq exFileA "t".toList [(0, 1, 0)]) :=
  ⟨exKey_shared, exKey_elem0⟩
example : (runCached (keyAfter id exDecl) (fun _ => ()) (runCached (keyBefore id) (fun _ => ()) [] (consolidate true exFiles).dmrGets).2
      ((consolidate true exFiles).dimGets ++ [readReq exFileB "t".toList [(0, 1, 1)], readReq exFileB "t".toList [(0, 1, 0)]])).1
    = runPlain (fun _ => ()) ((consolidate true exFiles).dimGets ++ [readReq exFileB "t".toList [(0, 1, 1)], readReq exFileB "t".toList [(0, 1, 0)]]) :=
  C18_consolidated_transparent id (fun _ _ h => h) exFiles exDecl exFiles_result _ _ (fun _ _ _ _ _ => rfl)
    (fun _ _ _ _ _ _ _ _ _ _ _ _ _ _ _ => rfl)
/-- the scenario of an empty first file: `t` of size 0 in the first file, then reads of element 0 of `t` from two other
    files never share an entry (`C18_consolidated_reads_share`: the only declared dimension has n = 0) -/
example (hk : keyAfter id ⟨exDecl.base, [declText "t".toList 0]⟩ (readReq exFileA "t".toList [(0, 1, 0)]) =
    keyAfter id ⟨exDecl.base, [declText "t".toList 0]⟩ (readReq exFileB "t".toList [(0, 1, 0)])) : False := by
  rcases C18_consolidated_reads_share id (fun _ _ h => h) [exFileZ, exFileB] _ (by rfl) exFileA exFileB _ _ _ _
    (by decide) (by decide) (by decide) hk with e | ⟨f0, rest, d, n, hf, hl, hn, _⟩
  · revert e; decide
  · cases hf
    simp only [exFileZ, exFileA, List.lookup] at hl
    split at hl
    · cases hl; omega
    · cases hl
/-- the hypotheses of `C18_consolidated_base_contains` hold for the example collection -/
example : ∀ g ∈ exFiles, ∃ r, g.path = '/' :: r := by
  intro g hg
  simp only [exFiles, List.mem_cons, List.not_mem_nil, or_false] at hg
  rcases hg with rfl | rfl
  · exact ⟨_, rfl⟩
  · exact ⟨_, rfl⟩
example : 1 ∉ slabSel 3 (0, 1, 0) ∧ slabSel 3 (0, 1, 2) = [0, 1, 2] ∧ slabSel 5 (0, 1, 2) = [0, 1, 2] := by decide

/-! ### several sessions in one process -/
-- model: PydapModel/Sessions.lean — a process is a list of sessions; `create_session` gives every session its own
-- backend object, `patch_session_for_shared_dap_cache` installs the key closure on THAT object

/-- **Consolidation is per session — every process state, every interleaved history, every session j.**
    What session `j` sees (per GET handed to it: request, key, hit/miss, answer) in a history in which the other
    sessions read and are consolidated in between is exactly what it sees in the history with all events of the other
    sessions removed; and session `j` ends in the same state (caching flag, installed key function, store). -/
theorem C18_consolidation_is_per_session {ρ : Type} (orig : List Char → List Char) (server : CK.Req → ρ)
    (p : Sessions.Proc ρ) (evs : List Sessions.Ev) (j : Nat) :
    Sessions.traceOf j (Sessions.run orig server p evs).1 =
        Sessions.traceOf j (Sessions.run orig server p (evs.filter (Sessions.concerns j))).1 ∧
      (Sessions.run orig server p evs).2[j]? = (Sessions.run orig server p (evs.filter (Sessions.concerns j))).2[j]? :=
  ⟨(Sessions.run_local orig server j evs p p rfl rfl).1, (Sessions.run_local orig server j evs p p rfl rfl).2.2⟩

/-- one step: `consolidate_metadata` on session `i` (all its GETs, the installation of the key closure) and any GET
    through session `i` leave every other session's key function and store as they were, and hand it no GET -/
theorem C18_consolidate_leaves_other_sessions {ρ : Type} (orig : List Char → List Char) (server : CK.Req → ρ)
    (p : Sessions.Proc ρ) (i j : Nat) (hij : i ≠ j) (files : List FileIn) :
    (Sessions.step orig server p (.consolidate i files)).2[j]? = p[j]? ∧
      Sessions.traceOf j (Sessions.step orig server p (.consolidate i files)).1 = [] ∧
      ∀ r, (Sessions.step orig server p (.get i r)).2[j]? = p[j]? :=
  ⟨(Sessions.step_skip orig server p j (.consolidate i files) (by simp [Sessions.concerns, hij])).2.2,
   (Sessions.step_skip orig server p j (.consolidate i files) (by simp [Sessions.concerns, hij])).1,
   fun r => (Sessions.step_skip orig server p j (.get i r) (by simp [Sessions.concerns, hij])).2.2⟩

/-- **The bystander reads plainly, all interleaved histories.** A session on which no key closure is installed and
    which is never consolidated itself (its store may hold anything satisfying the invariant, e.g. be empty) gets for
    EVERY GET the server's answer, under the unpatched key (no key at all when it is a plain session) — whatever the
    other sessions of the process read or consolidate in between. Hypotheses as in `C18_cache_transparent_url`:
    the unpatched key is injective on URLs, the server is a function of the URL. -/
theorem C18_bystander_session_plain {ρ : Type} (orig : List Char → List Char) (server : CK.Req → ρ)
    (horig : ∀ a b, orig a = orig b → a = b) (hfun : ∀ u v : CK.Req, u.url = v.url → server u = server v)
    (p : Sessions.Proc ρ) (evs : List Sessions.Ev) (j : Nat)
    (hj : ∀ s, p[j]? = some s → s.decls = [] ∧ Sessions.FInv orig server s.store)
    (hnever : ∀ files, Sessions.Ev.consolidate j files ∉ evs) :
    ∀ x ∈ (Sessions.run orig server p evs).1, x.1 = j →
      x.2.resp = server x.2.req ∧ (x.2.key = none ∨ x.2.key = some (Key.orig (orig x.2.req.url))) :=
  Sessions.run_bystander orig server horig hfun j evs p hj hnever

/-- **The same on the default settings of `create_session`** (`backend="sqlite"`, one cache name: the caching sessions
    of the process have their own backend objects — own key functions — but ONE database file, `Sessions.FileProc`):
    the store is filled by every session, also under consolidated keys; a session on which nothing is installed
    still gets for every GET the unpatched key and the server's answer (it may hit what another session stored under
    the same URL key; an entry under a normalised key is never its key). -/
theorem C18_bystander_shared_file {ρ : Type} (orig : List Char → List Char) (server : CK.Req → ρ)
    (horig : ∀ a b, orig a = orig b → a = b) (hfun : ∀ u v : CK.Req, u.url = v.url → server u = server v)
    (p : Sessions.FileProc ρ) (evs : List Sessions.Ev) (j : Nat)
    (hstore : Sessions.FInv orig server p.store) (hj : ∀ ds, p.decls[j]? = some ds → ds = [])
    (hnever : ∀ files, Sessions.Ev.consolidate j files ∉ evs) :
    ∀ x ∈ (Sessions.runFile orig server p evs).1, x.1 = j →
      x.2.resp = server x.2.req ∧ (x.2.key = none ∨ x.2.key = some (Key.orig (orig x.2.req.url))) :=
  Sessions.runFile_bystander orig server horig hfun j evs p hstore hj hnever

/-- **One backend object for all caching sessions (the arrangement of seed C18-y) does not have the property**:
    `Sessions.runShared` sends the events of every session through one key function and one store; session 0 is
    consolidated for `exFiles`, session 1 then reads `t` of the second file whole — and sees something else than it
    sees alone (the next two examples: the normalised key, a hit, the FIRST file's pre-fetched answer). -/
theorem C18_shared_backend_refuted :
    ¬ ∀ (c : Sessions.Sess (List Char)) (evs : List Sessions.Ev) (j : Nat),
        Sessions.traceOf j (Sessions.runShared id (fun r => r.url) c evs).1 =
          Sessions.traceOf j (Sessions.runShared id (fun r => r.url) c (evs.filter (Sessions.concerns j))).1 := by
  intro h
  have := h (Sessions.fresh true) Sessions.exHist 1
  revert this
  decide +kernel

/-! non-vacuity -/
/-- shared backend object: the bystander's read of `t` from the second file is answered with the first file's array -/
example : Sessions.traceOf 1 (Sessions.runShared id (fun r => r.url) (Sessions.fresh true) Sessions.exHist).1 =
    [⟨Sessions.exRead, some (keyAfter id exDecl (dimReq exFileA "t".toList 2)), true, (dimReq exFileA "t".toList 2).url⟩] := by
  decide +kernel
/-- the code as it is (own backend objects): unpatched key, a miss, the second file's own answer -/
example : Sessions.traceOf 1 (Sessions.run id (fun r => r.url) [Sessions.fresh true, Sessions.fresh true] Sessions.exHist).1 =
    [⟨Sessions.exRead, some (Key.orig Sessions.exRead.url), false, Sessions.exRead.url⟩] := by decide +kernel
/-- … while the consolidated session itself does share: its own read of the same request is a hit on the pre-fetch;
    a third session created later and a plain session are bystanders too -/
example : (Sessions.run id (fun r => r.url) [Sessions.fresh true, Sessions.fresh true, Sessions.fresh false]
      (Sessions.exHist ++ [.get 0 Sessions.exRead, .create true, .get 3 Sessions.exRead, .get 2 Sessions.exRead, .get 1 Sessions.exRead])).1.drop 3
    = [(1, ⟨Sessions.exRead, some (Key.orig Sessions.exRead.url), false, Sessions.exRead.url⟩),
       (0, ⟨Sessions.exRead, some (keyAfter id exDecl (dimReq exFileA "t".toList 2)), true, (dimReq exFileA "t".toList 2).url⟩),
       (3, ⟨Sessions.exRead, some (Key.orig Sessions.exRead.url), false, Sessions.exRead.url⟩),
       (2, ⟨Sessions.exRead, none, false, Sessions.exRead.url⟩),
       (1, ⟨Sessions.exRead, some (Key.orig Sessions.exRead.url), true, Sessions.exRead.url⟩)] := by decide +kernel
/-- the hypotheses of `C18_bystander_session_plain` hold for session 1 of that process and history -/
example : ∀ x ∈ (Sessions.run id (fun r : CK.Req => r.url) [Sessions.fresh true, Sessions.fresh true] Sessions.exHist).1, x.1 = 1 →
    x.2.resp = x.2.req.url ∧ (x.2.key = none ∨ x.2.key = some (Key.orig x.2.req.url)) :=
  C18_bystander_session_plain id (fun r => r.url) (fun _ _ h => h) (fun _ _ h => h) _ _ 1
    (by intro s hs; cases hs; exact ⟨rfl, Sessions.finv_nil _ _⟩) (by intro files h; simp [Sessions.exHist] at h)
/-- one database file: the bystander HITS what the consolidated session stored under the same URL key (the DMR of the
    first file), with the server's answer; the hypotheses of `C18_bystander_shared_file` hold -/
example : Sessions.traceOf 1 (Sessions.runFile id (fun r => r.url) ⟨[[], []], []⟩
      [.consolidate 0 exFiles, .get 1 (dmrReq exFileA), .get 1 Sessions.exRead]).1
    = [⟨dmrReq exFileA, some (Key.orig (dmrReq exFileA).url), true, (dmrReq exFileA).url⟩,
       ⟨Sessions.exRead, some (Key.orig Sessions.exRead.url), false, Sessions.exRead.url⟩] := by decide +kernel
example : ∀ x ∈ (Sessions.runFile id (fun r : CK.Req => r.url) ⟨[[], []], []⟩ Sessions.exHist).1, x.1 = 1 →
    x.2.resp = x.2.req.url ∧ (x.2.key = none ∨ x.2.key = some (Key.orig x.2.req.url)) :=
  C18_bystander_shared_file id (fun r => r.url) (fun _ _ h => h) (fun _ _ h => h) _ _ 1 (Sessions.finv_nil _ _)
    (by intro ds h; cases h; rfl) (by intro files h; simp [Sessions.exHist] at h)

/-! ### transport: content coding, whole and streamed reads -/
open Pydap.Transport

/-- **Caching never changes the bytes the reader gets, for both read paths.**  Any history of GETs — each with
    its read path (whole `r.content` / streamed `r.iter_content()`), its `stream=` keyword and the cuts the
    network makes in the stream this time —, any server answering each request with a header (`none`, `gzip`,
    a coding without decoder) and a body, any decoder `unz`: when equal keys mean equal answers on the requests
    of the history (the hypothesis of `runCached_transparent`, discharged for the real keys below), the bytes
    obtained through the caching session (requests_cache stores the header and the DECODED content and replays
    them without decoding again) equal the bytes obtained through the plain session, read by read. -/
theorem C18_cached_equals_plain {α κ : Type} [DecidableEq κ] (unz : Bytes → Bytes) (key : α → κ) (srv : α → Served)
    (hist : List (Get α))
    (hks : ∀ u1 ∈ hist.map (·.req), ∀ u2 ∈ hist.map (·.req), key u1 = key u2 → srv u1 = srv u2) :
    readsCached unz key srv hist = readsPlain unz srv hist := by
  rw [readsCached_eq unz key srv hist hks, readsPlain_eq]

/-- the same with the unpatched keys (injective on the requests of the history): no hypothesis on the server -/
theorem C18_cached_equals_plain_url {α κ : Type} [DecidableEq κ] (unz : Bytes → Bytes) (key : α → κ)
    (srv : α → Served) (hist : List (Get α))
    (hinj : ∀ u1 ∈ hist.map (·.req), ∀ u2 ∈ hist.map (·.req), key u1 = key u2 → u1 = u2) :
    readsCached unz key srv hist = readsPlain unz srv hist :=
  C18_cached_equals_plain unz key srv hist (fun u1 h1 u2 h2 hk => by rw [hinj u1 h1 u2 h2 hk])

/-- the same with the consolidated keys of `patch_session_for_shared_dap_cache`, under the hypotheses of
    `C18_cache_transparent_customKey` (which carries the cache part) stated for the wire server -/
theorem C18_cached_equals_plain_customKey (unz : Bytes → Bytes) (orig : List Char → List Char)
    (horig : ∀ a b, orig a = orig b → a = b) (shared : List (List Char)) (base : Option Base)
    (srv : CK.Req → Served) (hist : List (Get CK.Req))
    (hfun : ∀ r1 ∈ hist.map (·.req), ∀ r2 ∈ hist.map (·.req), r1.url = r2.url → srv r1 = srv r2)
    (hshared : ∀ r1 ∈ hist.map (·.req), ∀ r2 ∈ hist.map (·.req), SharedDim shared base r1 r2 → srv r1 = srv r2) :
    readsCached unz (customKey orig shared base) srv hist = readsPlain unz srv hist := by
  rw [readsPlain_eq]
  refine readsCached_of_transparent unz _ srv hist
    (C18_cache_transparent_customKey orig horig shared base (storedFor unz srv) _ ?_ ?_)
  · intro r1 h1 r2 h2 e; simp only [storedFor, decoded, hfun r1 h1 r2 h2 e]
  · intro r1 h1 r2 h2 e; simp only [storedFor, decoded, hshared r1 h1 r2 h2 e]

/-- **Whole = join of the streamed chunks = the served payload, gzip or not, plain or cached.**  Under
    `unz (z b) = b` (the only fact about gzip, a hypothesis), for a server that answers every request with its
    payload either as it is or gzip-coded with the header set: on a response of a plain session, whatever the
    cuts and `stream=`, `r.content` and the concatenation of `r.iter_content()` are the payload; every read of
    every history through the caching session is the payload; and on the application path (`net.GET` +
    `decode_content()`), the whole-body readers and `app_iter` give the payload too. -/
theorem C18_read_paths_agree {α κ : Type} [DecidableEq κ] (z unz : Bytes → Bytes) (hz : ∀ b, unz (z b) = b)
    (payload : α → Bytes) (gz : α → Bool) :
    (∀ (u : α) (streamKw : Bool) (cuts : List Nat),
        readWhole (requestsSend unz streamKw ⟨(serve z payload gz u).enc, (serve z payload gz u).body, cuts⟩) = payload u ∧
        readStream (requestsSend unz streamKw ⟨(serve z payload gz u).enc, (serve z payload gz u).body, cuts⟩) = payload u) ∧
    (∀ (key : α → κ) (hist : List (Get α)),
        (∀ u1 ∈ hist.map (·.req), ∀ u2 ∈ hist.map (·.req), key u1 = key u2 → payload u1 = payload u2 ∧ gz u1 = gz u2) →
        readsCached unz key (serve z payload gz) hist = hist.map (fun g => payload g.req)) ∧
    (∀ u : α, ∃ r, appGet unz (serve z payload gz u) = .ok r ∧ appWhole unz r = payload u ∧ appStream r = payload u) := by
  have hdec : ∀ u, decoded unz (serve z payload gz) u = payload u := by
    intro u
    simp only [decoded, serve]
    cases gz u <;> simp [decodeBody, hz]
  refine ⟨?_, ?_, ?_⟩
  · intro u s cuts
    exact ⟨(read_send unz .whole s _).trans (hdec u), (read_send unz .stream s _).trans (hdec u)⟩
  · intro key hist hk
    rw [readsCached_eq unz key _ hist (fun u1 h1 u2 h2 e => by simp only [serve, (hk u1 h1 u2 h2 e).1, (hk u1 h1 u2 h2 e).2])]
    simp only [hdec]
  · intro u
    simp only [serve]
    cases gz u
    · exact ⟨_, rfl, by simp [appWhole], by simp [appStream, join]⟩
    · exact ⟨_, rfl, by simp [appWhole, hz], by simp [appStream, join, hz]⟩

/-- **The content is not vacuous: reading the urllib3 object instead of `iter_content()` breaks it** (the
    seeded change C18-w).  With the toy codec `z b = 0x1f :: b`, `unz = tail` (so `unz (z b) = b`), injective keys
    and a gzip-coding server: the second streamed read of a URL (a cache hit: `r.raw` is a `CachedHTTPResponse`
    that never decodes) hands the reader the coded bytes; the plain session hands it the payload. -/
theorem C18_raw_stream_refuted :
    ¬ (∀ (z unz : Bytes → Bytes), (∀ b, unz (z b) = b) → ∀ (payload : Nat → Bytes) (hist : List (Get Nat)),
        readsCachedRaw unz (fun u : Nat => u) (serve z payload (fun _ => true)) hist
          = readsPlain unz (serve z payload (fun _ => true)) hist) := by
  intro h
  have := h (fun b => 0x1f :: b) List.tail (fun _ => rfl) (fun _ => [7, 8]) [⟨0, .stream, true, [1]⟩, ⟨0, .stream, true, []⟩]
  revert this
  decide

/-! #### non-vacuity (toy codec `z b = 0x1f :: b`, `unz = tail`) -/
/-- a history mixing whole and streamed reads, `stream=` on and off, different cuts, two URLs, one gzip-coded:
    misses and hits, and every read is the payload -/
example : (runTrace (fun g : Get Nat => g.req) (storeOf List.tail (serve (fun b => 0x1f :: b) (fun u => [u.toUInt8, 9, 9]) (· == 1))) []
      [⟨1, .stream, true, [1, 1]⟩, ⟨2, .whole, false, []⟩, ⟨1, .whole, false, [0, 2]⟩, ⟨1, .stream, true, [5]⟩, ⟨2, .stream, true, [2]⟩]).map (·.1)
      = [false, false, true, true, true] ∧
    readsCached List.tail (fun u : Nat => u) (serve (fun b => 0x1f :: b) (fun u => [u.toUInt8, 9, 9]) (· == 1))
      [⟨1, .stream, true, [1, 1]⟩, ⟨2, .whole, false, []⟩, ⟨1, .whole, false, [0, 2]⟩, ⟨1, .stream, true, [5]⟩, ⟨2, .stream, true, [2]⟩]
      = [[1, 9, 9], [2, 9, 9], [1, 9, 9], [1, 9, 9], [2, 9, 9]] := by decide
/-- the pieces really are pieces: three chunks from the unread stream, one byte per step once consumed -/
example : (requestsSend List.tail true ⟨.gzip, [0x1f, 1, 2, 3, 4], [1, 2]⟩).iterContent = [[1], [2, 3], [4]] ∧
    (requestsSend List.tail false ⟨.gzip, [0x1f, 1, 2, 3, 4], [1, 2]⟩).iterContent = [[1], [2], [3], [4]] ∧
    (fromStored (toStored (requestsSend List.tail true ⟨.gzip, [0x1f, 1, 2, 3, 4], [1, 2]⟩))) = ⟨.gzip, some [1, 2, 3, 4], [], true⟩ := by
  decide
/-- the hypotheses of `C18_cached_equals_plain` / `C18_read_paths_agree` hold on such a history -/
example : readsCached List.tail (fun u : Nat => u) (serve (fun b => 0x1f :: b) (fun u => [u.toUInt8]) (· == 1))
      [⟨1, .stream, true, [1]⟩, ⟨1, .whole, false, []⟩]
    = readsPlain List.tail (serve (fun b => 0x1f :: b) (fun u => [u.toUInt8]) (· == 1)) [⟨1, .stream, true, [1]⟩, ⟨1, .whole, false, []⟩] :=
  C18_cached_equals_plain_url _ _ _ _ (fun _ _ _ _ h => h)
/-- a coding webob does not know raises on the application path; the requests path passes it through -/
example : appGet List.tail ⟨.other, [1]⟩ = .error .valueError ∧
    readWhole (requestsSend List.tail false ⟨.other, [1, 2], [1]⟩) = [1, 2] := ⟨rfl, by decide⟩
/-- a non-injective key does change the bytes (why `hks` is there) -/
example : readsCached List.tail (fun _ : Nat => 0) (serve (fun b => 0x1f :: b) (fun u => [u.toUInt8]) (fun _ => true))
      [⟨1, .whole, false, []⟩, ⟨2, .whole, false, []⟩]
    ≠ readsPlain List.tail (serve (fun b => 0x1f :: b) (fun u => [u.toUInt8]) (fun _ => true)) [⟨1, .whole, false, []⟩, ⟨2, .whole, false, []⟩] := by
  decide
/-! ### the tie by translation: the *source text* of the texts `consolidate_metadata` builds

Five blocks of client.py `consolidate_metadata`, translated on every run by harness/py2lean.py from the working tree
(PydapModel/Generated/ClientSrc.lean): the ELEMENT expressions of the comprehensions `dim_ces`, `new_urls`, `URLs`,
`dmr_urls`, and the statement `base_url = URLs[0].split("?")[0]`.  Interpreted by MiniPy they compute the model's
`declText` / `dimReq … .url` / `"http" + url[4:]` / `dmrReq … .url` / `baseUrlText` for every dimension name, every
size and every URL.  `results[0].dimensions[dim]` is the input `@size` (that the size is looked up in the FIRST result is
pinned by the text the generator requires).  A URL text and its `urlparse` parts are related by `urlTextOf`;
`NoQ`: host and path hold no '?' (the first '?' of a URL starts its query: `urlparse`).  Not carried: which `dim`s the
comprehensions run over and in which order (a `set`), the thread pool, `patch_session_for_shared_dap_cache`. -/

section SourceTie
open MiniPy Cons

/-- an element of `dim_ces`: `dim + "[0:1:" + str(size - 1) + "]"` is `declText` (also for size 0: `"[0:1:-1]"`) -/
theorem C18_source_dim_ce (d : List Char) (n : Nat) :
    runItem [("dim", .str (codesOf d)), ("@size", .int n)] Gen.src_consolidate_dim_ce "@elt"
      = .ok (.str (codesOf (declText d n))) := src_consolidate_dim_ce_eq d n

/-- a pre-fetch URL is `dimReq`'s: the percent-escaped form of the same constraint on the first file's base URL -/
theorem C18_source_new_url (f0 : FileIn) (d : List Char) (n : Nat) :
    runItem [("base_url", .str (codesOf (baseUrlText f0))), ("dim", .str (codesOf d)), ("@size", .int n)]
        Gen.src_consolidate_new_url "@elt"
      = .ok (.str (codesOf (dimReq f0 d n).url)) := src_consolidate_new_url_eq f0 d n

/-- `"http" + urls[i][4:]` of a `dap4://…` URL: the same URL with scheme `http` -/
theorem C18_source_http_url (f : FileIn) (hs : f.scheme = dap4Lit) :
    runItem [("@url", .str (codesOf (urlTextOf f)))] Gen.src_consolidate_http_url "@elt"
      = .ok (.str (codesOf (httpTextOf f))) := src_consolidate_http_url_eq f hs

/-- the DMR request: `url + ".dmr"` without a query, `url.replace("?", ".dmr?")` (every '?') with one -/
theorem C18_source_dmr_url (f : FileIn) (h : NoQ f) :
    runItem [("url", .str (codesOf (httpTextOf f)))] Gen.src_consolidate_dmr_url "@elt"
      = .ok (.str (codesOf (dmrReq f).url)) := src_consolidate_dmr_url_eq f h

/-- `base_url` is the first URL up to its query -/
theorem C18_source_base_url (f0 : FileIn) (h : NoQ f0) :
    runItem [("@URL0", .str (codesOf (httpTextOf f0)))] Gen.src_consolidate_base_url "base_url"
      = .ok (.str (codesOf (baseUrlText f0))) := src_consolidate_base_url_eq f0 h

/-- non-vacuity: the example file satisfies the hypotheses, and a URL with a query whose text holds a second '?' -/
example : exFileA.scheme = dap4Lit ∧ NoQ exFileA ∧
    NoQ ⟨dap4Lit, "h".toList, "/p/a.nc".toList, some "x=1?y".toList, none, [], []⟩ ∧
    (dmrReq ⟨dap4Lit, "h".toList, "/p/a.nc".toList, some "x=1?y".toList, none, [], []⟩).url
      = "http://h/p/a.nc.dmr?x=1.dmr?y".toList := by
  refine ⟨by decide, ⟨by decide, by decide⟩, ⟨by decide, by decide⟩, by decide⟩

end SourceTie

end Pydap.C18
