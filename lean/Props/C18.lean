/-
  C18 — All traffic of a dataset uses its session; cache keys.
  Session part: heap model `PydapModel/Proxy.lean` (every GET logged with the session of the
  object that issued it).  Cache part: `PydapModel/CacheKey.lean`, the model of
  `patch_session_for_shared_dap_cache` (after the repair d871e84).
  Runtime behaviour outside the model: requests/requests_cache themselves (adapter dispatch,
  expiry, storage), i.e. "with a caching session every read returns the same data" is checked
  by the harness oracle only.
-/
import PydapModel.Proxy
import PydapModel.CacheKey
import Proofs.Proxy
import Proofs.CacheKey
namespace Pydap.C18
open Pydap Pydap.Proxy

/-- a dataset opened with session `σ`: every proxy and `dataset.functions` carry `σ` -/
theorem C18_open_session (b : Name) (bs : List Name) (σ : Sess) (n : Name) (keys : List Name)
    (arrays : List (Name × List Nat × Bool)) : SessInv σ (openHeap b bs σ n keys arrays) := by
  refine ⟨?_, by simp [openHeap]⟩
  intro o ho _
  simp only [openHeap, List.mem_append, List.mem_cons, List.mem_map, List.not_mem_nil, or_false] at ho
  rcases ho with (ho | ⟨a, _, ha⟩) | ho
  · subst ho; rfl
  · subst ha; rfl
  · subst ho; rfl

/-- **Session invariant, any history**: every GET logged by any history of derivations, copies,
    reads, array reads, variable and grid reads (array and maps) and server-function calls, on any objects, carries the session the
    objects were created with — including the GETs of derived sequences, of DAP4 variables and of
    server-function results; never `none` (a fresh anonymous session). -/
theorem C18_session (σ : Sess) (h : Heap) (i : SessInv σ h) (evs : List Ev) :
    (∀ e ∈ (run h evs).log, e.1 = σ) ∧ (∀ o ∈ (run h evs).objs, carries o = true → objSess o = σ) :=
  ⟨(run_sessInv σ h i evs).2, (run_sessInv σ h i evs).1⟩

/-- the two together, from `open_url` -/
theorem C18_session_from_open (b : Name) (bs : List Name) (σ : Nat) (n : Name) (keys : List Name)
    (arrays : List (Name × List Nat × Bool)) (evs : List Ev) :
    ∀ e ∈ (run (openHeap b bs (some σ) n keys arrays) evs).log, e.1 = some σ :=
  (C18_session (some σ) _ (C18_open_session b bs (some σ) n keys arrays) evs).1

/-- what the repair of `__copy__` (13350a5) removed: a filtered sequence was fetched with no
    session (→ a fresh anonymous one in `create_request`) -/
theorem C18_session_old_refuted :
    (runOld (openHeap ['u'] [] (some 7) ['s'] [['i']] []) [.getitem 0 (.ce [['c']]), .iter 2]).log.map (·.1)
      = [none] ∧
    (run (openHeap ['u'] [] (some 7) ['s'] [['i']] []) [.getitem 0 (.ce [['c']]), .iter 2]).log.map (·.1)
      = [some 7] := by decide

/-! ### cache keys -/
open Pydap.CK

/-- **Two requests share a cache entry only if** they have the same URL, or they carry the same
    declared shared constraint, the same scheme and host, and both lie under the declared common
    base (same host as the base, path inside it on segment boundaries) — or both are Earthdata
    requests of the same provider/collection (the documented Earthdata grouping).  `orig` is the
    unpatched `create_key`, assumed injective on URLs. -/
theorem C18_cache_key (orig : List Char → List Char) (horig : ∀ a b, orig a = orig b → a = b)
    (shared : List (List Char)) (base : Option Base) (r1 r2 : CK.Req)
    (h : customKey orig shared base r1 = customKey orig shared base r2) :
    r1.url = r2.url ∨
      (r1.ce = r2.ce ∧ ∃ c, r1.ce = some c ∧ c ∈ shared ∧ r1.scheme = r2.scheme ∧ r1.host = r2.host ∧
        ((underBase base r1 = true ∧ underBase base r2 = true) ∨
         (r1.host = earthdataHost ∧ r2.host = earthdataHost ∧
            ∃ coll, findCollection r1.path = some coll ∧ findCollection r2.path = some coll))) :=
  cacheKey_collide orig horig shared base r1 r2 h

/-- "under the base" is containment on path-segment boundaries on the base's host -/
theorem C18_under_base_segment (b : Base) (r : CK.Req) :
    underBase (some b) r = true ↔
      r.host = b.host ∧ (r.path = b.path ∨ ∃ rest, r.path = rstripSlash b.path ++ '/' :: rest) :=
  underBase_segment b r

/-- and the grouping does happen for requests under the base (the consolidation is not vacuous) -/
theorem C18_cache_shared_hit (orig : List Char → List Char) (shared : List (List Char)) (b : Base) (r1 r2 : CK.Req)
    (c : List Char) (hc1 : r1.ce = some c) (hc2 : r2.ce = some c) (hin : c ∈ shared)
    (hs : r1.scheme = r2.scheme) (hh : r1.host = r2.host) (hne : r1.host ≠ earthdataHost)
    (hu1 : underBase (some b) r1 = true) (hu2 : underBase (some b) r2 = true) :
    customKey orig shared (some b) r1 = customKey orig shared (some b) r2 :=
  (cacheKey_shared_hit orig shared b r1 r2 c hc1 hc2 hin hs hh hne hu1 hu2).1

/-- what the repair d871e84 removed: with the text-prefix test `/data/set2/a.nc.dap` (and the same
    path on another host) collided with `/data/set/c.nc.dap` -/
theorem C18_cache_key_prefix_refuted :
    ¬ (∀ (shared : List (List Char)) (base : Option Base) (r1 r2 : CK.Req),
        customKeyPrefix id shared base r1 = customKeyPrefix id shared base r2 →
        r1.url = r2.url ∨ (underBase base r1 = true ∧ underBase base r2 = true) ∨
          (r1.host = earthdataHost ∧ r2.host = earthdataHost)) :=
  cacheKey_collide_prefix_refuted

/-! ### non-vacuity -/
example : SessInv (some 3) (openHeap ['u'] [] (some 3) ['s'] [['i']] [(['a'], [2], true)]) :=
  C18_open_session _ _ _ _ _ _
example : (run (openHeap ['u'] [] (some 3) ['s'] [['i']] [(['a'], [2], true)])
    [.aget 1 [Idx.int 0], .fattr 2 ['m'], .fcall 3 ['a'], .rget 4 false, .rget 4 true, .rget 4 true]).log.map (·.1)
    = [some 3, some 3, some 3, some 3] := by decide
example : underBase (some exBase) exInside = true ∧ underBase (some exBase) exSibling = false := by decide

end Pydap.C18
