/-
  C01 / C05 — how the SOURCE holds its values (the *representation*) and the encoder's dispatch on it.

  `Xdr.encImpl` speaks about values; responses/dods.py dispatches on what numpy tells it about the object
  that holds them: `data.dtype.char` (→ `NUMPY_TO_DAP2_TYPEMAP` → `DAP2_TO_NUMPY_RESPONSE_TYPEMAP`), `data.shape`,
  the items reached by iterating the first axis, `astype(wire dtype)`, `tobytes()`, and — for strings — whether a
  word is a `str` (has `.encode`) or a `bytes`.  This file models exactly that:

    `NpArr`      a numpy array as numpy holds it: dtype char, byte order, characters per item (S<n>/U<n>), shape,
                 strides (bytes, any sign, 0 for broadcast axes), offset of the first item, the memory it views
    `readElem`   one item read from memory (byte order, signedness, NUL stripping of S/U items)
    `elemsAt`    the items in logical (C) order — what `block.flat` / `astype(..).tobytes()` walk, whatever the strides
    `encArr`     `_basetype` on such an array
    `Cell`       a value inside a record of a sequence source (numpy scalar / 0-d array of some dtype, Python
                 int/float/bool, `str`, `bytes`) and `encCellsFlat`, the composite-record path of `_sequencetype`

  numpy facts used (trusted base, cross-checked by the correspondence on the real memory of real arrays):
  item sizes and kinds of the dtype chars on this platform (64-bit Linux: `l` is 8 bytes), `astype` between
  integer widths wraps modulo 2^width and keeps the bits of a float of the same width, `tobytes()` emits the
  logical C order whatever the memory order, S/U items drop trailing NULs, iteration over the first axis yields
  views with the remaining shape and strides.
-/
import PydapModel.XdrTypes
import PydapModel.Xdr
namespace Pydap.Xdr

/-- numpy dtype chars: those of `NUMPY_TO_DAP2_TYPEMAP` and three it does not know (float16, longdouble, object) -/
inductive NChar where
  | b | h | i | l | q | B | H | I | L | Q | bool | e | f | d | g | S | U | O
deriving DecidableEq, Repr, Inhabited

/-- `dtype.char` -/
def NChar.code : NChar → String
  | .b => "b" | .h => "h" | .i => "i" | .l => "l" | .q => "q"
  | .B => "B" | .H => "H" | .I => "I" | .L => "L" | .Q => "Q"
  | .bool => "?" | .e => "e" | .f => "f" | .d => "d" | .g => "g" | .S => "S" | .U => "U" | .O => "O"

def NChar.all : List NChar := [.b, .h, .i, .l, .q, .B, .H, .I, .L, .Q, .bool, .e, .f, .d, .g, .S, .U, .O]

def NChar.ofCode (s : String) : Option NChar := NChar.all.find? (fun c => c.code == s)

inductive NpKind where
  | int | uint | float | bytes | text | other
deriving DecidableEq, Repr

/-- `dtype.kind` (bool is read as the byte it is stored as) -/
def NChar.kind : NChar → NpKind
  | .b | .h | .i | .l | .q => .int
  | .B | .H | .I | .L | .Q | .bool => .uint
  | .e | .f | .d | .g => .float
  | .S => .bytes
  | .U => .text
  | .O => .other

/-- `dtype.itemsize` of the numeric chars on 64-bit Linux -/
def NChar.size : NChar → Nat
  | .b | .B | .bool => 1
  | .h | .H | .e => 2
  | .i | .I | .f => 4
  | .l | .q | .L | .Q | .d | .O => 8
  | .g => 16
  | .S | .U => 0

/-- a numpy array as numpy holds it -/
structure NpArr where
  char : NChar
  /-- `dtype.byteorder == '>'` (immaterial for one-byte items and for `S`) -/
  big : Bool
  /-- characters per item of an `S<n>` / `U<n>` dtype -/
  chars : Nat
  shape : List Nat
  /-- bytes from one item to the next along each axis: negative for reversed views, 0 for broadcast axes -/
  strides : List Int
  /-- position in `buf` of the item with index (0,…,0) -/
  offset : Nat
  buf : Bytes
deriving Repr, Inhabited

def NpArr.itemsize (a : NpArr) : Nat :=
  match a.char with
  | .S => a.chars
  | .U => 4 * a.chars
  | c => c.size

/-- unsigned value of an item's bytes in the dtype's byte order -/
def itemNat (big : Bool) (bs : Bytes) : Nat := if big then beNat bs else beNat bs.reverse

/-- two's complement reading of an unsigned `w`-byte value -/
def toSigned (w : Nat) (n : Nat) : Int :=
  if n < 2 ^ (8 * w - 1) then (n : Int) else (n : Int) - ((2 ^ (8 * w) : Nat) : Int)

/-- UCS4 code units of a `U` item -/
def groups4 : Bytes → List Bytes
  | a :: b :: c :: d :: rest => [a, b, c, d] :: groups4 rest
  | _ => []

def rstripZ (l : List Nat) : List Nat := (l.reverse.dropWhile (· == 0)).reverse

/-- what indexing delivers for one item: a number (floats: their bit pattern), a `numpy.str_` (code points)
    or a `numpy.bytes_` -/
inductive Elem where
  | num (v : Int)
  | ustr (cps : List Nat)
  | bstr (b : Bytes)
deriving DecidableEq, Repr, Inhabited

/-- the item at byte address `addr` -/
def readElem (a : NpArr) (addr : Int) : Elem :=
  let bs := (a.buf.drop addr.toNat).take a.itemsize
  match a.char.kind with
  | .int => .num (toSigned a.itemsize (itemNat a.big bs))
  | .uint => .num (itemNat a.big bs)
  | .float => .num (itemNat a.big bs)
  | .bytes => .bstr (rstrip0 bs)
  | .text => .ustr (rstripZ ((groups4 bs).map (itemNat a.big)))
  | .other => .num 0

/-- the items of the view with shape `sh` and strides `st` whose first item is at `addr`, in logical (C) order -/
def elemsAt (a : NpArr) : List Nat → List Int → Int → List Elem
  | [], _, addr => [readElem a addr]
  | n :: sh, s :: st, addr => (List.range n).flatMap fun (i : Nat) => elemsAt a sh st (addr + (i : Int) * s)
  | _ :: _, [], _ => []

def NpArr.elems (a : NpArr) : List Elem := elemsAt a a.shape a.strides a.offset

/-- the value a cell denotes; `none` for text that is not ASCII (outside the property's domain) -/
def Elem.val? : Elem → Option Val
  | .num v => some (.num v)
  | .ustr cps => if cps.all (· < 128) then some (.str (cps.map UInt8.ofNat)) else none
  | .bstr b => some (.str b)

/-- the values of a list of items; `none` when one of them is text outside ASCII -/
def valsOf? : List Elem → Option (List Val)
  | [] => some []
  | e :: es =>
    match e.val?, valsOf? es with
    | some v, some vs => some (v :: vs)
    | _, _ => none

/-- the value-level data the array holds (what the property calls "the source values") -/
def NpArr.data? (a : NpArr) : Option Data :=
  if a.shape.isEmpty then (readElem a a.offset).val?.map Data.scalar
  else (valsOf? a.elems).map Data.array

/-! ## `_basetype` on the array -/

inductive SrcErr where
  | keyError      -- `NUMPY_TO_DAP2_TYPEMAP[dtype.char]`: the dtype has no DAP2 type (an Error response, before any data)
  | unicode       -- `word.encode("ascii")` on text outside ASCII (raised while the body is streamed)
  | typeError     -- "Could not convert word … to bytes"
  | index         -- `",".join(DAP2_types).format(*padded)` with fewer lengths than string fields
deriving DecidableEq, Repr, Inhabited

/-- `x.astype(DAP2_dtype.str)` … `.tobytes()` of one item: two's complement in the wire width, big-endian -/
def castWire (ty : Ty) : Elem → Bytes
  | .num v => toWire ty (.num v)
  | _ => []

/-- the string branch for one word: `len(word)`, then `word.encode("ascii")` for a `str`, `bytes(word)` for a
    `bytes`, then the padding (the length word is yielded before `encode` can raise: a failure cuts the stream) -/
def encWord : Elem → Except SrcErr Bytes
  | .ustr cps =>
      if cps.all (· < 128) then .ok (lengthWord cps.length ++ cps.map UInt8.ofNat ++ zeros (pad4 cps.length))
      else .error .unicode
  | .bstr b => .ok (lengthWord b.length ++ b ++ zeros (pad4 b.length))
  | .num _ => .error .typeError

/-- `for word in block.flat:` … — the first word that cannot be converted ends the stream -/
def encWords : List Elem → Except SrcErr Bytes
  | [] => .ok []
  | e :: es =>
    match encWord e with
    | .error x => .error x
    | .ok w =>
      match encWords es with
      | .error x => .error x
      | .ok ws => .ok (w ++ ws)

/-- `for block in data`: the views along the first axis, each as its items in logical order -/
def blocks (a : NpArr) : List Nat → List Int → List (List Elem)
  | n :: sh, s :: st => (List.range n).map fun (i : Nat) => elemsAt a sh st ((a.offset : Int) + (i : Int) * s)
  | _, _ => []

/-- `tostring_with_byteorder(block, DAP2_dtype)` for every block -/
def blocksWire (ty : Ty) (bl : List (List Elem)) : Bytes :=
  (bl.map fun blk => (blk.map (castWire ty)).flatten).flatten

/-- `_basetype(var)` with `var.data` the array `a` -/
def encArr (a : NpArr) : Except SrcErr Bytes :=
  match tyOfNumpyChar a.char.code with
  | none => .error .keyError
  | some ty =>
    let factor := if wireChar ty = 'S' then 1 else 2
    -- `if data.shape:` the length, `factor` times
    let hdr := if a.shape.isEmpty then [] else (List.replicate factor (lengthWord (prod a.shape))).flatten
    -- `if len(data.shape) == 0: data = data[np.newaxis]`
    let sh := if a.shape.isEmpty then [1] else a.shape
    let st := if a.shape.isEmpty then [0] else a.strides
    let bl := blocks a sh st
    if wireStr ty = "B" then
      .ok (hdr ++ blocksWire ty bl ++ zeros (pad4 (prod sh)))
    else if wireChar ty = 'S' then
      -- `for block in data: for word in block.flat:`
      match encWords bl.flatten with
      | .error x => .error x
      | .ok ws => .ok (hdr ++ ws)
    else
      .ok (hdr ++ blocksWire ty bl)

/-- `var.dtype` → the DAP2 type the DDS declares -/
def NpArr.ty? (a : NpArr) : Option Ty := tyOfNumpyChar a.char.code

/-- the array holds, as DAP2 type `ty` with shape `sh`, exactly the data `d` -/
def Holds (a : NpArr) (ty : Ty) (sh : List Nat) (d : Data) : Prop :=
  a.ty? = some ty ∧ a.shape = sh ∧ a.data? = some d

/-! ## building an array in a chosen representation (used for the non-vacuity examples and by the harness's
    machinery check `xdr-src-store`: the model's memory = numpy's memory) -/

/-- the bytes of one numeric item of width `w` -/
def itemBytes (big : Bool) (w : Nat) (v : Int) : Bytes :=
  let bs := be w (v % ((256 : Int) ^ w)).toNat
  if big then bs else bs.reverse

/-- a C-contiguous array of numeric items -/
def storeC (c : NChar) (big : Bool) (shape : List Nat) (vs : List Int) : NpArr :=
  { char := c, big := big, chars := 0, shape := shape,
    strides := (List.range shape.length).map (fun k => ((c.size * prod (shape.drop (k + 1)) : Nat) : Int)),
    offset := 0, buf := (vs.map (itemBytes big c.size)).flatten }

/-! ## representations as parameters: `Rep.build` -/

/-- a representation of a numeric array that the builder below realises: dtype char (item width, signedness),
    byte order, `step` ≥ 1 (the array is every `step`-th item of a larger C-contiguous buffer along its last
    axis; 1 = contiguous), `pre` bytes of the buffer before the first item (a view that starts inside its base),
    `fill`: what the bytes between and before the items hold -/
structure Rep where
  char : NChar
  big : Bool
  step : Nat
  pre : Nat
  fill : UInt8
deriving Repr

/-- the array holding `vs` (logical order) with shape `shape` in representation `r` -/
def Rep.build (r : Rep) (shape : List Nat) (vs : List Int) : NpArr :=
  { char := r.char, big := r.big, chars := 0, shape := shape,
    strides := (List.range shape.length).map
      (fun i => ((r.char.size * r.step * prod (shape.drop (i + 1)) : Nat) : Int)),
    offset := r.pre,
    buf := List.replicate r.pre r.fill ++
      (vs.map fun v => itemBytes r.big r.char.size v ++ List.replicate ((r.step - 1) * r.char.size) r.fill).flatten }

/-! ## a record of a sequence source -/

/-- a value inside a source record -/
inductive Cell where
  /-- a numpy scalar / 0-d array of dtype char `c` holding `v`; Python `int` is `l`, `float` is `d`, `bool` is `?` -/
  | num (c : NChar) (v : Int)
  /-- a `str` (`numpy.str_` included; IterData/`iterdata()` also deliver a `numpy.bytes_` decoded to this) -/
  | ustr (cps : List Nat)
  /-- a Python `bytes` -/
  | bstr (b : Bytes)
deriving DecidableEq, Repr, Inhabited

/-- `np.array(x).dtype.char`: how `IterData.dtype` types a column from the first record -/
def Cell.char : Cell → NChar
  | .num c _ => c
  | .ustr _ => .U
  | .bstr _ => .S

def Cell.ty? (c : Cell) : Option Ty := tyOfNumpyChar c.char.code

def Cell.val? : Cell → Option Val
  | .num _ v => some (.num v)
  | .ustr cps => if cps.all (· < 128) then some (.str (cps.map UInt8.ofNat)) else none
  | .bstr b => some (.str b)

/-- the flat path of `_sequencetype`, one record: a value given as a 0-d array is first taken as the scalar it holds
    (`value[()]`, fix 87868e0: cells do not distinguish the two); `if isinstance(value, (str, bytes)):` the length goes in front and the
    field is `|S{padded}`; the tuple is assigned to a one-record array of the composite wire dtype (numpy converts
    every number into its big-endian wire field; text is encoded as ASCII) and its bytes are sent -/
def encCellFlat (ty : Ty) : Cell → Except SrcErr Bytes
  | .num _ v => .ok (toWire ty (.num v))
  | .ustr cps =>
      if cps.all (· < 128) then .ok (lengthWord cps.length ++ cps.map UInt8.ofNat ++ zeros (pad4 cps.length))
      else .error .unicode
  | .bstr b => .ok (lengthWord b.length ++ b ++ zeros (pad4 b.length))

/-- one record on the flat path: the column types are those of the declaration -/
def encCellsFlat : List Ty → List Cell → Except SrcErr Bytes
  | ty :: tys, c :: cs =>
      match encCellFlat ty c, encCellsFlat tys cs with
      | .ok x, .ok y => .ok (x ++ y)
      | .error e, _ => .error e
      | _, .error e => .error e
  | _, _ => .ok []

/-- the values of the cells of a record; `none` when one of them is text outside ASCII -/
def cellVals? : List Cell → Option (List Val)
  | [] => some []
  | c :: cs =>
    match c.val?, cellVals? cs with
    | some v, some vs => some (v :: vs)
    | _, _ => none

/-! ## scalars and the general path: `BaseType._set_data` turns a value into `np.array(value)` -/

/-- the values an item of dtype char `c` can hold (floats: every bit pattern of the width) -/
def NChar.holds (c : NChar) (v : Int) : Bool :=
  match c.kind with
  | .int => decide (-((2 : Int) ^ (8 * c.size - 1)) ≤ v ∧ v < (2 : Int) ^ (8 * c.size - 1))
  | .uint => decide (0 ≤ v ∧ v < (2 : Int) ^ (8 * c.size))
  | .float => decide (0 ≤ v ∧ v < (2 : Int) ^ (8 * c.size))
  | _ => false

/-- an `S<n>` item: the bytes, NUL-padded to `n` -/
def sItem (n : Nat) (b : Bytes) : Bytes := b ++ zeros (n - b.length)

/-- a `U<n>` item: one 4-byte code unit per code point, NUL-padded to `n` -/
def uItem (big : Bool) (n : Nat) (cps : List Nat) : Bytes :=
  ((cps ++ List.replicate (n - cps.length) 0).map fun (cp : Nat) => itemBytes big 4 (cp : Int)).flatten

/-- `np.array(x)` of a value `x` of a record (what `BaseType._set_data` makes of it when the record is assigned to
    the template structure on the general path): a 0-d array of the value's own dtype — `S<max(len,1)>` for bytes,
    `U<max(len,1)>` for str; `big`: the byte order a 0-d array cell may have -/
def Cell.toArr (big : Bool) : Cell → NpArr
  | .num c v => storeC c big [] [v]
  | .ustr cps => ⟨.U, big, max cps.length 1, [], [], 0, uItem big (max cps.length 1) cps⟩
  | .bstr b => ⟨.S, big, max b.length 1, [], [], 0, sItem (max b.length 1) b⟩

/-- the cell is a possible one: a number held in dtype char `c` is a value of that dtype -/
def Cell.ok : Cell → Bool
  | .num c v => c.holds v
  | _ => true

/-- the general path of `_sequencetype`, one record: `struct.data = record` (every value becomes `np.array(value)`:
    `BaseType._set_data`), then `dods(struct)`, i.e. `_basetype` on each 0-d array; the flag is the byte order of a
    cell that is a 0-d array -/
def encCellsGeneral : List (Bool × Cell) → Except SrcErr Bytes
  | [] => .ok []
  | c :: cs =>
    match encArr (c.2.toArr c.1), encCellsGeneral cs with
    | .ok x, .ok y => .ok (x ++ y)
    | .error e, _ => .error e
    | _, .error e => .error e

/-! ## whole sequences: rows of cells (IterData) and structured arrays (numpy-backed sequences) -/

/-- `_sequencetype` on a source whose records are given as cells (the flag is the byte order of a cell that is a 0-d
    array; it matters on the general path only): the flat path when no column is a Byte, else the general path; per
    record START, after the loop END.  The column types are those the DDS declares. -/
def encRowsCells (tys : List Ty) : List (List (Bool × Cell)) → Except SrcErr Bytes
  | [] => .ok Gen.END_OF_SEQUENCE
  | r :: rs =>
    let rec1 := if flatCols (tys.map fun ty => .base ty []) then encCellsFlat tys (r.map (·.2)) else encCellsGeneral r
    match rec1, encRowsCells tys rs with
    | .ok x, .ok y => .ok (Gen.START_OF_SEQUENCE ++ x ++ y)
    | .error e, _ => .error e
    | _, .error e => .error e

/-- the values the rows of cells hold -/
def rowsVals? : List (List (Bool × Cell)) → Option (List (List Val))
  | [] => some []
  | r :: rs =>
    match cellVals? (r.map (·.2)), rowsVals? rs with
    | some v, some vs => some (v :: vs)
    | _, _ => none

/-- what iterating a structured array delivers for one field of one record, after `decode_np_strings`
    (`SequenceType.iterdata`): a numpy scalar of the field's dtype, a `numpy.str_`, or — for an `S` field — the `str`
    the bytes decode to (UTF-8; modelled on ASCII bytes, where it is the identity on code points) -/
def cellOfElem (c : NChar) : Elem → Option Cell
  | .num v => some (.num c v)
  | .ustr cps => some (.ustr cps)
  | .bstr b => if b.all (fun x => x.toNat < 128) then some (.ustr (b.map fun x => x.toNat)) else none

/-- record `i` of a structured array given by its fields: each field is a 1-d strided view of the records
    (`arr[name]`: the field's dtype char and byte order, offset of the field in the first record, stride = record size) -/
def recordCells : List NpArr → Nat → Option (List (Bool × Cell))
  | [], _ => some []
  | a :: as, i =>
    match a.strides with
    | s :: _ =>
      match cellOfElem a.char (readElem a ((a.offset : Int) + (i : Int) * s)), recordCells as i with
      | some c, some cs => some ((false, c) :: cs)
      | _, _ => none
    | [] => none

/-- the records `0 … n-1` -/
def recordsOf (fields : List NpArr) : Nat → Option (List (List (Bool × Cell)))
  | 0 => some []
  | n + 1 =>
    match recordsOf fields n, recordCells fields n with
    | some rs, some r => some (rs ++ [r])
    | _, _ => none

/-- `_sequencetype` on a numpy-backed sequence of `n` records -/
def encSeqFields (tys : List Ty) (fields : List NpArr) (n : Nat) : Except SrcErr Bytes :=
  match recordsOf fields n with
  | some rows => encRowsCells tys rows
  | none => .error .unicode

/-! ## a dataset whose leaves are held as arrays -/

/-- a served variable: a BaseType holding an array, a container of such, or a member described at value level
    (sequences: their records are `Cell`s, see above) -/
inductive Src where
  | arr (a : NpArr)
  | val (t : Tmpl) (d : Data)
  | struct (cs : List Src)
deriving Inhabited

mutual
/-- `dods(var)` on the source -/
def encSrc : Src → Except SrcErr Bytes
  | .arr a => encArr a
  | .val t d => .ok (encImpl t d)
  | .struct cs => encSrcs cs
def encSrcs : List Src → Except SrcErr Bytes
  | [] => .ok []
  | c :: cs =>
    match encSrc c with
    | .error e => .error e
    | .ok x =>
      match encSrcs cs with
      | .error e => .error e
      | .ok y => .ok (x ++ y)
end

mutual
/-- what the source declares and holds, at value level -/
def Src.view? : Src → Option (Tmpl × Data)
  | .arr a =>
    match a.ty?, a.data? with
    | some ty, some d => some (.base ty a.shape, d)
    | _, _ => none
  | .val t d => some (t, d)
  | .struct cs => (Src.views? cs).map fun p => (.struct p.1, .tuple p.2)
def Src.views? : List Src → Option (List Tmpl × List Data)
  | [] => some ([], [])
  | c :: cs =>
    match c.view?, Src.views? cs with
    | some p, some q => some (p.1 :: q.1, p.2 :: q.2)
    | _, _ => none
end

end Pydap.Xdr
