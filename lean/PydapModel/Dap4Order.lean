/-
  The order in which `UNPACKDAP4DATA.unpack_dap4_data` (handlers/dap.py) consumes the variables:
  `sorted(walk(dataset, BaseType), key=lambda v: order.get(<path>/<name>, len(order)))` with
  `order` = position in `get_variables(DMRParser(dmr).node)`, under the quoted name (fix 182bd6b).
-/
import PydapModel.Dmr
namespace Pydap.Dmr

/-- the name under which a walked variable is looked up in `order`:
    `v.name if v.path is None else v.path + "/" + v.name` (`v.name` is the quoted short name) -/
def walkKey (r : VarRec) : Str :=
  match r.path with
  | none => quoteName r.name
  | some p => p ++ '/' :: quoteName r.name

/-- `sorted(…, key=f)` is stable; so is insertion from the right -/
def insertBy {α} (f : α → Nat) (x : α) : List α → List α
  | [] => [x]
  | y :: ys => if f x ≤ f y then x :: y :: ys else y :: insertBy f x ys

def sortBy {α} (f : α → Nat) : List α → List α
  | [] => []
  | x :: xs => insertBy f x (sortBy f xs)

/-- `order.get(key, len(order))` -/
def orderIndex (keys : List Str) (k : Str) : Nat := keys.idxOf k

/-- the variables in the order their data is cut from the buffer -/
def decodeOrder (root : XNode) : Except Err (List VarRec) := do
  let ws ← datasetWalk root
  let keys := (dictOfLog (getVariables root [])).map fun kv => quoteName kv.1     -- `{_quote(name): i …}`
  pure (sortBy (fun r => orderIndex keys (walkKey r)) ws)

end Pydap.Dmr
