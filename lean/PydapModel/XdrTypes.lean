/-
  Shared vocabulary of the DAP2/XDR development (C01, C05): DAP2 atomic types, values,
  declarations (`Tmpl`), data (`Data`), well-formedness, big-endian words.
  Core Lean only.  Widths and markers come from `Pydap.Gen` (regenerated from lib.py).
-/
import PydapModel.Generated.Tables
namespace Pydap.Xdr

abbrev Bytes := List UInt8

/-- the eight DAP2 atomic types of the property's domain -/
inductive Ty where
  | byte | int16 | uint16 | int32 | uint32 | float32 | float64 | string
deriving DecidableEq, Repr, Inhabited

/-- the DAP2 type name used as key of `DAP2_TO_NUMPY_RESPONSE_TYPEMAP` -/
def Ty.name : Ty → String
  | .byte => "Byte" | .int16 => "Int16" | .uint16 => "UInt16" | .int32 => "Int32"
  | .uint32 => "UInt32" | .float32 => "Float32" | .float64 => "Float64" | .string => "String"

/-- `type.lower()`, the key of `LOWER_DAP2_TO_NUMPY_PARSER_TYPEMAP` (spelled out: `String.toLower` does
    not reduce in the kernel) -/
def Ty.lname : Ty → String
  | .byte => "byte" | .int16 => "int16" | .uint16 => "uint16" | .int32 => "int32"
  | .uint32 => "uint32" | .float32 => "float32" | .float64 => "float64" | .string => "string"

def Ty.all : List Ty := [.byte, .int16, .uint16, .int32, .uint32, .float32, .float64, .string]

def Ty.ofName (s : String) : Option Ty := Ty.all.find? (fun t => t.name == s)

/-- `numpy.dtype(s).itemsize` for the dtype strings that occur in lib.py's tables (`S` = 0: variable) -/
def dtypeItemsize : String → Option Nat
  | ">d" => some 8 | ">f" => some 4 | ">i" => some 4 | ">I" => some 4
  | ">h" => some 2 | ">H" => some 2 | "B" => some 1 | "S" => some 0 | "|S128" => some 128
  | _ => none

/-- `numpy.dtype(s).char` -/
def dtypeChar : String → Option Char
  | ">d" => some 'd' | ">f" => some 'f' | ">i" => some 'i' | ">I" => some 'I'
  | ">h" => some 'h' | ">H" => some 'H' | "B" => some 'B' | "S" => some 'S' | "|S128" => some 'S'
  | _ => none

/-- `DAP2_TO_NUMPY_RESPONSE_TYPEMAP[ty]` -/
def wireStr (t : Ty) : String := (Gen.DAP2_TO_NUMPY_RESPONSE_TYPEMAP.lookup t.name).getD "?"

/-- `LOWER_DAP2_TO_NUMPY_PARSER_TYPEMAP[ty.lower()]` -/
def parserStr (t : Ty) : String := (Gen.LOWER_DAP2_TO_NUMPY_PARSER_TYPEMAP.lookup t.lname).getD "?"

/-- `DAP2_response_dtypemap(dtype).itemsize`: bytes one element occupies on the wire (0 for strings;
    0 as well when the table has no entry — the table theorems of C05 exclude that) -/
def wireWidth (t : Ty) : Nat := (dtypeItemsize (wireStr t)).getD 0

/-- width of the dtype the DDS parser declares for the type (what the client hands to the user) -/
def parserWidth (t : Ty) : Nat := (dtypeItemsize (parserStr t)).getD 0

/-- `DAP2_response_dtypemap(dtype).char` -/
def wireChar (t : Ty) : Char := (dtypeChar (wireStr t)).getD '?'

def parserChar (t : Ty) : Char := (dtypeChar (parserStr t)).getD '?'

/-- DAP2 type a numpy dtype char is served as (`NUMPY_TO_DAP2_TYPEMAP`) -/
def tyOfNumpyChar (c : String) : Option Ty := (Gen.NUMPY_TO_DAP2_TYPEMAP.lookup c).bind Ty.ofName

/-- values: numbers are integers (floats are opaque IEEE bit patterns, read as unsigned
    integers of their width); strings are byte lists -/
inductive Val where
  | num (v : Int)
  | str (b : Bytes)
deriving DecidableEq, Repr, Inhabited

/-- printable ASCII, the property's string domain -/
def printable (b : UInt8) : Bool := 32 ≤ b.toNat && b.toNat ≤ 126

/-- value domain of each type (Float32/Float64: every bit pattern) -/
def wfVal : Ty → Val → Bool
  | .byte, .num v => 0 ≤ v && v < 256
  | .int16, .num v => -32768 ≤ v && v < 32768
  | .uint16, .num v => 0 ≤ v && v < 65536
  | .int32, .num v => -2147483648 ≤ v && v < 2147483648
  | .uint32, .num v => 0 ≤ v && v < 4294967296
  | .float32, .num v => 0 ≤ v && v < 4294967296
  | .float64, .num v => 0 ≤ v && v < 18446744073709551616
  | .string, .str b => b.all printable && b.length < 2147483648
  | _, _ => false

/-- declarations.  `shape = []` is a scalar (`if shape:` in the Python).  Datasets, Structures and
    Grids are all `struct` (a Grid is the structure array ‖ maps). Names do not reach the XDR bytes. -/
inductive Tmpl where
  | base (ty : Ty) (shape : List Nat)
  | struct (cs : List Tmpl)
  | seq (cs : List Tmpl)
deriving Repr, Inhabited

/-- data.  `rows` holds one `tuple` per record. -/
inductive Data where
  | scalar (v : Val)
  | array (vs : List Val)
  | tuple (ds : List Data)
  | rows (rs : List Data)
deriving Repr, Inhabited

def prod : List Nat → Nat
  | [] => 1
  | n :: ns => n * prod ns

/-- admissible sequence columns: base-type columns are scalars -/
def seqCols : List Tmpl → Bool
  | [] => true
  | .base _ sh :: cs => sh.isEmpty && seqCols cs
  | _ :: cs => seqCols cs

mutual
/-- data `d` is a value of declaration `t`: shapes and lengths match, values are in range;
    sequence columns are scalars, structures or sequences (pydap cannot serve array columns);
    containers are non-empty (an empty Structure makes `unpack_children` recurse forever) -/
def WF : Tmpl → Data → Bool
  | .base ty [], .scalar v => wfVal ty v
  | .base ty (n :: ns), .array vs =>
      vs.length == prod (n :: ns) && vs.all (wfVal ty) && decide (vs.length < 2147483648)
  | .struct cs, .tuple ds => !cs.isEmpty && WFs cs ds
  | .seq cs, .rows rs => !cs.isEmpty && seqCols cs && WFrows cs rs
  | _, _ => false
def WFs : List Tmpl → List Data → Bool
  | [], [] => true
  | c :: cs, d :: ds => WF c d && WFs cs ds
  | _, _ => false
def WFrows : List Tmpl → List Data → Bool
  | _, [] => true
  | cs, .tuple ds :: rs => WFs cs ds && WFrows cs rs
  | _, _ => false
end

/-! ### big-endian words -/

/-- `k` bytes, most significant first, of `n mod 256^k` -/
def be : Nat → Nat → Bytes
  | 0, _ => []
  | k + 1, n => be k (n / 256) ++ [UInt8.ofNat (n % 256)]

/-- unsigned big-endian value of a byte string -/
def beNat (bs : Bytes) : Nat := bs.foldl (fun a b => a * 256 + b.toNat) 0

/-- XDR padding to a multiple of four: Python's `-n % 4` -/
def pad4 (n : Nat) : Nat := (4 - n % 4) % 4

def zeros (n : Nat) : Bytes := List.replicate n 0

end Pydap.Xdr
