/-
  Model of the DMR that pydap's server writes (responses/dmr.py `dmr()` dispatcher) for a dataset of
  groups and numeric variables, as the element tree of that text (ElementTree is trusted for text → tree).
  Since fix 02bf132 the attributes of a variable are written with DAP4 type names (`_attribute_type`), one
  `<Value>` per value, and its Maps as `<Map name=…/>` children: both are modelled for variables.  Attributes of
  groups and of the dataset are written by the same helper but are not part of this model.
-/
import PydapModel.DmrSpec
namespace Pydap.Dmr

/-- one value of a served attribute, by what `_attribute_type` looks at (`np.asarray(value).dtype`): an integer
    (Python `int` = signed 8 bytes; numpy integers of 2^lg bytes), a float (`float` / `float64`, or `float32`)
    with its `str()`, or text (`str`, `bytes`, `bool`, anything else: `str(value)`) -/
inductive SrvVal where
  | int (unsigned : Bool) (lg : Fin 4) (i : Int)
  | float (double : Bool) (text : Str)
  | text (s : Str)
deriving Repr

/-- `prefix + str(8 * itemsize)` -/
def intTag : Bool → Fin 4 → Str
  | false, 0 => "Int8".toList | false, 1 => "Int16".toList | false, 2 => "Int32".toList | false, 3 => "Int64".toList
  | true, 0 => "UInt8".toList | true, 1 => "UInt16".toList | true, 2 => "UInt32".toList | true, 3 => "UInt64".toList

/-- `_attribute_type(value)` -/
def SrvVal.tag : SrvVal → Str
  | .int u lg _ => intTag u lg
  | .float d _ => if d then "Float64".toList else "Float32".toList
  | .text _ => "String".toList

/-- `str(value)` -/
def SrvVal.str : SrvVal → Str
  | .int _ _ i => intText i
  | .float _ t => t
  | .text s => s

/-- an attribute of a served variable: a scalar is one value, a list or tuple its elements -/
structure SrvAttr where
  name : Str
  values : List SrvVal
deriving Repr

/-- the `type` written: that of the first value (`String` for an empty list) -/
def SrvAttr.tag (a : SrvAttr) : Str :=
  match a.values with
  | [] => "String".toList
  | v :: _ => v.tag

/-- `_attribute(key, value, level)`: `<Attribute name type>` with one `<Value>text</Value>` per value -/
def srvAttrNode (a : SrvAttr) : XNode :=
  .mk "Attribute".toList [("name".toList, a.name), ("type".toList, a.tag)] none
    (a.values.map fun v => .mk "Value".toList [] (some v.str) [])

/-- a `BaseType`: numpy kind and `str(dtype)`, `var.dims` (the fully qualified names it was created with),
    each paired with the extent of `var.data` along that axis, its attributes (without `dims`, `Maps`) and `Maps` -/
structure SrvVar where
  name : Str
  kind : Char
  dtypeName : Str
  dims : List (Str × Int)
  attrs : List SrvAttr := []
  maps : List Str := []
deriving Repr

/-- `children()` of a container in dict order; a group carries its `dimensions` attribute -/
inductive SrvTree where
  | nil
  | var (v : SrvVar) (rest : SrvTree)
  | group (name : Str) (dims : List (Str × Nat)) (kids : SrvTree) (rest : SrvTree)
deriving Repr

def srvDimension (d : Str × Nat) : XNode :=
  .mk "Dimension".toList [("name".toList, d.1), ("size".toList, natDigits d.2)] none []

/-- `_basetype`: `<Tag name=…>` + one `<Dim name=…/>` per entry of `var.dims`, the attributes, one `<Map name=…/>`
    per entry of `Maps` -/
def srvVarNode (v : SrvVar) : XNode :=
  .mk (dmrTypeTag v.kind v.dtypeName) [("name".toList, v.name)] none
    ((v.dims.map fun d => .mk "Dim".toList [("name".toList, d.1)] none [])
      ++ (v.attrs.map srvAttrNode ++ v.maps.map renderMap))

/-- `_grouptype`: the group's dimensions first, then its children -/
def srvNodes : SrvTree → List XNode
  | .nil => []
  | .var v rest => srvVarNode v :: srvNodes rest
  | .group n dims kids rest =>
    .mk "Group".toList [("name".toList, n)] none (dims.map srvDimension ++ srvNodes kids) :: srvNodes rest

/-- the `Dataset` element: xml:base, dapVersion, dmrVersion, name; root dimensions first, then the children -/
def renderServer (name : Str) (dims : List (Str × Nat)) (kids : SrvTree) : XNode :=
  .mk "Dataset".toList
    [("{http://www.w3.org/XML/1998/namespace}base".toList, "http://localhost:8001".toList),
     ("dapVersion".toList, "4.0".toList), ("dmrVersion".toList, "1.0".toList), ("name".toList, name)]
    none (dims.map srvDimension ++ srvNodes kids)

/-! ### the same dataset as an abstract spec (what the served dataset *is*) -/

/-- what a served value *is*: the integer, the float (its text), the string -/
def SrvVal.sval : SrvVal → SVal
  | .int _ _ i => .int (intText i) i
  | .float _ t => .float t
  | .text s => .str s

def srvAttrSpec (a : SrvAttr) : SAttr := ⟨a.name, a.tag, none, a.values.map fun v => (true, v.sval)⟩

/-- the values of one attribute are of one kind (all integers, all floats or all text): what a list attribute of
    a dataset is expected to be — the type written is that of the first value -/
def SrvAttr.homog (a : SrvAttr) : Prop :=
  (∀ v ∈ a.values, ∃ u lg i, v = .int u lg i) ∨ (∀ v ∈ a.values, ∃ d t, v = .float d t)
    ∨ (∀ v ∈ a.values, ∃ s, v = .text s)

def srvVarSpec (v : SrvVar) : SVar :=
  ⟨dmrTypeTag v.kind v.dtypeName, v.name, v.dims.map fun d => .named d.1 d.2, v.attrs.map srvAttrSpec, v.maps⟩

def dimsSpec : List (Str × Nat) → Spec → Spec
  | [], rest => rest
  | d :: ds, rest => .dim d.1 d.2 (dimsSpec ds rest)

def srvSpec : SrvTree → Spec
  | .nil => .nil
  | .var v rest => .var (srvVarSpec v) (srvSpec rest)
  | .group n dims kids rest => .group n (dimsSpec dims (srvSpec kids)) (srvSpec rest)

/-- the served variables in `children()` order, depth first, with their group paths (as the client stores them:
    `_quote` of the served group names — a served name is already a stored name, quoting it again changes nothing) -/
def srvVars (path : List Str) : SrvTree → List (List Str × SrvVar)
  | .nil => []
  | .var v rest => (path, v) :: srvVars path rest
  | .group n _ kids rest => srvVars (path ++ [quoteName n]) kids ++ srvVars path rest

/-- what the client must get back for a served variable: key/name/path, the parser's dtype string `dt`,
    the dimension names it was created with, the shape of its data, its Maps, and every attribute under its name
    with its values — integers as integers, floats as `float(str(value))`, text as text; one value comes back as a
    scalar, several as the list, none as `None` (a one-element list and a scalar are the same DMR) -/
def srvExpect (dt : Str) (path : List Str) (v : SrvVar) : VarRec :=
  { key := keyOf path v.name, name := v.name, path := if path = [] then none else some (pathStr path),
    dtype := dt, dims := v.dims.map (·.1), shape := v.dims.map (·.2), maps := v.maps.map some,
    attrs := v.attrs.map fun a => (a.name, (srvAttrSpec a).expected) }

end Pydap.Dmr
