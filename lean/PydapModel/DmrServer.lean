/-
  Model of the DMR that pydap's server writes (responses/dmr.py `dmr()` dispatcher) for a dataset of
  groups and numeric variables, as the element tree of that text (ElementTree is trusted for text → tree).
  Served attributes are outside the model (the renderer writes Python type names for them); `<Map>` output is
  unclosed XML and is not modelled either.
-/
import PydapModel.DmrSpec
namespace Pydap.Dmr

/-- a `BaseType`: numpy kind and `str(dtype)`, `var.dims` (the fully qualified names it was created with),
    each paired with the extent of `var.data` along that axis -/
structure SrvVar where
  name : Str
  kind : Char
  dtypeName : Str
  dims : List (Str × Int)
deriving Repr

/-- `children()` of a container in dict order; a group carries its `dimensions` attribute -/
inductive SrvTree where
  | nil
  | var (v : SrvVar) (rest : SrvTree)
  | group (name : Str) (dims : List (Str × Nat)) (kids : SrvTree) (rest : SrvTree)
deriving Repr

def srvDimension (d : Str × Nat) : XNode :=
  .mk "Dimension".toList [("name".toList, d.1), ("size".toList, natDigits d.2)] none []

/-- `_basetype`: `<Tag name=…>` + one `<Dim name=…/>` per entry of `var.dims` -/
def srvVarNode (v : SrvVar) : XNode :=
  .mk (dmrTypeTag v.kind v.dtypeName) [("name".toList, v.name)] none
    (v.dims.map fun d => .mk "Dim".toList [("name".toList, d.1)] none [])

/-- `_grouptype`: the group's dimensions first, then its children -/
def srvNodes : SrvTree → List XNode
  | .nil => []
  | .var v rest => srvVarNode v :: srvNodes rest
  | .group n dims kids rest =>
    .mk "Group".toList [("name".toList, n)] none (dims.map srvDimension ++ srvNodes kids) :: srvNodes rest

/-- the `Dataset` element: xml:base, dapVersion, dmrVersion, name; root dimensions first, then the children -/
def renderServer (name : Str) (dims : List (Str × Nat)) (kids : SrvTree) : XNode :=
  .mk "Dataset".toList
    [("{http://www.w3.org/XML/1998/namespace}base".toList, "http://localhost:8001".toList),
     ("dapVersion".toList, "4.0".toList), ("dmrVersion".toList, "1.0".toList), ("name".toList, name)]
    none (dims.map srvDimension ++ srvNodes kids)

/-! ### the same dataset as an abstract spec (what the served dataset *is*) -/

def srvVarSpec (v : SrvVar) : SVar :=
  ⟨dmrTypeTag v.kind v.dtypeName, v.name, v.dims.map fun d => .named d.1 d.2, [], []⟩

def dimsSpec : List (Str × Nat) → Spec → Spec
  | [], rest => rest
  | d :: ds, rest => .dim d.1 d.2 (dimsSpec ds rest)

def srvSpec : SrvTree → Spec
  | .nil => .nil
  | .var v rest => .var (srvVarSpec v) (srvSpec rest)
  | .group n dims kids rest => .group n (dimsSpec dims (srvSpec kids)) (srvSpec rest)

/-- the served variables in `children()` order, depth first, with their group paths (as the client stores them:
    `_quote` of the served group names — a served name is already a stored name, quoting it again changes nothing) -/
def srvVars (path : List Str) : SrvTree → List (List Str × SrvVar)
  | .nil => []
  | .var v rest => (path, v) :: srvVars path rest
  | .group n _ kids rest => srvVars (path ++ [quoteName n]) kids ++ srvVars path rest

/-- what the client must get back for a served variable: key/name/path, the parser's dtype string `dt`,
    the dimension names it was created with, the shape of its data -/
def srvExpect (dt : Str) (path : List Str) (v : SrvVar) : VarRec :=
  { key := keyOf path v.name, name := v.name, path := if path = [] then none else some (pathStr path),
    dtype := dt, dims := v.dims.map (·.1), shape := v.dims.map (·.2), maps := [], attrs := [] }

end Pydap.Dmr
