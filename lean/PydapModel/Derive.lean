/-
  C14 — "a derived object reads the same data as a fresh client applying the same selection".

  A derivation chain of the client (`handlers/dap.py` `SequenceProxy.__getitem__`, every key kind the
  property names): column lists, filters written with the comparison operators on the columns of the
  object itself (`filt`) or of the opened sequence (`colfilt`), slices, integer indices, and the child
  `seq["name"]` (a single column; after it only slices, integers and `colfilt`).

  `keyOfStep` is the `__getitem__` key the step hands to the proxy model of `PydapModel/Proxy.lean`
  (`seqApply`); the request the derived proxy writes is `SeqClient.objQuery` (with the single-column
  branch of `_projection`, `SeqClient.projFull`), the server is `SeqClient.serveQuery` (C04).

  `refSelection` is the reference: it contains no pydap code.  It reads the chain by name on the
  source rows: all conditions, then the record ranges in the order they were applied (Python slicing
  of a list, `pySlice`), then the columns of the last column list / the child.  It is the Lean
  counterpart of `harness/props/clientsim.py` `ref_selection` and compared with it on every run.
-/
import PydapModel.SeqClient
namespace Pydap.Derive
open Pydap Pydap.IterData Pydap.SeqClient

/-- one derivation of the client -/
inductive DStep (A : Type) where
  | cols (ks : List Name)                       -- seq[["f", "i"]] / seq["f", "i"]
  | filt (c : Cmp A) (cs : List (Cmp A))        -- seq[(seq.i > 1) & …]
  | sl (s : PSlice)                             -- seq[a:b:k]
  | idx (i : Int)                               -- seq[i]
  | child (k : Name)                            -- seq["f"]
  | colfilt (c : Cmp A) (cs : List (Cmp A))     -- col[(root.i > 1) & …]

/-- the `__getitem__` key of a step (comparisons are made on children of the opened sequence `path`;
    `filt` and `colfilt` write the same text) -/
def keyOfStep {A} (enc : A → List Char) (path : List Name) (p : Proxy.SeqProxy) : DStep A → Proxy.DKey
  | .cols ks => .cols ks
  | .filt c cs => ceKey (andText ((c :: cs).map (cmpOf enc path p)))
  | .sl s => .sl s
  | .idx i => .idx i
  | .child k => .name k
  | .colfilt c cs => ceKey (andText ((c :: cs).map (cmpOf enc path p)))

/-! ### the reference -/

/-- `xs[a:b:k]` of a Python list: the elements at the positions the slice selects (`sel`, the
    specification of basic slicing of C03), in order -/
def pySlice {α} (s : PSlice) (xs : List α) : List α := (sel xs.length s).filterMap (xs[·]?)

/-- the meaning of a comparison: `column OP column | constant`, by name -/
def condOf {A} (c : Cmp A) : RCond A :=
  ⟨c.col, c.op, match c.rhs with
    | .col k => .name k
    | .val v => .const v⟩

def stepConds {A} : DStep A → List (RCond A)
  | .filt c cs => (c :: cs).map condOf
  | .colfilt c cs => (c :: cs).map condOf
  | _ => []

def stepRange {A} : DStep A → Option PSlice
  | .sl s => some s
  | .idx i => some ⟨some i, some (i + 1), none⟩
  | _ => none

def stepCols {A} (cur : List Name) : DStep A → List Name
  | .cols ks => ks
  | .child k => [k]
  | _ => cur

def applyRange {A α} (xs : List α) (st : DStep A) : List α :=
  match stepRange st with
  | some s => pySlice s xs
  | none => xs

/-- **the reference selection**: rows that satisfy every condition of the chain, then every record
    range of the chain in order, then the cells under the names of the last column list / the child
    (all columns when there is none), in that order.  `none` = a name that is not a column. -/
def refSelection {A} (cmp : Op → A → A → Bool) (names : List Name) (chain : List (DStep A))
    (rows : List (List A)) : Option (List (List A)) :=
  ((chain.foldl applyRange
      (rows.filter fun r => (chain.flatMap stepConds).all (refCond cmp names r))).mapM
    fun r => (chain.foldl stepCols names).mapM (cellOf names r))

end Pydap.Derive
