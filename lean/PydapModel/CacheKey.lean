/-
  Model of `custom_create_key`, the closure installed by
  `pydap.client.patch_session_for_shared_dap_cache` (src/pydap/client.py), as the repaired code is.

  Modelling assumptions (all stated here, none hidden in the definitions):

  * A request is given by its already-parsed parts. `urlparse`, `unquote`, `parse_qs` are trusted library
    functions outside the model: `scheme = parsed.scheme`, `host = parsed.netloc` (the whole netloc, port and
    user-info included, exactly what the code compares), `path = unquote(parsed.path)`,
    `ce = ` the first `dap4.ce` value of `parse_qs(parsed.query)`, unquoted once more when truthy
    (`none` when the parameter is absent; `parse_qs` drops blank values, so `some []` does not occur, but
    the model, like the code, would simply test it for membership).
  * `url` stands for the identity of the request as seen by the unpatched `create_key` of requests-cache
    (method, URL normalised by requests-cache, body, matched headers). The unpatched key is a hex digest of
    that identity: `orig : List Char → List Char`, assumed injective in the theorems (a digest collision is
    outside the model).
  * The original key is a 16-digit hex digest, the normalised one is a URL text containing "://", so the two
    never coincide: `Key` has two constructors.
  * The normalised key `f"{scheme}://{netloc}{path}/shared.nc?{urlencode({'dap4.ce': ce})}"` is kept as the
    record `Key.norm scheme host (path ++ "/shared.nc") ce`: `urlencode` is a trusted injective encoding whose
    output contains neither '?' nor '/', `scheme` contains no ':' and `netloc` no '/' (urlparse), so the
    flattened text determines the four fields (split at the last '?', at the first "://", at the first '/'
    after it). The harness parses the implementation's text back in exactly that way.
  * `shared_vars` is a collection of strings (`dap4_ce in shared_vars` is membership): `shared`.
  * `general_base` (the result of `compute_base_url_prefix`, or None) is given by its `urlparse` parts.
-/
namespace Pydap.CK

structure Req where
  scheme : List Char
  host : List Char
  path : List Char
  ce : Option (List Char)
  url : List Char
deriving DecidableEq, Repr

/-- `urlparse(general_base)`: scheme, netloc, path -/
structure Base where
  scheme : List Char
  host : List Char
  path : List Char
deriving DecidableEq, Repr

inductive Key where
  | orig (digest : List Char)
  | norm (scheme host path ce : List Char)
deriving DecidableEq, Repr

def earthdataHost : List Char := "opendap.earthdata.nasa.gov".toList
def providersLit : List Char := "/providers/".toList
def collectionsLit : List Char := "/collections/".toList
def sharedDap : List Char := "/shared.dap".toList
def sharedNc : List Char := "/shared.nc".toList

/-- `s` without the literal prefix `pre`, if it has it -/
def stripPrefix? : List Char → List Char → Option (List Char)
  | [], s => some s
  | _ :: _, [] => none
  | p :: ps, c :: cs => if p = c then stripPrefix? ps cs else none

/-- the greedy `[^/]*` at the head of `s` -/
def takeSeg (s : List Char) : List Char := s.takeWhile (· ≠ '/')
def dropSeg (s : List Char) : List Char := s.dropWhile (· ≠ '/')

/-- `re.match(r"(/providers/[^/]+/collections/[^/]+)", s)`: `[^/]+` cannot give a character back to the
    following literal '/' (it holds none), so the greedy match is the only candidate at a given position. -/
def matchCollAt (s : List Char) : Option (List Char) :=
  match stripPrefix? providersLit s with
  | none => none
  | some r1 =>
    if takeSeg r1 = [] then none
    else match stripPrefix? collectionsLit (dropSeg r1) with
      | none => none
      | some r2 =>
        if takeSeg r2 = [] then none
        else some (providersLit ++ takeSeg r1 ++ collectionsLit ++ takeSeg r2)

/-- `re.search(r"(/providers/[^/]+/collections/[^/]+)", path)` → `match.group(1)`: leftmost match -/
def findCollection : List Char → Option (List Char)
  | [] => none
  | c :: cs =>
    match matchCollAt (c :: cs) with
    | some m => some m
    | none => findCollection cs

/-- `str.rstrip("/")` -/
def rstripSlash : List Char → List Char
  | [] => []
  | c :: cs => if rstripSlash cs = [] ∧ c = '/' then [] else c :: rstripSlash cs

/-- `path == base_path or path.startswith(base_path.rstrip("/") + "/")` -/
def underBasePath (bp path : List Char) : Bool :=
  decide (path = bp) || (rstripSlash bp ++ ['/']).isPrefixOf path

/-- `general_base and parsed.netloc == base.netloc and (…)` -/
def underBase (base : Option Base) (r : Req) : Bool :=
  match base with
  | none => false
  | some b => decide (r.host = b.host) && underBasePath b.path r.path

/-- the test before the repair: `general_base and path.startswith(base_path)` -/
def underBasePrefix (base : Option Base) (r : Req) : Bool :=
  match base with
  | none => false
  | some b => b.path.isPrefixOf r.path

/-- the Earthdata branch: `parsed.netloc == "opendap.earthdata.nasa.gov"` and the regex matches -/
def earthdataColl (r : Req) : Option (List Char) :=
  if r.host = earthdataHost then findCollection r.path else none

/-- `custom_create_key`, with the containment test of the general branch as a parameter -/
def customKeyWith (ub : Option Base → Req → Bool) (orig : List Char → List Char) (shared : List (List Char))
    (base : Option Base) (r : Req) : Key :=
  match r.ce with
  | none => Key.orig (orig r.url)
  | some c =>
    if c ∈ shared then
      match earthdataColl r with
      | some coll => Key.norm r.scheme r.host (coll ++ sharedDap) c
      | none =>
        match base with
        | none => Key.orig (orig r.url)
        | some b =>
          if ub (some b) r then Key.norm r.scheme r.host (b.path ++ sharedNc) c
          else Key.orig (orig r.url)
    else Key.orig (orig r.url)

/-- `custom_create_key` as the code is -/
def customKey := customKeyWith underBase

/-- `custom_create_key` as the code was (text-prefix containment, host of the base ignored) -/
def customKeyPrefix := customKeyWith underBasePrefix

end Pydap.CK
