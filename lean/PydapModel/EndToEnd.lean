/-
  C02 / C01 end to end — the composition of the separate models into the one sentence a user relies on:
  "indexing a remote array returns exactly the elements numpy selects from the source array, with
  their values".

      client  `BaseProxyDap2.__getitem__`      request            PydapModel.Subset  (`remoteIndex`: open, fix_slice,
                                                                   combine_slices, hyperslab text, server parse,
                                                                   per-axis positions of `data[slices]`)
      server  `apply_projection`               `target.data = target[slice_]`   → `gather` (below) on the values
      server  `responses/dods.py`              XDR bytes          PydapModel.Xdr     (`encImpl`)
      server  `responses/dds.py`               DDS text           PydapModel.DdsText (`printDs`)
      client  `safe_dds_and_data`              split              PydapModel.Xdr     (`splitBody`)
      client  `dds_to_dataset`                 DDS parse          PydapModel.DdsText (`parseDds`)
      client  `unpack_dap2_data`               decode             PydapModel.Xdr     (`decImpl`)

  New here (bridges only, no pydap logic is re-modelled):
    * `gather` — row-major gather of a flat value list along per-axis position lists.  This is what
      `ndarray[tuple of slices]` does to the *values* once every axis selection is known; together with
      `Subset.npSlices` (one `sel` per axis) it is the model's **definition** of numpy's N-d basic indexing
      (product semantics; `Proofs/EndToEnd.lean` proves it equal to the pointwise specification
      `result[j₀,…] = source[S₀[j₀],…]`).  numpy itself is compared with it in the check.
    * conversions between the declaration types of the three developments (`Xdr.Tmpl`, `Dds.Tmpl`).
-/
import PydapModel.Subset
import PydapModel.Xdr
import PydapModel.DdsText
namespace Pydap.E2E
open Pydap Pydap.Xdr

/-! ### numpy N-d basic indexing on values: row-major gather -/

/-- take the sub-blocks `idx` of a row-major block list, recursively per axis
    (same recursion as `Handler.selND`, on any element type) -/
def gather {α : Type} : List Nat → List (List Nat) → List α → List α
  | _ :: sh, idx :: rest, d =>
    idx.flatMap fun i => gather sh rest ((d.drop (i * prod sh)).take (prod sh))
  | _, _, d => d

/-- `var.data` of a variable with `shape` holding the flat values `vs`: 0-d data is a scalar -/
def dataOf : List Nat → List Val → Data
  | [], [v] => .scalar v
  | _, vs => .array vs

/-- the declaration of an answer: a dataset holding the one constrained variable -/
def answerTmpl (ty : Ty) (cshape : List Nat) : Tmpl := .struct [.base ty cshape]

inductive Err where
  | server (e : SErr)          -- the request is rejected by the server's parser / numpy
  | decode (e : Xdr.Err)       -- the client's XDR decoder raises
  | split                      -- no `\nData:\n` in the body
  | ddsPrint (e : Dds.Err)     -- the server's DDS printer raises
  | ddsParse (e : Dds.Err)     -- the client's DDS parser raises
  | template                   -- the parsed DDS declares something the decoder model has no type for
deriving DecidableEq, Repr

/-! ### (A) array, DAP2: request ∘ server slicing ∘ XDR encode ∘ XDR decode -/

/-- the constrained variable the server holds after `apply_projection` for the positions `R` -/
def served (shape : List Nat) (vals : List Val) (R : List (List Nat)) : List Nat × List Val :=
  (selShape R, gather shape R vals)

/-- `dataset.a[idx]` on `open_url(url?a<pre>)`, the source variable `a` having DAP2 type `ty`, shape
    `shape` and row-major values `vals`: what `BaseProxyDap2.__getitem__` returns (`dataset[id].data`,
    here with the unread rest of the stream). -/
def fetchArray (ty : Ty) (shape : List Nat) (vals : List Val) (pre : List PSlice) (idx : List Idx) :
    Except Err (Data × Bytes) :=
  match remoteIndex shape pre idx with
  | .error e => .error (.server e)
  | .ok R =>
    let t := answerTmpl ty (served shape vals R).1
    match decImpl t (encImpl t (.tuple [dataOf (served shape vals R).1 (served shape vals R).2])) with
    | .error e => .error (.decode e)
    | .ok (.tuple [d], rest) => .ok (d, rest)
    | .ok _ => .error .template

/-! ### (B) the same through the response text -/

def encodeAscii (t : List Char) : Bytes := t.map fun c => UInt8.ofNat c.toNat
def decodeAscii (b : Bytes) : List Char := b.map fun x => Char.ofNat x.toNat

/-- numpy dtype char of the source data of each DAP2 type (`NUMPY_TO_DAP2_TYPEMAP` maps it back) -/
def npChar : Ty → List Char
  | .byte => ['B'] | .int16 => ['h'] | .uint16 => ['H'] | .int32 => ['i'] | .uint32 => ['I']
  | .float32 => ['f'] | .float64 => ['d'] | .string => ['S']

/-- the DAP2 type whose parser dtype is `dt` (inverse of `LOWER_DAP2_TO_NUMPY_PARSER_TYPEMAP` on the
    eight types) -/
def tyOfParserDt (dt : List Char) : Option Ty := Ty.all.find? fun t => (parserStr t).toList == dt

/-- `Xdr` declaration of a variable → `Dds` declaration (server side: what `dds()` is given) -/
def ddsBase (name : List Char) (dims : List (List Char)) (ty : Ty) (shape : List Nat) : Dds.BaseV :=
  ⟨name, npChar ty, shape.map Int.ofNat, dims, false⟩

/-- one `BaseType` declared by the parsed DDS → the `Xdr` declaration the decoder runs with -/
def baseOfDds (b : Dds.BaseV) : Option Tmpl :=
  if b.shape.all (0 ≤ ·) then (tyOfParserDt b.dt).map fun ty => .base ty (b.shape.map Int.toNat) else none

/-- `Dds` declaration (client side: what `dds_to_dataset` built) → `Xdr` declaration -/
def tmplOfDds : Dds.Tmpl → Option Tmpl
  | .base b => baseOfDds b
  | .grid _ kids => (kids.mapM baseOfDds).map Tmpl.struct
  | _ => none    -- Structures and Sequences are not requested by array/grid proxies

def tmplOfDataset (d : Dds.Dataset) : Option Tmpl := (d.kids.mapM tmplOfDds).map Tmpl.struct

/-- the `.dods` body for the one constrained variable: `dds(dataset) ‖ "Data:\n" ‖ dods(dataset)` -/
def responseBody (dsName name : List Char) (dims : List (List Char)) (ty : Ty)
    (cshape : List Nat) (cvals : List Val) : Except Err Bytes :=
  match Dds.printDs ⟨dsName, [.base (ddsBase name dims ty cshape)]⟩ with
  | .error e => .error (.ddsPrint e)
  | .ok text => .ok (body (encodeAscii text) (answerTmpl ty cshape) (.tuple [dataOf cshape cvals]))

/-- the client on a body: `safe_dds_and_data`, `dds_to_dataset`, `unpack_dap2_data` -/
def clientDecode (raw : Bytes) : Except Err (Dds.Dataset × Data × Bytes) :=
  match splitBody raw with
  | none => .error .split
  | some (dds, data) =>
    match Dds.parseDds (decodeAscii dds) with
    | .error e => .error (.ddsParse e)
    | .ok ds =>
      match tmplOfDataset ds with
      | none => .error .template
      | some t =>
        match decImpl t data with
        | .error e => .error (.decode e)
        | .ok (d, rest) => .ok (ds, d, rest)

/-- (B): `dataset.a[idx]` with the answer going through the response text -/
def fetchArrayText (dsName name : List Char) (dims : List (List Char)) (ty : Ty) (shape : List Nat)
    (vals : List Val) (pre : List PSlice) (idx : List Idx) : Except Err (Dds.Dataset × Data × Bytes) :=
  match remoteIndex shape pre idx with
  | .error e => .error (.server e)
  | .ok R =>
    match responseBody dsName name dims ty (served shape vals R).1 (served shape vals R).2 with
    | .error e => .error e
    | .ok raw => clientDecode raw

/-! ### (C) grids: `grid[key]` issues one request per indexed child -/

/-- `grid[key]` on a grid whose array has type `ty`, shape `shape`, values `vals`, whose map `j` has
    type `(maps[j]).1` and values `(maps[j]).2` (length `shape[j]`), opened with the URL pre-constraint
    `pre` (padded: map `j` stores `pre[j]`): per child of `gridGetitem`, what its proxy returns.
    Children that are not indexed (short key) stay lazy and are absent from the list. -/
def fetchGrid (og : Bool) (ty : Ty) (shape : List Nat) (vals : List Val) (maps : List (Ty × List Val))
    (pre : List PSlice) (key : List Idx) : List (Nat × Except Err (Data × Bytes)) :=
  (gridGetitem og shape.length key).map fun ci =>
    if ci.1 = 0 then (0, fetchArray ty shape vals pre ci.2)
    else match maps[ci.1 - 1]?, shape[ci.1 - 1]? with
      | some m, some n => (ci.1, fetchArray m.1 [n] m.2 ((pre[ci.1 - 1]?).toList) ci.2)
      | _, _ => (ci.1, .error .template)    -- a grid with fewer maps than axes: outside the model

end Pydap.E2E
