/-
  Model of pydap's DMR parser (parsers/dmr.py) over an abstract element tree, and of the type tag
  chosen by the server's DMR renderer (responses/dmr.py).

  `XNode` is what `xml.etree.ElementTree` hands to the parser (tag, attribute dict, text, children);
  ElementTree itself (text → tree) is trusted.  Strings are `List Char`.
  Python dicts are modelled by their insertion log: lookup = last entry for the key, iteration =
  `dictOfLog` (first position, last value).
-/
import PydapModel.Slice
import PydapModel.Generated.Tables
import PydapModel.Quote
namespace Pydap.Dmr

abbrev Str := List Char

inductive XNode where
  | mk (tag : Str) (attrs : List (Str × Str)) (text : Option Str) (children : List XNode)
deriving Repr, Inhabited

namespace XNode
def tag : XNode → Str | mk t _ _ _ => t
def attrs : XNode → List (Str × Str) | mk _ a _ _ => a
def text : XNode → Option Str | mk _ _ t _ => t
def children : XNode → List XNode | mk _ _ _ c => c
/-- `element.get(key)` -/
def get (n : XNode) (k : Str) : Option Str := n.attrs.lookup k
/-- `element.findall(tag)`: direct children with that tag -/
def findall (n : XNode) (t : Str) : List XNode := n.children.filter (·.tag == t)
end XNode

inductive Err where
  | keyError | valueError | typeError | syntaxError | warning | unmodelled
deriving Repr, DecidableEq

/-! ### dicts as insertion logs -/

def dictGet {β} (log : List (Str × β)) (k : Str) : Option β :=
  (log.reverse.find? (·.1 == k)).map (·.2)

/-- iteration order of a dict built by the insertions in `log` (fuel = length of the log) -/
def dictOfLogAux {β} : Nat → List (Str × β) → List (Str × β)
  | 0, _ => []
  | _ + 1, [] => []
  | f + 1, (k, v) :: rest =>
    (k, (dictGet rest k).getD v) :: dictOfLogAux f (rest.filter (·.1 != k))

def dictOfLog {β} (log : List (Str × β)) : List (Str × β) := dictOfLogAux log.length log

/-! ### tables from the source -/

def atomicTypes : List Str := Pydap.Gen.DMR_ATOMIC_TYPES.map String.toList
def varTags : List Str := atomicTypes ++ ["String".toList]
def floatTypes : List Str := Pydap.Gen.DMR_FLOAT_TYPES.map String.toList
def intTypes : List Str := Pydap.Gen.DMR_INT_TYPES.map String.toList
def uintTypes : List Str := Pydap.Gen.DMR_UINT_TYPES.map String.toList
def dap4ToNumpy (t : Str) : Option Str :=
  (Pydap.Gen.DAP4_TO_NUMPY_PARSER_TYPEMAP.find? (·.1.toList == t)).map (·.2.toList)

/-! ### `pydap.lib._quote`: C12's model (`PydapModel/Quote.lean`), transported to this file's strings

  A `Str` here is the UTF-8 byte string of the Python `str` (one `Char` < 256 per byte: that is how the driver
  hands ElementTree's strings over).  C12's `Quote.quote` works on lists of characters, a character being the
  list of its UTF-8 bytes; seen from here every byte is one "character".  For the quoted part of a name that is
  exact (urllib quotes byte by byte); the 8 *characters* that `_quote` passes through when a name starts with
  `dap4` are 8 bytes here, so names starting with `dap4` whose first 8 characters are not ASCII are outside
  the model (the theorems exclude names starting with `dap4` altogether). -/

def toQ (s : Str) : Pydap.Quote.Str := s.map fun c => [UInt8.ofNat c.toNat]
def ofQ (q : Pydap.Quote.Str) : Str := q.flatten.map fun b => Char.ofNat b.toNat

/-- `_quote(name)` -/
def quoteName (s : Str) : Str := ofQ (Pydap.Quote.quote (toQ s))

/-! ### `get_variables`, `get_named_dimensions` -/

structure VarEntry where
  element : XNode
  parent : Str
deriving Inhabited

mutual
/-- insertion log of `get_variables(node, prefix)` -/
def getVariables : XNode → Str → List (Str × VarEntry)
  | .mk tag attrs _ children, pfx =>
    match attrs.lookup "name".toList with
    | none => []
    | some gname =>
      let pfx' := if tag ≠ "Dataset".toList then pfx ++ '/' :: quoteName gname else pfx
      getVariablesList children tag pfx'
def getVariablesList : List XNode → Str → Str → List (Str × VarEntry)
  | [], _, _ => []
  | sub :: rest, ptag, pfx =>
    (if sub.tag ∈ varTags then
       let name := (sub.get "name".toList).getD []
       [((if pfx ≠ [] then pfx ++ '/' :: name else name), (⟨sub, ptag⟩ : VarEntry))]
     else [])
    ++ getVariables sub pfx ++ getVariablesList rest ptag pfx
end

mutual
/-- insertion log of `get_named_dimensions(node, prefix)`; `int(size)` may raise -/
def getNamedDimensions : XNode → Str → Except Err (List (Str × Int))
  | .mk tag attrs _ children, pfx =>
    match attrs.lookup "name".toList with
    | none => .ok []
    | some gname =>
      let pfx' := if tag ≠ "Dataset".toList then pfx ++ '/' :: gname else pfx
      getNamedDimensionsList children pfx'
def getNamedDimensionsList : List XNode → Str → Except Err (List (Str × Int))
  | [], _ => .ok []
  | sub :: rest, pfx => do
    let here ←
      if sub.tag = "Dimension".toList then
        let name := (sub.get "name".toList).getD []
        match sub.get "size".toList with
        | none => .error .keyError
        | some t =>
          match parseIntChars t with
          | none => .error .valueError
          | some n => pure [((if pfx ≠ [] then pfx ++ '/' :: name else name), n)]
      else pure []
    let below ← getNamedDimensions sub pfx
    let after ← getNamedDimensionsList rest pfx
    pure (here ++ below ++ after)
end

/-- every variable / dimension element carries a `name` attribute (otherwise the Python raises a
    `TypeError` or produces a `None` key: outside the model) -/
def hasName (n : XNode) : Bool := (n.get "name".toList).isSome

mutual
def wellNamed : XNode → Bool
  | .mk tag attrs _ children =>
    ((tag ∉ varTags ∧ tag ≠ "Dimension".toList) || (attrs.lookup "name".toList).isSome) && wellNamedList children
def wellNamedList : List XNode → Bool
  | [] => true
  | n :: ns => wellNamed n && wellNamedList ns
end

/-! ### per-variable readers -/

/-- `name.find("/", 1) == -1` -/
def noSlashAfterFirst (s : Str) : Bool := !(s.drop 1).contains '/'

/-- `get_dim_names`: names of the named `Dim`s in order (anonymous ones are skipped) -/
def getDimNames (e : XNode) : List Str :=
  (e.findall "Dim".toList).filterMap fun d =>
    (d.get "name".toList).map fun name =>
      if noSlashAfterFirst name then name.filter (· != '/') else name

/-- one `Dim` element → its extent: anonymous `size`, or the named dimension's size -/
def dimSize (nd : List (Str × Int)) (d : XNode) : Except Err Int :=
  match d.get "name".toList with
  | none =>
    match d.get "size".toList with
    | none => .error .typeError                       -- int(None)
    | some t => match parseIntChars t with
      | none => .error .valueError
      | some n => .ok n
  | some name =>
    let key := if noSlashAfterFirst name then name.filter (· != '/') else name
    match dictGet nd key with
    | none => .error .keyError
    | some n => .ok n

/-- the variable's shape: every `Dim` resolved in document order -/
def varShape (nd : List (Str × Int)) (e : XNode) : Except Err (List Int) :=
  (e.findall "Dim".toList).mapM (dimSize nd)

/-- `get_maps` -/
def getMaps (e : XNode) : List (Option Str) := (e.findall "Map".toList).map (·.get "name".toList)

/-! ### attributes -/

inductive Scalar where
  | int (i : Int)
  | float (text : Str)        -- `float(text)`: the text is kept, the conversion is Python's
  | str (s : Str)
  | none
deriving Repr, DecidableEq

inductive AttrVal where
  | none
  | one (s : Scalar)
  | many (l : List Scalar)
deriving Repr, DecidableEq

def rawValues (e : XNode) : List (Option Str) :=
  (match e.get "value".toList with | some v => [some v] | none => [])
  ++ (e.findall "Value".toList).map fun v => match v.text with
      | some t => some t
      | none => v.get "value".toList

def convInt : Option Str → Except Err Scalar
  | none => .ok .none
  | some t => match parseIntChars t with
    | some i => .ok (.int i)
    | none => .error .valueError

/-- the `else` branch (today: `Byte`): `int(text)`; a `ValueError` is re-raised as `Warning` -/
def convByte (t : Str) : Except Err Scalar :=
  match parseIntChars t with
  | some i => .ok (.int i)
  | none => .error .warning

def getAtomicAttr (e : XNode) : Except Err (Option Str × AttrVal) := do
  let name := e.get "name".toList
  let ty := (e.get "type".toList).getD []
  let raw := rawValues e
  let vals ←
    if ty ∈ atomicTypes then
      if ty ∈ floatTypes then pure (raw.map fun v => match v with | some t => Scalar.float t | none => Scalar.none)
      else if ty ∈ intTypes ∨ ty ∈ uintTypes then raw.mapM convInt
      else (raw.filterMap id).mapM convByte          -- today: `Byte`; `None`s are dropped
    else pure (raw.map fun v => match v with | some t => Scalar.str t | none => Scalar.none)
  pure (name, match vals with
    | [] => AttrVal.none
    | [v] => AttrVal.one v
    | vs => AttrVal.many vs)

/-- `get_attributes(element, {})`: insertion log -/
def getAttributes (e : XNode) : Except Err (List (Str × AttrVal)) :=
  (e.findall "Attribute".toList).mapM fun a => do
    let (n, v) ← getAtomicAttr a
    pure (n.getD [], v)

/-! ### `get_groups` and `dmr_to_dataset` -/

mutual
/-- fully qualified names of all groups, in the order `get_groups` lists them -/
def getGroups : XNode → Str → List Str
  | .mk _ _ _ children, pfx => getGroupsList children pfx
def getGroupsList : List XNode → Str → List Str
  | [], _ => []
  | g :: rest, pfx =>
    (if g.tag = "Group".toList then
       let fq := pfx ++ (g.get "name".toList).getD []
       fq :: getGroups g (fq ++ ['/'])
     else [])
    ++ getGroupsList rest pfx
end

mutual
/-- `get_groups` evaluates `get_attributes(group, {})` for every group, depth first (only errors matter here) -/
def groupAttrsOk : XNode → Except Err Unit
  | .mk _ _ _ children => groupAttrsOkList children
def groupAttrsOkList : List XNode → Except Err Unit
  | [] => .ok ()
  | g :: rest => do
    if g.tag = "Group".toList then
      let _ ← getAttributes g
      groupAttrsOk g
    groupAttrsOkList rest
end

/-- `DMRParser.init_dataset`: global attributes. Every child whose `name` equals the name of some
    `Attribute` child is visited; a `type` outside the atomic types + String/URI makes it a container. -/
def rootAttrs (root : XNode) : Except Err (List (Str × AttrVal)) := do
  let names := (root.findall "Attribute".toList).map (·.get "name".toList)
  let logs ← root.children.mapM fun sub =>
    if sub.get "name".toList ∈ names then
      match sub.get "type".toList with
      | some t =>
        if t ∈ atomicTypes ++ ["String".toList, "URI".toList] then do
          let (n, v) ← getAtomicAttr sub
          pure [(n.getD [], v)]
        else getAttributes sub
      | none => getAttributes sub
    else pure []
  pure (dictOfLog logs.flatten)

structure VarRec where
  key : Str                 -- key in `variables` (the name as built by `get_variables`)
  name : Str                -- `var_name`
  path : Option Str
  dtype : Str
  dims : List Str           -- `Dims`: fully qualified
  shape : List Int
  maps : List (Option Str)
  attrs : List (Str × AttrVal)
deriving Repr, DecidableEq

def joinSlash : List Str → Str
  | [] => []
  | [a] => a
  | a :: rest => a ++ '/' :: joinSlash rest

/-- `_parts(name, split_by)` (fix dc417f9): split at `/` when the document has groups, otherwise one part.
    (For the empty string without groups the Python gives `[""]`, one part; the model gives no part — names are
    non-empty in every theorem and in the generators.) -/
def splitParts (groups : Bool) (s : Str) : List Str :=
  if groups then splitOnChar '/' s else (if s = [] then [] else [s])

def mkRecord (groups : Bool) (nd : List (Str × Int)) (key : Str) (v : VarEntry) : Except Err VarRec := do
  let e := v.element
  let attrs ← getAttributes e
  let dtype ← match dap4ToNumpy e.tag with | some d => pure d | none => .error .keyError
  let dims := getDimNames e
  let shape ← varShape nd e
  let parts := splitParts groups key
  let (vname, path) :=
    if parts.length > 1 then (parts.getLast?.getD [], some (joinSlash parts.dropLast)) else (key, none)
  let fqDims := dims.map fun d => if (splitParts groups d).length = 1 then '/' :: d else d
  -- `variable["attributes"]["path"] = path` (members of groups) and `createVariable(Maps=…)` write pydap's own
  -- entries into the same dict: a declared attribute named `path` (in a group) or `Maps` is overwritten.  The
  -- record reports those two entries as `path` / `maps`; `attrs` is the rest of the dict.
  let own := fun (kv : Str × AttrVal) => kv.1 = "Maps".toList ∨ (path.isSome ∧ kv.1 = "path".toList)
  pure ⟨key, vname, path, dtype, fqDims, shape, getMaps e, (dictOfLog attrs).filter fun kv => !decide (own kv)⟩

/-- the `variables` dict of `dmr_to_dataset` after the bootstrap loops, in iteration order
    (= the order in which the DMR declares the variables) -/
def parseVars (root : XNode) : Except Err (List VarRec) := do
  if !wellNamed root then .error .typeError
  groupAttrsOk root            -- DMRParser.__init__ → get_groups
  let _ ← rootAttrs root       -- init_dataset
  let groups := !(getGroups root ['/']).isEmpty
  let nd ← getNamedDimensions root []
  (dictOfLog (getVariables root [])).mapM fun (k, v) => mkRecord groups nd k v

/-! ### the dataset tree (`DatasetType.createGroup/createVariable/__setitem__`) and `walk` -/

/-- the children of a container in dict order: `var name rec rest` / `group name kids rest` -/
inductive Forest where
  | nil
  | var (name : Str) (r : VarRec) (rest : Forest)
  | group (name : Str) (kids : Forest) (rest : Forest)
deriving Repr

/-- what is stored under a key: a variable or a (new, empty) group -/
inductive Leaf where
  | var (r : VarRec)
  | group
deriving Repr

namespace Forest
def names : Forest → List Str
  | nil => []
  | var n _ rest => n :: names rest
  | group n _ rest => n :: names rest

def hasGroup (p : Str) : Forest → Bool
  | nil => false
  | var _ _ rest => hasGroup p rest
  | group n _ rest => n == p || hasGroup p rest

/-- `del self[key]` -/
def remove (nm : Str) : Forest → Forest
  | nil => nil
  | var n r rest => if n == nm then remove nm rest else var n r (remove nm rest)
  | group n k rest => if n == nm then remove nm rest else group n k (remove nm rest)

/-- a new key goes to the end of the dict -/
def snoc (nm : Str) (item : Leaf) : Forest → Forest
  | nil => match item with | .var r => var nm r nil | .group => group nm nil nil
  | var n r rest => var n r (snoc nm item rest)
  | group n k rest => group n k (snoc nm item rest)

/-- `current = current[p]` followed by an update `f` of that container's children -/
def mapGroup (p : Str) (f : Forest → Forest) : Forest → Forest
  | nil => nil
  | var n r rest => var n r (mapGroup p f rest)
  | group n k rest => if n == p then group n (f k) (mapGroup p f rest) else group n k (mapGroup p f rest)

/-- `walk(dataset, BaseType)`: depth first, children in dict order -/
def walk : Forest → List VarRec
  | nil => []
  | var _ r rest => r :: walk rest
  | group _ k rest => walk k ++ walk rest
end Forest

/-- `current[parts[-1]] = item` after walking (and, if need be, creating) the containers `parts[:-1]` -/
def insertAt : List Str → Leaf → Forest → Forest
  | [], _, t => t
  | [nm], item, t => (t.remove nm).snoc nm item
  | p :: q :: ps, item, t =>
    if t.hasGroup p then t.mapGroup p (insertAt (q :: ps) item)
    else t.snoc p .group |>.mapGroup p (insertAt (q :: ps) item)

def pathParts (fq : Str) : List Str := (splitOnChar '/' fq).filter (· ≠ [])

/-- the dataset after the groups (in `get_groups` order) and then the variables have been stored -/
def buildTree (groups : List Str) (recs : List VarRec) : Forest :=
  let t0 := groups.foldl (fun t g => insertAt (pathParts (quoteName g)) .group t) .nil
  recs.foldl (fun t r => insertAt (pathParts (quoteName r.key)) (.var r) t) t0

/-- `dmr_to_dataset`: groups first (in `get_groups` order), then the variables; result = `walk(dataset, BaseType)` -/
def datasetWalk (root : XNode) : Except Err (List VarRec) := do
  let recs ← parseVars root
  pure (buildTree (getGroups root ['/']) recs).walk

/-! ### responses/dmr.py: the element tag written for a variable of a given numpy dtype name -/

def capitalise : Str → Str
  | [] => []
  | c :: cs => c.toUpper :: cs

/-- `_basetype`: the element tag for a numpy dtype of the given `kind` whose `str()` is `dtypeName`:
    strings → `String`, unsigned → `UInt` + width, otherwise the capitalised numpy name -/
def dmrTypeTag (kind : Char) (dtypeName : Str) : Str :=
  if kind = 'S' || kind = 'U' then "String".toList
  else if kind = 'u' then "UInt".toList ++ dtypeName.drop 4
  else capitalise dtypeName

end Pydap.Dmr
