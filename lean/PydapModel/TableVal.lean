/-
  Concrete cell values used by the drivers of the sequence models (C17, C04): numbers from a
  dyadic grid (stored scaled by 16, so Int32 and Float64 cells compare exactly as Python compares
  int with float) and ASCII strings.  `cmpVal` is the `cmp` parameter of the models, `litVal` the
  `ast.literal_eval` parameter for the literals the harness generates (`-12`, `1.5`, `"ab"`).
-/
import PydapModel.IterData
namespace Pydap.TableVal
open Pydap Pydap.IterData

inductive Val where
  | num (scaled : Int)
  | str (s : List Char)
deriving DecidableEq, Repr, Inhabited

def cmpOrd (op : Op) (o : Ordering) : Bool :=
  match op, o with
  | .lt, .lt => true
  | .gt, .gt => true
  | .ne, .lt => true
  | .ne, .gt => true
  | .eq, .eq => true
  | .ge, .gt => true
  | .ge, .eq => true
  | .le, .lt => true
  | .le, .eq => true
  | _, _ => false

def cmpChars : List Char → List Char → Ordering
  | [], [] => .eq
  | [], _ :: _ => .lt
  | _ :: _, [] => .gt
  | a :: as, b :: bs => if a < b then .lt else if b < a then .gt else cmpChars as bs

/-- Python's comparison on the generated values; a number never equals a string (ordering a
    number against a string raises in Python and is outside the generated domain: `false`) -/
def cmpVal (op : Op) : Val → Val → Bool
  | .num a, .num b => cmpOrd op (compare a b)
  | .str a, .str b => cmpOrd op (cmpChars a b)
  | _, _ => op = .ne

def pow10 : Nat → Nat
  | 0 => 1
  | n + 1 => 10 * pow10 n

/-- decimal literal `[-]digits[.digits]` whose value is a multiple of 1/16 -/
def litNum (cs : List Char) : Option Val :=
  let (neg, body) := match cs with
    | '-' :: r => (true, r)
    | r => (false, r)
  let (ip, fp) := match splitOnChar '.' body with
    | [a] => (a, [])
    | [a, b] => (a, b)
    | _ => ([], ['x'])
  if ip = [] then none else
  match parseNatChars ip, (if fp = [] then some 0 else parseNatChars fp) with
  | some i, some f =>
    let den := pow10 fp.length
    let numer := (i * den + f) * 16
    if numer % den = 0 then
      let v : Int := (numer / den : Nat)
      some (.num (if neg then -v else v))
    else none
  | _, _ => none

def litVal (cs : List Char) : Option Val :=
  match cs with
  | '"' :: rest =>
    match rest.reverse with
    | '"' :: inner => some (.str inner.reverse)
    | _ => none
  | _ => litNum cs

end Pydap.TableVal

namespace Pydap.TableVal
open Pydap Pydap.IterData

def stripTrailingZeros (cs : List Char) : List Char :=
  (cs.reverse.dropWhile (· = '0')).reverse

def pad4 (cs : List Char) : List Char := List.replicate (4 - cs.length) '0' ++ cs

/-- `pydap.lib.encode` on the generated values: `'"%s"'` for strings, `'%.6g'` for numbers
    (multiples of 1/16 of small magnitude print exactly, without exponent) -/
def encVal : Val → List Char
  | .str s => '"' :: s ++ ['"']
  | .num n =>
    let a := n.natAbs
    let ip := natDigits (a / 16)
    let fp := stripTrailingZeros (pad4 (natDigits (a % 16 * 625)))
    (if n < 0 then ['-'] else []) ++ ip ++ (if fp = [] then [] else '.' :: fp)

end Pydap.TableVal
