/-
  Model of the text layer of constraint expressions (parsers/__init__.py): the leftmost-first
  operator split used by `parse_selection` and `build_filter`
  (`re.split("(<=|>=|!=|=~|>|<|=)", expression, 1)`), and how a clause is written.
-/
import PydapModel.IterData
namespace Pydap.CE
open Pydap Pydap.IterData

inductive OpTok where
  | le | ge | ne | match_ | gt | lt | eq
deriving DecidableEq, Repr

/-- the alternative of `<=|>=|!=|=~|>|<|=` that matches at the head of the text, if any
    (alternatives are tried in the order written) -/
def opAt : List Char → Option (OpTok × List Char)
  | '<' :: '=' :: r => some (.le, r)
  | '>' :: '=' :: r => some (.ge, r)
  | '!' :: '=' :: r => some (.ne, r)
  | '=' :: '~' :: r => some (.match_, r)
  | '>' :: r => some (.gt, r)
  | '<' :: r => some (.lt, r)
  | '=' :: r => some (.eq, r)
  | _ => none

/-- `re.split(pattern, text, 1)`: cut at the leftmost position where an alternative matches -/
def splitClause : List Char → Option (List Char × OpTok × List Char)
  | [] => none
  | c :: cs =>
    match opAt (c :: cs) with
    | some (o, r) => some ([], o, r)
    | none => (splitClause cs).map fun (a, o, r) => (c :: a, o, r)

def opText : OpTok → List Char
  | .le => ['<', '='] | .ge => ['>', '='] | .ne => ['!', '='] | .match_ => ['=', '~']
  | .gt => ['>'] | .lt => ['<'] | .eq => ['=']

def toOp : OpTok → Option Op
  | .le => some .le | .ge => some .ge | .ne => some .ne | .gt => some .gt | .lt => some .lt
  | .eq => some .eq | .match_ => none

def ofOp : Op → OpTok
  | .le => .le | .ge => .ge | .ne => .ne | .gt => .gt | .lt => .lt | .eq => .eq

/-- how a clause is written: left side, operator, right side -/
def renderClause (c : Cond) : List Char := c.id1 ++ opText (ofOp c.op) ++ c.id2

/-- a selection token as `parse_selection`/`build_filter` read it -/
def parseClause (t : List Char) : Option Cond :=
  match splitClause t with
  | some (a, o, r) => (toOp o).map fun op => ⟨a, op, r⟩
  | none => none

/-- characters that can start an operator alternative -/
def isOpChar (c : Char) : Bool := c = '<' || c = '>' || c = '=' || c = '!'

end Pydap.CE
