/-
  C12 — the store of live Python objects and the operation alphabet of the property:
  {set (insert / replace), delete, copy, select-by-tuple, assign data, set attribute} plus `new`
  (constructing a fresh variable) over several live handles.

  A handle is a root object held by the client program (a dataset, a detached variable, a copy, a
  selection).  Objects are identified by `oid`; `next` is the allocation counter.  Inserting a root into a
  container *moves* it (the handle is consumed), which is how trees with several levels are built and how
  `_set_id` propagation through an inserted subtree is exercised.

  The store holds trees, not a flat address→record map: an operation acting through one handle rewrites
  that handle's tree only.  That is the behaviour of the Python objects exactly as long as no object is
  reachable twice; `oidsNodup` is that condition, it is part of the invariant proved for every history
  (Props/C12.lean), and the correspondence run compares `id()` classes across all live handles after
  every operation.
-/
import PydapModel.Tree

namespace Pydap.Tree
open Pydap.Quote

structure State where
  handles : List (Option Obj)
  next : Nat
deriving Repr, Inhabited

inductive Op where
  | new (kind : Kind) (name : Str) (atom : Nat)
  | set (h : Nat) (path : List Str) (key : Str) (src : Nat)
  | del (h : Nat) (path : List Str) (key : Str)
  | copy (h : Nat) (path : List Str)
  | select (h : Nat) (path : List Str) (keys : List Str)
  | setData (h : Nat) (path : List Str) (atom : Nat)
  | setAttr (h : Nat) (path : List Str) (k : Str) (v : Nat)
deriving Repr, Inhabited

def State.init : State := ⟨[], 0⟩

def State.get (s : State) (h : Nat) : Except Err Obj :=
  match s.handles[h]? with
  | some (some o) => .ok o
  | _ => .error .outside

/-- one operation; on any error the store is unchanged (every modelled exception is raised before the
    first mutation) -/
def stepE (s : State) : Op → Except Err State
  | .new kind name atom =>
    .ok ⟨s.handles ++ [some (mkObj s.next kind name [] (if kind = .base then .atom atom else .none))], s.next + 1⟩
  | .set h path key src => do
    if h = src then throw .outside
    let o ← s.get h
    let item ← s.get src
    let o' ← modifyAt (fun c => setItem c key item) path o
    pure ⟨(s.handles.set h (some o')).set src none, s.next⟩
  | .del h path key => do
    let o ← s.get h
    let o' ← modifyAt (fun c => delItem c key) path o
    pure ⟨s.handles.set h (some o'), s.next⟩
  | .copy h path => do
    let o ← s.get h
    let c ← navigate path o
    let (r, n) ← copyObj s.next c
    pure ⟨s.handles ++ [some r], n⟩
  | .select h path keys => do
    let o ← s.get h
    let c ← navigate path o
    let (r, n) ← select s.next c keys
    pure ⟨s.handles ++ [some r], n⟩
  | .setData h path atom => do
    let o ← s.get h
    let o' ← modifyAt (fun c => setData c (.atom atom)) path o
    pure ⟨s.handles.set h (some o'), s.next⟩
  | .setAttr h path k v => do
    let o ← s.get h
    let o' ← modifyAt (fun c => pure (setAttr c k (.nat v))) path o
    pure ⟨s.handles.set h (some o'), s.next⟩

def step (s : State) (op : Op) : State :=
  match stepE s op with
  | .ok s' => s'
  | .error _ => s

def run (s : State) (ops : List Op) : State := ops.foldl step s

/-! ### the invariant -/

/-- a name as the property admits it: no path separator -/
def nameOk (k : Str) : Bool := !k.contains dot && !k.contains slash

/-- `_visible_keys`: no key twice, every key is a (quoted) key of `_dict` -/
def visOk (vis : List Str) (kids : Forest) : Bool :=
  vis.all (fun k => kids.keys.contains k && quote k == k) && decide vis.Nodup

/-- everything but the ids: stored names are quoted and free of `.`, dict keys are unique, visible keys are
    unique dict keys, a Base variable has no children -/
def shapeOk : Forest → Bool
  | .nil => true
  | .cons h kids rest =>
    quote h.name == h.name && !h.name.contains dot
    && !rest.keys.contains h.name
    && visOk h.visible kids
    && (h.kind != .base || kids == .nil)
    && shapeOk kids && shapeOk rest

/-- every listed child's id is the parent's id, a dot, the child's name (below a dataset: the name) -/
def idsOk (pk : Kind) (pid : Str) (vis : List Str) : Forest → Bool
  | .nil => true
  | .cons h kids rest =>
    (!listed vis h.name || h.id == childId pk pid h.name)
    && idsOk h.kind h.id h.visible kids
    && idsOk pk pid vis rest

def invObj (o : Obj) : Bool :=
  shapeOk (.cons o.hdr o.kids .nil) && idsOk o.hdr.kind o.hdr.id o.hdr.visible o.kids

def Obj.oids (o : Obj) : List Nat := o.hdr.oid :: o.kids.oids

def State.oids (s : State) : List Nat :=
  s.handles.flatMap fun | some o => o.oids | none => []

/-- the invariant of the store: every live root satisfies `invObj`; no object identity occurs twice in
    the whole store; every identity is below the allocation counter -/
def Inv (s : State) : Prop :=
  (∀ o, some o ∈ s.handles → invObj o = true) ∧ s.oids.Nodup ∧ ∀ i ∈ s.oids, i < s.next

/-- names used by an operation stay inside the property's alphabet -/
def Op.namesOk : Op → Bool
  | .new _ name _ => nameOk name
  | .set _ path key _ => path.all nameOk && nameOk key
  | .del _ path key => path.all nameOk && nameOk key
  | .copy _ path => path.all nameOk
  | .select _ path keys => path.all nameOk && keys.all nameOk
  | .setData _ path _ => path.all nameOk
  | .setAttr _ path _ _ => path.all nameOk

/-- the (quoted) name has no literal `%2E`: `DatasetType.__setitem__` would not see a `.` in it -/
def nameEsc (n : Str) : Bool := (splitOn dot (rep3 [37] [50] [69] dot n)).length == 1

/-- the scope of the history theorems (`Props/C12.lean`): a variable is constructed with a name whose quoted
    form has no `.` (a raw `.` survives only inside a `dap4` prefix) and no literal `%2E`; the arguments of all
    other operations are unrestricted -/
def Op.scope : Op → Bool
  | .new _ name _ => !(quote name).contains dot && nameEsc (quote name)
  | _ => true

/-! ### histories with interleaved lookups

A lookup (`handle[path…][key]`, any string key: a name, a dotted id, a relative dotted path) is an *observation*:
it returns something and leaves the store alone.  `HOp` is the alphabet of what a client program does, edits and
lookups in any order; `runH` runs such a history; `edits` forgets the lookups. -/

inductive HOp where
  | op (o : Op)
  | lookup (h : Nat) (path : List Str) (key : Str)
deriving Repr, Inhabited

/-- the answer of `handles[h][path…][key]` in a store -/
def lookupAt (s : State) (h : Nat) (path : List Str) (key : Str) : Except Err Found := do
  let o ← s.get h
  let c ← navigate path o
  lookup c key

def stepH (s : State) : HOp → State
  | .op o => step s o
  | .lookup _ _ _ => s

def runH (s : State) (hs : List HOp) : State := hs.foldl stepH s

/-- what a history answers: every lookup, in order, answered in the store reached by then (this is what the
    driver prints for the lookup steps) -/
def answers (s : State) : List HOp → List (Except Err Found)
  | [] => []
  | .op o :: t => answers (step s o) t
  | .lookup h p k :: t => lookupAt s h p k :: answers s t

/-- the edits of a history, lookups forgotten -/
def edits : List HOp → List Op
  | [] => []
  | .op o :: t => o :: edits t
  | .lookup _ _ _ :: t => edits t

end Pydap.Tree
