/-
  Model of pydap's DAP4 response decoding (handlers/dap.py):
  `decode_chunktype`, `stream2bytearray`, `UNPACKDAP4DATA.safe_dmr_and_data`,
  `get_count` / `decode_variable` / `UNPACKDAP4DATA.unpack_dap4_data`.

  Bytes are `List UInt8`.  Values are the unsigned reading (`Nat`) of an item's bits: DAP4 moves
  integers and floats bit for bit, so "same value" is "same bit pattern in the same byte order".
  Host byte order is a parameter of `decodeChunkType` (the Python consults `sys.byteorder`).
-/
namespace Pydap.Dap4

abbrev Bytes := List UInt8

inductive Err where
  | valueError      -- numpy.frombuffer / reshape on a buffer of the wrong size
  | indexError      -- `numpy.frombuffer(b"", ">u4")[0]`
  | keyError        -- DAP4 type not in the table
  | eofError        -- `BytesReader.read` / `stream2bytearray` on data that ends early (fix 72d8e7c)
deriving Repr, DecidableEq

/-! ### chunk header: `numpy.frombuffer(hdr, dtype=">u4")[0]`, `& 0x00FFFFFF`, `>> 24 & 0xFF` -/

def be32 (b0 b1 b2 b3 : UInt8) : Nat :=
  ((b0.toNat * 256 + b1.toNat) * 256 + b2.toNat) * 256 + b3.toNat

def chunkSize (h : Nat) : Nat := h % 16777216
def chunkType (h : Nat) : Nat := h / 16777216 % 256

/-! ### `decode_chunktype`: `"{0:03b}".format(t)`, reversed on a little-endian host -/

/-- binary digits of `n`, most significant first (`"{0:b}".format(n)`); fuel = `n` suffices -/
def binDigitsAux : Nat → Nat → List Bool → List Bool
  | 0, _, acc => acc
  | f + 1, n, acc => if n < 2 then (n == 1) :: acc else binDigitsAux f (n / 2) ((n % 2 == 1) :: acc)

def binDigits (n : Nat) : List Bool := binDigitsAux (n + 1) n []

/-- `"{0:03b}"`: left-pad with `0` to at least three characters -/
def pad3 (l : List Bool) : List Bool := List.replicate (3 - l.length) false ++ l

structure ChunkFlags where
  last : Bool
  error : Bool
  little : Bool      -- endian: `"<"` = true, `">"` = false
deriving Repr, DecidableEq

def decodeChunkType (hostLittle : Bool) (t : Nat) : ChunkFlags :=
  let enc := pad3 (binDigits t)
  let enc := if hostLittle then enc.reverse else enc
  ⟨enc.getD 0 false, enc.getD 1 false, enc.getD 2 false⟩
  -- `getD` never takes its default here: `enc` has at least three entries (`pad3_length`)

/-! ### `stream2bytearray` -/

/-- the `while offset < len(data)` loop; `data` is what is left from `offset` on. Each turn consumes
    at least the four header bytes, so `data.length` turns of fuel are enough. Returns the chunk bodies.
    Since fix 72d8e7c the data must hold every announced byte and end with a chunk flagged `last`:
    a short header, a short body and running out of data (the loop's `else`) raise `EOFError`. -/
def chunkBodies (hostLittle : Bool) : Nat → Bytes → Except Err (List Bytes)
  | _, [] => .error .eofError                       -- `while … else`: no last chunk (also: no data at all)
  | 0, _ :: _ => .error .eofError                   -- not reached with fuel = `data.length`
  | f + 1, b0 :: b1 :: b2 :: b3 :: rest =>
    let h := be32 b0 b1 b2 b3
    let size := chunkSize h
    let flags := decodeChunkType hostLittle (chunkType h)
    if rest.length < size then .error .eofError     -- `offset + 4 + chunk_size > len(data)`
    else
      let body := rest.take size                    -- `data[offset:offset+size]`
      if flags.last then .ok [body]
      else (chunkBodies hostLittle f (rest.drop size)).map (body :: ·)
  | _ + 1, _ => .error .eofError                    -- 1..3 bytes: `offset + 4 > len(data)`

def stream2bytearray (hostLittle : Bool) (data : Bytes) : Except Err Bytes :=
  (chunkBodies hostLittle data.length data).map List.flatten

/-! ### `safe_dmr_and_data` -/

structure Split where
  dmr : Bytes
  data : Bytes
  little : Bool
deriving Repr, DecidableEq

def safeDmrAndData (hostLittle : Bool) : Bytes → Except Err Split
  | b0 :: b1 :: b2 :: b3 :: rest =>
    let h := be32 b0 b1 b2 b3
    if rest.length < chunkSize h then .error .eofError      -- `self.raw.read(dmr_length)`
    else
      .ok ⟨rest.take (chunkSize h), rest.drop (chunkSize h), (decodeChunkType hostLittle (chunkType h)).little⟩
  | _ => .error .eofError                                   -- `self.raw.read(4)` on 0..3 bytes

/-! ### items in the response byte order -/

def fromLE : Bytes → Nat
  | [] => 0
  | b :: bs => b.toNat + 256 * fromLE bs

def fromBE (bs : Bytes) : Nat := fromLE bs.reverse

def leBytes : Nat → Nat → Bytes
  | 0, _ => []
  | w + 1, v => UInt8.ofNat (v % 256) :: leBytes w (v / 256)

def beBytes (w v : Nat) : Bytes := (leBytes w v).reverse

/-- `dtype.newbyteorder(endian)`: read one item -/
def decodeItem (little : Bool) (bs : Bytes) : Nat := if little then fromLE bs else fromBE bs

def encodeItem (little : Bool) (w v : Nat) : Bytes := if little then leBytes w v else beBytes w v

/-- cut `n` items of `w` bytes (`numpy.frombuffer` on an exact-size buffer) -/
def items (w : Nat) : Nat → Bytes → List Bytes
  | 0, _ => []
  | n + 1, bs => bs.take w :: items w n (bs.drop w)

/-! ### `unpack_dap4_data` -/

/-- what `get_count`/`decode_variable` need of a variable: element count (`prod(shape)`) and item size -/
structure Layout where
  count : Nat
  itemsize : Nat
deriving Repr, DecidableEq

structure Decoded where
  values : List Nat
  checksum : Option Nat       -- `numpy.frombuffer(buffer[stop:stop+4])`: empty when the buffer ended
deriving Repr, DecidableEq

/-- the loop over the variables, in the order the caller supplies them -/
def unpackVars (little : Bool) : List Layout → Bytes → Except Err (List Decoded)
  | [], _ => .ok []
  | d :: ds, buf =>
    let nbytes := d.count * d.itemsize                      -- get_count
    let raw := buf.take nbytes                              -- buffer[start:stop]
    if raw.length ≠ nbytes then .error .valueError          -- frombuffer (size not a multiple) / reshape
    else
      let vals := (items d.itemsize d.count raw).map (decodeItem little)
      let ck := (buf.drop nbytes).take 4                    -- buffer[stop:stop+4]
      if ck.length = 4 then
        -- `numpy.frombuffer(ck, endian + "u4").byteswap("=")`: the argument is `inplace` (truthy), so the
        -- word is byte-swapped: the attribute holds the checksum read in the *other* byte order
        (unpackVars little ds (buf.drop (nbytes + 4))).map (⟨vals, some (decodeItem (!little) ck)⟩ :: ·)
      else if ck.length = 0 then
        (unpackVars little ds (buf.drop (nbytes + 4))).map (⟨vals, none⟩ :: ·)
      else .error .valueError

/-- `UNPACKDAP4DATA` after the DMR has been turned into layouts by `layoutsOf` (the DMR parser,
    modelled in `PydapModel/Dmr.lean`; an abstract parameter here) -/
def unpackResponse (hostLittle : Bool) (layoutsOf : Bytes → Except Err (List Layout)) (resp : Bytes) :
    Except Err (Bytes × Bool × List Decoded) := do
  let s ← safeDmrAndData hostLittle resp
  let ls ← layoutsOf s.dmr
  let buf ← stream2bytearray hostLittle s.data
  let vs ← unpackVars s.little ls buf
  pure (s.dmr, s.little, vs)

/-! ### the sender (specification side; follows the DAP4 specification, not pydap) -/

def flagsByte (last error little : Bool) : Nat :=
  (if last then 1 else 0) + (if error then 2 else 0) + (if little then 4 else 0)

def chunkHeader (flags size : Nat) : Bytes :=
  [UInt8.ofNat flags, UInt8.ofNat (size / 65536 % 256), UInt8.ofNat (size / 256 % 256), UInt8.ofNat (size % 256)]

/-- chunk bodies → wire bytes; the last body carries the `last` flag -/
def chunkEncode (little : Bool) : List Bytes → Bytes
  | [] => []
  | [c] => chunkHeader (flagsByte true false little) c.length ++ c
  | c :: cs => chunkHeader (flagsByte false false little) c.length ++ c ++ chunkEncode little cs

/-- one variable's values and its checksum word -/
structure Sent where
  itemsize : Nat
  values : List Nat
  checksum : Nat
deriving Repr, DecidableEq

def Sent.layout (s : Sent) : Layout := ⟨s.values.length, s.itemsize⟩

def serialise (little : Bool) : List Sent → Bytes
  | [] => []
  | s :: ss => (s.values.flatMap (encodeItem little s.itemsize)) ++ encodeItem little 4 s.checksum
                 ++ serialise little ss

def encodeResponse (little : Bool) (dmr : Bytes) (chunks : List Bytes) : Bytes :=
  chunkHeader (flagsByte false false little) dmr.length ++ dmr ++ chunkEncode little chunks

end Pydap.Dap4
