/-
  C02 — the remote-subsetting chain, client to server and back:

    URL pre-constraint  → `proxy.slice`            (handlers/dap.py `add_dap2_proxies`/`add_dap4_proxies`)
    user index          → request hyperslab        (`BaseProxyDap2/4.__getitem__` =
                                                    `combine_slices(self.slice, fix_slice(index, self.shape))`,
                                                    `hyperslab`)
    request text        → parsed projection        (parsers `parse_projection`, `parse_hyperslab`)
    parsed projection   → selected source positions (handlers/lib.py `apply_projection`: `data[slice_]`)
    grids               → one request per child    (model.py `GridType.__getitem__`, `output_grid`)

  The slice arithmetic itself is `PydapModel.Slice` (C03); this file is the glue.  numpy basic
  indexing with a tuple of slices is the specification function `npSlices` (one `sel` per axis:
  axis independence is numpy's semantics, trusted and compared with numpy in the check).
-/
import PydapModel.Slice
namespace Pydap

/-! ### client: which slice a proxy stores when the dataset is opened -/

/-- `BaseProxyDap2.__init__`: `slice_ or tuple(slice(None) for s in self.shape)` -/
def defaultSlice (cshape : List Nat) : List Idx :=
  List.replicate cshape.length (Idx.sl PSlice.all)

/-- `add_dap2_proxies` / `add_dap4_proxies`, BaseType branch (and the array of a Grid): the
    hyperslab parsed from the URL is kept as parsed (it addresses the *source* variable; the DDS
    only reports the constrained shape) and padded with `slice(None)` to the rank:
    `index + tuple(slice(None) for _ in target.shape[len(index):])`. -/
def openSlice (pre : List PSlice) (cshape : List Nat) : List Idx :=
  pre.map Idx.sl ++ List.replicate (cshape.length - pre.length) (Idx.sl PSlice.all)

/-- the behaviour before the `fix:` — `fix_slice(index, target.shape)` re-normalised the URL
    hyperslab against the *constrained* shape (kept to state what the repair removed). -/
def openSliceOld (pre : List PSlice) (cshape : List Nat) : List Idx :=
  fixSlice (pre.map Idx.sl) cshape

/-- `BaseProxyDap2/4.__getitem__` up to the URL:
    `combine_slices(self.slice, fix_slice(index, self.shape))` -/
def proxyIndex (stored : List Idx) (cshape : List Nat) (idx : List Idx) : List PSlice :=
  combine stored (fixSlice idx cshape)

/-- the projection text sent for a variable: `self.id + hyperslab(index)` -/
def requestText (id : List Char) (stored : List Idx) (cshape : List Nat) (idx : List Idx) : List Char :=
  id ++ hyperslabText (proxyIndex stored cshape idx)

/-! ### server: `parse_projection` on one variable token, `apply_projection` on a BaseType -/

inductive SErr where
  | hyperslab (e : HErr)   -- raised by parse_hyperslab
  | indexError             -- numpy: too many indices for array
  | invalidProjection      -- ConstraintExpressionError("Invalid projection!")
  | keyError               -- unknown name
deriving DecidableEq, Repr

/-- one dotted part against the regexp `(.*?)(\[.*\])?$`: the lazy name stops at the first `[`
    provided the part ends with `]`; otherwise everything is the name. -/
def splitNameSlab (t : List Char) : List Char × List Char :=
  if t.getLast? = some ']' ∧ '[' ∈ t then (t.takeWhile (· ≠ '['), t.dropWhile (· ≠ '['))
  else (t, [])

/-- `parse` inside `parse_projection` for a token without `(`:
    `[(name, parse_hyperslab(slice_ or "")) for part in token.split(".")]` -/
def parseProjToken (t : List Char) : Except SErr (List (List Char × List PSlice)) :=
  (splitOnChar '.' t).mapM fun part =>
    match parseHyperslab (splitNameSlab part).2 with
    | .ok sl => .ok ((splitNameSlab part).1, sl)
    | .error e => .error (.hyperslab e)

/-- numpy basic indexing of an array of shape `shape` by a tuple of slices, as the list of
    selected positions per axis: one `sel` per axis, missing trailing axes taken whole, more
    slices than axes raise `IndexError`.  (`apply_projection`: `target.data = target[slice_]`;
    an empty `slice_` leaves the variable whole, which is the same function on `[]`.) -/
def npSlices : List Nat → List PSlice → Except SErr (List (List Nat))
  | [], [] => .ok []
  | [], _ :: _ => .error .indexError
  | n :: ns, [] => (npSlices ns []).map fun r => sel n PSlice.all :: r
  | n :: ns, s :: ss => (npSlices ns ss).map fun r => sel n s :: r

/-- the shape a selection has (what the DDS of the answer declares) -/
def selShape (r : List (List Nat)) : List Nat := r.map List.length

/-- server side of one request for a plain variable: parse the hyperslab text, slice the data -/
def serveSlab (shape : List Nat) (slab : List Char) : Except SErr (List (List Nat)) :=
  match parseHyperslab slab with
  | .ok sl => npSlices shape sl
  | .error e => .error (.hyperslab e)

/-! ### the chain -/

/-- shape the client sees after opening with URL pre-constraint `pre` (from the DDS of the
    constrained request) -/
def constrainedShape (shape : List Nat) (pre : List PSlice) : Except SErr (List Nat) :=
  (npSlices shape pre).map selShape

/-- `open_url(url + "?v" + hyperslab(pre))` then `dataset.v[idx]`: the positions of the source
    array, per axis, that the server's answer contains. -/
def remoteIndex (shape : List Nat) (pre : List PSlice) (idx : List Idx) : Except SErr (List (List Nat)) :=
  match constrainedShape shape pre with
  | .error e => .error e
  | .ok cshape =>
    serveSlab shape (hyperslabText (proxyIndex (openSlice pre cshape) cshape idx))

/-! ### grids -/

/-- the repaired `GridType.__getitem__` expands the first `Ellipsis` of the key to `n` full slices
    before pairing key entries with maps (`key[:i] + (slice(None),) * n + key[i+1:]`) -/
def expandKey : List Idx → Nat → List Idx
  | [], _ => []
  | Idx.ell :: rest, n => List.replicate n (Idx.sl PSlice.all) ++ rest
  | x :: rest, n => x :: expandKey rest n

/-- pairs (child number, index) of `zip(out.children(), [key] + list(key))`, children being the
    array (0) and the maps (1..rank) -/
def pairMaps : List Idx → Nat → Nat → List (Nat × List Idx)
  | [], _, _ => []
  | _ :: _, _, 0 => []
  | e :: es, i, m + 1 => (i, [e]) :: pairMaps es (i + 1) m

/-- `GridType.__getitem__` for a non-string key: which child's data is indexed with what.
    `output_grid = False`: only the array. -/
def gridGetitem (outputGrid : Bool) (rank : Nat) (key : List Idx) : List (Nat × List Idx) :=
  if outputGrid then
    (0, key) :: pairMaps (expandKey key (rank + 1 - key.length)) 1 rank
  else [(0, key)]

/-- before the `fix:` the raw key was zipped with the maps -/
def gridGetitemOld (outputGrid : Bool) (rank : Nat) (key : List Idx) : List (Nat × List Idx) :=
  if outputGrid then (0, key) :: pairMaps key 1 rank else [(0, key)]

end Pydap
