/-
  C04 — the two ends of a sequence request on the wire.

  Client (handlers/dap.py): `SequenceProxy.id`, `_projection`, `url` (the query text of the GET a
  proxy issues, over the heap objects of `PydapModel/Proxy.lean`), the comparison operators
  (`"%s<%s" % (self.id, self._operand(other))`), `ConstraintExpression.__and__`, and the proxy
  `open_url(url?ce)` installs (`add_dap2_proxies`).

  Server (parsers/__init__.py `parse_ce` / `parse_projection`, handlers/lib.py `BaseHandler.parse`):
  the query text cut at `&`, the projection cut at `,` and `.`, `name[hyperslab]` parts
  (`re.match(r"(.*?)(\[.*\])?$", part)`), `parse_hyperslab` (C03), and what the projection of a
  dataset whose only variable is the flat sequence `id` selects (`Seq.Request`), answered by
  `Seq.serve`.

  Outside the model: URL quoting (`quote`/`unquote` of the query, an identity on the characters
  generated), server-side function calls (any parenthesis in the projection → `none`), the
  shorthand notation (`i` for `s.i` → `none`), line breaks in names.
-/
import PydapModel.Proxy
import PydapModel.Seq
import PydapModel.CE
namespace Pydap.SeqClient
open Pydap

open Pydap.IterData (Name)

/-- `sep.join(parts)` -/
def joinWith (sep : Char) : List (List Char) → List Char
  | [] => []
  | [a] => a
  | a :: b :: rest => a ++ sep :: joinWith sep (b :: rest)

/-- `text.rstrip(c)` -/
def rstripChar (c : Char) (l : List Char) : List Char := (l.reverse.dropWhile (· = c)).reverse

/-! ### client: the text a proxy writes -/

/-- `SequenceProxy.id`: `",".join(child.id …)` with selected columns, else `template.id` -/
def proxyId (t : Proxy.Tmpl) (p : Proxy.SeqProxy) : List Char := joinWith ',' (Proxy.seqIds t p)

/-- `SequenceProxy._projection` (after 0ac472f): with selected columns the record range is written
    on the sequence name of the first column, `s[0:1:9].a,s.b`; otherwise after the id. -/
def projText (t : Proxy.Tmpl) (p : Proxy.SeqProxy) : List Char :=
  if p.subChildren ∧ t.visible ≠ [] then
    match Proxy.seqIds t p with
    | [] => []
    | i0 :: rest =>
      joinWith ',' ((Proxy.joinDot t.path ++ hyperslabText p.slice ++ i0.drop (Proxy.joinDot t.path).length) :: rest)
  else proxyId t p ++ hyperslabText p.slice

/-- `SequenceProxy._projection`, all three branches (after 3339666): with selected columns the record
    range goes on the sequence name of the first column (`projText`); for a single column — the
    template is not a `SequenceType` (a `BaseType` has no `_dict` keys) and the id has a dot — the id
    is cut at its LAST dot (`rpartition(".")`) and the record range is written on the sequence,
    `s[a:k:b].f`; otherwise after the id (`projText`). -/
def projFull (t : Proxy.Tmpl) (p : Proxy.SeqProxy) : List Char :=
  if p.subChildren ∧ t.visible ≠ [] then projText t p
  else if t.keys = [] then
    match IterData.rsplitDot (proxyId t p) with
    | some (seq, name) => seq ++ hyperslabText p.slice ++ '.' :: name
    | none => projText t p
  else projText t p

/-- the query of `SequenceProxy.url`: `(projection + "&" + "&".join(selection)).rstrip("&")` -/
def queryText (t : Proxy.Tmpl) (p : Proxy.SeqProxy) : List Char :=
  rstripChar '&' (projFull t p ++ '&' :: joinWith '&' p.selection)

/-- the query of the GET that reading object `r` issues now -/
def objQuery (h : Proxy.Heap) (r : Nat) : Option (List Char) :=
  match h.objs[r]? with
  | some (.seq p) => (h.tmpls[p.template]?).map fun t => queryText t p
  | _ => none

/-- the other operand of a comparison: a proxy (of a column) or a Python value -/
inductive Operand (A : Type) where
  | proxy (t : Proxy.Tmpl) (p : Proxy.SeqProxy)
  | value (a : A)

/-- `SequenceProxy._operand` (after a9db7f4): the other proxy's id, else `encode(other)` -/
def operandText {A} (enc : A → List Char) : Operand A → List Char
  | .proxy t p => proxyId t p
  | .value a => enc a

/-- `SequenceProxy.__lt__` …: `ConstraintExpression("%s<%s" % (self.id, self._operand(other)))` -/
def cmpText {A} (enc : A → List Char) (t : Proxy.Tmpl) (p : Proxy.SeqProxy) (op : IterData.Op)
    (o : Operand A) : List Char :=
  CE.renderClause ⟨proxyId t p, op, operandText enc o⟩

/-- `ConstraintExpression.__and__` folded over a conjunction: `value + "&" + str(other)` -/
def andText (cs : List (List Char)) : List Char := joinWith '&' cs

/-- `seq[ConstraintExpression(text)]`: the key `__getitem__` sees, `str(key).split("&")` -/
def ceKey (text : List Char) : Proxy.DKey := .ce (splitOnChar '&' text)

/-- a comparison written with the columns of a sequence proxy: `seq[col] OP seq[other] | value` -/
inductive Rhs (A : Type) where
  | col (k : Name)
  | val (a : A)

structure Cmp (A : Type) where
  col : Name
  op : IterData.Op
  rhs : Rhs A

/-- the child proxy `seq[k]` as `seqApply … (.name k)` builds it (template `path ++ [k]` without
    children, `sub_children` off); only its id is read by the operators -/
def childOf (path : List Name) (p : Proxy.SeqProxy) (k : Name) : Proxy.Tmpl × Proxy.SeqProxy :=
  (⟨path ++ [k], [], []⟩, { p with subChildren := false })

/-- the text of `seq[c.col] OP seq[k] | v` for a sequence proxy with template path `path` -/
def cmpOf {A} (enc : A → List Char) (path : List Name) (p : Proxy.SeqProxy) (c : Cmp A) : List Char :=
  cmpText enc (childOf path p c.col).1 (childOf path p c.col).2 c.op
    (match c.rhs with
     | .col k => .proxy (childOf path p k).1 (childOf path p k).2
     | .val v => .value v)

/-- one client operator on a sequence: `seq[c1 & c2 & …]`, `seq[[cols]]`, `seq[a:b:k]`, `seq[i]` -/
inductive COp (A : Type) where
  | filt (c : Cmp A) (cs : List (Cmp A))
  | cols (ks : List Name)
  | sl (s : PSlice)
  | idx (i : Int)

/-- the `__getitem__` key of a client operator (the comparisons are made on children of the opened
    sequence `path`; a conjunction has at least one comparison) -/
def keyOf {A} (enc : A → List Char) (path : List Name) (p : Proxy.SeqProxy) : COp A → Proxy.DKey
  | .filt c cs => ceKey (andText ((c :: cs).map (cmpOf enc path p)))
  | .cols ks => .cols ks
  | .sl s => .sl s
  | .idx i => .idx i

/-! ### server: reading the text -/

/-- `re.search("<=|>=|!=|=~|>|<|=", token)`: every alternative contains `<`, `>` or `=` and each of
    these is an alternative -/
def hasOp (t : List Char) : Bool := t.any fun c => c = '<' || c = '>' || c = '='

/-- `re.match(r"(.*?)(\[.*\])?$", part).groups()`: the shortest prefix after which the rest is empty
    or is `[` … `]` up to the end of the text -/
def splitBracket (part : List Char) : List Char × List Char :=
  if part.getLast? = some ']' ∧ '[' ∈ part then (part.takeWhile (· ≠ '['), part.dropWhile (· ≠ '['))
  else (part, [])

/-- `parse` of `parse_projection` for a token without parenthesis -/
def parseItem (tok : List Char) : Except HErr (List (Name × List PSlice)) :=
  (splitOnChar '.' tok).mapM fun part =>
    (parseHyperslab (splitBracket part).2).map fun s => ((splitBracket part).1, s)

/-- `parse_projection(text, "dap2")` when no function call is present (then `tokenize` is a split at
    every comma); `none` = outside the model (parenthesis) or the hyperslab does not parse -/
def parseProjection (t : List Char) : Option (List (List (Name × List PSlice))) :=
  if '(' ∈ t ∨ ')' ∈ t then none
  else match (splitOnChar ',' t).mapM parseItem with
    | .ok items => some items
    | .error _ => none

/-- `parse_ce(query, "dap2")` -/
def parseCE (q : List Char) : Option (List (List (Name × List PSlice)) × List (List Char)) :=
  match (splitOnChar '&' q).filter (· ≠ []) with
  | [] => some ([], [])
  | t0 :: rest => if hasOp t0 then some ([], t0 :: rest) else (parseProjection t0).map fun p => (p, rest)

/-- one projection item of a dataset whose only variable is the flat sequence `id`:
    `id[slab]` (the whole sequence) or `id[slab].column` -/
def itemOf (id : Name) (names : List Name) : List (Name × List PSlice) → Option (Option Name × List PSlice)
  | [(n, sl)] => if n = id then some (none, sl) else none
  | [(n, sl), (c, [])] => if n = id ∧ c ∈ names then some (some c, sl) else none
  | _ => none

/-- what `BaseHandler.parse` is asked for: an empty projection is the whole dataset; the columns in
    request order (`apply_projection` adds them to the new sequence in that order, then "fix sequence
    data" selects them by name); one record range (`parent[name] = target[slice_[0]]` — a range
    repeated on several items would slice twice and is not a `Request`); the selection tokens cut at
    their operator.  `none` = not a request of this form. -/
def toRequest (id : Name) (names : List Name) (proj : List (List (Name × List PSlice)))
    (sel : List (List Char)) : Option Seq.Request :=
  match sel.mapM CE.parseClause with
  | none => none
  | some clauses =>
    if proj = [] then some ⟨none, none, clauses⟩
    else match proj.mapM (itemOf id names) with
      | none => none
      | some items =>
        let range : Option (Option PSlice) :=
          match (items.map (·.2)).filter (· ≠ []) with
          | [] => some none
          | [[s]] => some (some s)
          | _ => none
        let cols : Option (Option (List Name)) :=
          if items.all (·.1.isSome) then
            (if (items.filterMap (·.1)).Nodup then some (some (items.filterMap (·.1))) else none)
          else match items with
            | [(none, _)] => some none
            | _ => none
        match range, cols with
        | some r, some c => some ⟨c, r, clauses⟩
        | _, _ => none

/-- the server's answer to a query text; `none` = the text is outside the model -/
def serveQuery {A} (cmp : IterData.Op → A → A → Bool) (enc : A → List Char) (lit : List Char → Option A)
    (b : Seq.Backend) (id : Name) (names : List Name) (rows : List (List A)) (q : List Char) :
    Option (Except IterData.Err (List (IterData.Item A))) :=
  match parseCE q with
  | none => none
  | some (proj, sel) => (toRequest id names proj sel).map fun r => Seq.serve cmp enc lit b id names rows r

/-! ### `open_url(url?ce)` -/

/-- the constraint of the URL given to `open_url`, as `DAPHandler` reads it with `parse_ce`:
    the projection (absent, or columns / whole sequence with an optional record range) and the raw
    selection tokens -/
structure UrlCE where
  proj : Option (Option (List Name) × Option PSlice)
  sel : List (List Char)

/-- the template of the proxy `add_dap2_proxies` installs: the sequence of the DDS, i.e. the requested
    columns in request order -/
def openTmpl (id : Name) (names : List Name) (u : UrlCE) : Proxy.Tmpl :=
  match u.proj with
  | none => ⟨[id], names, names⟩
  | some (cols, _) => ⟨[id], cols.getD names, cols.getD names⟩

/-- the proxy itself: `sub_children = bool(projection)`, the selection of the URL, the record range of
    the URL (`target.data.slice = index`, as parsed) -/
def openProxy (baseurl : Name) (σ : Proxy.Sess) (tmpl : Nat) (u : UrlCE) : Proxy.SeqProxy :=
  { baseurl := baseurl, template := tmpl, selection := u.sel,
    slice := [match u.proj with
              | some (_, some r) => r
              | _ => PSlice.all],
    subChildren := u.proj.isSome, session := σ, opts := 1 }

end Pydap.SeqClient
