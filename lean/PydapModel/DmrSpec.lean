/-
  Specification side of C11 / C10: abstract DMR specs (what a document *declares*), an independent
  rendering of a spec as an element tree, and the variables a spec declares (the expected result of parsing).
  Nothing here follows pydap; it follows the DAP4 specification and `harness/oracle/refdap4.py`
  (the correspondence `dmr-spec` checks that this rendering is ElementTree's tree of the text that
  `refdap4.render_dmr` writes, and that `expectVars` is what `dmr_to_dataset` returns).

  Also: the server side (`responses/dmr.py`) — a server dataset and the element tree of the DMR it writes.
-/
import PydapModel.Dmr
namespace Pydap.Dmr

/-! ### declared dimensions of a variable -/

/-- a declared dimension of a variable: a reference to a named dimension (with the size that name
    resolves to) or an anonymous extent -/
inductive SDim where
  | named (fq : Str) (size : Int)
  | anon (size : Nat)
deriving Repr, DecidableEq

def SDim.size : SDim → Int
  | .named _ s => s
  | .anon n => n

/-- the key under which `get_named_dimensions` files a dimension referenced as `fq` -/
def dimKey (fq : Str) : Str := if noSlashAfterFirst fq then fq.filter (· != '/') else fq

/-- independent rendering of a `Dim` element -/
def renderDim : SDim → XNode
  | .named fq _ => .mk "Dim".toList [("name".toList, fq)] none []
  | .anon n => .mk "Dim".toList [("size".toList, natDigits n)] none []

def SDim.names : List SDim → List Str
  | [] => []
  | .named fq _ :: r => dimKey fq :: SDim.names r
  | .anon _ :: r => SDim.names r

/-- the fully qualified names a variable's `Dim`s refer to, in order -/
def SDim.refs : List SDim → List Str
  | [] => []
  | .named fq _ :: r => fq :: SDim.refs r
  | .anon _ :: r => SDim.refs r

/-! ### attributes -/

/-- one declared attribute value: its text, and for integer types the integer the text denotes -/
inductive SVal where
  | int (text : Str) (i : Int)
  | float (text : Str)
  | str (text : Str)
deriving Repr, DecidableEq

def SVal.text : SVal → Str
  | .int t _ => t
  | .float t => t
  | .str t => t

def SVal.scalar : SVal → Scalar
  | .int _ i => .int i
  | .float t => .float t
  | .str t => .str t

/-- `<Attribute name type [value=…]>` with `<Value>text</Value>` (`true`) or `<Value value=…/>` (`false`) children -/
structure SAttr where
  name : Str
  type : Str
  inline : Option SVal
  values : List (Bool × SVal)
deriving Repr, DecidableEq

def SAttr.all (a : SAttr) : List SVal := a.inline.toList ++ a.values.map (·.2)

/-- the declared value: none / a single value / the list, in document order -/
def SAttr.expected (a : SAttr) : AttrVal :=
  match a.all.map SVal.scalar with
  | [] => .none
  | [v] => .one v
  | vs => .many vs

def renderVal : Bool × SVal → XNode
  | (true, v) => .mk "Value".toList [] (some v.text) []
  | (false, v) => .mk "Value".toList [("value".toList, v.text)] none []

def renderAttr (a : SAttr) : XNode :=
  .mk "Attribute".toList
    ([("name".toList, a.name), ("type".toList, a.type)]
      ++ (match a.inline with | some v => [("value".toList, v.text)] | none => []))
    none (a.values.map renderVal)

/-- the value kinds agree with the declared type: floats for the float types, decimal integer texts for the
    other atomic types, strings for everything else (`String`, `URI`, …) -/
def SAttr.ok (a : SAttr) : Prop :=
  (a.type ∈ atomicTypes ∧ a.type ∈ floatTypes ∧ ∀ v ∈ a.all, ∃ t, v = .float t)
  ∨ (a.type ∈ atomicTypes ∧ a.type ∉ floatTypes ∧ ∀ v ∈ a.all, ∃ t i, v = .int t i ∧ parseIntChars t = some i)
  ∨ (a.type ∉ atomicTypes ∧ ∀ v ∈ a.all, ∃ t, v = .str t)

/-! ### variables and groups -/

structure SVar where
  tag : Str                 -- the DMR type = the element tag
  name : Str
  dims : List SDim
  attrs : List SAttr
  maps : List Str
deriving Repr, DecidableEq

def renderMap (m : Str) : XNode := .mk "Map".toList [("name".toList, m)] none []

def renderVar (v : SVar) : XNode :=
  .mk v.tag [("name".toList, v.name)] none
    (v.dims.map renderDim ++ (v.attrs.map renderAttr ++ v.maps.map renderMap))

/-- the content of a `<Dataset>` or `<Group>`: declarations in document order (any interleaving);
    `group name body rest` is a nested group followed by the remaining siblings -/
inductive Spec where
  | nil
  | dim (name : Str) (size : Nat) (rest : Spec)
  | var (v : SVar) (rest : Spec)
  | attr (a : SAttr) (rest : Spec)
  | group (name : Str) (body : Spec) (rest : Spec)
deriving Repr

def renderItems : Spec → List XNode
  | .nil => []
  | .dim n s rest => .mk "Dimension".toList [("name".toList, n), ("size".toList, natDigits s)] none [] :: renderItems rest
  | .var v rest => renderVar v :: renderItems rest
  | .attr a rest => renderAttr a :: renderItems rest
  | .group n body rest => .mk "Group".toList [("name".toList, n)] none (renderItems body) :: renderItems rest

/-- the document: `pre` are the other attributes of `<Dataset>` (dapVersion, xml:base, …) -/
def renderRoot (pre : List (Str × Str)) (name : Str) (s : Spec) : XNode :=
  .mk "Dataset".toList (pre ++ [("name".toList, name)]) none (renderItems s)

/-- `/g/h` for the group path `[g, h]`; empty for the root -/
def pathStr : List Str → Str
  | [] => []
  | p :: ps => '/' :: p ++ pathStr ps

/-- fully qualified name `/g/h/x` (root: `/x`) -/
def fqn (path : List Str) (name : Str) : Str := pathStr (path ++ [name])

/-- the name under which pydap files a root-level declaration is the bare name -/
def keyOf (path : List Str) (name : Str) : Str := if path = [] then name else fqn path name

/-- declared variables in document order (depth first), each with its group path **as pydap stores it**:
    every group name quoted (`_quote`; `g h` is the group `g%20h`).  The variable's own name stays as declared. -/
def specVars (path : List Str) : Spec → List (List Str × SVar)
  | .nil => []
  | .dim _ _ rest => specVars path rest
  | .var v rest => (path, v) :: specVars path rest
  | .attr _ rest => specVars path rest
  | .group n body rest => specVars (path ++ [quoteName n]) body ++ specVars path rest

/-- declared dimensions: group path, name, size -/
def declDims (path : List Str) : Spec → List (List Str × Str × Nat)
  | .nil => []
  | .dim n s rest => (path, n, s) :: declDims path rest
  | .var _ rest => declDims path rest
  | .attr _ rest => declDims path rest
  | .group n body rest => declDims (path ++ [n]) body ++ declDims path rest

def hasGroup : Spec → Bool
  | .nil => false
  | .dim _ _ rest => hasGroup rest
  | .var _ rest => hasGroup rest
  | .attr _ rest => hasGroup rest
  | .group _ _ _ => true

/-- one component of a path: non-empty, no `/` (dimension names: they are never quoted) -/
def segName (n : Str) : Prop := n ≠ [] ∧ '/' ∉ n

/-- names of groups and variables: any non-empty byte string (the UTF-8 bytes of the name: blanks, brackets, `.`,
    `&`, `%`, non-ASCII, … included) without `/` that does not start with `dap4` (the prefix `_quote` passes
    through on purpose, C12) -/
def goodName (n : Str) : Prop :=
  n ≠ [] ∧ '/' ∉ n ∧ (∀ c ∈ n, c.toNat < 256) ∧ n.take 4 ≠ ['d', 'a', 'p', '4']

/-- the two keys pydap itself keeps in a variable's `attributes` dict: `Maps` (always set by
    `createVariable`) and `path` (set by `dmr_to_dataset` on every member of a group).  A declared attribute
    of that name is overwritten (`C11_parse_refuted`; open finding `C11.reserved_attribute_name`). -/
def reservedAttrNames : List Str := ["Maps".toList, "path".toList]

/-- local well-formedness of a variable declaration *without* the guard on reserved attribute names
    (the property's own domain; `C11_parse_refuted` shows that the parser fails on it) -/
def SVar.ok0 (v : SVar) : Prop :=
  v.tag ∈ varTags ∧ goodName v.name ∧ (∀ a ∈ v.attrs, a.ok) ∧ (v.attrs.map (·.name)).Nodup

def SVar.ok (v : SVar) : Prop :=
  v.tag ∈ varTags ∧ goodName v.name ∧ (∀ a ∈ v.attrs, a.ok) ∧ (v.attrs.map (·.name)).Nodup ∧
  (∀ a ∈ v.attrs, a.name ∉ reservedAttrNames)

/-- local well-formedness of every declaration, reserved attribute names allowed (the property's domain) -/
def Spec.ok0 : Spec → Prop
  | .nil => True
  | .dim n _ rest => segName n ∧ rest.ok0
  | .var v rest => v.ok0 ∧ rest.ok0
  | .attr a rest => a.ok ∧ rest.ok0
  | .group n body rest => goodName n ∧ body.ok0 ∧ rest.ok0

/-- no variable declares an attribute under one of pydap's own keys (`reservedAttrNames`) -/
def Spec.noReserved : Spec → Prop
  | .nil => True
  | .dim _ _ rest => rest.noReserved
  | .var v rest => (∀ a ∈ v.attrs, a.name ∉ reservedAttrNames) ∧ rest.noReserved
  | .attr _ rest => rest.noReserved
  | .group _ body rest => body.noReserved ∧ rest.noReserved

/-- local well-formedness of every declaration (no variable declares an attribute named `Maps` or `path`) -/
def Spec.ok : Spec → Prop
  | .nil => True
  | .dim n _ rest => segName n ∧ rest.ok
  | .var v rest => v.ok ∧ rest.ok
  | .attr a rest => a.ok ∧ rest.ok
  | .group n body rest => goodName n ∧ body.ok ∧ rest.ok

/-- what parsing must return for a declared variable (`path`: its group path as stored, see `specVars`):
    `key` = the name it is filed under in `variables` (quoted group path + declared name; the dataset stores
    `_quote(key)`), `name` = the declared name, `path` = the quoted group path -/
def expectVar (path : List Str) (v : SVar) : VarRec :=
  { key := keyOf path v.name
    name := v.name
    path := if path = [] then none else some (pathStr path)
    dtype := (dap4ToNumpy v.tag).getD []
    dims := SDim.refs v.dims
    shape := v.dims.map SDim.size
    maps := v.maps.map some
    attrs := v.attrs.map fun a => (a.name, a.expected) }

def expectVars (s : Spec) : List VarRec := (specVars [] s).map fun pv => expectVar pv.1 pv.2

/-- every `Dim` reference names a declaration, and carries that declaration's size -/
def refsResolve (s : Spec) : Prop :=
  ∀ pv ∈ specVars [] s, ∀ fq sz, SDim.named fq sz ∈ pv.2.dims →
    ∃ d ∈ declDims [] s, fq = fqn d.1 d.2.1 ∧ sz = (d.2.2 : Int)

/-- no two declarations share a fully qualified name (variables: quoted group path + declared name, the key
    of `get_variables`; dimensions: as declared) -/
def distinctVars (s : Spec) : Prop := ((specVars [] s).map fun pv => fqn pv.1 pv.2.name).Nodup
def distinctDims (s : Spec) : Prop := ((declDims [] s).map fun d => fqn d.1 d.2.1).Nodup

end Pydap.Dmr
