import PydapModel.Path
import PydapModel.PathServer
/-
  C16 — the configured data directory as the operator spells it.

  `DapServer.__init__`: `self.path = os.path.abspath(path)`; `os.path.abspath(p)` is
  `normpath(join(os.getcwd(), p))`: a spelling that starts with `/` is normalised on its own, any other one is
  taken relative to the working directory of the moment the server is created (`cwd`, a parameter: itself an
  absolute normalised path, as `os.getcwd()` returns it).  `normpath`: empty components (`//`, trailing `/`) and `.`
  are dropped, `..` pops a component and is dropped at the root — the same `normStep` fold `__call__` applies to
  the request (`Path.resolve`).

  Outside the model: POSIX `normpath` keeps *exactly two* leading slashes (`//data` stays `//data`;
  `leadingDouble`); a `DapServer` configured that way holds `//data` and compares request paths that also start with
  `//` — everything is shifted by one character.  The theorems about spellings exclude it by hypothesis where it matters.
-/
namespace Pydap.Path

/-- `os.path.abspath(spelling)` with `os.getcwd() = text cwd` -/
def abspath (cwd : Segs) (spelling : List Char) : Segs :=
  match spelling with
  | '/' :: _ => resolve [] (splitSlash spelling)
  | _ => resolve cwd (splitSlash spelling)

/-- the spelling starts with exactly two slashes -/
def leadingDouble : List Char → Bool
  | '/' :: '/' :: '/' :: _ => false
  | '/' :: '/' :: _ => true
  | _ => false

/-- `DapServer(spelling)` created while the working directory is `cwd` -/
def Srv.init (cwd : Segs) (spelling : List Char) (exts : List Seg) : Srv := ⟨abspath cwd spelling, exts⟩

/-- one request to a server configured with `spelling`: `DapServer(spelling)(req)` -/
def serveSpelled (exts : List Seg) (fs : FS) (cwd : Segs) (spelling : List Char) (pathInfo : List Char) :
    List Access × Outcome :=
  ((Srv.init cwd spelling exts).call fs pathInfo).2

end Pydap.Path
