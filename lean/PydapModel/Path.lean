/-
  C16 — model of `DapServer.__call__` / `DapServer.index` (wsgi/app.py), `get_handler` /
  `supported` (handlers/lib.py, wsgi/app.py) over an abstract file system.

  Paths are lists of components (`Segs`); a component is a `List Char`.  The text of a path
  (`text`) is what Python holds in its `str`; the containment test is modelled on that text,
  exactly as the code performs it, and related to the component-level prefix order by the
  lemmas in `Proofs/Path.lean`.

  Trusted (modelled, exercised by the correspondence, not proved): webob's percent-decoding of
  PATH_INFO (the model starts from `req.path_info`), `str.split("/")`, `os.path.join`,
  `posixpath.normpath` on an absolute path, `posixpath.splitext`, `os.path.dirname/basename`,
  `re.match` on the handlers' `^.*\.(e1|e2|…)$` patterns with IGNORECASE, `os.listdir`,
  `os.path.exists/isdir/isfile`, no symbolic links.
-/
namespace Pydap.Path

abbrev Seg := List Char
abbrev Segs := List Seg

def dot : Seg := ['.']
def dotdot : Seg := ['.', '.']

/-- `str.split("/")`: always at least one component -/
def splitSlash : List Char → Segs
  | [] => [[]]
  | c :: cs =>
    if c = '/' then [] :: splitSlash cs
    else match splitSlash cs with
      | [] => [[c]]
      | s :: rest => (c :: s) :: rest

/-- one step of `posixpath.normpath` on an absolute path; `acc` is the reversed list of kept
    components (`new_comps`): `''` and `'.'` are skipped, `'..'` pops and is dropped at the root -/
def normStep (acc : Segs) (s : Seg) : Segs :=
  if s = [] ∨ s = dot then acc
  else if s = dotdot then acc.tail
  else s :: acc

/-- `os.path.abspath(os.path.join(root, *segs))` for an already normalised absolute `root` -/
def resolve (root : Segs) (req : Segs) : Segs :=
  (req.foldl normStep root.reverse).reverse

/-- the text of a non-root absolute path: `/a/b` -/
def body : Segs → List Char
  | [] => []
  | s :: r => '/' :: (s ++ body r)

/-- the `str` Python holds for a normalised absolute path -/
def text (p : Segs) : List Char :=
  match p with
  | [] => ['/']
  | _ => body p

/-- `os.path.join(t, "")`: append a separator unless `t` already ends with one -/
def withSep (t : List Char) : List Char :=
  if t.getLast? = some '/' then t else t ++ ['/']

/-- the containment test of the pinned tree: `path.startswith(self.path)` -/
def containedStringPrefix (root p : Segs) : Bool :=
  (text root).isPrefixOf (text p)

/-- the containment test of the repaired code:
    `path == self.path or path.startswith(os.path.join(self.path, ""))` -/
def contained (root p : Segs) : Bool :=
  text p == text root || (withSep (text root)).isPrefixOf (text p)

/-! ### the abstract file system -/

inductive Node where
  | missing
  | file
  | dir (entries : List Seg)      -- `os.listdir` order
deriving Repr, DecidableEq

abbrev FS := Segs → Node

def Node.isDir : Node → Bool
  | .dir _ => true
  | _ => false

def Node.isFile : Node → Bool
  | .file => true
  | _ => false

def Node.exists : Node → Bool
  | .missing => false
  | _ => true

/-! ### `posixpath.splitext`, `dirname`, `basename` -/

/-- `splitext` on the last component: the extension starts at the last dot, unless only dots
    precede it -/
def splitextSeg (s : Seg) : Seg × Seg :=
  let r := s.reverse
  let extR := r.takeWhile (· ≠ '.')
  match r.drop extR.length with
  | [] => (s, [])
  | _ :: stemR => if stemR.all (· = '.') then (s, []) else (stemR.reverse, '.' :: extR.reverse)

def dirname (p : Segs) : Segs := p.dropLast
def basename (p : Segs) : Seg := p.getLast?.getD []

/-- `os.path.splitext(path)[0]` -/
def stripExt (p : Segs) : Segs :=
  match p.getLast? with
  | none => p
  | some s => p.dropLast ++ [(splitextSeg s).1]

/-! ### handler lookup: `re.compile(r"^.*\.(e1|e2)$", re.IGNORECASE).match(filepath)` -/

def lowerChar (c : Char) : Char :=
  if 'A' ≤ c ∧ c ≤ 'Z' then Char.ofNat (c.toNat + 32) else c

def lower (s : Seg) : Seg := s.map lowerChar

def endsWith (s suf : Seg) : Bool := suf.reverse.isPrefixOf s.reverse

/-- some handler's pattern matches the text of `p`; `exts` are the alternatives of all handlers'
    patterns in lower case (`csv`, `nc4`, `nc`, `cdf`) -/
def hasHandler (exts : List Seg) (p : Segs) : Bool :=
  exts.any fun e => endsWith (lower (text p)) ('.' :: e)

/-! ### `alphanum_key` and the sort of `index` -/

inductive Chunk where
  | str (s : List Char)
  | num (n : Nat)
deriving Repr, DecidableEq

def isDigit (c : Char) : Bool := '0' ≤ c ∧ c ≤ '9'

def digitsVal (ds : List Char) : Nat := ds.foldl (fun a c => a * 10 + (c.toNat - '0'.toNat)) 0

/-- `re.split("([0-9]+)", s)` followed by `tryint`: str, num, str, …, str.  `fuel ≥ length`. -/
def chunksFuel : Nat → List Char → List Chunk
  | 0, _ => [.str []]
  | fuel + 1, cs =>
    let s := cs.takeWhile (fun c => !isDigit c)
    let rest := cs.drop s.length
    match rest with
    | [] => [.str s]
    | _ =>
      let d := rest.takeWhile isDigit
      .str s :: .num (digitsVal d) :: chunksFuel fuel (rest.drop d.length)

def alphanumKey (s : List Char) : List Chunk := chunksFuel (s.length + 1) s

def charsLt : List Char → List Char → Bool
  | [], [] => false
  | [], _ :: _ => true
  | _ :: _, [] => false
  | a :: as, b :: bs => if a.toNat < b.toNat then true else if b.toNat < a.toNat then false else charsLt as bs

/-- `a < b` for chunks of the same kind (Python raises TypeError otherwise; cannot happen for
    keys produced by `alphanumKey`, where kinds alternate in the same positions) -/
def chunkLt : Chunk → Chunk → Bool
  | .str a, .str b => charsLt a b
  | .num a, .num b => a < b
  | _, _ => false

/-- Python list comparison `a <= b`, as used by a stable sort: not (b < a) -/
def keyLt : List Chunk → List Chunk → Bool
  | [], [] => false
  | [], _ :: _ => true
  | _ :: _, [] => false
  | a :: as, b :: bs => if chunkLt a b then true else if chunkLt b a then false else keyLt as bs

def nameLe (a b : Seg) : Bool := !(keyLt (alphanumKey b) (alphanumKey a))

/-- stable insertion: `x` came before every element of the (sorted) tail and stays before equals -/
def insertName (x : Seg) : List Seg → List Seg
  | [] => [x]
  | y :: ys => if nameLe x y then x :: y :: ys else y :: insertName x ys

/-- `list.sort(key=alphanum_key)`: stable (modelled as a stable insertion sort) -/
def sortNames : List Seg → List Seg
  | [] => []
  | x :: xs => insertName x (sortNames xs)

/-! ### accesses and outcomes -/

inductive Op where
  | stat | listdir | serve | handler
deriving Repr, DecidableEq

structure Access where
  op : Op
  path : Segs
deriving Repr, DecidableEq

inductive Outcome where
  | forbidden
  | notFound
  /-- directory listing (`catalog = true`: THREDDS catalog): sorted files with their
      `supported` flag, sorted directories -/
  | listing (catalog : Bool) (dir : Segs) (files : List (Seg × Bool)) (dirs : List Seg)
  | file (p : Segs)
  /-- the request is handed to the handler of `base` -/
  | dap (base : Segs)
  /-- `get_handler` raises `ExtensionNotSupportedError` -/
  | unsupported (base : Segs)
deriving Repr, DecidableEq

def catalogName : Seg := "catalog.xml".toList

/-- `DapServer.index(directory, req, catalog)` -/
def index (exts : List Seg) (fs : FS) (catalog : Bool) (d : Segs) (entries : List Seg) :
    List Access × Outcome :=
  let files := entries.filter fun e => (fs (d ++ [e])).isFile
  let dirs := entries.filter fun e => (fs (d ++ [e])).isDir
  (⟨.listdir, d⟩ :: entries.map (fun e => ⟨.stat, d ++ [e]⟩),
   .listing catalog d ((sortNames files).map fun e => (e, hasHandler exts (d ++ [e]))) (sortNames dirs))

/-- the tail of `DapServer.__call__`: strip the DAP extension and look for a handler -/
def serveDap (exts : List Seg) (fs : FS) (p : Segs) : List Access × Outcome :=
  let base := stripExt p
  let pre : List Access := [⟨.stat, p⟩, ⟨.stat, base⟩]
  if (fs base).isFile then
    if hasHandler exts base then (pre ++ [⟨.handler, base⟩], .dap base)
    else (pre, .unsupported base)
  else (pre, .notFound)

/-- `DapServer.__call__` after `path` has been computed -/
def serveAt (exts : List Seg) (fs : FS) (root : Segs) (p : Segs) : List Access × Outcome :=
  if !contained root p then ([], .forbidden)
  else
    match fs p with
    | .dir es =>
      let r := index exts fs false p es
      (⟨.stat, p⟩ :: r.1, r.2)
    | .file => ([⟨.stat, p⟩, ⟨.serve, p⟩], .file p)
    | .missing =>
      if basename p = catalogName then
        match fs (dirname p) with
        | .dir es =>
          let r := index exts fs true (dirname p) es
          (⟨.stat, p⟩ :: ⟨.stat, dirname p⟩ :: r.1, r.2)
        | _ =>
          let r := serveDap exts fs p
          (⟨.stat, dirname p⟩ :: r.1, r.2)
      else serveDap exts fs p

/-- the resolved request path: `os.path.abspath(os.path.join(self.path, *req.path_info.split("/")))` -/
def target (root : Segs) (pathInfo : List Char) : Segs := resolve root (splitSlash pathInfo)

/-- `DapServer.__call__` (repaired code): the accesses performed, in order, and the outcome.
    `pathInfo` is `req.path_info`. -/
def serve (exts : List Seg) (fs : FS) (root : Segs) (pathInfo : List Char) : List Access × Outcome :=
  serveAt exts fs root (target root pathInfo)

/-- well-formed normalised component: not `""`, `.`, `..`, and free of separators -/
def SegOK (s : Seg) : Prop := s ≠ [] ∧ s ≠ dot ∧ s ≠ dotdot ∧ '/' ∉ s

def Normal (p : Segs) : Prop := ∀ s ∈ p, SegOK s

end Pydap.Path
