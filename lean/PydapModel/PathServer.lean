import PydapModel.Path
/-
  C16 — the `DapServer` *object* over a history of requests.

  `DapServer.__init__` stores `self.path`, `self.env`, `self.handlers`; `__call__` and `index` read them and
  assign nothing (no attribute store on `self`, no module-level cache, `get_handler` recompiles and re-matches
  the patterns on every call).  A call therefore returns the server unchanged; the file system may be a
  different one at every request (files appear and disappear between requests).
-/
namespace Pydap.Path

/-- what `DapServer.__init__` stores (the template environment plays no part in routing) -/
structure Srv where
  root : Segs
  exts : List Seg

/-- one event of a history: the file system as it is when the request arrives, and `req.path_info` -/
abbrev Event := FS × List Char

/-- `DapServer.__call__` on the object: new object state and the answer -/
def Srv.call (s : Srv) (fs : FS) (pathInfo : List Char) : Srv × (List Access × Outcome) :=
  (s, serve s.exts fs s.root pathInfo)

/-- a history of requests on one server object -/
def runHistory (s : Srv) : List Event → List (List Access × Outcome)
  | [] => []
  | e :: rest => (s.call e.1 e.2).2 :: runHistory (s.call e.1 e.2).1 rest

/-! ### what statelessness excludes: a handler lookup memoised by extension

  An (independently written) breaking change kept a dict `splitext(path)[1].lower() ↦ handler` on the server and
  consulted it before `get_handler`.  Its answers depend on what was asked before. -/

def memoKey (p : Segs) : Seg := lower (splitextSeg (basename p)).2

/-- memoised `supported`: the answer and the new memo -/
def memoLookup (exts : List Seg) (memo : List (Seg × Bool)) (p : Segs) : Bool × List (Seg × Bool) :=
  match memo.lookup (memoKey p) with
  | some b => (b, memo)
  | none => (hasHandler exts p, (memoKey p, hasHandler exts p) :: memo)

end Pydap.Path
