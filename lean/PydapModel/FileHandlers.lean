/-
  C20 — model of the file handlers: `NetCDFHandler.__init__` + `group_fqn` (dimension scoping),
  `LazyVariable.__getitem__`, `CSVHandler.__init__` (+ JSON side-car through `add_attributes`).

  The file is an abstract description, as the netCDF4 / csv / json libraries present it (those
  libraries are trusted): the root group, then every other group in the depth-first pre-order in
  which `group_fqn` visits `source.groups`, each with its path, its own dimensions, attributes and
  variables.  Attribute values and data values are opaque canonical texts / bit patterns: the
  handlers only move them.
-/
namespace Pydap.FileHandlers

structure Var where
  name : String
  ty : String                      -- stored type (numpy dtype string)
  shape : List Nat
  dims : List String               -- dimension names as the variable lists them
  attrs : List (String × String)
deriving Repr, DecidableEq

structure Grp where
  path : List String               -- [] for the root
  dims : List (String × Nat)
  attrs : List (String × String)
  vars : List Var
deriving Repr, DecidableEq

structure NcFile where
  root : Grp
  groups : List Grp                -- non-root groups, depth-first pre-order
deriving Repr

/-- fully qualified name: the declaring group's path and the short name -/
abbrev FQN := List String × String

def fqnText (q : FQN) : String := "/" ++ "/".intercalate (q.1 ++ [q.2])

def lookupGrp (f : NcFile) (path : List String) : Option Grp :=
  if path = [] then some f.root else f.groups.find? (fun g => g.path = path)

/-- `dim in scope.dimensions` for the group at `path` -/
def declaresB (f : NcFile) (path : List String) (d : String) : Bool :=
  match lookupGrp f path with
  | some g => (g.dims.map Prod.fst).contains d
  | none => false

/-- repaired `group_fqn`: walk from the variable's group towards the root and stop at the first
    group that declares `dim` (the root is the fallback).  The path is held reversed. -/
def resolveFrom (f : NcFile) (d : String) : List String → List String
  | [] => []
  | s :: rest => if declaresB f (s :: rest).reverse d then (s :: rest).reverse else resolveFrom f d rest

def resolveDim (f : NcFile) (path : List String) (d : String) : FQN := (resolveFrom f d path.reverse, d)

/-- the pinned tree's resolution: `fqn_dims` is an ordered dict `fqn ↦ short name` filled while the
    groups are visited; the variable takes the *last registered* entry with its dimension's name.
    `registered` lists the declarations of the root and of every group visited so far, in order. -/
def resolveLastRegistered (registered : List FQN) (d : String) : Option FQN :=
  (registered.filter fun q => q.2 = d).getLast?

inductive Entry where
  | group (path : List String) (dims : List (String × Nat)) (attrs : List (String × String))
  | var (path : List String) (name ty : String) (shape : List Nat) (dims : List FQN)
        (attrs : List (String × String)) (lazy : Bool)
deriving Repr, DecidableEq

/-- a root variable named like a root dimension (coordinate variable) -/
def isCoord (f : NcFile) (v : Var) : Bool := (f.root.dims.map Prod.fst).contains v.name

def mkVar (f : NcFile) (path : List String) (v : Var) : Entry :=
  .var path v.name v.ty v.shape (v.dims.map (resolveDim f path)) v.attrs true

/-- `group_fqn` for one group: `createGroup`, then `createVariable` for each variable.  The `path`
    attribute is deleted from both (`if "path" in attrs: del attrs["path"]`). -/
def groupEntries (f : NcFile) (g : Grp) : List Entry :=
  .group g.path g.dims (g.attrs.filter fun a => a.1 ≠ "path") ::
    g.vars.map fun v => mkVar f g.path { v with attrs := v.attrs.filter fun a => a.1 ≠ "path" }

/-- `NetCDFHandler.__init__`: the dataset itself, non-coordinate root variables (lazy), the groups, and last the root
    variables named like a root dimension (read eagerly and raw; repaired: with their own dimensions
    `["/" + d for d in var.dimensions]`, the pinned tree hard-coded `["/" + name]`) -/
def netcdfEntries (f : NcFile) : List Entry :=
  Entry.group [] f.root.dims f.root.attrs ::
  ((f.root.vars.filter fun v => !isCoord f v).map fun v =>
      Entry.var [] v.name v.ty v.shape (v.dims.map fun d => (([] : List String), d)) v.attrs true)
  ++ f.groups.flatMap (groupEntries f)
  ++ ((f.root.dims.map Prod.fst).filterMap fun d => (f.root.vars.find? fun v => v.name = d)).map fun v =>
      Entry.var [] v.name v.ty v.shape (v.dims.map fun d => (([] : List String), d)) v.attrs false

/-! ### `LazyVariable.__getitem__` -/

structure Arr where
  shape : List Nat
  data : List Nat                  -- bit patterns / bytes, row-major
deriving Repr, DecidableEq

def prod (l : List Nat) : Nat := l.foldl (· * ·) 1

inductive Err where
  | index | reshape | library | typeError
deriving Repr, DecidableEq

/-- the keys a rank-0 variable receives (`var[...]`, `var[()]`, and `data[np.newaxis]` from the DODS
    response) -/
inductive ScalarKey where
  | ellipsis | empty | newaxis
deriving Repr, DecidableEq

inductive Key where
  | scalar (k : ScalarKey)
  | slices (k : List (Nat × Nat × Nat))      -- per axis (start, stop, step), already normalised
deriving Repr, DecidableEq

/-- numpy indexing of a 0-d array by the scalar keys -/
def npScalarIndex (a : Arr) : ScalarKey → Arr
  | .newaxis => { a with shape := 1 :: a.shape }
  | _ => a

/-- repaired `__getitem__`.  `read` is the netCDF library with auto-scale off (`source[path][key]`);
    `astype` is `.astype(self.dtype)`; `shape` is the variable's shape, `reshape` the pending
    `LazyVariable.reshape(...)` (equal to `shape` unless a client reshaped the variable). -/
def lazyGet (read : Key → Except Err Arr) (astype : List Nat → List Nat)
    (shape reshape : List Nat) (key : Key) : Except Err Arr :=
  match shape, key with
  | [], .scalar k =>
    -- a scalar is read whole; numpy applies the key (netCDF4 rejects `np.newaxis`)
    match read (.scalar .ellipsis) with
    | .ok a => .ok (npScalarIndex { a with data := astype a.data } k)
    | .error e => .error e
  | _, _ =>
    match read key with
    | .ok a =>
      let a' : Arr := { a with data := astype a.data }
      if reshape ≠ shape ∧ prod a'.shape = prod reshape then .ok { a' with shape := reshape } else .ok a'
    | .error e => .error e

/-- pinned `__getitem__`: `np.asarray(source[path][key]).astype(dtype).reshape(self._reshape)` -/
def lazyGetPinned (read : Key → Except Err Arr) (astype : List Nat → List Nat)
    (reshape : List Nat) (key : Key) : Except Err Arr :=
  match read key with
  | .ok a => if prod a.shape = prod reshape then .ok { shape := reshape, data := astype a.data } else .error .reshape
  | .error e => .error e

/-! ### the `LazyVariable` object: what `__init__` records and what `reshape` changes -/

structure Lazy where
  dtype : String                   -- `np.dtype(var.dtype)`
  ndim : Nat                       -- `len(var.dimensions)`
  shape : List Nat                 -- `var.shape` (the `shape` property returns this, also after `reshape`)
  reshape : List Nat               -- `_reshape`
  size : Nat                       -- `np.prod(self.shape)`
deriving Repr, DecidableEq

/-- `LazyVariable.__init__` -/
def Lazy.ofVar (v : Var) : Lazy := ⟨v.ty, v.dims.length, v.shape, v.shape, prod v.shape⟩

/-- numpy's two calling conventions: `reshape(2, 3)` and `reshape((2, 3))` -/
inductive ReshapeArgs where
  | ints (l : List Nat)
  | seq (l : List Nat)
deriving Repr, DecidableEq

def ReshapeArgs.target : ReshapeArgs → List Nat
  | .ints l => l
  | .seq l => l

/-- repaired `LazyVariable.reshape`: a single tuple/list argument is unpacked (the pinned tree stored `((2, 3),)`,
    on which the next whole-variable read raised TypeError); nothing but `_reshape` changes -/
def Lazy.doReshape (lv : Lazy) (a : ReshapeArgs) : Lazy := { lv with reshape := a.target }

/-- `__len__` -/
def Lazy.len (lv : Lazy) : Except Err Nat :=
  match lv.shape with
  | [] => .error .typeError
  | n :: _ => .ok n

/-- `__getitem__` on the object -/
def Lazy.get (lv : Lazy) (read : Key → Except Err Arr) (key : Key) : Except Err Arr :=
  lazyGet read id lv.shape lv.reshape key

/-! ### CSV -/

/-- a cell as `csv.reader(quoting=QUOTE_NONNUMERIC)` yields it -/
inductive Cell where
  | num (bits : Nat)               -- unquoted field → float (bit pattern)
  | str (s : String)               -- quoted field
deriving Repr, DecidableEq

/-- the JSON side-car, restricted to the shapes the CSV handler is documented to take:
    top-level keys whose value is a dict of scalars (`"NC_GLOBAL": {…}`, `"DODS_EXTRA": {…}`, others are
    ignored unless they name a variable), and `"sequence": {"<column>": {…scalars…}, …}`.
    Scalars are opaque canonical texts. -/
structure Sidecar where
  top : List (String × List (String × String))        -- in file order, without "sequence"
  seq : List (String × List (String × String))        -- the entries of "sequence", in file order
deriving Repr, DecidableEq

structure CsvDataset where
  columns : List String
  rows : List (List Cell)
  globalAttrs : List (String × String)
  colAttrs : List (String × List (String × String))   -- per column, in column order
  seqAttrs : List (String × List (String × String))   -- what is left of "sequence" goes to the sequence
deriving Repr, DecidableEq

/-- `{**a, **b}` / `dict.update`: later keys override, first-insertion order kept -/
def dictUpdate (a b : List (String × String)) : List (String × String) :=
  b.foldl (fun acc kv =>
    if acc.any (fun x => x.1 = kv.1) then acc.map (fun x => if x.1 = kv.1 then kv else x) else acc ++ [kv]) a

/-- `add_attributes(dataset, attributes)` on the CSV dataset -/
def csvAttach (cols : List String) (sc : Sidecar) :
    List (String × String) × List (String × List (String × String)) × List (String × List (String × String)) :=
  let globals := (sc.top.filter fun kv => kv.1 = "NC_GLOBAL" ∨ kv.1 = "DODS_EXTRA").foldl
    (fun acc kv => dictUpdate acc kv.2) []
  let colAttrs := cols.map fun c =>
    (c, match sc.seq.find? (fun kv => kv.1 = c) with
        | some kv => kv.2
        | none => [])
  let rest := sc.seq.filter fun kv => !cols.contains kv.1
  (globals, colAttrs, rest)

/-- `CSVHandler.__init__`: one sequence named `sequence`, a column per header name, the file's rows -/
def csvDataset (header : List String) (rows : List (List Cell)) (sidecar : Option Sidecar) : CsvDataset :=
  match sidecar with
  | none => { columns := header, rows := rows, globalAttrs := [], colAttrs := header.map fun c => (c, []),
              seqAttrs := [] }
  | some sc =>
    let a := csvAttach header sc
    { columns := header, rows := rows, globalAttrs := a.1, colAttrs := a.2.1, seqAttrs := a.2.2 }

end Pydap.FileHandlers
