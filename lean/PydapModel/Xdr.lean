/-
  C01 / C05 — model of pydap's DAP2 codec *as it exists*:
    `encImpl`   responses/dods.py  (`_basetype`, `_structuretype`, `_sequencetype` flat + nested paths)
    `calcSize`  responses/dods.py  `calculate_size`
    `decImpl`   handlers/dap.py    (`unpack_dap2_data`/`unpack_children`, `unpack_sequence` simple +
                                    general paths, `convert_stream_to_list`), reading from the strict `BytesReader`
                                    (lib.py, fix 72d8e7c: `read(n)` raises when fewer than n bytes remain)
    `splitBody` handlers/dap.py    `safe_dds_and_data`  (`raw.split(b"\nData:\n", 1)`)
  Widths, dtype chars and markers are looked up in `Pydap.Gen` (regenerated from lib.py on every run).
-/
import PydapModel.XdrTypes
namespace Pydap.Xdr

/-! ## encoder (responses/dods.py) -/

/-- `tostring_with_byteorder(x, DAP2_dtype)`: `astype` to the wire dtype (two's complement in its
    width), big-endian bytes; strings are their bytes -/
def toWire (ty : Ty) : Val → Bytes
  | .num n => be (wireWidth ty) (n % (256 : Int) ^ wireWidth ty).toNat
  | .str b => b

/-- `tostring_with_byteorder(length, np.dtype(DAP2_ARRAY_LENGTH_NUMPY_TYPE))` -/
def lengthWord (n : Nat) : Bytes :=
  be ((dtypeItemsize Gen.DAP2_ARRAY_LENGTH_NUMPY_TYPE).getD 0) n

/-- a string on the wire: `length ‖ bytes ‖ (-length % 4) * b"\0"` -/
def strField : Val → Bytes
  | .str b => lengthWord b.length ++ b ++ zeros (pad4 b.length)
  | .num _ => []

/-- the three branches of `_basetype` after the length header: ubyte (packed, padded at the end),
    strings (length ‖ bytes ‖ pad per word), regular data -/
def encElems (ty : Ty) (vs : List Val) : Bytes :=
  if wireStr ty = "B" then
    (vs.map (toWire ty)).flatten ++ zeros (pad4 vs.length)
  else if wireChar ty = 'S' then
    (vs.map strField).flatten
  else
    (vs.map (toWire ty)).flatten

/-- `_basetype`: `if data.shape:` length × factor; 0-d data becomes one element -/
def encBase (ty : Ty) : Data → Bytes
  | .array vs =>
      let factor := if wireChar ty = 'S' then 1 else 2
      (List.replicate factor (lengthWord vs.length)).flatten ++ encElems ty vs
  | .scalar v => encElems ty [v]
  | _ => []

/-- `_sequencetype`'s test for the record-at-a-time path: every child is a BaseType whose wire
    form is a plain numpy field (a Byte needs padding and goes through the general path) -/
def flatCols : List Tmpl → Bool
  | [] => true
  | .base ty _ :: cs => wireStr ty != "B" && flatCols cs
  | _ :: _ => false

/-- one field of the composite record dtype: `>i,|S{padded}` for strings, the wire dtype otherwise -/
def flatField (ty : Ty) (v : Val) : Bytes :=
  if wireChar ty = 'S' then strField v else toWire ty v

def flatRecord : List Tmpl → List Data → Bytes
  | .base ty _ :: cs, .scalar v :: ds => flatField ty v ++ flatRecord cs ds
  | _, _ => []

mutual
/-- `dods(var)` -/
def encImpl : Tmpl → Data → Bytes
  | .base ty _, d => encBase ty d
  | .struct cs, .tuple ds => encImpls cs ds
  | .seq cs, .rows rs =>
      if flatCols cs then encRowsFlat cs rs else encRowsNested cs rs
  | _, _ => []
/-- `_structuretype`: children in order -/
def encImpls : List Tmpl → List Data → Bytes
  | c :: cs, d :: ds => encImpl c d ++ encImpls cs ds
  | _, _ => []
/-- nested path: per record START, then the record as a Structure; END after the loop -/
def encRowsNested : List Tmpl → List Data → Bytes
  | _, [] => Gen.END_OF_SEQUENCE
  | cs, .tuple ds :: rs => Gen.START_OF_SEQUENCE ++ encImpls cs ds ++ encRowsNested cs rs
  | cs, _ :: rs => encRowsNested cs rs
/-- flat path: per record START, then the composite numpy record; END after the loop -/
def encRowsFlat : List Tmpl → List Data → Bytes
  | _, [] => Gen.END_OF_SEQUENCE
  | cs, .tuple ds :: rs => Gen.START_OF_SEQUENCE ++ flatRecord cs ds ++ encRowsFlat cs rs
  | cs, _ :: rs => encRowsFlat cs rs
end

/-! ## Content-Length (`calculate_size`) -/

mutual
/-- bytes of XDR `calculate_size` adds for the variables under `t`; `none` for sequences and strings -/
def calcData : Tmpl → Option Nat
  | .base ty shape =>
      if wireChar ty = 'S' then none else
      let hdr := if shape.isEmpty then 0 else 8
      let size := prod shape
      if wireStr ty = "B" then some (hdr + size + pad4 size)
      else some (hdr + size * wireWidth ty)
  | .struct cs => calcDatas cs
  | .seq _ => none
def calcDatas : List Tmpl → Option Nat
  | [] => some 0
  | c :: cs => match calcData c, calcDatas cs with
    | some a, some b => some (a + b)
    | _, _ => none
end

def dataMarker : Bytes := [68, 97, 116, 97, 58, 10]   -- b"Data:\n"

/-- `calculate_size(dataset)` given the DDS text -/
def calcSize (dds : Bytes) (t : Tmpl) : Option Nat :=
  (calcData t).map fun n => n + dds.length + dataMarker.length

/-- `DODSResponse.__iter__` -/
def body (dds : Bytes) (t : Tmpl) (d : Data) : Bytes := dds ++ dataMarker ++ encImpl t d

/-! ## the DDS / data split (`safe_dds_and_data`) -/

def splitPattern : Bytes := 10 :: dataMarker            -- b"\nData:\n"

/-- `raw.split(pat, 1)`: split at the first occurrence; `none` when there is none
    (Python then fails to unpack the 1-element list) -/
def splitFirst (pat : Bytes) : Bytes → Option (Bytes × Bytes)
  | [] => none
  | b :: s =>
      if pat.isPrefixOf (b :: s) then some ([], (b :: s).drop pat.length)
      else (splitFirst pat s).map fun p => (b :: p.1, p.2)

def splitBody (raw : Bytes) : Option (Bytes × Bytes) := splitFirst splitPattern raw

/-! ## decoder (handlers/dap.py) over a `BytesReader` -/

inductive Err where
  | short     -- EOFError of a strict `BytesReader.read` / numpy.frombuffer on a wrong byte count
  | decode    -- non-ASCII string
  | neglen    -- a length word ≥ 2^31 (negative as `>i`): what `read` does with a negative count is not modelled
  | shape     -- reshape failure
  | fuel
deriving DecidableEq, Repr, Inhabited

/-- `BytesReader.read(n)`: exactly `n` bytes; `EOFError` when fewer than `n` remain (fix 72d8e7c) -/
def read (n : Nat) (s : Bytes) : Except Err (Bytes × Bytes) :=
  if s.length < n then .error .short else .ok (s.take n, s.drop n)

/-- `numpy.frombuffer(stream.read(4), DAP2_ARRAY_LENGTH_NUMPY_TYPE)[0]` (signed: a negative count is
    reported as an error here; what numpy does with it is outside the model) -/
def readLen (s : Bytes) : Except Err (Nat × Bytes) :=
  let w := (dtypeItemsize Gen.DAP2_ARRAY_LENGTH_NUMPY_TYPE).getD 0
  match read 4 s with
  | .error e => .error e
  | .ok p =>
    if p.1.length ≠ w then .error .short
    else if beNat p.1 ≥ 2147483648 then .error .neglen
    else .ok (beNat p.1, p.2)

/-- `.astype(parser_dtype)` applied to the unsigned reading `n` of the wire bytes: wrap into the
    parser dtype's width, signed for `h`/`i`; floats keep their bits -/
def narrow (ty : Ty) (n : Nat) : Int :=
  let bits := 8 * parserWidth ty
  let c := parserChar ty
  if c = 'h' ∨ c = 'i' then (((n + 2 ^ (bits - 1)) % 2 ^ bits : Nat) : Int) - ((2 ^ (bits - 1) : Nat) : Int)
  else if c = 'H' ∨ c = 'I' ∨ c = 'B' then ((n % 2 ^ bits : Nat) : Int)
  else (n : Int)

/-- `numpy.frombuffer(b, response_dtype).astype(parser_dtype)[0]` -/
def fromWire (ty : Ty) (b : Bytes) : Except Err Val :=
  if b.length ≠ wireWidth ty then .error .short else .ok (.num (narrow ty (beNat b)))

/-- `frombuffer(stream.read(count), response_dtype)`: `n` consecutive items -/
def fromWireMany (ty : Ty) : Nat → Bytes → Except Err (List Val)
  | 0, b => if b.isEmpty then .ok [] else .error .short
  | n + 1, b =>
      match fromWire ty (b.take (wireWidth ty)) with
      | .error e => .error e
      | .ok v =>
        match fromWireMany ty n (b.drop (wireWidth ty)) with
        | .error e => .error e
        | .ok vs => .ok (v :: vs)

/-- `bytes.decode("ascii")` -/
def asciiDecode (b : Bytes) : Except Err Bytes :=
  if b.all (fun c => c.toNat < 128) then .ok b else .error .decode

/-- numpy `S` arrays drop trailing NULs -/
def rstrip0 (b : Bytes) : Bytes := (b.reverse.dropWhile (· == 0)).reverse

/-- one string: length word, `read(k)`, `.decode("ascii")`, `read(-k % 4)`; every read is strict -/
def readString (s : Bytes) : Except Err (Bytes × Bytes) :=
  match readLen s with
  | .error e => .error e
  | .ok (k, s1) =>
    match read k s1 with
    | .error e => .error e
    | .ok p =>
      match asciiDecode p.1 with
      | .error e => .error e
      | .ok t =>
        match read (pad4 k) p.2 with
        | .error e => .error e
        | .ok q => .ok (t, q.2)

/-- the `for _ in range(n)` loop of the string-array branch -/
def readStrings : Nat → Bytes → Except Err (List Val × Bytes)
  | 0, s => .ok ([], s)
  | n + 1, s =>
      match readLen s with
      | .error e => .error e
      | .ok (k, s1) =>
        match read k s1 with
        | .error e => .error e
        | .ok p =>
          match read (pad4 k) p.2 with
          | .error e => .error e
          | .ok q =>
            match readStrings n q.2 with
            | .error e => .error e
            | .ok (vs, s4) => .ok (.str p.1 :: vs, s4)

/-- `numpy.array([str(x.decode("ascii")) for x in data], "S")` -/
def decodeAll : List Val → Except Err (List Val)
  | [] => .ok []
  | .str b :: vs =>
      match asciiDecode b with
      | .error e => .error e
      | .ok t =>
        match decodeAll vs with
        | .error e => .error e
        | .ok ts => .ok (.str (rstrip0 t) :: ts)
  | v :: vs =>
      match decodeAll vs with
      | .error e => .error e
      | .ok ts => .ok (v :: ts)

/-- `convert_stream_to_list(stream, parser_dtype, shape, id)` -/
def convertStream (ty : Ty) (shape : List Nat) (s : Bytes) : Except Err (Data × Bytes) :=
  if !shape.isEmpty then
    match readLen s with
    | .error e => .error e
    | .ok (n, s1) =>
      if wireChar ty = 'S' then
        match readStrings n s1 with
        | .error e => .error e
        | .ok (raw, s2) =>
          match decodeAll raw with
          | .error e => .error e
          | .ok vs => if n ≠ prod shape then .error .shape else .ok (.array vs, s2)
      else
        match read 4 s1 with                             -- the repeated length, not inspected
        | .error e => .error e
        | .ok p2 =>
          match read (wireWidth ty * n) p2.2 with
          | .error e => .error e
          | .ok p3 =>
            match fromWireMany ty n p3.1 with
            | .error e => .error e
            | .ok vs =>
              if n ≠ prod shape then .error .shape
              else if wireChar ty = 'B' then
                match read (pad4 n) p3.2 with
                | .error e => .error e
                | .ok p4 => .ok (.array vs, p4.2)
              else .ok (.array vs, p3.2)
  else if wireChar ty = 'S' then
    match readString s with
    | .error e => .error e
    | .ok (t, s1) => .ok (.scalar (.str t), s1)
  else
    match read (wireWidth ty) s with
    | .error e => .error e
    | .ok p =>
      match fromWire ty p.1 with
      | .error e => .error e
      | .ok v =>
        if wireChar ty = 'B' then
          match read 3 p.2 with
          | .error e => .error e
          | .ok q => .ok (.scalar v, q.2)
        else .ok (.scalar v, p.2)

/-- `unpack_sequence`'s test for the record-at-a-time path: base-type columns, no strings, scalar, and
    the parser dtype is the wire dtype (16-bit and Byte columns are widened/padded on the wire) -/
def simpleCols : List Tmpl → Bool
  | [] => true
  | .base ty sh :: cs =>
      parserChar ty != 'S' && sh.isEmpty && wireWidth ty == parserWidth ty && parserChar ty != 'B'
        && simpleCols cs
  | _ :: _ => false

/-- `dtype.itemsize` of the record dtype -/
def recordSize : List Tmpl → Nat
  | .base ty _ :: cs => parserWidth ty + recordSize cs
  | _ => 0

/-- `numpy.frombuffer(buf, dtype)[0]`: the fields in order -/
def splitRecord : List Tmpl → Bytes → Except Err (List Data)
  | .base ty _ :: cs, b =>
      match fromWire ty (b.take (parserWidth ty)) with
      | .error e => .error e
      | .ok v =>
        match splitRecord cs (b.drop (parserWidth ty)) with
        | .error e => .error e
        | .ok ds => .ok (.scalar v :: ds)
  | _, _ => .ok []

/-- the marker loop of the simple path (`marker = stream.read(4)` is strict too: a stream that ends
    where a marker is due raises) -/
def decRowsSimple (cs : List Tmpl) : Nat → Bytes → Except Err (List Data × Bytes)
  | 0, _ => .error .fuel
  | f + 1, s =>
      match read 4 s with
      | .error e => .error e
      | .ok m =>
        if m.1 = Gen.START_OF_SEQUENCE then
          match read (recordSize cs) m.2 with
          | .error e => .error e
          | .ok p =>
            match splitRecord cs p.1 with
            | .error e => .error e
            | .ok r =>
              match decRowsSimple cs f p.2 with
              | .error e => .error e
              | .ok (rs, s3) => .ok (.tuple r :: rs, s3)
        else .ok ([], m.2)

mutual
/-- one column inside `unpack_children` -/
def dec : Nat → Tmpl → Bytes → Except Err (Data × Bytes)
  | 0, _, _ => .error .fuel
  | _ + 1, .base ty shape, s => convertStream ty shape s
  | f + 1, .struct cs, s =>
      match decs f cs s with
      | .error e => .error e
      | .ok (ds, s1) => .ok (.tuple ds, s1)
  | f + 1, .seq cs, s =>
      if simpleCols cs then
        match decRowsSimple cs f s with
        | .error e => .error e
        | .ok (rs, s1) => .ok (.rows rs, s1)
      else
        match decRows f cs s with
        | .error e => .error e
        | .ok (rs, s1) => .ok (.rows rs, s1)
/-- `unpack_children`: the columns in order -/
def decs : Nat → List Tmpl → Bytes → Except Err (List Data × Bytes)
  | 0, _, _ => .error .fuel
  | _ + 1, [], s => .ok ([], s)
  | f + 1, c :: cs, s =>
      match dec f c s with
      | .error e => .error e
      | .ok (d, s1) =>
        match decs f cs s1 with
        | .error e => .error e
        | .ok (ds, s2) => .ok (d :: ds, s2)
/-- the marker loop of `unpack_sequence`'s general path -/
def decRows : Nat → List Tmpl → Bytes → Except Err (List Data × Bytes)
  | 0, _, _ => .error .fuel
  | f + 1, cs, s =>
      match read 4 s with
      | .error e => .error e
      | .ok m =>
        if m.1 = Gen.START_OF_SEQUENCE then
          match decs f cs m.2 with
          | .error e => .error e
          | .ok (ds, s2) =>
            match decRows f cs s2 with
            | .error e => .error e
            | .ok (rs, s3) => .ok (.tuple ds :: rs, s3)
        else .ok ([], m.2)
end

mutual
def tsize : Tmpl → Nat
  | .base _ _ => 1
  | .struct cs => 1 + tsizes cs
  | .seq cs => 2 + tsizes cs
def tsizes : List Tmpl → Nat
  | [] => 1
  | c :: cs => 1 + tsize c + tsizes cs
end

/-- the Python loops are unbounded; every record iteration consumes its 4 marker bytes and every
    other call descends in the declaration, so this much fuel is never exhausted (`Proofs/Xdr*`) -/
def fuelFor (t : Tmpl) (s : Bytes) : Nat := s.length + tsize t + 1

/-- `unpack_dap2_data(BytesReader(data), dataset)` for a dataset/structure declaration,
    `unpack_sequence(stream, template)` for a sequence declaration -/
def decImpl (t : Tmpl) (s : Bytes) : Except Err (Data × Bytes) := dec (fuelFor t s) t s

end Pydap.Xdr
