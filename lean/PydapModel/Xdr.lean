/-
  C01 / C05 — model of pydap's DAP2 codec *as it exists*:
    `encImpl`   responses/dods.py  (`_basetype`, `_structuretype`, `_sequencetype` flat + nested paths)
    `calcSize`  responses/dods.py  `calculate_size`
    `decImpl`   handlers/dap.py    (`unpack_dap2_data`/`unpack_children`, `unpack_sequence` simple +
                                    general paths, `convert_stream_to_list`), reading from a `BytesReader`
    `splitBody` handlers/dap.py    `safe_dds_and_data`  (`raw.split(b"\nData:\n", 1)`)
  Widths, dtype chars and markers are looked up in `Pydap.Gen` (regenerated from lib.py on every run).
-/
import PydapModel.XdrTypes
namespace Pydap.Xdr

/-! ## encoder (responses/dods.py) -/

/-- `tostring_with_byteorder(x, DAP2_dtype)`: `astype` to the wire dtype (two's complement in its
    width), big-endian bytes; strings are their bytes -/
def toWire (ty : Ty) : Val → Bytes
  | .num n => be (wireWidth ty) (n % (256 : Int) ^ wireWidth ty).toNat
  | .str b => b

/-- `tostring_with_byteorder(length, np.dtype(DAP2_ARRAY_LENGTH_NUMPY_TYPE))` -/
def lengthWord (n : Nat) : Bytes :=
  be ((dtypeItemsize Gen.DAP2_ARRAY_LENGTH_NUMPY_TYPE).getD 0) n

/-- a string on the wire: `length ‖ bytes ‖ (-length % 4) * b"\0"` -/
def strField : Val → Bytes
  | .str b => lengthWord b.length ++ b ++ zeros (pad4 b.length)
  | .num _ => []

/-- the three branches of `_basetype` after the length header: ubyte (packed, padded at the end),
    strings (length ‖ bytes ‖ pad per word), regular data -/
def encElems (ty : Ty) (vs : List Val) : Bytes :=
  if wireStr ty = "B" then
    (vs.map (toWire ty)).flatten ++ zeros (pad4 vs.length)
  else if wireChar ty = 'S' then
    (vs.map strField).flatten
  else
    (vs.map (toWire ty)).flatten

/-- `_basetype`: `if data.shape:` length × factor; 0-d data becomes one element -/
def encBase (ty : Ty) : Data → Bytes
  | .array vs =>
      let factor := if wireChar ty = 'S' then 1 else 2
      (List.replicate factor (lengthWord vs.length)).flatten ++ encElems ty vs
  | .scalar v => encElems ty [v]
  | _ => []

/-- `_sequencetype`'s test for the record-at-a-time path: every child is a BaseType whose wire
    form is a plain numpy field (a Byte needs padding and goes through the general path) -/
def flatCols : List Tmpl → Bool
  | [] => true
  | .base ty _ :: cs => wireStr ty != "B" && flatCols cs
  | _ :: _ => false

/-- one field of the composite record dtype: `>i,|S{padded}` for strings, the wire dtype otherwise -/
def flatField (ty : Ty) (v : Val) : Bytes :=
  if wireChar ty = 'S' then strField v else toWire ty v

def flatRecord : List Tmpl → List Data → Bytes
  | .base ty _ :: cs, .scalar v :: ds => flatField ty v ++ flatRecord cs ds
  | _, _ => []

mutual
/-- `dods(var)` -/
def encImpl : Tmpl → Data → Bytes
  | .base ty _, d => encBase ty d
  | .struct cs, .tuple ds => encImpls cs ds
  | .seq cs, .rows rs =>
      if flatCols cs then encRowsFlat cs rs else encRowsNested cs rs
  | _, _ => []
/-- `_structuretype`: children in order -/
def encImpls : List Tmpl → List Data → Bytes
  | c :: cs, d :: ds => encImpl c d ++ encImpls cs ds
  | _, _ => []
/-- nested path: per record START, then the record as a Structure; END after the loop -/
def encRowsNested : List Tmpl → List Data → Bytes
  | _, [] => Gen.END_OF_SEQUENCE
  | cs, .tuple ds :: rs => Gen.START_OF_SEQUENCE ++ encImpls cs ds ++ encRowsNested cs rs
  | cs, _ :: rs => encRowsNested cs rs
/-- flat path: per record START, then the composite numpy record; END after the loop -/
def encRowsFlat : List Tmpl → List Data → Bytes
  | _, [] => Gen.END_OF_SEQUENCE
  | cs, .tuple ds :: rs => Gen.START_OF_SEQUENCE ++ flatRecord cs ds ++ encRowsFlat cs rs
  | cs, _ :: rs => encRowsFlat cs rs
end

/-! ## Content-Length (`calculate_size`) -/

mutual
/-- bytes of XDR `calculate_size` adds for the variables under `t`; `none` for sequences and strings -/
def calcData : Tmpl → Option Nat
  | .base ty shape =>
      if wireChar ty = 'S' then none else
      let hdr := if shape.isEmpty then 0 else 8
      let size := prod shape
      if wireStr ty = "B" then some (hdr + size + pad4 size)
      else some (hdr + size * wireWidth ty)
  | .struct cs => calcDatas cs
  | .seq _ => none
def calcDatas : List Tmpl → Option Nat
  | [] => some 0
  | c :: cs => match calcData c, calcDatas cs with
    | some a, some b => some (a + b)
    | _, _ => none
end

def dataMarker : Bytes := [68, 97, 116, 97, 58, 10]   -- b"Data:\n"

/-- `calculate_size(dataset)` given the DDS text -/
def calcSize (dds : Bytes) (t : Tmpl) : Option Nat :=
  (calcData t).map fun n => n + dds.length + dataMarker.length

/-- `DODSResponse.__iter__` -/
def body (dds : Bytes) (t : Tmpl) (d : Data) : Bytes := dds ++ dataMarker ++ encImpl t d

/-! ## the DDS / data split (`safe_dds_and_data`) -/

def splitPattern : Bytes := 10 :: dataMarker            -- b"\nData:\n"

/-- `raw.split(pat, 1)`: split at the first occurrence; `none` when there is none
    (Python then fails to unpack the 1-element list) -/
def splitFirst (pat : Bytes) : Bytes → Option (Bytes × Bytes)
  | [] => none
  | b :: s =>
      if pat.isPrefixOf (b :: s) then some ([], (b :: s).drop pat.length)
      else (splitFirst pat s).map fun p => (b :: p.1, p.2)

def splitBody (raw : Bytes) : Option (Bytes × Bytes) := splitFirst splitPattern raw

/-! ## decoder (handlers/dap.py) over a `BytesReader` -/

inductive Err where
  | short     -- numpy.frombuffer on too few bytes / IndexError on an empty buffer
  | decode    -- non-ASCII string, negative length word
  | shape     -- reshape failure
  | fuel
deriving DecidableEq, Repr, Inhabited

/-- `BytesReader.read(n)`: what is left when fewer than `n` bytes remain -/
def read (n : Nat) (s : Bytes) : Bytes × Bytes := (s.take n, s.drop n)

/-- `numpy.frombuffer(stream.read(4), DAP2_ARRAY_LENGTH_NUMPY_TYPE)[0]` (signed: a negative count is
    reported as an error here; what numpy does with it is outside the model) -/
def readLen (s : Bytes) : Except Err (Nat × Bytes) :=
  let w := (dtypeItemsize Gen.DAP2_ARRAY_LENGTH_NUMPY_TYPE).getD 0
  let b := (read 4 s).1
  if b.length ≠ w then .error .short
  else if beNat b ≥ 2147483648 then .error .decode
  else .ok (beNat b, (read 4 s).2)

/-- `.astype(parser_dtype)` applied to the unsigned reading `n` of the wire bytes: wrap into the
    parser dtype's width, signed for `h`/`i`; floats keep their bits -/
def narrow (ty : Ty) (n : Nat) : Int :=
  let bits := 8 * parserWidth ty
  let c := parserChar ty
  if c = 'h' ∨ c = 'i' then (((n + 2 ^ (bits - 1)) % 2 ^ bits : Nat) : Int) - ((2 ^ (bits - 1) : Nat) : Int)
  else if c = 'H' ∨ c = 'I' ∨ c = 'B' then ((n % 2 ^ bits : Nat) : Int)
  else (n : Int)

/-- `numpy.frombuffer(b, response_dtype).astype(parser_dtype)[0]` -/
def fromWire (ty : Ty) (b : Bytes) : Except Err Val :=
  if b.length ≠ wireWidth ty then .error .short else .ok (.num (narrow ty (beNat b)))

/-- `frombuffer(stream.read(count), response_dtype)`: `n` consecutive items -/
def fromWireMany (ty : Ty) : Nat → Bytes → Except Err (List Val)
  | 0, b => if b.isEmpty then .ok [] else .error .short
  | n + 1, b => do
      let v ← fromWire ty (b.take (wireWidth ty))
      let vs ← fromWireMany ty n (b.drop (wireWidth ty))
      pure (v :: vs)

/-- `bytes.decode("ascii")` -/
def asciiDecode (b : Bytes) : Except Err Bytes :=
  if b.all (fun c => c.toNat < 128) then .ok b else .error .decode

/-- numpy `S` arrays drop trailing NULs -/
def rstrip0 (b : Bytes) : Bytes := (b.reverse.dropWhile (· == 0)).reverse

/-- one string: length word, `read(k)` (possibly short: a `BytesReader` does not complain), `read(-k % 4)` -/
def readString (s : Bytes) : Except Err (Bytes × Bytes) := do
  let (k, s1) ← readLen s
  let (b, s2) := read k s1
  let (_, s3) := read (pad4 k) s2
  let t ← asciiDecode b
  pure (t, s3)

/-- the `for _ in range(n)` loop of the string-array branch -/
def readStrings : Nat → Bytes → Except Err (List Val × Bytes)
  | 0, s => .ok ([], s)
  | n + 1, s => do
      let (k, s1) ← readLen s
      let (b, s2) := read k s1
      let (_, s3) := read (pad4 k) s2
      let (vs, s4) ← readStrings n s3
      pure (.str b :: vs, s4)

def decodeAll : List Val → Except Err (List Val)
  | [] => .ok []
  | .str b :: vs => do
      let t ← asciiDecode b
      let ts ← decodeAll vs
      pure (.str (rstrip0 t) :: ts)
  | v :: vs => do
      let ts ← decodeAll vs
      pure (v :: ts)

/-- `convert_stream_to_list(stream, parser_dtype, shape, id)` -/
def convertStream (ty : Ty) (shape : List Nat) (s : Bytes) : Except Err (Data × Bytes) :=
  if !shape.isEmpty then do
    let (n, s1) ← readLen s
    if wireChar ty = 'S' then do
      let (raw, s2) ← readStrings n s1
      let vs ← decodeAll raw
      if n ≠ prod shape then .error .shape else pure (.array vs, s2)
    else do
      let (_, s2) := read 4 s1                        -- the repeated length, not inspected
      let (b, s3) := read (wireWidth ty * n) s2
      let vs ← fromWireMany ty n b
      if n ≠ prod shape then .error .shape
      else
        let s4 := if wireChar ty = 'B' then (read (pad4 n) s3).2 else s3
        pure (.array vs, s4)
  else if wireChar ty = 'S' then do
    let (t, s1) ← readString s
    pure (.scalar (.str t), s1)
  else do
    let (b, s1) := read (wireWidth ty) s
    let v ← fromWire ty b
    let s2 := if wireChar ty = 'B' then (read 3 s1).2 else s1
    pure (.scalar v, s2)

/-- `unpack_sequence`'s test for the record-at-a-time path: base-type columns, no strings, scalar, and
    the parser dtype is the wire dtype (16-bit and Byte columns are widened/padded on the wire) -/
def simpleCols : List Tmpl → Bool
  | [] => true
  | .base ty sh :: cs =>
      parserChar ty != 'S' && sh.isEmpty && wireWidth ty == parserWidth ty && parserChar ty != 'B'
        && simpleCols cs
  | _ :: _ => false

/-- `dtype.itemsize` of the record dtype -/
def recordSize : List Tmpl → Nat
  | .base ty _ :: cs => parserWidth ty + recordSize cs
  | _ => 0

/-- `numpy.frombuffer(buf, dtype)[0]`: the fields in order -/
def splitRecord : List Tmpl → Bytes → Except Err (List Data)
  | .base ty _ :: cs, b => do
      let v ← fromWire ty (b.take (parserWidth ty))
      let ds ← splitRecord cs (b.drop (parserWidth ty))
      pure (.scalar v :: ds)
  | _, _ => .ok []

/-- the marker loop of the simple path -/
def decRowsSimple (cs : List Tmpl) : Nat → Bytes → Except Err (List Data × Bytes)
  | 0, _ => .error .fuel
  | f + 1, s =>
      let (marker, s1) := read 4 s
      if marker = Gen.START_OF_SEQUENCE then do
        let (b, s2) := read (recordSize cs) s1
        if b.length ≠ recordSize cs then .error .short else
        let r ← splitRecord cs b
        let (rs, s3) ← decRowsSimple cs f s2
        pure (.tuple r :: rs, s3)
      else .ok ([], s1)

mutual
/-- one column inside `unpack_children` -/
def dec : Nat → Tmpl → Bytes → Except Err (Data × Bytes)
  | 0, _, _ => .error .fuel
  | _ + 1, .base ty shape, s => convertStream ty shape s
  | f + 1, .struct cs, s => do
      let (ds, s1) ← decs f cs s
      pure (.tuple ds, s1)
  | f + 1, .seq cs, s =>
      if simpleCols cs then do
        let (rs, s1) ← decRowsSimple cs f s
        pure (.rows rs, s1)
      else do
        let (rs, s1) ← decRows f cs s
        pure (.rows rs, s1)
/-- `unpack_children`: the columns in order -/
def decs : Nat → List Tmpl → Bytes → Except Err (List Data × Bytes)
  | 0, _, _ => .error .fuel
  | _ + 1, [], s => .ok ([], s)
  | f + 1, c :: cs, s => do
      let (d, s1) ← dec f c s
      let (ds, s2) ← decs f cs s1
      pure (d :: ds, s2)
/-- the marker loop of `unpack_sequence`'s general path -/
def decRows : Nat → List Tmpl → Bytes → Except Err (List Data × Bytes)
  | 0, _, _ => .error .fuel
  | f + 1, cs, s =>
      let (marker, s1) := read 4 s
      if marker = Gen.START_OF_SEQUENCE then do
        let (ds, s2) ← decs f cs s1
        let (rs, s3) ← decRows f cs s2
        pure (.tuple ds :: rs, s3)
      else .ok ([], s1)
end

mutual
def tsize : Tmpl → Nat
  | .base _ _ => 1
  | .struct cs => 1 + tsizes cs
  | .seq cs => 2 + tsizes cs
def tsizes : List Tmpl → Nat
  | [] => 1
  | c :: cs => 1 + tsize c + tsizes cs
end

/-- the Python loops are unbounded; every record iteration consumes its 4 marker bytes and every
    other call descends in the declaration, so this much fuel is never exhausted (`Proofs/Xdr*`) -/
def fuelFor (t : Tmpl) (s : Bytes) : Nat := s.length + tsize t + 1

/-- `unpack_dap2_data(BytesReader(data), dataset)` for a dataset/structure declaration,
    `unpack_sequence(stream, template)` for a sequence declaration -/
def decImpl (t : Tmpl) (s : Bytes) : Except Err (Data × Bytes) := dec (fuelFor t s) t s

end Pydap.Xdr
