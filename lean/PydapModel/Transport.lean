/-
  Model of how a response body travels from the wire to pydap's parsers: content coding (`Content-Encoding: gzip`
  or not), the two ways the client reads a body (whole: `r.content`; streamed: `r.iter_content()`), on a plain
  `requests.Session` and on a `requests_cache.CachedSession` (requests_cache 1.x, backend "memory").

  The codec is a pair of PARAMETERS `z unz : Bytes → Bytes`; `unz (z b) = b` is only ever a hypothesis of a
  theorem (DESIGN.md §3), never an axiom.  The model follows the libraries' code paths:

  urllib3  `HTTPResponse.stream(amt, decode_content=True)`  (`urlStream`)
      the raw stream arrives in pieces; with `Content-Encoding: gzip` the pieces go through an incremental
      decoder; the decoded pieces are yielded.  Modelled: the decoded body (`decodeBody`: `unz body` under
      gzip, the body itself under no / an unknown coding) cut at ARBITRARY places (`Wire.cuts`, chosen by the
      network, possibly different on every GET).
  requests `Session.send(stream=False)` → `r.content` → `b"".join(self.iter_content(CONTENT_CHUNK_SIZE))`
      (`requestsSend`): the response handed out has `_content` = the join of those pieces, `_content_consumed`.
      With `stream=True` (a user may pass it in `get_kwargs`) the body is left unread: `_content = False`.
  requests `Response.content` (`Resp.content`): `_content` when read already, else the join of the stream.
  requests `Response.iter_content()` (`Resp.iterContent`, chunk_size=1 as pydap calls it):
      `iter_slices(self._content, 1)` when `_content_consumed`, else the pieces of `raw.stream(1, True)`.
  requests_cache `BaseCache.save_response` → `CachedResponse.from_response` (`toStored`): copies
      `Response.__attrs__` (so the `Content-Encoding` header is KEPT) and stores `_content = response.content`:
      the DECODED body.  Reading `.content` consumes the original response (`afterSave`).
  requests_cache hit (`fromStored`): the stored `CachedResponse` is returned: `_content` is the stored decoded
      body, `_content_consumed` is always True, `.content`/`.iter_content()` never look at the header again;
      `raw` is a `CachedHTTPResponse` over the stored body that never decodes.

  pydap: `readWhole` = what `safe_dds_and_data` / `safe_charset_text` / `UNPACKDAP4DATA` / `client.py` hand to
  the parsers on the `requests.Response` branch (`r.content`, `r.text`); `readStream` = the concatenation of what
  `SequenceProxy.__iter__` feeds to `find_pattern_in_string_iter` + `StreamReader` (`r.iter_content()`); C09 owns
  the independence of the decoder from the chunk boundaries.  The application (webob) path: `net.GET` calls
  `res.decode_content()` (`appGet`), then the readers test `content_encoding == "gzip"` again (`appWhole`) or
  iterate `r.app_iter` (`appStream`).

  Sessions: `readsPlain` (every GET reaches the wire), `readsCached` (Cache.lean's `cachedGet` / `runTrace` over
  the stored responses).

  Outside the model: deflate / br / zstd codings, chunked transfer-coding, partial reads and `Range`, errors of
  the decoder on corrupt input (`z`/`unz` are total), redirects, expiry, status ≠ 200, serialising back-ends.
-/
import PydapModel.Cache
namespace Pydap.Transport
open Pydap.Cache

abbrev Bytes := List UInt8

/-- the `Content-Encoding` header: absent, `gzip`, or a coding the transport has no decoder for -/
inductive Enc where
  | none | gzip | other
deriving DecidableEq, Repr

/-- what the server puts on the wire for one GET, and how the network cuts the (decoded) stream this time -/
structure Wire where
  enc : Enc
  body : Bytes
  cuts : List Nat
deriving DecidableEq, Repr

/-- `b"".join(chunks)` -/
def join : List Bytes → Bytes
  | [] => []
  | c :: cs => c ++ join cs

/-- cut a byte string into pieces of the given sizes (empty pieces are possible; they do not matter for the
    join); what is left after the last size goes in one last piece -/
def cutBy : List Nat → Bytes → List Bytes
  | [], b => if b.isEmpty then [] else [b]
  | n :: ns, b => b.take n :: cutBy ns (b.drop n)

/-- `iter_slices(content, 1)`: one byte per step -/
def slices1 : Bytes → List Bytes
  | [] => []
  | x :: xs => [x] :: slices1 xs

/-- urllib3's content decoder selected by the header (`decode_content=True`) -/
def decodeBody (unz : Bytes → Bytes) (e : Enc) (body : Bytes) : Bytes :=
  match e with
  | .gzip => unz body
  | _ => body

/-- `raw.stream(amt, decode_content=True)`: the decoded pieces -/
def urlStream (unz : Bytes → Bytes) (w : Wire) : List Bytes := cutBy w.cuts (decodeBody unz w.enc w.body)

/-- a `requests.Response` as the client sees it -/
structure Resp where
  enc : Enc                 -- headers["Content-Encoding"]
  consumed : Option Bytes   -- `_content` once `_content_consumed`, `none` = not read yet (`stream=True`)
  pending : List Bytes      -- the decoded pieces `raw.stream(.., decode_content=True)` still has to yield ([] once read)
  fromCache : Bool
deriving DecidableEq, Repr

/-- `HTTPAdapter.send` + `Session.send`: with `stream=False` the body is read at once (`r.content`) -/
def requestsSend (unz : Bytes → Bytes) (streamKw : Bool) (w : Wire) : Resp :=
  if streamKw then ⟨w.enc, none, urlStream unz w, false⟩
  else ⟨w.enc, some (join (urlStream unz w)), [], false⟩

/-- `Response.content` -/
def Resp.content (r : Resp) : Bytes :=
  match r.consumed with
  | some c => c
  | none => join r.pending

/-- `Response.iter_content()` (chunk_size = 1) -/
def Resp.iterContent (r : Resp) : List Bytes :=
  match r.consumed with
  | some c => slices1 c
  | none => r.pending

/-- what requests_cache keeps of a response: the header and the DECODED content -/
structure Stored where
  enc : Enc
  content : Bytes
deriving DecidableEq, Repr

/-- `CachedResponse.from_response` -/
def toStored (r : Resp) : Stored := ⟨r.enc, r.content⟩

/-- the original response after `save_response` read its `.content` (it is what a cache miss returns) -/
def afterSave (r : Resp) : Resp := ⟨r.enc, some r.content, [], false⟩

/-- a cache hit: the stored `CachedResponse` -/
def fromStored (s : Stored) : Resp := ⟨s.enc, some s.content, [], true⟩

/-- the two read paths of the client -/
inductive Path where
  | whole | stream
deriving DecidableEq, Repr

/-- `r.content` (`safe_dds_and_data`, `UNPACKDAP4DATA`, `r.text` before the charset) -/
def readWhole (r : Resp) : Bytes := r.content

/-- the bytes `find_pattern_in_string_iter` + `StreamReader` consume, in order: the chunks of
    `r.iter_content()` one after the other -/
def readStream (r : Resp) : Bytes := join r.iterContent

def read (p : Path) (r : Resp) : Bytes :=
  match p with
  | .whole => readWhole r
  | .stream => readStream r

/-- one GET of a history: the request, the read path, `stream=` of `get_kwargs`, and the cuts of the network -/
structure Get (α : Type) where
  req : α
  path : Path
  streamKw : Bool
  cuts : List Nat

/-- the server: header and body per request; the cuts come with the GET -/
structure Served where
  enc : Enc
  body : Bytes
deriving DecidableEq, Repr

def wireOf {α : Type} (srv : α → Served) (g : Get α) : Wire := ⟨(srv g.req).enc, (srv g.req).body, g.cuts⟩

/-- plain session: every GET goes to the wire -/
def readsPlain {α : Type} (unz : Bytes → Bytes) (srv : α → Served) (hist : List (Get α)) : List Bytes :=
  hist.map (fun g => read g.path (requestsSend unz g.streamKw (wireOf srv g)))

/-- what the cache layer stores for a GET that reaches the wire -/
def storeOf {α : Type} (unz : Bytes → Bytes) (srv : α → Served) (g : Get α) : Stored :=
  toStored (requestsSend unz g.streamKw (wireOf srv g))

/-- the response a GET through the caching session hands to the caller: on a hit the stored response, on a
    miss the original response after it was saved -/
def cachedResp {α : Type} (unz : Bytes → Bytes) (srv : α → Served) (g : Get α) (t : Bool × Stored) : Resp :=
  if t.1 then fromStored t.2 else afterSave (requestsSend unz g.streamKw (wireOf srv g))

/-- caching session: `Cache.runTrace` over the stored responses (the key sees the request only) -/
def respsCached {α κ : Type} [DecidableEq κ] (unz : Bytes → Bytes) (key : α → κ) (srv : α → Served)
    (hist : List (Get α)) : List Resp :=
  List.zipWith (cachedResp unz srv) hist (runTrace (fun g : Get α => key g.req) (storeOf unz srv) [] hist)

def readsCached {α κ : Type} [DecidableEq κ] (unz : Bytes → Bytes) (key : α → κ) (srv : α → Served)
    (hist : List (Get α)) : List Bytes :=
  List.zipWith (fun g r => read g.path r) hist (respsCached unz key srv hist)

/-- a server that answers every request with its payload, plain or gzip-coded, header set accordingly -/
def serve {α : Type} (z : Bytes → Bytes) (payload : α → Bytes) (gz : α → Bool) (u : α) : Served :=
  if gz u then ⟨.gzip, z (payload u)⟩ else ⟨.none, payload u⟩

/-! ### the application (webob) path: no session, no cache -/

inductive Err where
  | valueError
deriving DecidableEq, Repr

/-- `net.GET` on an application: `res.decode_content()` — gzip is undone and the header cleared; a coding
    webob does not know raises ValueError -/
def appGet (unz : Bytes → Bytes) (s : Served) : Except Err Served :=
  match s.enc with
  | .none => .ok s
  | .gzip => .ok ⟨.none, unz s.body⟩
  | .other => .error .valueError

/-- `safe_dds_and_data` / `safe_charset_text` / `UNPACKDAP4DATA`, webob branch: gunzip when the header still
    says gzip, else the body -/
def appWhole (unz : Bytes → Bytes) (s : Served) : Bytes :=
  if s.enc = .gzip then unz s.body else s.body

/-- `SequenceProxy.__iter__`, webob branch: `r.app_iter` of a response whose body was set: one chunk -/
def appStream (s : Served) : Bytes := join [s.body]

/-! ### a variant that is NOT the code (for the `_refuted` theorem) -/

/-- the seeded change C18-w: the streamed reader takes `r.raw.stream(BLOCKSIZE, decode_content=True)` instead of
    `r.iter_content()`.  On a plain session (`stream=True`, body unread) these are the same pieces.  On a cache
    hit `r.raw` is a `CachedHTTPResponse` kept next to the stored response by a non-serialising back-end; its body
    was read with `decode_content=False` and it never decodes: the reader gets the bytes as they were on the wire.
    (On the miss the real libraries raise DecodeError beyond one block; the variant is given the benefit of the
    doubt there: it gets the decoded stream.) -/
def rawStreamRead {α : Type} (unz : Bytes → Bytes) (srv : α → Served) (g : Get α) (t : Bool × Stored) : Bytes :=
  if t.1 then (srv g.req).body else join (urlStream unz (wireOf srv g))

def readsCachedRaw {α κ : Type} [DecidableEq κ] (unz : Bytes → Bytes) (key : α → κ) (srv : α → Served)
    (hist : List (Get α)) : List Bytes :=
  List.zipWith (fun g t => match g.path with
      | .whole => readWhole (cachedResp unz srv g t)
      | .stream => rawStreamRead unz srv g t) hist
    (runTrace (fun g : Get α => key g.req) (storeOf unz srv) [] hist)

end Pydap.Transport
