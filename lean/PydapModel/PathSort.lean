import PydapModel.Path
/-
  C16 — Python's own comparison of the keys `alphanum_key` produces, with its partiality made explicit.

  `files.sort(key=lambda d: alphanum_key(d["name"]))` compares two keys (lists of `str` and `int` chunks) with
  `list.__lt__`: the first position at which the elements are not `==` decides (`==` between a `str` and an `int` is
  `False`, it never raises), by `<` on that pair — which raises `TypeError` for a `str` against an `int`.
  `Path.keyLt` (the total function the model sorts with) is related to this partial comparison in `Proofs/PathSort.lean`:
  on keys of names the two agree and the partial one is always defined, because `re.split("([0-9]+)", s)` alternates
  text, digits, text, …, always starting (and ending) with a — possibly empty — text chunk.
-/
namespace Pydap.Path

/-- Python's `a < b` on two key elements: `none` = `TypeError` -/
def chunkLt? : Chunk → Chunk → Option Bool
  | .str a, .str b => some (charsLt a b)
  | .num a, .num b => some (decide (a < b))
  | _, _ => none

/-- Python's `list.__lt__` on two keys: `none` = `TypeError` -/
def keyLt? : List Chunk → List Chunk → Option Bool
  | [], [] => some false
  | [], _ :: _ => some true
  | _ :: _, [] => some false
  | a :: as, b :: bs => if a = b then keyLt? as bs else chunkLt? a b

/-- the kinds alternate, starting with text (`true`) or with a number (`false`) -/
def altFrom : Bool → List Chunk → Bool
  | _, [] => true
  | true, .str _ :: r => altFrom false r
  | false, .num _ :: r => altFrom true r
  | _, _ => false

/-- insertion with Python's comparison: `none` as soon as one comparison raises -/
def insertName? (x : Seg) : List Seg → Option (List Seg)
  | [] => some [x]
  | y :: ys =>
    match keyLt? (alphanumKey y) (alphanumKey x) with
    | none => none
    | some true => (insertName? x ys).map (y :: ·)
    | some false => some (x :: y :: ys)

/-- the sort of `index` with Python's comparison: `none` = the listing raises `TypeError` -/
def sortNames? : List Seg → Option (List Seg)
  | [] => some []
  | x :: xs => match sortNames? xs with
    | none => none
    | some r => insertName? x r

end Pydap.Path
