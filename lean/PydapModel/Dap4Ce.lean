/-
  The DAP4 branch of `parse_ce` (parsers/__init__.py): `parse_ce(query_string, protocol="dap4")` and
  `parse_projection(input, protocol="dap4")`.

      elif protocol == "dap4":
          key = "|"
          if len(query_string) > 0 and query_string[:8] != "dap4.ce=":
              raise ConstraintExpressionError(…)
          query_string = query_string[8:]
      tokens = [token for token in unquote(query_string).split(key) if token]
      if not tokens: projection = []; selection = []
      elif re.search("<=|>=|!=|=~|>|<|=", tokens[0]): projection = []; selection = tokens
      else: projection = parse_projection(tokens[0], protocol); selection = tokens[1:]

  `parse_projection` with protocol dap4 tokenises at `;` (parenthesis-aware) instead of `,`; the per-token parse
  (`.`-split, `(.*?)(\[.*\])?$`, `parse_hyperslab`) is the same function as for DAP2.  Everything but the two
  separator characters and the prefix guard is shared with the DAP2 model (`PydapModel/Handler.lean`).

  In pydap this branch runs on the client (`DAPHandler.__init__`, URL pre-constraints).  Here it is also the
  parser by which the *reference side* of `C10_e2e_index` reads the request of `BaseProxyDap4.__getitem__` back.
-/
import PydapModel.Handler
namespace Pydap.Dap4
open Pydap Pydap.Handler

/-- `parse_ce(query_string, "dap4")` -/
def parseCE4 (q : List Char) : Except Exc (List ProjItem × List (List Char)) :=
  if q ≠ [] ∧ q.take 8 ≠ dap4Prefix then .error .ceError
  else
    let tokens := (splitOnChar '|' (unquote (q.drop 8))).filter (· ≠ [])
    match tokens with
    | [] => .ok ([], [])
    | t0 :: rest =>
      if t0.any isRelChar then .ok ([], tokens)
      else match (tokTop ';' t0 0 []).mapM parseProjToken with
        | .ok p => .ok (p, rest)
        | .error e => .error e

end Pydap.Dap4
