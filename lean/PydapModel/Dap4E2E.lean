/-
  C10 end to end — "indexing a variable of a dataset opened over DAP4 requests and returns exactly the
  numpy-selected elements", as the composition of the separate models:

      client  `BaseProxyDap4.__getitem__`   request text        PydapModel.Dap4Index (`proxy4Request`: fix_slice,
                                                                 combine_slices, hyperslab, `"dap4.ce=" + id + …`)
      server  (reference)                   request read back    PydapModel.Dap4Ce    (`parseCE4`: DAP4 branch of parse_ce)
      server  (reference)                   `source[slices]`     PydapModel.Subset    (`npSlices`: one `sel` per axis)
                                                                 PydapModel.EndToEnd  (`gather`: the selected values)
      server  (reference, DAP4 spec)        serialisation        PydapModel.Dap4      (`serialise` in the response byte
                                                                 order + checksum word, `encodeResponse`: DMR chunk +
                                                                 the body cut into chunks by the sender)
      client  `UNPACKDAP4DATA`              decode               PydapModel.Dap4      (`unpackResponse`: safe_dmr_and_data,
                                                                 stream2bytearray, unpack_dap4_data)
                                            DMR → variables      PydapModel.Dmr / Dap4Order (`decodeOrder`)
      client  `dataset[self.id].data`       lookup               PydapModel.DmrFind   (`getitemPath`)

  Values are the unsigned readings of the items' bits (DAP4 moves integers and floats bit for bit): a source of
  item size `width` holds `vals` with every value below `256 ^ width`; that covers Int8…Int64, UInt8…UInt64,
  Float32, Float64.  The server side is the *specification* (numpy slicing of the source, the DAP4 wire format);
  pydap's own server does not serve DAP4 constraints.
-/
import PydapModel.Dap4Ce
import PydapModel.Dap4Index
import PydapModel.Dap4
import PydapModel.Dap4Order
import PydapModel.DmrFind
import PydapModel.DmrSpec
import PydapModel.EndToEnd
namespace Pydap.Dap4
open Pydap Pydap.Dmr Pydap.E2E

inductive E4 where
  | request (e : Handler.Exc)   -- the server cannot read the constraint expression
  | notOneVar                   -- … or it does not name exactly one variable
  | unknownVar
  | slice (e : SErr)            -- numpy: too many indices
  | decode (e : Dap4.Err)       -- the client's decoder raises
  | dmr (e : Dmr.Err)           -- the client's DMR parser raises
  | lookup                      -- `dataset[self.id]` finds nothing
deriving Repr

/-- the variable the server holds: the id the client's proxy sends for it (`var.path + "/" + var.name`), item
    size, shape, row-major values -/
structure Source where
  id : List Char
  width : Nat
  shape : List Nat
  vals : List Nat

/-- server: read the request back (`parse_ce`, DAP4 branch), find the variable, slice it with numpy: the selected
    positions per axis -/
def serve4 (src : Source) (q : List Char) : Except E4 (List (List Nat)) :=
  match parseCE4 q with
  | .error e => .error (.request e)
  | .ok ([.path [(name, sl)]], []) =>
    if name = src.id then
      match npSlices src.shape sl with
      | .ok R => .ok R
      | .error e => .error (.slice e)
    else .error .unknownVar
  | .ok _ => .error .notOneVar

/-- server: the data response for the selection `R` — the DMR chunk (`dmrOf` writes the DMR of the selected
    variable for its selected extents), then the selected values in the response byte order followed by the
    checksum word, cut into chunks by `cut` -/
def answer4 (little : Bool) (src : Source) (dmrOf : List Nat → Bytes) (cut : Bytes → List Bytes)
    (crc : List Nat → Nat) (R : List (List Nat)) : Bytes :=
  encodeResponse little (dmrOf (selShape R))
    (cut (serialise little [⟨src.width, gather src.shape R src.vals, crc (gather src.shape R src.vals)⟩]))

def refServer4 (little : Bool) (src : Source) (dmrOf : List Nat → Bytes) (cut : Bytes → List Bytes)
    (crc : List Nat → Nat) (q : List Char) : Except E4 Bytes :=
  (serve4 src q).map (answer4 little src dmrOf cut crc)

/-- `get_count` / `decode_variable`: element count and item size of a parsed variable -/
def layoutRec (itemsize : VarRec → Nat) (r : VarRec) : Layout :=
  ⟨r.shape.foldl (fun a n => a * n.toNat) 1, itemsize r⟩

/-- `var[index]` through `BaseProxyDap4.__getitem__`: build the request, GET it, `UNPACKDAP4DATA(r).dataset`,
    `dataset[self.id].data`: the shape the answer declares and the decoded values.  `tree` is ElementTree
    (text → element tree, trusted); `itemsize` = numpy's item size of a parsed variable's dtype. -/
def fetchIndex4 (tree : Bytes → XNode) (itemsize : VarRec → Nat) (server : List Char → Except E4 Bytes)
    (id : List Char) (shape : List Nat) (idx : List Idx) : Except E4 (List Int × List Nat) :=
  match server (proxy4Request id shape idx) with
  | .error e => .error e
  | .ok resp =>
    match unpackResponse true
        (fun b => match decodeOrder (tree b) with
          | .ok rs => .ok (rs.map (layoutRec itemsize))
          | .error _ => .error .keyError) resp with
    | .error e => .error (.decode e)
    | .ok (dmr, _, ds) =>
      match decodeOrder (tree dmr), datasetTree (tree dmr) with
      | .error e, _ => .error (.dmr e)
      | _, .error e => .error (.dmr e)
      | .ok rs, .ok t =>
        match getitemPath id t with
        | none => .error .lookup
        | some r =>
          match (rs.zip ds).find? (fun p => p.1.key == r.key) with
          | some (_, d) => .ok (r.shape, d.values)
          | none => .error .lookup

/-- the DMR of an answer: the one selected variable, with anonymous dimensions of the selected extents, inside
    its groups (what the reference server writes) -/
def answerVar (tag name : Str) (cshape : List Nat) : SVar := ⟨tag, name, cshape.map SDim.anon, [], []⟩

def answerSpec : List Str → SVar → Spec
  | [], v => .var v .nil
  | g :: gs, v => .group g (answerSpec gs v) .nil

end Pydap.Dap4
