/-
  C07 — a second, independent DDS printer "in the style of other servers", used as the *input
  generator* of the foreign-style theorem (`C07_foreign`): it is not pydap code.  A foreign declaration
  spells its keywords and type names in any letter case (`Url`, `UInt`, `int32`, `STRUCTURE` …), declares
  every dimension either anonymously `[n]` or named `[name = n]`, and puts arbitrary whitespace
  (`gs`, chosen per declaration) between tokens — everywhere except after a variable name, where
  pydap's parser would take it for part of the name.

  `declDs` is the structure such a text declares.
-/
import PydapModel.DdsText

namespace Pydap.Dds

/-- the i-th whitespace choice of a declaration (`[]` when not given) -/
def gap (gs : List Text) (i : Nat) : Text := gs.getD i []

structure FBase where
  ty : Text                        -- type as spelled: any case, `Url`/`Int`/`UInt` included
  name : Text
  dims : List (Option Text × Int)  -- `(some d, n)` ↦ `[d = n]`, `(none, n)` ↦ `[n]`
  gs : List Text
deriving Repr

inductive FTmpl where
  | base (b : FBase)
  | cont (isSeq : Bool) (kw : Text) (name : Text) (gs : List Text) (kids : List FTmpl)
  | grid (kw kwA kwM : Text) (name : Text) (gs : List Text) (arr : FBase) (maps : List FBase)
deriving Repr

structure FDataset where
  kw : Text
  name : Text
  gs : List Text
  kids : List FTmpl
deriving Repr

def fdimText (gs : List Text) : Option Text × Int → Text
  | (some nm, n) => '[' :: gap gs 1 ++ nm ++ gap gs 2 ++ '=' :: gap gs 3 ++ intText n ++ gap gs 4 ++ ']' :: gap gs 5
  | (none, n) => '[' :: gap gs 1 ++ intText n ++ gap gs 4 ++ ']' :: gap gs 5

def fbaseText (b : FBase) : Text :=
  b.ty ++ ' ' :: gap b.gs 0 ++ b.name ++ b.dims.flatMap (fdimText b.gs) ++ ';' :: gap b.gs 6

def fbasesText : List FBase → Text
  | [] => []
  | b :: bs => fbaseText b ++ fbasesText bs

def fcloseText (gs : List Text) (i : Nat) (name : Text) : Text :=
  '}' :: gap gs i ++ name ++ ';' :: gap gs (i + 1)

mutual
def ftextT : FTmpl → Text
  | .base b => fbaseText b
  | .cont _ kw name gs kids => kw ++ gap gs 0 ++ '{' :: gap gs 1 ++ ftextL kids ++ fcloseText gs 2 name
  | .grid kw kwA kwM name gs arr maps =>
    kw ++ gap gs 0 ++ '{' :: gap gs 1 ++ kwA ++ gap gs 2 ++ ':' :: gap gs 3 ++ fbaseText arr
      ++ kwM ++ gap gs 4 ++ ':' :: gap gs 5 ++ fbasesText maps ++ fcloseText gs 6 name
def ftextL : List FTmpl → Text
  | [] => []
  | t :: ts => ftextT t ++ ftextL ts
end

def ftextDs (d : FDataset) : Text :=
  d.kw ++ gap d.gs 0 ++ '{' :: gap d.gs 1 ++ ftextL d.kids ++ fcloseText d.gs 2 d.name

/-! ### the declared structure

Names are spelled raw in a foreign text (any character but `;` and `[`, not starting with white space); the structure
the text declares carries them the way every pydap object carries a name: quoted (`_quote`, the identity on names that
are already made of `name_regexp` characters). -/

def declTy (ty : Text) : Text :=
  match lookup Gen.LOWER_DAP2_TO_NUMPY_PARSER_TYPEMAP (lower ty) with
  | some d => d
  | none => []

/-- a declaration naming all of its dimensions carries the names; one naming only some of them (`Int32 a[x = 2][3]`)
    declares its shape, and — a tuple of names cannot say which axes they name — no dimension names (`fitDims`) -/
def declBase (b : FBase) : BaseV :=
  ⟨quoteName b.name, declTy b.ty, b.dims.map (·.2), fitDims (b.dims.map (·.2)) (b.dims.filterMap (·.1)), true⟩

mutual
def declT : FTmpl → Tmpl
  | .base b => .base (declBase b)
  | .cont isSeq _ name _ kids => if isSeq then .seq (quoteName name) (declL kids) else .struct (quoteName name) (declL kids)
  | .grid _ _ _ name _ arr maps => .grid (quoteName name) (declBase arr :: maps.map declBase)
def declL : List FTmpl → List Tmpl
  | [] => []
  | t :: ts => declT t :: declL ts
end

def declDs (d : FDataset) : Dataset := ⟨quoteName d.name, declL d.kids⟩

end Pydap.Dds
