/-
  Model of pydap's lazy row streams: `handlers/lib.py` `IterData` (`__init__`, `__iter__`,
  `__copy__`, `__getitem__`, `build_filter`, `deep_map`, `fix_nested`) and the CSV handler's
  `CSVData` (same class, different constructor default for `imap`), for flat tables.

  A stream records a pipeline (`ifilter`, `imap`, `islice`) next to its source rows, a template
  and a nesting level; `__iter__` applies all filters to the source rows, then all maps, then all
  slices.  `__getitem__` copies the stream (`copy.copy(self)`: lists are copied, the template is
  copied *keeping its visible keys* — repaired code, `copy_template`; `root`, the template of the
  source rows, is shared) and extends one of the three lists, per key kind: selections and slices
  are appended; a clause is resolved against `root` (repaired code), its filter is appended to
  `ifilter` and its map is inserted at the FRONT of `imap` (it acts on the source row).  The functions below follow the Python case by case; Python closures
  (`deep_map(itemgetter(col), level)`, the row-projecting lambda, the `f`/`m` pair of
  `build_filter`, `fix_nested(template)`) are represented by the data they close over.

  Cell values are a parameter `A`; the comparison of two cells `cmp` and the literal parser `lit`
  (`ast.literal_eval`) are parameters shared by the model and the reference.
-/
import PydapModel.Slice
namespace Pydap.IterData
open Pydap

abbrev Name := List Char

inductive Err where
  | keyError | valueError | attributeError | ceError | typeError | indexError
deriving DecidableEq, Repr, Inhabited

/-- the relational operators of a constraint clause (`=~` is not modelled) -/
inductive Op where
  | lt | gt | ne | eq | ge | le
deriving DecidableEq, Repr, Inhabited

/-- a flat `SequenceType` template: its id, `_dict.keys()` in order, `_visible_keys` -/
structure SeqT where
  id : Name
  all : List Name
  visible : List Name
deriving DecidableEq, Repr, Inhabited

/-- `IterData.template`: the sequence, or the `BaseType` child after a child selection -/
inductive Tmpl where
  | seq (t : SeqT)
  | base (id : Name)
deriving DecidableEq, Repr, Inhabited

/-- the right-hand side getter `b` of `build_filter`: `itemgetter(col)` or a constant -/
inductive Operand (A : Type) where
  | col (i : Nat)
  | lit (a : A)
deriving DecidableEq, Repr

/-- the level-0 filter `f(row) = op(a(row), b(row))` of `build_filter` -/
structure Filt (A : Type) where
  a : Nat
  op : Op
  b : Operand A
deriving DecidableEq, Repr

/-- entries of `imap` -/
inductive MapF where
  | fixNested (n : Nat)                 -- `fix_nested(template)`, template with `n` (base) children
  | ident                               -- `m(row) = row` of a level-0 `build_filter`
  | item (col : Nat) (level : Nat)      -- `deep_map(operator.itemgetter(col), level)`
  | proj (cols : List Nat) (level : Nat) -- `deep_map(lambda row: tuple(row[i] for i in cols), level)`
deriving DecidableEq, Repr

/-- what iteration yields: rows (tuples) or, after a child selection, single cells -/
inductive Item (A : Type) where
  | row (cells : List A)
  | cell (a : A)
deriving DecidableEq, Repr

structure Stream (A : Type) where
  src : List (List A)
  root : SeqT                -- the template of the source rows (`self.root`), fixed at construction
  template : Tmpl
  ifilter : List (Filt A)
  imap : List MapF
  islice : List PSlice
  level : Nat
deriving DecidableEq, Repr

/-- text of a clause after the leftmost-first operator split of `build_filter` -/
structure Cond where
  id1 : Name
  op : Op
  id2 : Name
deriving DecidableEq, Repr, Inhabited

inductive Key where
  | str (k : Name)
  | list (ks : List Name)
  | int (i : Int)
  | slice (s : PSlice)
  | cond (c : Cond)
deriving DecidableEq, Repr, Inhabited

/-- `IterData(stream, template)`: `imap or [fix_nested(template)]` -/
def mkIterData {A} (src : List (List A)) (t : SeqT) : Stream A :=
  ⟨src, t, .seq t, [], [.fixNested t.visible.length], [], 0⟩

/-- `CSVData(filepath, template)`: `imap or []`; the rows are what `csv.reader` yields -/
def mkCSVData {A} (src : List (List A)) (t : SeqT) : Stream A :=
  ⟨src, t, .seq t, [], [], [], 0⟩

/-! ### `__iter__` -/

def getCell {A} (r : List A) (i : Nat) : Except Err A :=
  match r[i]? with
  | some v => .ok v
  | none => .error .indexError

def evalOperand {A} (r : List A) : Operand A → Except Err A
  | .col i => getCell r i
  | .lit a => .ok a

def evalFilt {A} (cmp : Op → A → A → Bool) (f : Filt A) (r : List A) : Except Err Bool := do
  let x ← getCell r f.a
  let y ← evalOperand r f.b
  pure (cmp f.op x y)

/-- `for f in self.ifilter: data = filter(f, data)` seen from one row: kept iff every filter,
    in order, holds; a later filter is not evaluated on a row an earlier one dropped -/
def evalFilts {A} (cmp : Op → A → A → Bool) : List (Filt A) → List A → Except Err Bool
  | [], _ => .ok true
  | f :: fs, r => do
    let b ← evalFilt cmp f r
    if b then evalFilts cmp fs r else pure false

def evalMap {A} : MapF → Item A → Except Err (Item A)
  | .fixNested n, .row r => .ok (.row (r.take n))       -- `zip(row, template.children())`
  | .fixNested _, .cell _ => .error .typeError
  | .ident, x => .ok x
  | .item c lvl, .row r =>
      if lvl = 1 then (getCell r c).map Item.cell else .error .typeError
  | .item _ _, .cell _ => .error .typeError
  | .proj cols lvl, .row r =>
      if lvl = 1 then (cols.mapM (getCell r)).map Item.row else .error .typeError
  | .proj _ _, .cell _ => .error .typeError

def evalMaps {A} : List MapF → Item A → Except Err (Item A)
  | [], x => .ok x
  | m :: ms, x => evalMap m x >>= evalMaps ms

/-- arguments of `itertools.islice`: `None` or non-negative, step `None` or positive -/
def isliceArgs (s : PSlice) : Except Err (Nat × Option Nat × Nat) :=
  let a := s.start.getD 0
  let k := s.step.getD 1
  if a < 0 ∨ k < 1 then .error .valueError
  else match s.stop with
    | none => .ok (a.toNat, none, k.toNat)
    | some b => if b < 0 then .error .valueError else .ok (a.toNat, some b.toNat, k.toNat)

/-- every `k`-th element, starting with the first -/
def everyNth {α} (k : Nat) (xs : List α) : List α :=
  (xs.zipIdx.filter fun p => p.2 % k = 0).map (·.1)

/-- `itertools.islice(data, start, stop, step)` on a finite list -/
def islice {α} (s : PSlice) (xs : List α) : Except Err (List α) := do
  let (a, b, k) ← isliceArgs s
  let upto := match b with
    | none => xs
    | some b => xs.take b
  pure (everyNth k (upto.drop a))

def applySlices {α} : List PSlice → List α → Except Err (List α)
  | [], xs => .ok xs
  | s :: ss, xs => islice s xs >>= applySlices ss

def filterE {α} (f : α → Except Err Bool) : List α → Except Err (List α)
  | [] => .ok []
  | x :: xs => do
    let b ← f x
    let rest ← filterE f xs
    pure (if b then x :: rest else rest)

def mapE {α β} (f : α → Except Err β) : List α → Except Err (List β)
  | [] => .ok []
  | x :: xs => do
    let y ← f x
    let rest ← mapE f xs
    pure (y :: rest)

/-- `list(stream)`: filters over the source rows, then maps, then slices -/
def iter {A} (cmp : Op → A → A → Bool) (s : Stream A) : Except Err (List (Item A)) := do
  let rows ← filterE (evalFilts cmp s.ifilter) s.src
  let items ← mapE (fun r => evalMaps s.imap (.row r)) rows
  applySlices s.islice items

/-! ### `build_filter` (flat templates: the level-0 branch) -/

/-- `str.rsplit(".", 1)`: `(before the last dot, after it)`, `none` without a dot -/
def rsplitDot : List Char → Option (List Char × List Char)
  | [] => none
  | c :: cs =>
    match rsplitDot cs with
    | some (h, t) => some (c :: h, t)
    | none => if c = '.' then some ([], cs) else none

/-- `id2.rsplit(".", 1)[0]` -/
def rsplitHead (s : List Char) : List Char :=
  match rsplitDot s with
  | some (h, _) => h
  | none => s

/-- `id2.split(".")[-1]` -/
def lastTok (s : List Char) : List Char :=
  match rsplitDot s with
  | some (_, t) => t
  | none => s

def indexOf? (ks : List Name) (k : Name) : Option Nat :=
  let i := ks.idxOf k
  if i < ks.length then some i else none

/-- `build_filter(expression, template)` for a flat sequence `t` (`__getitem__` passes `self.root`);
    only `t.id` and `t._all_keys()` are read -/
def buildFilter {A} (lit : List Char → Option A) (c : Cond) (t : SeqT) : Except Err (Filt A × MapF) :=
  -- id1 = id1[len(template.id) + 1:]; one loop round per token of id1.split(".")
  match splitOnChar '.' (c.id1.drop (t.id.length + 1)) with
  | [token] =>
    match indexOf? t.all token with
    | none => .error .ceError
    | some col =>
      -- parent1 = template.id (the parent of the last token)
      if rsplitHead c.id2 = t.id then
        match indexOf? t.all (lastTok c.id2) with
        | none => .error .valueError    -- `keys.index(...)` outside the `try`
        | some col2 => .ok (⟨col, c.op, .col col2⟩, .ident)
      else
        match lit c.id2 with
        | none => .error .ceError
        | some v => .ok (⟨col, c.op, .lit v⟩, .ident)
  | _ => .error .ceError                -- a second token meets a BaseType: AttributeError in the `try`

/-! ### `__getitem__` -/

def getitem {A} (lit : List Char → Option A) (s : Stream A) : Key → Except Err (Stream A)
  | .str key =>
    match s.template with
    | .base _ => .error .attributeError          -- `self.template.keys()`
    | .seq t =>
      match indexOf? t.visible key with
      | none => .error .keyError
      | some col =>
        .ok { s with level := s.level + 1, template := .base (t.id ++ '.' :: key),
                     imap := s.imap ++ [.item col (s.level + 1)] }
  | .list keys =>
    match s.template with
    | .base _ => .error .attributeError
    | .seq t =>
      match keys.mapM (indexOf? t.visible) with
      | none => .error .valueError               -- `list.index` of a key that is not visible
      | some cols =>
        .ok { s with template := .seq { t with visible := keys },
                     imap := s.imap ++ [.proj cols (s.level + 1)] }
  | .int i => .ok { s with islice := s.islice ++ [⟨some i, some (i + 1), none⟩] }
  | .slice sl => .ok { s with islice := s.islice ++ [sl] }
  | .cond c => do
    -- `f, m = build_filter(key, self.root)`; `out.ifilter.append(f)`; `out.imap.insert(0, m)`
    let (f, m) ← buildFilter lit c s.root
    pure { s with ifilter := s.ifilter ++ [f], imap := m :: s.imap }

/-- a program: keys applied left to right -/
def chain {A} (lit : List Char → Option A) : Stream A → List Key → Except Err (Stream A)
  | s, [] => .ok s
  | s, k :: ks => getitem lit s k >>= fun s' => chain lit s' ks

/-! ### the reference: filter the source rows, select columns by name in order, then slice -/

/-- the cell of source row `r` under the header name `k` -/
def cellOf {A} (all : List Name) (r : List A) (k : Name) : Option A :=
  match indexOf? all k with
  | some i => r[i]?
  | none => none

/-- right-hand side of a resolved clause -/
inductive RRhs (A : Type) where
  | name (k : Name)
  | const (a : A)

/-- a clause resolved against the header: `column OP column | constant` -/
structure RCond (A : Type) where
  c1 : Name
  op : Op
  rhs : RRhs A

def refCond {A} (cmp : Op → A → A → Bool) (all : List Name) (r : List A) (c : RCond A) : Bool :=
  match cellOf all r c.c1, c.rhs with
  | some x, .const y => cmp c.op x y
  | some x, .name k => match cellOf all r k with
    | some y => cmp c.op x y
    | none => false
  | none, _ => false

/-- the meaning of a clause text `id.c1 OP id.c2 | literal` for the sequence `id` with header `all` -/
def resolve {A} (lit : List Char → Option A) (id : Name) (all : List Name) (c : Cond) : Option (RCond A) :=
  match rsplitDot c.id1 with
  | none => none
  | some (p1, c1) =>
    if p1 = id ∧ c1 ∈ all then
      if rsplitHead c.id2 = id then
        (if lastTok c.id2 ∈ all then some ⟨c1, c.op, .name (lastTok c.id2)⟩ else none)
      else (lit c.id2).map fun v => ⟨c1, c.op, .const v⟩
    else none

/-- the shape of the items after the column and child selections so far -/
inductive Layout where
  | table (vs : List Name)
  | column (k : Name)
deriving DecidableEq, Repr

structure Ref (A : Type) where
  conds : List (RCond A)
  layout : Layout
  slices : List PSlice

def refStep {A} (lit : List Char → Option A) (id : Name) (all : List Name) (st : Ref A) : Key → Option (Ref A)
  | .str k => match st.layout with
    | .table vs => if k ∈ vs then some { st with layout := .column k } else none
    | .column _ => none
  | .list ks => match st.layout with
    | .table vs => if ks.all (· ∈ vs) then some { st with layout := .table ks } else none
    | .column _ => none
  | .int i => some { st with slices := st.slices ++ [⟨some i, some (i + 1), none⟩] }
  | .slice sl => some { st with slices := st.slices ++ [sl] }
  | .cond c => (resolve lit id all c).map fun rc => { st with conds := st.conds ++ [rc] }   -- on every layout

def refRun {A} (lit : List Char → Option A) (id : Name) (all : List Name) : Ref A → List Key → Option (Ref A)
  | st, [] => some st
  | st, k :: ks => (refStep lit id all st k).bind fun st' => refRun lit id all st' ks

def refItem {A} (all : List Name) (r : List A) : Layout → Option (Item A)
  | .table vs => (vs.mapM (cellOf all r)).map Item.row
  | .column k => (cellOf all r k).map Item.cell

/-- filter the source rows with all the filters, select by name, then the slices in order -/
def refEval {A} (cmp : Op → A → A → Bool) (all : List Name) (st : Ref A) (src : List (List A)) :
    Except Err (List (Item A)) :=
  match (src.filter fun r => st.conds.all (refCond cmp all r)).mapM (refItem all · st.layout) with
  | none => .error .indexError
  | some items => applySlices st.slices items

end Pydap.IterData
