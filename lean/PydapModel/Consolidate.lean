/-
  Model of `pydap.client.consolidate_metadata(urls, session)` and of everything it calls that decides what is
  DECLARED to the cache-key closure of `patch_session_for_shared_dap_cache` (PydapModel/CacheKey.lean):
  `compute_base_url_prefix`, the dimensions of the FIRST result, the pre-fetch URLs, the `dim_ces` set; plus the
  constraint text a DAP4 client read produces (`BaseProxyDap4.__getitem__`: `id + hyperslab(index)`), so that "which
  reads share an entry after consolidation" is a statement about texts both sides really produce.

  Input: one `FileIn` per entry of `urls` = the `urlparse` parts of the URL text (`urlparse`, `parse_qs`, `unquote`
  are trusted library functions outside the model, as in CacheKey.lean) and what `open_dmr(url + ".dmr").dimensions`
  is for it: the named dimensions of the ROOT group, name → size, in document order (`DMRParser.init_dataset`:
  dimensions declared inside a Group are not in that dict, so they are never declared; the DMR text → dict step is
  C11's model and is run for real by the harness).  `vars` (name, shape) are the variables a client can read.

  The code, in order (same case splits, same order of failure):
      not isinstance(session, CachedSession)      → warning, return None            (`cached = false`)
      len(urls) == 1                               → TypeError
      schemes = {urlparse(u).scheme}; > 1 distinct → ValueError;  `scheme.pop()` of no URL at all → KeyError
      scheme != "dap4"                             → warning, return None
      URLs = "http" + url[4:]                      (the scheme text is exactly "dap4" here: the scheme becomes "http")
      dmr_urls = url + ".dmr" | url.replace("?", ".dmr?")          → one GET each (thread pool: `dmrGets`, the
                                                    order in which the threads issue them is runtime behaviour)
      base_url = URLs[0].split("?")[0]
      dims = set(all dimension names of all results)               (`dimsUnion`; set order is runtime behaviour)
      new_urls / dim_ces: results[0].dimensions[dim] for dim in dims → KeyError for a dimension the first file lacks
      if dims: patch_session_for_shared_dap_cache(session, dim_ces, URLs)  → compute_base_url_prefix(URLs): ValueError
               one GET per new_url through the patched session              (`dimGets`)
  Outside the model (named, not hidden): the thread pool and the order of GETs inside one phase, `with session`
  (closes the adapters afterwards), the `print`, DMR parse errors, HTTP status handling of the pre-fetch (an error
  answer — e.g. to `d[0:1:-1]` — is not stored by requests-cache; the model stores every answer, which only makes
  the transparency theorem stronger).  The pinned code has no `safe_mode` parameter.
  Assumption on names (`NameOK` in the theorems, `%`-free in the driver's reading of the pre-fetch URL): a dimension
  name contains no '[' and none of the URL-reserved characters, so that `parse_qs`/`unquote` of
  `dim + "%5B0:1:" + n + "%5D"` is `dim + "[0:1:" + n + "]"` — the text that is put into `dim_ces`.
-/
import PydapModel.CacheKey
import PydapModel.Cache
import PydapModel.Slice
namespace Pydap.Cons
open Pydap Pydap.CK

inductive Err where
  | typeError | valueError | keyError
deriving DecidableEq, Repr

structure FileIn where
  scheme : List Char
  host : List Char
  path : List Char
  /-- the text after the first '?', if any -/
  query : Option (List Char)
  /-- decoded first `dap4.ce` of that query (what `custom_create_key` would read from it) -/
  qce : Option (List Char)
  /-- `open_dmr(...).dimensions`: root-level named dimensions, document order -/
  dims : List (List Char × Nat)
  /-- readable variables: name (id) and shape -/
  vars : List (List Char × List Nat)
deriving DecidableEq, Repr

def httpLit : List Char := "http".toList
def dap4Lit : List Char := "dap4".toList

/-- `str.replace("?", ".dmr?")` on the query text (every '?' is replaced, also those inside the query) -/
def replaceQ : List Char → List Char
  | [] => []
  | c :: cs => if c = '?' then ".dmr?".toList ++ replaceQ cs else c :: replaceQ cs

/-- `"http" + url[4:]` up to the first '?' -/
def baseUrlText (f : FileIn) : List Char := httpLit ++ "://".toList ++ f.host ++ f.path

/-- the DMR request of one file: `url + ".dmr"` or `url.replace("?", ".dmr?")` -/
def dmrReq (f : FileIn) : Req :=
  { scheme := httpLit, host := f.host, path := f.path ++ ".dmr".toList, ce := f.qce,
    url := match f.query with
      | none => baseUrlText f ++ ".dmr".toList
      | some q => baseUrlText f ++ ".dmr?".toList ++ replaceQ q }

/-- `str(n - 1)` -/
def lastText (n : Nat) : List Char := intText ((n : Int) - 1)

/-- an element of `dim_ces`: `dim + "[0:1:" + str(size - 1) + "]"` -/
def declText (d : List Char) (n : Nat) : List Char := d ++ "[0:1:".toList ++ lastText n ++ [']']

/-- a pre-fetch request: `base_url + ".dap?dap4.ce=" + dim + "%5B0:1:" + str(size - 1) + "%5D"` on the FIRST file -/
def dimReq (f0 : FileIn) (d : List Char) (n : Nat) : Req :=
  { scheme := httpLit, host := f0.host, path := f0.path ++ ".dap".toList, ce := some (declText d n),
    url := baseUrlText f0 ++ ".dap?dap4.ce=".toList ++ d ++ "%5B0:1:".toList ++ lastText n ++ "%5D".toList }

/-- `set(name for every result for every dimension)`, first occurrences in list order -/
def dedup : List (List Char) → List (List Char)
  | [] => []
  | x :: xs => if x ∈ dedup xs then dedup xs else x :: dedup xs

def dimsUnion (files : List FileIn) : List (List Char) :=
  dedup (files.flatMap fun f => f.dims.map (·.1))

/-- `results[0].dimensions[dim]` for every dim: KeyError on the first one that the first file lacks -/
def sizesInFirst (f0 : FileIn) : List (List Char) → Except Err (List (List Char × Nat))
  | [] => .ok []
  | d :: ds =>
    match f0.dims.lookup d with
    | none => .error .keyError
    | some n =>
      match sizesInFirst f0 ds with
      | .error e => .error e
      | .ok r => .ok ((d, n) :: r)

/-! ### `compute_base_url_prefix` -/

/-- the text up to and including the last '/', `[]` when there is none -/
def uptoLastSlash : List Char → List Char
  | [] => []
  | c :: cs => if uptoLastSlash cs = [] then (if c = '/' then ['/'] else []) else c :: uptoLastSlash cs

/-- `"/".join(path.split("/")[:-1]) + "/"` -/
def dirSlash (p : List Char) : List Char := if uptoLastSlash p = [] then ['/'] else uptoLastSlash p

def commonPrefix2 : List Char → List Char → List Char
  | a :: as, b :: bs => if a = b then a :: commonPrefix2 as bs else []
  | _, _ => []

/-- `os.path.commonprefix` of a non-empty list (character-wise longest common prefix) -/
def commonPrefix : List (List Char) → List Char
  | [] => []
  | [p] => p
  | p :: ps => commonPrefix2 p (commonPrefix ps)

/-- `posixpath.dirname` -/
def dirname (p : List Char) : List Char :=
  if uptoLastSlash p ≠ [] ∧ ¬ (uptoLastSlash p).all (· = '/') then rstripSlash (uptoLastSlash p) else uptoLastSlash p

/-- `compute_base_url_prefix(URLs)` for the ≥ 2 http URLs `consolidate_metadata` hands over -/
def computeBase (f0 : FileIn) (files : List FileIn) : Except Err Base :=
  if dirname (commonPrefix (files.map fun f => dirSlash f.path)) = ['/'] then .error .valueError
  else .ok ⟨httpLit, f0.host, dirname (commonPrefix (files.map fun f => dirSlash f.path))⟩

/-! ### `consolidate_metadata` -/

/-- what is handed to `patch_session_for_shared_dap_cache` -/
structure Decl where
  base : Base
  shared : List (List Char)
deriving DecidableEq, Repr

structure Out where
  /-- phase 1, through the unpatched session -/
  dmrGets : List Req
  /-- phase 2, through the patched session -/
  dimGets : List Req
  /-- `none`: returned without patching the session -/
  result : Except Err (Option Decl)
deriving Repr

def consolidate (cached : Bool) (files : List FileIn) : Out :=
  if !cached then ⟨[], [], .ok none⟩
  else match files with
  | [_] => ⟨[], [], .error .typeError⟩
  | [] => ⟨[], [], .error .keyError⟩
  | f0 :: rest =>
    if rest.any (fun f => decide (f.scheme ≠ f0.scheme)) then ⟨[], [], .error .valueError⟩
    else if f0.scheme ≠ dap4Lit then ⟨[], [], .ok none⟩
    else
      let dmr := (f0 :: rest).map dmrReq
      match sizesInFirst f0 (dimsUnion (f0 :: rest)) with
      | .error e => ⟨dmr, [], .error e⟩
      | .ok sized =>
        if sized = [] then ⟨dmr, [], .ok none⟩
        else match computeBase f0 (f0 :: rest) with
          | .error e => ⟨dmr, [], .error e⟩
          | .ok b => ⟨dmr, sized.map (fun p => dimReq f0 p.1 p.2), .ok (some ⟨b, sized.map (fun p => declText p.1 p.2)⟩)⟩

/-! ### what a DAP4 client read asks for -/

/-- one axis of `hyperslab(index)`: `[start:step:stop-1]`, all three non-negative after `fix_slice` -/
def slabText (t : Nat × Nat × Nat) : List Char :=
  '[' :: natDigits t.1 ++ ':' :: natDigits t.2.1 ++ ':' :: natDigits t.2.2 ++ [']']

/-- `self.id + hyperslab(index)` -/
def ceText (name : List Char) (slabs : List (Nat × Nat × Nat)) : List Char := name ++ slabs.flatMap slabText

/-- the same axis in the URL as `requests` prepares it (`requote_uri`: '[' → `%5B`, ']' → `%5D`; digits and ':' stay) -/
def slabUrlText (t : Nat × Nat × Nat) : List Char :=
  "%5B".toList ++ natDigits t.1 ++ ':' :: natDigits t.2.1 ++ ':' :: natDigits t.2.2 ++ "%5D".toList

/-- the request of `BaseProxyDap4.__getitem__` on a variable of the file `f` (opened with its dap4:// URL):
    `urlunparse((scheme, netloc, path + ".dap", "", "dap4.ce=" + id + hyperslab, fragment))`; `url`, the identity
    the unpatched key sees, is the prepared URL (brackets escaped), the same text form as the pre-fetch URLs -/
def readReq (f : FileIn) (name : List Char) (slabs : List (Nat × Nat × Nat)) : Req :=
  { scheme := httpLit, host := f.host, path := f.path ++ ".dap".toList, ce := some (ceText name slabs),
    url := baseUrlText f ++ ".dap?dap4.ce=".toList ++ name ++ slabs.flatMap slabUrlText }

/-- the positions `[a:s:b]` (inclusive last index `b`, DAP) selects on an axis of length `m` (s ≥ 1) -/
def slabSel (m : Nat) (t : Nat × Nat × Nat) : List Nat :=
  (List.range m).filter fun i => decide (t.1 ≤ i ∧ i ≤ t.2.2 ∧ (i - t.1) % t.2.1 = 0)

/-- the key function before (`patch` not yet applied: every request gets its unpatched key) and after consolidation -/
def keyBefore (orig : List Char → List Char) : Req → Key := customKey orig [] none
def keyAfter (orig : List Char → List Char) (d : Decl) : Req → Key := customKey orig d.shared (some d.base)

end Pydap.Cons
