/-
  C01 / C05 — the DAP2 decoder of `PydapModel/Xdr.lean` once more, written as what it *is* in Python: code that
  touches its stream only through `stream.read(n)` (handlers/dap.py never looks at the reader otherwise).
  `decD` is the interaction tree (`Pydap.Stream.Dec`, C09's vocabulary) of `dec`: the same case splits, the
  same reads in the same order — including the reads of length 0 the Python issues (`read(k)` of an empty
  string, `read(-k % 4)` / `read(-n % 4)` when no padding is due, `read(count)` of a zero-length array).
  Run against a strict `BytesReader` it is `dec` (`Proofs/XdrStream.lean`); run against a `StreamReader`
  (`Stream.srRead`: lib.py `StreamReader.read`) it is the streaming client:

    `decStream`    `unpack_dap2_data(StreamReader(iter(chunks)), dataset)`
    `openDodsUrl`  client.py `open_dods_url`: `safe_dds_and_data`, then `StreamReader(BytesIO(data))` — iterating
                   a `BytesIO` yields its *lines* (`lines`), so the chunking is decided by the 0x0A bytes of the data
    `seqProxy`     handlers/dap.py `SequenceProxy.__iter__`: `find_pattern_in_string_iter(b"Data:\n", i)`,
                   `StreamReader(chain([last_chunk], i))`, `unpack_sequence` (C09's `clientStream`)
  Core Lean only.
-/
import PydapModel.Xdr
import PydapModel.Stream
namespace Pydap.Xdr
open Pydap.Stream (Dec SR)

/-- the exception classes of this model in C09's vocabulary: a reader that ran dry (`EOFError` /
    `StopIteration`) is `eof`, the decoder's own failures (`UnicodeDecodeError`, numpy `ValueError`) are `value` -/
def errMap : Err → Stream.Err
  | .short => .eof
  | .decode => .value
  | .neglen => .negLen
  | .shape => .value
  | .fuel => .fuel

/-- a computation that does not read -/
def liftD : Except Err α → Dec α
  | .ok a => .ret a
  | .error e => .fail (errMap e)

/-- `stream.read(n)` -/
def readD (n : Nat) : Dec Bytes := .read n .ret

/-- `numpy.frombuffer(stream.read(4), DAP2_ARRAY_LENGTH_NUMPY_TYPE)[0]` -/
def readLenD : Dec Nat :=
  .read 4 fun p =>
    if p.length ≠ (dtypeItemsize Gen.DAP2_ARRAY_LENGTH_NUMPY_TYPE).getD 0 then .fail .eof
    else if beNat p ≥ 2147483648 then .fail .negLen
    else .ret (beNat p)

/-- one string: length word, `read(k)` (k may be 0), `.decode("ascii")`, `read(-k % 4)` (may be 0) -/
def readStringD : Dec Bytes :=
  readLenD.bind fun k => (readD k).bind fun b => (liftD (asciiDecode b)).bind fun t =>
    (readD (pad4 k)).bind fun _ => .ret t

/-- the `for _ in range(n)` loop of the string-array branch -/
def readStringsD : Nat → Dec (List Val)
  | 0 => .ret []
  | n + 1 => readLenD.bind fun k => (readD k).bind fun b => (readD (pad4 k)).bind fun _ =>
      (readStringsD n).bind fun vs => .ret (.str b :: vs)

/-- `convert_stream_to_list(stream, parser_dtype, shape, id)` -/
def convertStreamD (ty : Ty) (shape : List Nat) : Dec Data :=
  if !shape.isEmpty then
    readLenD.bind fun n =>
      if wireChar ty = 'S' then
        (readStringsD n).bind fun raw => (liftD (decodeAll raw)).bind fun vs =>
          if n ≠ prod shape then .fail .value else .ret (.array vs)
      else
        (readD 4).bind fun _ => (readD (wireWidth ty * n)).bind fun b =>
          (liftD (fromWireMany ty n b)).bind fun vs =>
            if n ≠ prod shape then .fail .value
            else if wireChar ty = 'B' then (readD (pad4 n)).bind fun _ => .ret (.array vs)
            else .ret (.array vs)
  else if wireChar ty = 'S' then
    readStringD.bind fun t => .ret (.scalar (.str t))
  else
    (readD (wireWidth ty)).bind fun b => (liftD (fromWire ty b)).bind fun v =>
      if wireChar ty = 'B' then (readD 3).bind fun _ => .ret (.scalar v) else .ret (.scalar v)

/-- the marker loop of `unpack_sequence`'s simple path -/
def decRowsSimpleD (cs : List Tmpl) : Nat → Dec (List Data)
  | 0 => .fail .fuel
  | f + 1 => (readD 4).bind fun m =>
      if m = Gen.START_OF_SEQUENCE then
        (readD (recordSize cs)).bind fun b => (liftD (splitRecord cs b)).bind fun r =>
          (decRowsSimpleD cs f).bind fun rs => .ret (.tuple r :: rs)
      else .ret []

mutual
/-- one column inside `unpack_children` -/
def decD : Nat → Tmpl → Dec Data
  | 0, _ => .fail .fuel
  | _ + 1, .base ty shape => convertStreamD ty shape
  | f + 1, .struct cs => (decsD f cs).bind fun ds => .ret (.tuple ds)
  | f + 1, .seq cs =>
      if simpleCols cs then (decRowsSimpleD cs f).bind fun rs => .ret (.rows rs)
      else (decRowsD f cs).bind fun rs => .ret (.rows rs)
/-- `unpack_children`: the columns in order -/
def decsD : Nat → List Tmpl → Dec (List Data)
  | 0, _ => .fail .fuel
  | _ + 1, [] => .ret []
  | f + 1, c :: cs => (decD f c).bind fun d => (decsD f cs).bind fun ds => .ret (d :: ds)
/-- the marker loop of `unpack_sequence`'s general path -/
def decRowsD : Nat → List Tmpl → Dec (List Data)
  | 0, _ => .fail .fuel
  | f + 1, cs => (readD 4).bind fun m =>
      if m = Gen.START_OF_SEQUENCE then
        (decsD f cs).bind fun ds => (decRowsD f cs).bind fun rs => .ret (.tuple ds :: rs)
      else .ret []
end

/-- `unpack_dap2_data(StreamReader(iter(chunks)), dataset)` / `unpack_sequence(StreamReader(…), template)`:
    the decoder over a `StreamReader` whose iterator will deliver `cs` (fuel as in `decImpl`: a bound on the
    number of loop turns, computed from everything the reader can still deliver) -/
def decStreamFrom (t : Tmpl) (r : SR) : Except Stream.Err (Data × SR) :=
  (decD (fuelFor t r.abs) t).runSR r

def decStream (t : Tmpl) (cs : List Bytes) : Except Stream.Err (Data × SR) := decStreamFrom t ⟨cs, []⟩

/-- the sizes of the reads a decoder issues on a strict reader over `s`, in order (what a reader that logs its
    calls records); the last entry is the read that failed, if one did -/
def traceBR : Dec α → Bytes → List Nat
  | .ret _, _ => []
  | .fail _, _ => []
  | .read n k, s => n :: (match Stream.brRead n s with
      | .ok x => traceBR (k x.1) x.2
      | .error _ => [])

/-- the reads of `unpack_dap2_data(reader, dataset)` on `s` -/
def decTrace (t : Tmpl) (s : Bytes) : List Nat := traceBR (decD (fuelFor t s) t) s

/-- the decoded value, the reader state dropped -/
def valOf (x : Except Stream.Err (α × β)) : Except Stream.Err α :=
  match x with
  | .ok y => .ok y.1
  | .error e => .error e

/-! ## `open_dods_url` (client.py) -/

/-- iterating `io.BytesIO(data)`: the lines of `data`, each with its `\n` (the last one possibly without) -/
def linesFrom (cur : Bytes) : Bytes → List Bytes
  | [] => if cur.isEmpty then [] else [cur]
  | b :: s => if b = 10 then (cur ++ [b]) :: linesFrom [] s else linesFrom (cur ++ [b]) s

def lines (s : Bytes) : List Bytes := linesFrom [] s

/-- `dds, data = safe_dds_and_data(r, …); stream = StreamReader(BytesIO(data));
    dataset.data = unpack_dap2_data(stream, dataset)`: (DDS text, decoded data); `none` = no separator -/
def openDodsUrl (t : Tmpl) (raw : Bytes) : Option (Bytes × Except Stream.Err Data) :=
  (splitBody raw).map fun p => (p.1, valOf (decStream t (lines p.2)))

/-! ## `SequenceProxy.__iter__` (handlers/dap.py) for a sequence declaration `t = .seq cols` -/

/-- search for `Data:\n` over the chunks of the response, `StreamReader` over the rest of that chunk and the
    chunks not yet consumed, `list(unpack_sequence(stream, template))` -/
def seqProxy (t : Tmpl) (cs : List Bytes) : Except Stream.Err Data :=
  match Stream.clientStream cs with
  | .error e => .error e
  | .ok r => valOf (decStreamFrom t r)

end Pydap.Xdr
