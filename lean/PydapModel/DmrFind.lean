/-
  `dataset[path]` on the dataset `dmr_to_dataset` assembles (model.py `DatasetType._getitem_string` for a full path
  of plain names: the groups are followed by name, the last name is looked up among the children).
-/
import PydapModel.Dmr
namespace Pydap.Dmr

/-- `dataset[path]` for a full path: follow the groups by name (first child with that name), the last name must be a variable -/
def Forest.findVar : List Str → Forest → Option VarRec
  | [], _ => none
  | _, .nil => none
  | [nm], .var n r rest => if n == nm then some r else Forest.findVar [nm] rest
  | [nm], .group n _ rest => if n == nm then none else Forest.findVar [nm] rest
  | p :: q :: ps, .var n _ rest => if n == p then none else Forest.findVar (p :: q :: ps) rest
  | p :: q :: ps, .group n kids rest =>
    if n == p then Forest.findVar (q :: ps) kids else Forest.findVar (p :: q :: ps) rest

/-- `dataset["/g/h/name"]` (`DatasetType._getitem_string` on a full path, since fix 3e19517): the path is split at
    `/`, every component is looked up under its **quoted** name (`current[part]` → `_dict[_quote(part)]`), and what
    the path ends on is returned.  So a variable is found under its declared names (`/g h/a.b`), under its stored
    names (`/g%20h/a%2Eb`) and under any mix of the two.  (Before the fix the last component was compared
    unquoted with the stored keys and the function fell off its loop: `ds["/g/a.b"]` was `None`.) -/
def getitemPath (fq : Str) (t : Forest) : Option VarRec := Forest.findVar ((pathParts fq).map quoteName) t

/-- the dataset tree after `dmr_to_dataset` -/
def datasetTree (root : XNode) : Except Err Forest := do
  let recs ← parseVars root
  pure (buildTree (getGroups root ['/']) recs)

end Pydap.Dmr
