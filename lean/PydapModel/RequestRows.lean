/-
  C13 — a whole request as ONE thread program of the machine of `Sched.lean`: the pipeline stores of
  `HandlerSteps.program` (copy, selection, wrap, projection, response emission over the object tree; a data object is
  one opaque reference there) followed by the evaluation of the request's filters and maps over the records held by
  the source of a served lazy sequence (`RowHeap.serveRows`: type lookups, iteration), each logged store one step.
  Locations: the sum of the two location types.
-/
import PydapModel.Sched
import PydapModel.HandlerSteps
import PydapModel.RowHeap
namespace Pydap.RowHeap
open Pydap.Sched

/-- a location of the shared machine: `(none, i)` the `i`-th source object, `(some t, i)` the `i`-th object
    allocated by request `t` -/
abbrev GLoc := Option Nat × Nat

def gloc (t : Nat) : Loc → GLoc
  | .src i => (none, i)
  | .own i => (some t, i)

abbrev RVal := List String

def Store.toStep (t : Nat) (s : Store) : Step GLoc RVal RVal String :=
  { reads := s.reads.map (gloc t), writes := [gloc t s.target],
    act := fun vs => .ok ([("setitem[" ++ toString s.index ++ "]") :: vs.flatten], []) }

/-- streaming the result: reads every object the stores read or wrote, outputs what it read -/
def emitRows (t : Nat) (log : List Store) : Step GLoc RVal RVal String :=
  { reads := (log.flatMap (·.reads) ++ log.map (·.target)).map (gloc t), writes := [],
    act := fun vs => .ok ([], vs) }

/-- request `t` evaluating its maps over the source records of the served sequence (its own region empty at
    the start): the stores it reaches, then the emission -/
def rowProgram (src : List PObj) (stream : List PVal) (filts : List RFilt) (maps : List RMap) (peeks : Nat) (t : Nat) :
    List (Step GLoc RVal RVal String) :=
  let o := serveRows filts maps ⟨src, []⟩ stream peeks
  o.log.map (Store.toStep t) ++ [emitRows t o.log]

/-- the same step over another location type -/
def _root_.Pydap.Sched.Step.mapLoc {L L' V O E : Type} (f : L → L') (s : Step L V O E) : Step L' V O E :=
  { reads := s.reads.map f, writes := s.writes.map f, act := s.act }

/-- a location of a whole request: an object of the dataset trees, or a record object -/
abbrev ReqLoc := HandlerSteps.Ref ⊕ GLoc

def reqOwner : ReqLoc → Option Nat := Sum.elim HandlerSteps.Ref.own (fun g => g.1)

/-- request `q` of thread `t` against the served dataset `ds` whose lazy sequence holds the records `src` / `stream`:
    the pipeline program, then the source-record program -/
def requestProgram (ds : HandlerSteps.Node) (q : HandlerSteps.Req) (src : List PObj) (stream : List PVal)
    (filts : List RFilt) (maps : List RMap) (peeks : Nat) (t : Nat) : List (Step ReqLoc RVal RVal String) :=
  (HandlerSteps.program ds t q).map (Step.mapLoc Sum.inl) ++
    (rowProgram src stream filts maps peeks t).map (Step.mapLoc Sum.inr)

end Pydap.RowHeap
