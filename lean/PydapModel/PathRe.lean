import PydapModel.Path
/-
  C16 — the handlers' `extensions` regular expressions *as they are written*, and `get_handler`'s use of them.

  `NetCDFHandler.extensions = re.compile(r"^.*\.(nc4|nc|cdf)$", re.IGNORECASE)`,
  `CSVHandler.extensions    = re.compile(r"^.*\.csv$", re.IGNORECASE)`;
  `get_handler(filepath, handlers)`: the first handler whose `re.compile(handler.extensions).match(filepath)` is not
  `None`; `ExtensionNotSupportedError` when there is none.  `supported(filepath, handlers)` is the same lookup.

  The fragment of `re` that these patterns use is modelled atom by atom (a pattern is a sequence of atoms):
    `^`      (only in first position; `re.match` is anchored at position 0 anyway — the parser drops it),
    `.*`     any number of characters other than `\n` (no DOTALL),
    `\.` / a literal character,
    `(a|b|c)` / a bare word: alternatives of literal words, tried in order (backtracking into the group),
    `$`      end of text, or just before a final `\n` (no MULTILINE).
  IGNORECASE is modelled on ASCII (`lowerChar`); Unicode case folding (`ſ`, `K`) is outside the model.
  The harness parses the live `handler.extensions.pattern` into this fragment on every run and sends the atoms to
  the driver (`path-rematch`); a pattern outside the fragment is reported as a broken tie.
-/
namespace Pydap.Path

inductive Atom where
  | anyStar
  | chr (c : Char)
  | alts (ws : List (List Char))
  | eol
deriving Repr, DecidableEq

/-- character comparison under the pattern's flags -/
def eqc (ic : Bool) (a b : Char) : Bool := if ic then lowerChar a == lowerChar b else a == b

/-- consume the literal word `w` from the front of `s` -/
def stripLit (ic : Bool) : List Char → List Char → Option (List Char)
  | [], s => some s
  | _ :: _, [] => none
  | c :: w, x :: s => if eqc ic c x then stripLit ic w s else none

/-- `.*` followed by the continuation `k`: every split point is tried (greedy or not is the same for a yes/no match);
    `.` does not match a newline -/
def starAny (k : List Char → Bool) : List Char → Bool
  | [] => k []
  | x :: t => k (x :: t) || (x != '\n' && starAny k t)

/-- `re.match`: the atoms match a prefix of `s` (anchored at position 0; the rest of `s` need not be consumed) -/
def matchSeq (ic : Bool) : List Atom → List Char → Bool
  | [], _ => true
  | .anyStar :: r, s => starAny (fun s' => matchSeq ic r s') s
  | .chr c :: r, s =>
    match s with
    | [] => false
    | x :: t => eqc ic c x && matchSeq ic r t
  | .alts ws :: r, s =>
    ws.any fun w => match stripLit ic w s with
      | some t => matchSeq ic r t
      | none => false
  | .eol :: r, s => (s == [] || s == ['\n']) && matchSeq ic r s

/-- a compiled pattern: flags and atoms -/
structure Pattern where
  ignoreCase : Bool
  atoms : List Atom
deriving Repr, DecidableEq

def Pattern.matches (p : Pattern) (s : List Char) : Bool := matchSeq p.ignoreCase p.atoms s

/-- the shape both handlers' patterns have: `^.*\.(e1|e2|…)$`, IGNORECASE -/
def dotExtPattern (exts : List Seg) : Pattern := ⟨true, [.anyStar, .chr '.', .alts exts, .eol]⟩

/-- `get_handler(filepath, handlers, instantiate=False)`: index of the first handler whose pattern matches the
    *whole path text*; `none` = `ExtensionNotSupportedError` -/
def getHandler (handlers : List Pattern) (p : Segs) : Option Nat :=
  handlers.findIdx? fun h => h.matches (text p)

/-- `supported(filepath, handlers)` -/
def supportedBy (handlers : List Pattern) (p : Segs) : Bool := (getHandler handlers p).isSome

/-- "ends in a dot and one of the extensions, whatever the case": the documented meaning, on one name -/
def dotExt (exts : List Seg) (name : Seg) : Bool :=
  exts.any fun e => endsWith (lower name) ('.' :: lower e)

end Pydap.Path
