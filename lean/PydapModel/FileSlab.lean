import PydapModel.Slice
import PydapModel.FileHandlers
/-
  C20 — from the DAP2 hyperslab of a request to the key `LazyVariable.__getitem__` receives, and the positions the
  NetCDF library reads for it.  `[a:k:b]` (start, stride, last) is parsed to `slice(a, b + 1, k)`
  (`parse_hyperslab`, C03), checked by `check_hyperslab` (`Handler.validSl`, C15) and handed over unchanged; the
  library's selection on an axis is numpy's basic slicing (`Pydap.sel`, the specification C02/C03 use).
-/
namespace Pydap.FileHandlers
open Pydap

/-- a hyperslab per axis: (start, stride, last) as written in the constraint expression -/
abbrev Hyperslab := List (Nat × Nat × Nat)

/-- `slice(a, b + 1, k)` per axis -/
def keyOfHyperslab (h : Hyperslab) : Key := .slices (h.map fun t => (t.1, t.2.2 + 1, t.2.1))

/-- the positions read on each axis for a key of slices -/
def keyPositions (shape : List Nat) : Key → List (List Nat)
  | .slices ks => List.zipWith (fun n (t : Nat × Nat × Nat) =>
      sel n ⟨some (t.1 : Int), some (t.2.1 : Int), some (t.2.2 : Int)⟩) shape ks
  | .scalar _ => []

end Pydap.FileHandlers
