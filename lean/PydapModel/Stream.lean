/-
  C09 — readers, pattern search, the record-marker loop and DAP4 dechunking, as they exist in
  `src/pydap/lib.py` (`StreamReader`, `BytesReader`) and `src/pydap/handlers/dap.py`
  (`find_pattern_in_string_iter`, `SequenceProxy.__iter__`, `unpack_sequence`, `convert_stream_to_list`,
  `decode_chunktype`, `stream2bytearray`, `UNPACKDAP4DATA.safe_dmr_and_data`).

  The model follows the code *after* the C09 repair (`BytesReader.read` raises on a short read,
  `open_dods_file` reads through `BytesReader`, `stream2bytearray` raises on a short header / short chunk /
  missing last chunk).  The behaviour before the repair is kept as `brReadLenient` only to show (in
  `Props/C09.lean`) that the prefix theorem is false for it.

  Core Lean only.
-/
import PydapModel.Generated.Tables
namespace Pydap.Stream

abbrev Bytes := List UInt8

/-- exception classes the property cares about -/
inductive Err where
  /-- the reader ran out of data: `StopIteration` out of `StreamReader.read` (a `RuntimeError` once it
      crosses the `unpack_sequence` generator), `EOFError` out of `BytesReader.read` / `stream2bytearray` -/
  | eof
  /-- the decoder's own failure on the bytes it was given (`UnicodeDecodeError`, numpy `ValueError`) -/
  | value
  /-- `SequenceProxy.__iter__`: "Could not find data segment" (`ValueError`) -/
  | noData
  /-- a length word ≥ 2^31 (negative as `>i`): `read` of a negative count is not modelled -/
  | negLen
  /-- model artefact: the fuel given to a loop ran out (never happens with the fuel the entry points pass:
      `C09_fuel_adequate`, `Proofs/StreamFuel.lean`) -/
  | fuel
deriving DecidableEq, Repr

/-- equality of outcomes is decidable (used by the concrete `example`s) -/
instance decEqExcept {ε α : Type} [DecidableEq ε] [DecidableEq α] : DecidableEq (Except ε α)
  | .ok a, .ok b => if h : a = b then isTrue (by rw [h]) else isFalse (by intro h'; cases h'; exact h rfl)
  | .error a, .error b => if h : a = b then isTrue (by rw [h]) else isFalse (by intro h'; cases h'; exact h rfl)
  | .ok _, .error _ => isFalse (by intro h; cases h)
  | .error _, .ok _ => isFalse (by intro h; cases h)

/-! ## `StreamReader` (lib.py) -/

/-- `StreamReader`: the iterator still to be consumed and the buffer -/
structure SR where
  chunks : List Bytes
  buf : Bytes
deriving DecidableEq, Repr

/-- `while len(self.buf) < n: self.buf.extend(next(self.stream))`; `next` on an exhausted iterator raises -/
def srFill (n : Nat) : Bytes → List Bytes → Except Err (Bytes × List Bytes)
  | buf, [] => if n ≤ buf.length then .ok (buf, []) else .error .eof
  | buf, c :: cs => if n ≤ buf.length then .ok (buf, c :: cs) else srFill n (buf ++ c) cs

/-- `StreamReader.read(n)` -/
def srRead (n : Nat) (r : SR) : Except Err (Bytes × SR) :=
  match srFill n r.buf r.chunks with
  | .error e => .error e
  | .ok x => .ok (x.1.take n, ⟨x.2, x.1.drop n⟩)

/-- all bytes a `StreamReader` can still deliver -/
def SR.abs (r : SR) : Bytes := r.buf ++ r.chunks.flatten

/-! ## `BytesReader` (lib.py) -/

/-- `BytesReader.read(n)` after the repair: exactly `n` bytes or `EOFError` -/
def brRead (n : Nat) (data : Bytes) : Except Err (Bytes × Bytes) :=
  if n ≤ data.length then .ok (data.take n, data.drop n) else .error .eof

/-- `BytesReader.read(n)` before the repair, and `file.read(n)`: whatever is left, possibly short -/
def brReadLenient (n : Nat) (data : Bytes) : Except Err (Bytes × Bytes) :=
  .ok (data.take n, data.drop n)

/-! ## a list of reads (what the reader theorem speaks about) -/

/-- results of the reads done so far, and the error that ended them (if any) -/
abbrev Trace := List Bytes × Option Err

def srReadMany : List Nat → SR → Trace
  | [], _ => ([], none)
  | n :: ns, r =>
    match srRead n r with
    | .error e => ([], some e)
    | .ok x => ((x.1 :: (srReadMany ns x.2).1), (srReadMany ns x.2).2)

def brReadMany : List Nat → Bytes → Trace
  | [], _ => ([], none)
  | n :: ns, d =>
    match brRead n d with
    | .error e => ([], some e)
    | .ok x => ((x.1 :: (brReadMany ns x.2).1), (brReadMany ns x.2).2)

/-! ## decoders that observe the reader only through `read n` -/

/-- a decoder as the tree of its interactions with a reader -/
inductive Dec (α : Type) where
  | ret : α → Dec α
  | fail : Err → Dec α
  | read : Nat → (Bytes → Dec α) → Dec α

namespace Dec

def bind : Dec α → (α → Dec β) → Dec β
  | .ret a, f => f a
  | .fail e, _ => .fail e
  | .read n k, f => .read n (fun b => (k b).bind f)

/-- run against a `StreamReader` -/
def runSR : Dec α → SR → Except Err (α × SR)
  | .ret a, r => .ok (a, r)
  | .fail e, _ => .error e
  | .read n k, r =>
    match srRead n r with
    | .error e => .error e
    | .ok x => (k x.1).runSR x.2

/-- run against a (repaired) `BytesReader` -/
def runBR : Dec α → Bytes → Except Err (α × Bytes)
  | .ret a, d => .ok (a, d)
  | .fail e, _ => .error e
  | .read n k, d =>
    match brRead n d with
    | .error e => .error e
    | .ok x => (k x.1).runBR x.2

/-- run against the reader as it was before the repair (and against a plain file object) -/
def runLenient : Dec α → Bytes → Except Err (α × Bytes)
  | .ret a, d => .ok (a, d)
  | .fail e, _ => .error e
  | .read n k, d => (k (d.take n)).runLenient (d.drop n)

end Dec

/-! ## `find_pattern_in_string_iter` and the start of `SequenceProxy.__iter__` (handlers/dap.py) -/

/-- `re.search(pattern, s)` for a literal pattern followed by `s[m.end():]`: what follows the first
    (leftmost) occurrence.  This is also the specification the chunked search is proved against. -/
def afterFirst (p : Bytes) : Bytes → Option Bytes
  | [] => if p = [] then some [] else none
  | a :: t => if p.isPrefixOf (a :: t) then some ((a :: t).drop p.length) else afterFirst p t

/-- the loop of `find_pattern_in_string_iter`; returns what follows the match inside the chunk where it
    was found, and the chunks not consumed yet (the iterator is shared with the caller) -/
def findPatternFrom (p : Bytes) : Bytes → List Bytes → Option (Bytes × List Bytes)
  | _, [] => none
  | last, c :: cs =>
    match afterFirst p (last ++ c) with
    | some s => some (s, cs)
    | none => findPatternFrom p ((last ++ c).drop ((last ++ c).length - p.length)) cs

def findPattern (p : Bytes) (cs : List Bytes) : Option (Bytes × List Bytes) := findPatternFrom p [] cs

/-- `pattern = b"Data:\n"` in `SequenceProxy.__iter__` -/
def dataPattern : Bytes := Pydap.Gen.DATA_PATTERN

/-- `SequenceProxy.__iter__`: skip the DDS, then `StreamReader(chain([last_chunk], i))` -/
def clientStream (cs : List Bytes) : Except Err SR :=
  match findPattern dataPattern cs with
  | none => .error .noData
  | some x => .ok ⟨x.1 :: x.2, []⟩

/-! ## `safe_dds_and_data` + `unpack_dap2_data(BytesReader(data), …)`: the array path (`BaseProxyDap2.__getitem__`) -/

/-- `b"\nData:\n"` in `safe_dds_and_data` (and `open_dods_url`) -/
def ddsSeparator : Bytes := [10, 68, 97, 116, 97, 58, 10]

/-- `_dds, data = raw.split(b"\nData:\n", 1)` on the joined body (`r.body` / `r.content`): the data part;
    `none` = the unpacking `ValueError` when the separator is missing -/
def splitData (raw : Bytes) : Option Bytes := afterFirst ddsSeparator raw

def fstOf (x : Except Err (α × Bytes)) : Except Err α :=
  match x with
  | .ok y => .ok y.1
  | .error e => .error e

/-- the array path for an arbitrary decoder of the data part (whatever the dataset declares: arrays,
    strings, structures, grids, sequences): split, then decode through a `BytesReader` -/
def bodyPath (d : Dec α) (raw : Bytes) : Except Err α :=
  match splitData raw with
  | none => .error .noData
  | some data => fstOf (d.runBR data)

/-! ## the record-marker loop (`unpack_sequence`) for a flat sequence of fixed-width and string columns -/

def be32 : Bytes → Nat
  | [a, b, c, d] => a.toNat * 16777216 + b.toNat * 65536 + c.toNat * 256 + d.toNat
  | _ => 0

def be32enc (k : Nat) : Bytes :=
  [UInt8.ofNat (k / 16777216 % 256), UInt8.ofNat (k / 65536 % 256), UInt8.ofNat (k / 256 % 256), UInt8.ofNat (k % 256)]

/-- a column: a base type whose wire width equals its parser width (Int32/UInt32/Float32: 4, Float64: 8;
    value = raw bytes, i.e. the bit pattern), or a String -/
inductive Col where
  | fixed (w : Nat)
  | str
deriving DecidableEq, Repr

abbrev Row := List Bytes

def Col.isFixed : Col → Bool
  | .fixed _ => true
  | .str => false

def Col.width : Col → Nat
  | .fixed w => w
  | .str => 0

def isAscii (s : Bytes) : Bool := s.all (fun b => b.toNat < 128)

/-- `-k % 4` -/
def pad4 (k : Nat) : Nat := (4 - k % 4) % 4

/-- `convert_stream_to_list`, scalar String branch:
    `k = frombuffer(read(4), ">i")[0]; s = read(k).decode("ascii"); read(-k % 4)` -/
def decStr : Dec Bytes :=
  .read 4 fun l =>
    if l.length ≠ 4 then .fail .value        -- numpy.frombuffer on a short buffer (lenient readers only)
    else if 2147483648 ≤ be32 l then .fail .negLen
    else .read (be32 l) fun s =>
      if isAscii s then .read (pad4 (be32 l)) fun _ => .ret s else .fail .value

/-- `convert_stream_to_list`, scalar branches; `numpy.frombuffer(read(w), dtype)[0]` raises when it was
    given fewer than `w` bytes (possible with lenient readers only) -/
def decCol : Col → Dec Bytes
  | .fixed w => .read w fun b => if b.length = w then .ret b else .fail .value
  | .str => decStr

/-- `unpack_children` over the columns of a record -/
def decCols : List Col → Dec Row
  | [] => .ret []
  | c :: cs => (decCol c).bind fun v => (decCols cs).bind fun vs => .ret (v :: vs)

/-- numpy structured dtype: split one record buffer into its fields -/
def splitWidths : List Nat → Bytes → Row
  | [], _ => []
  | w :: ws, b => b.take w :: splitWidths ws (b.drop w)

/-- one record: the `simple` path reads `dtype.itemsize` bytes at once, the other path goes column by column -/
def decRecord (cols : List Col) : Dec Row :=
  if cols.all Col.isFixed then
    .read (cols.map Col.width).sum fun b =>
      if b.length = (cols.map Col.width).sum then .ret (splitWidths (cols.map Col.width) b) else .fail .value
  else decCols cols

/-- `marker = read(4); while marker == START_OF_SEQUENCE: rec…; marker = read(4)`.
    Any other marker ends the loop (the end marker is not checked). -/
def seqLoop (cols : List Col) : Nat → Dec (List Row)
  | 0 => .fail .fuel
  | f + 1 => .read 4 fun m =>
    if m = Pydap.Gen.START_OF_SEQUENCE then
      (decRecord cols).bind fun r => (seqLoop cols f).bind fun rs => .ret (r :: rs)
    else .ret []

/-- `list(unpack_sequence(stream, template))` on a `BytesReader(data)`; every turn of the loop reads a
    4-byte marker, so `length + 1` turns are never exhausted -/
def unpackSeqBytes (cols : List Col) (data : Bytes) : Except Err (List Row × Bytes) :=
  (seqLoop cols (data.length + 1)).runBR data

/-- the same on a `StreamReader` -/
def unpackSeqStream (cols : List Col) (r : SR) : Except Err (List Row × SR) :=
  (seqLoop cols (r.abs.length + 1)).runSR r

/-- the same on the pre-repair reader / a file object -/
def unpackSeqLenient (cols : List Col) (data : Bytes) : Except Err (List Row × Bytes) :=
  (seqLoop cols (data.length + 1)).runLenient data

/-- `list(SequenceProxy.__iter__())` on a response delivered as `cs` -/
def clientSeq (cols : List Col) (cs : List Bytes) : Except Err (List Row) :=
  match clientStream cs with
  | .error e => .error e
  | .ok r => match unpackSeqStream cols r with
    | .error e => .error e
    | .ok x => .ok x.1

/-! ### the wire form of a flat sequence (what `responses/dods.py` emits), used to state the theorems -/

def encStr (s : Bytes) : Bytes := be32enc s.length ++ s ++ List.replicate (pad4 s.length) 0

def encVal : Col → Bytes → Bytes
  | .fixed _, v => v
  | .str, v => encStr v

def encRow : List Col → Row → Bytes
  | c :: cs, v :: vs => encVal c v ++ encRow cs vs
  | _, _ => []

def encSeq (cols : List Col) : List Row → Bytes
  | [] => Pydap.Gen.END_OF_SEQUENCE
  | r :: rs => Pydap.Gen.START_OF_SEQUENCE ++ encRow cols r ++ encSeq cols rs

def ValOk : Col → Bytes → Prop
  | .fixed w, v => v.length = w
  | .str, v => isAscii v = true ∧ v.length < 2147483648

def RowOk : List Col → Row → Prop
  | [], [] => True
  | c :: cs, v :: vs => ValOk c v ∧ RowOk cs vs
  | _, _ => False

/-! ## DAP4: `decode_chunktype`, `stream2bytearray`, `safe_dmr_and_data` -/

/-- `decode_chunktype` on a little-endian host (`"{0:03b}".format(t)[::-1]`): character `i` of the
    reversed string is bit `i` of `t`.  (On a big-endian host the string is not reversed; that host is
    outside this model.) -/
def chunkLast (t : Nat) : Bool := t % 2 = 1

/-- the loop of `stream2bytearray` (after the repair) on `data[offset:]`, `acc` = chunks collected so far.
    The Python first collects `(offset, size)` pairs and then slices; nothing else happens in between. -/
def dechunkLoop : Nat → Bytes → Bytes → Except Err Bytes
  | 0, _, _ => .error .fuel
  | f + 1, data, acc =>
    if data.length = 0 then .error .eof            -- `while … else`: no chunk was flagged last
    else if data.length < 4 then .error .eof       -- short header
    else
      let h := be32 (data.take 4)
      let size := h % 16777216
      let ty := h / 16777216 % 256
      if data.length < 4 + size then .error .eof   -- short chunk
      else if chunkLast ty then .ok (acc ++ (data.drop 4).take size)
      else dechunkLoop f (data.drop (4 + size)) (acc ++ (data.drop 4).take size)

/-- `stream2bytearray(data)` -/
def stream2bytearray (data : Bytes) : Except Err Bytes := dechunkLoop (data.length + 1) data []

/-- the same loop as a decoder that only reads (used to inherit the generic theorems) -/
def dechunkDec : Nat → Bytes → Dec Bytes
  | 0, _ => .fail .fuel
  | f + 1, acc => .read 4 fun hd =>
    .read (be32 hd % 16777216) fun c =>
      if chunkLast (be32 hd / 16777216 % 256) then .ret (acc ++ c) else dechunkDec f (acc ++ c)

/-- `UNPACKDAP4DATA.safe_dmr_and_data` + `stream2bytearray`: (DMR bytes, de-chunked buffer) -/
def unpackFrame (body : Bytes) : Except Err (Bytes × Bytes) :=
  match brRead 4 body with
  | .error e => .error e
  | .ok h => match brRead (be32 h.1 % 16777216) h.2 with
    | .error e => .error e
    | .ok d => match stream2bytearray d.2 with
      | .error e => .error e
      | .ok buf => .ok (d.1, buf)

/-- wire form: one chunk -/
def encChunk (flags : Nat) (c : Bytes) : Bytes := be32enc (flags * 16777216 + c.length) ++ c

/-- wire form of the data chunks: `fl` carries the byte-order bit (bit 2) only; the last flag (bit 0) is
    set on the final chunk -/
def encChunks (fl : Nat) : List Bytes → Bytes
  | [] => []
  | [c] => encChunk (fl + 1) c
  | c :: c' :: cs => encChunk fl c ++ encChunks fl (c' :: cs)

def encFrame (fl : Nat) (dmr : Bytes) (chunks : List Bytes) : Bytes :=
  encChunk fl dmr ++ encChunks fl chunks

end Pydap.Stream
