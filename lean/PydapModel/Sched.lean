/-
  C13 — a generic shared-heap machine.

  Threads are lists of atomic steps.  A step declares the locations it reads and the locations it
  writes; its action receives *only* the values found at its read set and returns values for its
  write set (plus emitted outputs), or raises.  So "depends only on its reads, changes only its
  writes" holds by construction and the declared sets are not mere labels.

  A raising step terminates its thread (the Python exception unwinds the request).
  A scheduler is any list of thread ids; scheduling a finished thread is a no-op.
-/
namespace Pydap.Sched

abbrev Heap (L V : Type) := L → V

structure Step (L V O E : Type) where
  reads  : List L
  writes : List L
  act    : List V → Except E (List V × List O)

/-- what a thread has emitted: a value or the exception that ended it -/
inductive Emit (O E : Type) where
  | val (o : O)
  | err (e : E)
deriving Repr, DecidableEq

variable {L V O E : Type} [DecidableEq L]

def Heap.set (h : Heap L V) (l : L) (v : V) : Heap L V := fun x => if x = l then v else h x

/-- store `vs` at `ls` position by position (a step returning too few values writes a prefix) -/
def writeAll (h : Heap L V) : List L → List V → Heap L V
  | l :: ls, v :: vs => writeAll (h.set l v) ls vs
  | _, _ => h

/-- thread-local control state: remaining steps and outputs so far -/
structure TState (L V O E : Type) where
  rest : List (Step L V O E)
  outs : List (Emit O E)

/-- one atomic step of one thread on the shared heap -/
def stepThread (h : Heap L V) (s : TState L V O E) : Heap L V × TState L V O E :=
  match s.rest with
  | [] => (h, s)
  | st :: rest =>
    match st.act (st.reads.map h) with
    | .error e => (h, ⟨[], s.outs ++ [Emit.err e]⟩)
    | .ok r => (writeAll h st.writes r.1, ⟨rest, s.outs ++ r.2.map Emit.val⟩)

structure Config (L V O E : Type) where
  heap : Heap L V
  th   : Nat → TState L V O E

def init (h0 : Heap L V) (P : Nat → List (Step L V O E)) : Config L V O E :=
  ⟨h0, fun t => ⟨P t, []⟩⟩

/-- the scheduler picks thread `t` -/
def sched (c : Config L V O E) (t : Nat) : Config L V O E :=
  let r := stepThread c.heap (c.th t)
  ⟨r.1, fun u => if u = t then r.2 else c.th u⟩

/-- run a whole schedule (any list of thread ids) -/
def run (c : Config L V O E) : List Nat → Config L V O E
  | [] => c
  | t :: σ => run (sched c t) σ

/-- a thread running alone for `k` steps -/
def soloN (h : Heap L V) (s : TState L V O E) : Nat → Heap L V × TState L V O E
  | 0 => (h, s)
  | k + 1 => soloN (stepThread h s).1 (stepThread h s).2 k

/-- a thread running alone to completion from heap `h` -/
def solo (h : Heap L V) (prog : List (Step L V O E)) : Heap L V × TState L V O E :=
  soloN h ⟨prog, []⟩ prog.length

/-- no step of any thread ever writes `l` -/
def NeverWritten (P : Nat → List (Step L V O E)) (l : L) : Prop :=
  ∀ t s, s ∈ P t → l ∉ s.writes

/-- the ownership discipline: writes go to locations owned by the writing thread; reads come from
    owned locations or from locations nobody writes -/
structure Disciplined (owner : L → Option Nat) (P : Nat → List (Step L V O E)) : Prop where
  writes_owned : ∀ t s, s ∈ P t → ∀ l, l ∈ s.writes → owner l = some t
  reads_ok : ∀ t s, s ∈ P t → ∀ l, l ∈ s.reads → owner l = some t ∨ NeverWritten P l

end Pydap.Sched
