/-
  Model of the request path of a dataset handler: `handlers/lib.py` `BaseHandler.__call__`,
  `BaseHandler.parse`, `apply_selection`, `apply_projection`, `lib.py` `fix_shorthand`,
  `parsers/__init__.py` `parse_ce` / `parse_projection`, `responses/error.py` `ErrorResponse`,
  and the printers `responses/dds.py`, `responses/ascii.py`, `responses/das.py`
  (`responses/dods.py`: declaration, `Data:\n`, the XDR payload through C05's `Xdr.encImpl`; `calculate_size`).

  The model follows the Python: what is done inside the guarded region of `__call__`
  (every step there can raise: `Except`), what is done while the body is iterated (after the
  `try`), which single constrained dataset is handed to the printers, and what kind of object
  `var.data` is after `apply_projection` (an array-like with `.flat`, or a wrapped `BaseType`
  without it).

  Scope of the dataset model: top-level variables that are arrays, structures whose members are
  arrays or structures of arrays (one level of Structure-in-Structure), grids, and flat sequences
  of scalars; values are integers or ASCII strings (`String` scalars, arrays, sequence columns).
  Behaviour inside the guarded region that the model does not resolve (comparisons of unlike
  types, paths through base variables, record ranges that are not `0 ≤ a ≤ b`, …) is the explicit
  error class `Exc.unspecified`; it is inside the `try`, so it never decides containment.
  Hyperslabs on arrays and grids are fully resolved: `check_hyperslab` rejects what lies outside
  the array with `ConstraintExpressionError`, everything else is numpy's selection (`sel`).
-/
import PydapModel.Slice
import PydapModel.XdrSpec
import PydapModel.Xdr
namespace Pydap.Handler
open Pydap

abbrev Str := List Char

open Lean in
/-- `cs!"abc"` is the character list `['a', 'b', 'c']`, built at elaboration time (no `String`
    function is left in the term, so definitions reduce under `decide`) -/
macro:max "cs!" s:str : term => do
  let elems := s.getString.toList.map fun c => (Syntax.mkCharLit c : TSyntax `term)
  `([$(elems.toArray),*])

/-- exception classes that matter (inside the guarded region only the fact of raising matters) -/
inductive Exc where
  | valueError | ceError | keyError | attributeError | typeError | syntaxError
  | unspecified
deriving DecidableEq, Repr, Inhabited

def ofHErr : HErr → Exc
  | .invalidHyperslab => .ceError
  | .valueError => .valueError

/-! ### text helpers -/

/-- `path.rsplit(".", 1)` unpacked into two names: `none` when there is no dot (ValueError) -/
def rsplitDot (p : Str) : Option (Str × Str) :=
  let r := p.reverse
  match r.dropWhile (· ≠ '.') with
  | [] => none
  | _ :: pre => some (pre.reverse, (r.takeWhile (· ≠ '.')).reverse)

def hexVal (c : Char) : Option Nat :=
  if '0' ≤ c ∧ c ≤ '9' then some (c.toNat - '0'.toNat)
  else if 'a' ≤ c ∧ c ≤ 'f' then some (c.toNat - 'a'.toNat + 10)
  else if 'A' ≤ c ∧ c ≤ 'F' then some (c.toNat - 'A'.toNat + 10)
  else none

/-- `urllib.parse.unquote` on ASCII: `%XY` with two hex digits and value < 128 is replaced,
    everything else is left alone (bytes ≥ 128 are outside the model). -/
def pctDecode : Str → Option Char
  | a :: b :: _ =>
    match hexVal a, hexVal b with
    | some x, some y => if x * 16 + y < 128 then some (Char.ofNat (x * 16 + y)) else none
    | _, _ => none
  | _ => none

/-- `skip` = number of characters still to be dropped after a decoded escape -/
def unqAux : Nat → Str → Str
  | _, [] => []
  | k + 1, _ :: cs => unqAux k cs
  | 0, c :: cs =>
    if c = '%' then
      match pctDecode cs with
      | some ch => ch :: unqAux 2 cs
      | none => c :: unqAux 0 cs
    else c :: unqAux 0 cs

def unquote (s : Str) : Str := unqAux 0 s

/-- the parenthesis-aware tokeniser shared by `parse_projection` and `eval_function`:
    split at `key` where the running count of `(` minus `)` is exactly 0 -/
def tokTop (key : Char) : Str → Int → Str → List Str
  | [], _, cur => [cur.reverse]
  | c :: cs, n, cur =>
    if c = '(' then tokTop key cs (n + 1) (c :: cur)
    else if c = ')' then tokTop key cs (n - 1) (c :: cur)
    else if c = key ∧ n = 0 then cur.reverse :: tokTop key cs n []
    else tokTop key cs n (c :: cur)

def isRelChar (c : Char) : Bool := c = '<' || c = '>' || c = '='

/-- `re.match(r"(.*?)(\[.*\])?$", part).groups()`: the shortest name such that the rest is empty
    or is `[` … `]` -/
def splitName : Str → Str × Str
  | [] => ([], [])
  | c :: cs =>
    if c = '[' ∧ cs ≠ [] ∧ cs.getLast? = some ']' then ([], c :: cs)
    else ((c :: (splitName cs).1), (splitName cs).2)

inductive ProjItem where
  | call (s : Str)                               -- kept as a string by `parse_projection`
  | path (parts : List (Str × List PSlice))
deriving DecidableEq, Repr, Inhabited

def parsePart (p : Str) : Except Exc (Str × List PSlice) :=
  match parseHyperslab (splitName p).2 with
  | .ok sl => .ok ((splitName p).1, sl)
  | .error e => .error (ofHErr e)

def parseProjToken (t : Str) : Except Exc ProjItem :=
  if t.contains '(' then .ok (.call t)
  else match (splitOnChar '.' t).mapM parsePart with
    | .ok parts => .ok (.path parts)
    | .error e => .error e

def dap4Prefix : Str := ['d', 'a', 'p', '4', '.', 'c', 'e', '=']

/-- `parse_ce(query_string)` (protocol dap2) -/
def parseCE (q : Str) : Except Exc (List ProjItem × List Str) :=
  if q ≠ [] ∧ q.take 8 = dap4Prefix then .error .ceError
  else
    let tokens := (splitOnChar '&' (unquote q)).filter (· ≠ [])
    match tokens with
    | [] => .ok ([], [])
    | t0 :: rest =>
      if t0.any isRelChar then .ok ([], tokens)
      else match (tokTop ',' t0 0 []).mapM parseProjToken with
        | .ok p => .ok (p, rest)
        | .error e => .error e

/-! ### datasets -/

/-- what kind of object `var.data` is: something with `.flat` (ndarray, Arrayterator) or a
    `BaseType` wrapped around it (no `.flat`) -/
inductive DataKind where
  | arr | wrapped
deriving DecidableEq, Repr, Inhabited

/-- a value: an integer (all numeric types; the data is integer-valued) or an ASCII string -/
inductive Val where
  | int (i : Int)
  | str (s : Str)
deriving DecidableEq, Repr, Inhabited

/-- numerals denote integer values -/
instance (n : Nat) : OfNat Val n := ⟨.int (Int.ofNat n)⟩

/-! ### `numpy.lib.Arrayterator`

  `wrap_arrayterator` puts the data of every array behind an `Arrayterator`; a hyperslab is applied by
  `Arrayterator.__getitem__`, which does not index the data: it returns a new `Arrayterator` over the *same* underlying
  array with other `start` / `stop` / `step` lists.  A second hyperslab on the same variable (`?a[1:2:7],a[1:2:7]`) is
  composed with the first one by that method — as numpy implements it, which is numpy's `x[s1][s2]` only when the
  first stride is 1 (`Proofs/Arrayterator.lean`). -/

/-- `start[i]`, `stop[i]`, `step[i]` of an `Arrayterator` (Python ints) -/
structure Win where
  start : Int
  stop : Int
  step : Int
deriving DecidableEq, Repr, Inhabited

/-- `Arrayterator.__init__` on an axis of length `n` -/
def Win.fresh (n : Nat) : Win := ⟨0, n, 1⟩

/-- one axis of `Arrayterator.__getitem__`:
    `out.start[i] = start + (slice_.start or 0)`; `out.step[i] = step * (slice_.step or 1)`;
    `out.stop[i] = min(stop, start + (slice_.stop or stop - start))` — the offsets of the new slice are
    *not* multiplied by the stride already in place -/
def Win.get (w : Win) (s : PSlice) : Win :=
  ⟨w.start + orElse s.start 0, min w.stop (w.start + orElse s.stop (w.stop - w.start)), w.step * orElse s.step 1⟩

/-- one entry of `Arrayterator.shape`: `(stop - start - 1) // step + 1` (floor division) -/
def Win.count (w : Win) : Nat := ((w.stop - w.start - 1).fdiv w.step + 1).toNat

/-- the positions `Arrayterator.__array__` reads on an axis of length `N`: `var[start:stop:step]` (numpy) -/
def Win.pos (N : Nat) (w : Win) : List Nat := sel N ⟨some w.start, some w.stop, some w.step⟩

/-- an `Arrayterator`: the underlying array (shape, row-major values) and one window per axis -/
structure View where
  shape : List Nat
  data : List Val
  win : List Win
deriving DecidableEq, Repr, Inhabited

/-- how the handler's dataset holds the elements of a String array: numpy dtype `U` (the elements are `str`) or
    dtype `S` (the elements are `bytes`: what files and pydap's own parsers deliver).  `lib.encode` and
    `responses/dods.py` `_basetype` dispatch on it. -/
inductive StrRep where
  | str | bytes
deriving DecidableEq, Repr, Inhabited

structure Base where
  name : Str
  ty : Str            -- DAP2 type name as printed
  shape : List Nat
  dims : List Str
  data : List Val     -- row-major
  kind : DataKind := .arr
  /-- `none`: the data as the handler got it (a fresh `Arrayterator` is put around it);
      `some v`: the `Arrayterator` an earlier hyperslab of the same request left in `var.data`
      (`shape` / `data` above are then what it announces / yields) -/
  view : Option View := none
  /-- the Python type of the elements when `ty` is `String` (immaterial for numbers) -/
  srep : StrRep := .str
deriving DecidableEq, Repr, Inhabited

/-- a member of a top-level Structure: an array, or a Structure of arrays -/
inductive Member where
  | base (b : Base)
  | struct (name : Str) (members : List Base)
deriving DecidableEq, Repr, Inhabited

def Member.name : Member → Str
  | .base b => b.name
  | .struct n _ => n

inductive Var where
  | base (b : Base)
  | struct (name : Str) (members : List Member)
  | grid (name : Str) (array : Base) (maps : List Base)
  | seq (name : Str) (cols : List (Str × Str)) (rows : List (List Val))
deriving DecidableEq, Repr, Inhabited

def Var.name : Var → Str
  | .base b => b.name
  | .struct n _ => n
  | .grid n _ _ => n
  | .seq n _ _ => n

structure Dataset where
  name : Str
  vars : List Var
deriving DecidableEq, Repr, Inhabited

def prod : List Nat → Nat
  | [] => 1
  | n :: ns => n * prod ns

/-- a window that lies inside an axis of length `n`, stride ≥ 1 (`start = stop`: the empty axis) -/
def Win.OK (n : Nat) (w : Win) : Prop := 0 ≤ w.start ∧ w.start ≤ w.stop ∧ w.stop ≤ n ∧ 1 ≤ w.step

instance (n : Nat) (w : Win) : Decidable (w.OK n) := by unfold Win.OK; exact inferInstance

/-- an `Arrayterator` whose windows lie inside its array and whose `shape` is the one the variable shows -/
def View.OK (v : View) (shape : List Nat) : Prop :=
  v.data.length = prod v.shape ∧ v.win.length = v.shape.length ∧
  (∀ p ∈ List.zip v.shape v.win, p.2.OK p.1) ∧ shape = v.win.map Win.count

instance (v : View) (sh : List Nat) : Decidable (v.OK sh) := by unfold View.OK; exact inferInstance

def Base.viewOK (b : Base) : Prop :=
  match b.view with
  | none => True
  | some v => v.OK b.shape

instance (b : Base) : Decidable b.viewOK := by
  unfold Base.viewOK; cases b.view <;> exact inferInstance

def Base.WF (b : Base) : Prop := b.data.length = prod b.shape ∧ b.kind = .arr ∧ b.viewOK

instance (b : Base) : Decidable b.WF := by unfold Base.WF; exact inferInstance

def Member.WF : Member → Prop
  | .base b => b.WF
  | .struct _ ms => ∀ m ∈ ms, m.WF

def Var.WF : Var → Prop
  | .base b => b.WF
  | .struct _ ms => ∀ m ∈ ms, m.WF
  | .grid _ a ms => a.WF ∧ ∀ m ∈ ms, m.WF
  | .seq _ cols rows => ∀ r ∈ rows, r.length = cols.length

def Dataset.WF (ds : Dataset) : Prop := ∀ v ∈ ds.vars, v.WF

/-! ### what the responses see

  The printers read `shape` and `data` only; the `Arrayterator` bookkeeping matters to a further hyperslab of the same
  request and to nothing else.  `shown` forgets it. -/

def Base.shown (b : Base) : Base := { b with view := none }

def Member.shown : Member → Member
  | .base b => .base b.shown
  | .struct n bs => .struct n (bs.map Base.shown)

def Var.shown : Var → Var
  | .base b => .base b.shown
  | .struct n ms => .struct n (ms.map Member.shown)
  | .grid n a ms => .grid n a.shown (ms.map Base.shown)
  | .seq n cols rows => .seq n cols rows

def Dataset.shown (ds : Dataset) : Dataset := { ds with vars := ds.vars.map Var.shown }

/-! ### hyperslabs on row-major data -/

/-- `check_hyperslab` on one axis of length `N`: the slice (as parsed: start `a`, stop `b+1`,
    step `k`) starts inside the axis (or at 0 on an axis of length 0: the whole, empty, axis), is not empty or
    inverted and has a stride ≥ 1.  A stop beyond the extent is legal (it is clipped). -/
def validSl (N : Nat) (s : PSlice) : Bool :=
  decide (0 ≤ s.start.getD 0 ∧ (s.start.getD 0 < (N : Int) ∨ (N = 0 ∧ s.start.getD 0 = 0)) ∧
    s.start.getD 0 < s.stop.getD N ∧ 1 ≤ s.step.getD 1)

/-- take the sub-blocks `idx` of a row-major block list, recursively per axis -/
def selND : List Nat → List (List Nat) → List Val → List Val
  | _ :: sh, idx :: rest, d =>
    idx.flatMap fun i => selND sh rest ((d.drop (i * prod sh)).take (prod sh))
  | _, _, d => d

/-- the slice tuple completed with `slice(None)` for the axes it does not mention (`Arrayterator.__getitem__`) -/
def padSl (rank : Nat) (sl : List PSlice) : List PSlice :=
  sl ++ List.replicate (rank - sl.length) PSlice.all

/-- `var.data` of an array as `apply_projection` finds it: the `Arrayterator` an earlier item of the projection left
    there, else a fresh one (`wrap_arrayterator`) around the data -/
def Base.arrayterator (b : Base) : View :=
  match b.view with
  | some v => v
  | none => ⟨b.shape, b.data, b.shape.map Win.fresh⟩

/-- `check_hyperslab(slice_, target.shape)` then `target.data = target[slice_].data`: more
    indices than dimensions or a slice outside its axis raise `ConstraintExpressionError`;
    otherwise `Arrayterator.__getitem__` per axis (missing axes whole, stops clipped): on a variable named for the
    first time that is numpy's selection `sel` (`sliceBase_fresh`); `target.shape` is the `Arrayterator`'s `shape`,
    the values are what it reads from the underlying array -/
def sliceBase (b : Base) (sl : List PSlice) : Except Exc Base :=
  if sl.length ≤ b.shape.length ∧ (List.zipWith validSl b.shape sl).all id then
    let v := b.arrayterator
    let win := List.zipWith Win.get v.win (padSl b.shape.length sl)
    .ok { b with shape := win.map Win.count, data := selND v.shape (List.zipWith Win.pos v.shape win) v.data,
                 kind := .arr, view := some { v with win := win } }
  else .error .ceError

/-! ### `apply_selection` -/

inductive RelOp where | le | ge | ne | match_ | gt | lt | eq
deriving DecidableEq, Repr

/-- `re.split("(<=|>=|!=|=~|>|<|=)", expression, 1)`: leftmost position, alternatives in order -/
def splitRel : Str → Option (Str × RelOp × Str)
  | [] => none
  | c :: cs =>
    match c, cs with
    | '<', '=' :: r => some ([], .le, r)
    | '>', '=' :: r => some ([], .ge, r)
    | '!', '=' :: r => some ([], .ne, r)
    | '=', '~' :: r => some ([], .match_, r)
    | '>', r => some ([], .gt, r)
    | '<', r => some ([], .lt, r)
    | '=', r => some ([], .eq, r)
    | _, _ => (splitRel cs).map fun (a, op, b) => (c :: a, op, b)

/-- three-way comparison of strings by code point (numpy's / Python's order) -/
def strCmp : Str → Str → Ordering
  | [], [] => .eq
  | [], _ :: _ => .lt
  | _ :: _, [] => .gt
  | a :: as, b :: bs => if a.toNat < b.toNat then .lt else if b.toNat < a.toNat then .gt else strCmp as bs

def relOfOrd : RelOp → Ordering → Option Bool
  | .le, o => some (o != .gt)
  | .ge, o => some (o != .lt)
  | .ne, o => some (o != .eq)
  | .gt, o => some (o == .gt)
  | .lt, o => some (o == .lt)
  | .eq, o => some (o == .eq)
  | .match_, _ => none          -- not in `parse_selection`'s operator table: KeyError

def intCmp (a b : Int) : Ordering := if a < b then .lt else if b < a then .gt else .eq

/-- comparison of two values of like type; `none` in the outer option = unlike types (not resolved) -/
def evalRel (op : RelOp) : Val → Val → Option (Option Bool)
  | .int a, .int b => some (relOfOrd op (intCmp a b))
  | .str a, .str b => some (relOfOrd op (strCmp a b))
  | _, _ => none

/-- plain decimal integer literal (the part of `ast.literal_eval` the model resolves); Python
    rejects a leading zero on a non-zero decimal literal (`018` is a SyntaxError, `00` is 0) -/
def decLit (ds : Str) : Option Nat :=
  if ds ≠ [] ∧ ds.all isDigit ∧ (ds.head? ≠ some '0' ∨ ds.all (· = '0')) then parseNatChars ds else none

def intLit (s : Str) : Option Int :=
  match s with
  | '-' :: ds => (decLit ds).map fun n => -(n : Int)
  | ds => (decLit ds).map fun n => (n : Int)

def colIndex (cols : List (Str × Str)) (n : Str) : Option Nat :=
  cols.findIdx? (·.1 = n)

/-- `re.match(seq.id + r"\.[^\.]+(<=|<|>=|>|=|!=)", condition)` -/
def relevant (seqName : Str) (cond : Str) : Bool :=
  let pfx := seqName ++ ['.']
  cond.take pfx.length = pfx &&
    (((cond.drop pfx.length).takeWhile (· ≠ '.')).drop 1).any isRelChar

/-- a double-quoted string literal without quote or backslash inside (the part of
    `ast.literal_eval` on strings the model resolves) -/
def strLit (s : Str) : Option Str :=
  match s with
  | '"' :: rest =>
    match rest.reverse with
    | '"' :: body => if body.all (fun c => c ≠ '"' ∧ c ≠ '\\' ∧ c ≠ '\n') then some body.reverse else none
    | _ => none
  | _ => none

/-- operand of a relevant condition, resolved against the sequence: a column or a literal -/
inductive Operand where | col (i : Nat) | lit (v : Val)

def operand (seqName : Str) (cols : List (Str × Str)) (s : Str) : Option Operand :=
  let pfx := seqName ++ ['.']
  if s.take pfx.length = pfx then (colIndex cols (s.drop pfx.length)).map .col
  else match intLit s with
    | some i => some (.lit (.int i))
    | none => (strLit s).map fun t => .lit (.str t)

def operandVal (row : List Val) : Operand → Option Val
  | .col i => row[i]?
  | .lit v => some v

/-- one relevant condition applied to the rows -/
def filterRows (seqName : Str) (cols : List (Str × Str)) (rows : List (List Val)) (cond : Str) :
    Except Exc (List (List Val)) :=
  match splitRel cond with
  | none => .error .valueError
  | some (l, op, r) =>
    match relOfOrd op .eq with
    | none => .error .keyError
    | some _ =>
      match operand seqName cols l, operand seqName cols r with
      | some (.col i), some b =>
        rows.filterMapM fun row =>
          match operandVal row (.col i), operandVal row b with
          | some x, some y =>
            match evalRel op x y with
            | some (some true) => .ok (some row)
            | some (some false) => .ok none
            | some none => .error .keyError
            | none => .error .unspecified
          | _, _ => .error .unspecified
      | _, _ => .error .unspecified

def applySelVar (sel : List Str) : Var → Except Exc Var
  | .seq n cols rows => do
    let rows' ← (sel.filter (relevant n)).foldlM (filterRows n cols) rows
    pure (.seq n cols rows')
  | v => .ok v

def applySelection (sel : List Str) (ds : Dataset) : Except Exc Dataset := do
  let vs ← ds.vars.mapM (applySelVar sel)
  pure { ds with vars := vs }

/-! ### `fix_shorthand` -/

/-- the parent lists of the members below a variable whose name is `token`, in `walk` order
    (a member, then — for a nested structure — its own members) -/
def memberMatches (vname token : Str) : Member → List (List Str)
  | .base b => if b.name = token then [[vname]] else []
  | .struct n bs =>
    (if n = token then [[vname]] else []) ++ ((bs.filter (·.name = token)).map fun _ => [vname, n])

def belowMatches (token : Str) : Var → List (List Str)
  | .base _ => []
  | .struct n ms => ms.flatMap (memberMatches n token)
  | .grid n a ms => ((a :: ms).filter (·.name = token)).map fun _ => [n]
  | .seq n cols _ => ((cols.map (·.1)).filter (· = token)).map fun _ => [n]

/-- the ids (as parent lists) of everything `walk(dataset)` yields whose name is `token`:
    the dataset itself, then every variable followed by what is below it -/
def shorthandMatches (ds : Dataset) (token : Str) : List (List Str) :=
  (if ds.name = token then [[]] else []) ++
  ds.vars.flatMap fun v =>
    (if v.name = token then [[]] else []) ++ belowMatches token v

def fixShorthand1 (ds : Dataset) : ProjItem → Except Exc ProjItem
  | .call s =>
    -- `len(var) == 1 and var[0][0] not in keys` on a string, then `var.pop(0)`
    if s.length = 1 then .error .attributeError else .ok (.call s)
  | .path [(tok, sl)] =>
    if (ds.vars.map Var.name).contains tok then .ok (.path [(tok, sl)])
    else match shorthandMatches ds tok with
      | [] => .ok (.path [])
      | [parents] => .ok (.path (parents.map (·, []) ++ [(tok, sl)]))
      | _ => .error .ceError
  | p => .ok p

/-! ### `apply_projection` -/

def findVar (vs : List Var) (n : Str) : Option Var := vs.find? (·.name = n)

/-- `target[name] = candidate` on a StructureType: an existing key is deleted, the new one appended -/
def setVar (vs : List Var) (v : Var) : List Var := vs.filter (·.name ≠ v.name) ++ [v]

def setBase (ms : List Base) (b : Base) : List Base := ms.filter (·.name ≠ b.name) ++ [b]

def setMember (ms : List Member) (m : Member) : List Member := ms.filter (·.name ≠ m.name) ++ [m]

def findMember (v : Var) (n : Str) : Option Member :=
  match v with
  | .base _ => none
  | .struct _ ms => ms.find? (·.name = n)
  | .grid _ a ms => ((a :: ms).find? (·.name = n)).map .base
  | .seq _ _ _ => none

/-- `target[name] = candidate` for the last name of a path inside a structure already in the
    output: an array is (re-)set — deleted and appended; a structure is only added when its name
    is not there yet -/
def addMember (ms : List Member) : Member → List Member
  | .base b => setMember ms (.base b)
  | .struct n bs => if (ms.map Member.name).contains n then ms else ms ++ [.struct n bs]

/-- names `DatasetType.__getitem__` does not simply look up: the empty name is the dataset
    itself, a name with `/` is walked as a DAP4 path -/
def oddName (n : Str) : Bool := n = [] || n.contains '/'

/-- first loop of `apply_projection` for one projection path (plain names) -/
def collect1Core (src : Dataset) (out : List Var) : ProjItem → Except Exc (List Var)
  | .call _ => .error .valueError        -- unpacking a character into `(name, slice_)`
  | .path [] => .ok out
  | .path [(n, _)] =>
    match findVar src.vars n with
    | none => .error .keyError
    | some (.base b) => .ok (setVar out (.base b))
    | some v => if (out.map Var.name).contains n then .ok out else .ok (out ++ [v])
  | .path [(n, _), (m, _)] =>
    match findVar src.vars n with
    | none => .error .keyError
    | some (.base _) => .error .unspecified
    | some (.seq _ cols _) =>
      -- shallow copy of the sequence, then the column is added
      match cols.find? (·.1 = m) with
      | none => .error .keyError
      | some c =>
        match findVar out n with
        | none => .ok (out ++ [.seq n [c] []])
        | some (.seq _ cs rows) => .ok (out.map fun v => if v.name = n then .seq n (cs.filter (·.1 ≠ m) ++ [c]) rows else v)
        | some _ => .error .unspecified
    | some v =>
      match findMember v m with
      | none => .error .keyError
      | some mem =>
        match findVar out n with
        | none => .ok (out ++ [.struct n [mem]])       -- grids degenerate into structures
        | some (.struct _ ms) => .ok (out.map fun v => if v.name = n then .struct n (addMember ms mem) else v)
        | some (.grid _ _ _) =>
          -- the whole grid was collected before: the member is already there and is left where it is (since the
          -- repair: setting it again moved a map behind the others / made the first map the grid's array)
          match mem with
          | .base _ => .ok out
          | .struct _ _ => .error .unspecified
        | some _ => .error .unspecified
  | .path [(n, _), (m, _), (k, _)] =>
    -- a member of a structure nested in a structure
    match findVar src.vars n with
    | none => .error .keyError
    | some (.struct _ sms) =>
      match sms.find? (·.name = m) with
      | none => .error .keyError
      | some (.base _) => .error .unspecified
      | some (.struct _ bs) =>
        match bs.find? (·.name = k) with
        | none => .error .keyError
        | some b =>
          match findVar out n with
          | none => .ok (out ++ [.struct n [.struct m [b]]])      -- two shallow copies
          | some (.struct _ ms) =>
            match ms.find? (·.name = m) with
            | none => .ok (out.map fun v => if v.name = n then .struct n (ms ++ [.struct m [b]]) else v)
            | some (.struct _ obs) =>
              .ok (out.map fun v => if v.name = n then
                .struct n (ms.map fun x => if x.name = m then .struct m (setBase obs b) else x) else v)
            | some (.base _) => .error .unspecified
          | some _ => .error .unspecified
    | some _ => .error .unspecified
  | .path _ => .error .unspecified

/-- first loop of `apply_projection` for one projection path; paths of two or more names with an
    empty name or a `/` in a name are not resolved -/
def collect1 (src : Dataset) (out : List Var) (p : ProjItem) : Except Exc (List Var) :=
  match p with
  | .path (a :: b :: rest) =>
    if (a :: b :: rest).any (fun x => oddName x.1) then .error .unspecified else collect1Core src out p
  | _ => collect1Core src out p

/-- "fix sequence data": the rows of the source sequence restricted to the visible columns -/
def fixSeqData (src : Dataset) : Var → Except Exc Var
  | .seq n cols _ =>
    match findVar src.vars n with
    | some (.seq _ scols srows) =>
      match cols.mapM (fun c => colIndex scols c.1) with
      | none => .error .keyError
      | some idx =>
        match srows.mapM (fun r => idx.mapM (fun i => r[i]?)) with
        | none => .error .unspecified
        | some rows => .ok (.seq n cols rows)
    | _ => .error .keyError
  | v => .ok v

/-- `check_hyperslab(slice_, grid.array.shape)` then `GridType.__getitem__`: the array takes the
    whole tuple, the i-th map the i-th slice (maps beyond the tuple stay whole).  A map that is
    shorter than the axis it describes (an inconsistent grid) is outside the model. -/
def sliceGrid (a : Base) (ms : List Base) (sl : List PSlice) : Except Exc (Base × List Base) := do
  let a' ← sliceBase a sl
  let ms' ← (ms.zip sl).mapM fun (m, s) =>
    match sliceBase m [s] with
    | .ok m' => Except.ok m'
    | .error _ => .error Exc.unspecified
  pure (a', ms' ++ ms.drop sl.length)

/-- record ranges the model resolves: `[a:k:b]` with `0 ≤ a ≤ b`, `k ≥ 1` -/
def seqSlOk (s : PSlice) : Bool :=
  match s.start, s.stop, s.step with
  | some a, some b, some k => decide (0 ≤ a ∧ a < b ∧ 1 ≤ k)
  | _, _, _ => false

/-- second loop of `apply_projection` for one projection path -/
def slice1 (out : List Var) : ProjItem → Except Exc (List Var)
  | .call _ => .error .valueError
  | .path [] => .ok out
  | .path [(n, sl)] =>
    if sl = [] then .ok out else
    match findVar out n with
    | none => .error .keyError
    | some (.base b) => do
      let b' ← sliceBase b sl
      pure (out.map fun v => if v.name = n then .base b' else v)
    | some (.seq _ cols rows) =>
      match sl with
      | s :: _ =>
        if seqSlOk s then
          -- `parent[name] = target[slice_[0]]`: re-setting a key moves it to the end
          .ok (setVar out (.seq n cols ((sel rows.length s).filterMap (rows[·]?))))
        else .error .unspecified
      | [] => .ok out
    | some (.grid _ a ms) => do
      let r ← sliceGrid a ms sl
      pure (setVar out (.grid n r.1 r.2))
    | some (.struct _ _) => .error .ceError      -- "Invalid projection!"
  | .path [(n, sl0), (m, sl)] =>
    if sl0 ≠ [] then
      match findVar out n with
      | some (.struct _ _) => .error .ceError
      | some (.grid _ _ _) => .error .unspecified
      | _ => .error .unspecified
    else if sl = [] then .ok out else
    match findVar out n with
    | some (.struct _ ms) =>
      match ms.find? (·.name = m) with
      | none => .error .keyError
      | some (.struct _ _) => .error .ceError      -- "Invalid projection!"
      | some (.base b) => do
        let b' ← sliceBase b sl
        pure (out.map fun v => if v.name = n then .struct n (ms.map fun x => if x.name = m then .base b' else x) else v)
    | _ => .error .unspecified
  | .path [(n, sl0), (m, sl1), (k, sl)] =>
    match findVar out n with
    | some (.struct _ ms) =>
      if sl0 ≠ [] then .error .ceError else
      match ms.find? (·.name = m) with
      | some (.struct _ bs) =>
        if sl1 ≠ [] then .error .ceError else
        if sl = [] then .ok out else
        match bs.find? (·.name = k) with
        | none => .error .keyError
        | some b => do
          let b' ← sliceBase b sl
          pure (out.map fun v => if v.name = n then
            .struct n (ms.map fun x => if x.name = m then .struct m (bs.map fun y => if y.name = k then b' else y) else x) else v)
      | _ => .error .unspecified
    | _ => .error .unspecified
  | .path _ => .error .unspecified

def applyProjection (proj : List ProjItem) (src : Dataset) : Except Exc Dataset := do
  let out ← proj.foldlM (collect1 src) []
  let out ← out.mapM (fixSeqData src)
  let out ← proj.foldlM slice1 out
  pure { src with vars := out }

/-- `BaseHandler.parse(projection, selection)`: copy, `apply_selection`, wrap, `fix_shorthand`
    (or all keys), `apply_projection` -/
def constrain (ds : Dataset) (proj : List ProjItem) (sel : List Str) : Except Exc Dataset := do
  let ds1 ← applySelection sel ds
  let proj' ← if proj = [] then pure (ds1.vars.map fun v => ProjItem.path [(v.name, [])])
              else proj.mapM (fixShorthand1 ds1)
  applyProjection proj' ds1

/-! ### printers -/

def indent (n : Nat) : Str := List.replicate (4 * n) ' '

def natText (n : Nat) : Str := natDigits n

/-- `dds` of a `BaseType`; `scalarInSeq` = the member of a sequence (`var.shape[sequence:]`) -/
def ddsBase (level : Nat) (b : Base) : Str :=
  let shp : Str :=
    if b.dims ≠ [] then
      (List.zip b.dims b.shape).flatMap fun (d, n) => ['['] ++ d ++ cs!" = " ++ natText n ++ [']']
    else match b.shape with
      | [n] => ['['] ++ b.name ++ cs!" = " ++ natText n ++ [']']
      | sh => sh.flatMap fun n => ['['] ++ natText n ++ [']']
  indent level ++ b.ty ++ [' '] ++ b.name ++ shp ++ cs!";\n"

def ddsMember (level : Nat) : Member → Str
  | .base b => ddsBase level b
  | .struct n bs =>
    indent level ++ cs!"Structure {\n" ++ bs.flatMap (ddsBase (level + 1)) ++
    indent level ++ cs!"} " ++ n ++ cs!";\n"

def ddsVar (level : Nat) : Var → Str
  | .base b => ddsBase level b
  | .struct n ms =>
    indent level ++ cs!"Structure {\n" ++ ms.flatMap (ddsMember (level + 1)) ++
    indent level ++ cs!"} " ++ n ++ cs!";\n"
  | .grid n a ms =>
    indent level ++ cs!"Grid {\n" ++ indent (level + 1) ++ cs!"Array:\n" ++ ddsBase (level + 2) a ++
    indent (level + 1) ++ cs!"Maps:\n" ++ ms.flatMap (ddsBase (level + 2)) ++
    indent level ++ cs!"} " ++ n ++ cs!";\n"
  | .seq n cols _ =>
    indent level ++ cs!"Sequence {\n" ++
    cols.flatMap (fun c => indent (level + 1) ++ c.2 ++ [' '] ++ c.1 ++ cs!";\n") ++
    indent level ++ cs!"} " ++ n ++ cs!";\n"

def ddsText (ds : Dataset) : Str :=
  cs!"Dataset {\n" ++ ds.vars.flatMap (ddsVar 1) ++ cs!"} " ++ ds.name ++ cs!";\n"

/-- `np.ndindex(shape)`: all index tuples in row-major order -/
def ndindex : List Nat → List (List Nat)
  | [] => [[]]
  | n :: sh => (List.range n).flatMap fun i => (ndindex sh).map (i :: ·)

def idxText (ix : List Nat) : Str := ix.flatMap fun i => ['['] ++ natText i ++ [']']

/-- `encode(value)` of a value that is a number or a `str` (sequence cells arrive decoded by `iterdata`): numbers
    through the formatter, strings between double quotes -/
def fmtVal (fmt : Int → Str) : Val → Str
  | .int i => fmt i
  | .str s => ['"'] ++ s ++ ['"']

def hexDigit (n : Nat) : Char := if n < 10 then Char.ofNat (48 + n) else Char.ofNat (87 + n)

/-- `bytes.decode("ascii", "backslashreplace")`: ASCII bytes are themselves, any other byte is `\xhh` -/
def decodeAscii (s : Str) : Str :=
  s.flatMap fun c => if c.toNat < 128 then [c] else ['\\', 'x', hexDigit (c.toNat / 16 % 16), hexDigit (c.toNat % 16)]

/-- `lib.encode(obj)` on an element (or the 0-d data) of an array, by the representation of the array:
    `bytes` (dtype `S`; a 0-d array is first turned into its item) is decoded and then treated as `str`;
    `str` (dtype `U`) is put between double quotes; a number goes through `'%.6g'` -/
def encode (fmt : Int → Str) (rep : StrRep) : Val → Str
  | .int i => fmt i
  | .str s =>
    match rep with
    | .str => ['"'] ++ s ++ ['"']
    | .bytes => ['"'] ++ decodeAscii s ++ ['"']

/-- `encode` before the repair 3c6bfd0: a `bytes` element is neither `str` nor an array, `'%.6g' % obj` raises, and the
    fallback formats the object — the text of its Python literal (spelled out for bytes without quote, backslash or
    control characters) -/
def encodePinned (fmt : Int → Str) (rep : StrRep) : Val → Str
  | .int i => fmt i
  | .str s =>
    match rep with
    | .str => ['"'] ++ s ++ ['"']
    | .bytes => ['"'] ++ (['b', '\''] ++ s ++ ['\'']) ++ ['"']

/-- the lines `"{indexes} {value}\n"` for `zip(np.ndindex(shape), data.flat)` -/
def asciiLines (fmt : Int → Str) (rep : StrRep) (shape : List Nat) (data : List Val) : Str :=
  (List.zip (ndindex shape) data).flatMap fun (ix, v) => idxText ix ++ [' '] ++ encode fmt rep v ++ ['\n']

/-- `ascii` of a `BaseType` (printname = True), with the id already resolved.  This is where
    `var.data.flat` is used: a wrapped `BaseType` has no `.flat`. -/
def asciiBase (fmt : Int → Str) (id : Str) (b : Base) : Except Exc Str :=
  match b.shape with
  | [] =>
    match b.data with
    | [v] => .ok (id ++ ['\n'] ++ encode fmt b.srep v)
    | _ => .error .unspecified
  | sh =>
    match b.kind with
    | .wrapped => .error .attributeError
    | .arr => .ok (id ++ ['\n'] ++ asciiLines fmt b.srep sh b.data)

def joinWith (sep : Str) : List Str → Str
  | [] => []
  | [x] => x
  | x :: xs => x ++ sep ++ joinWith sep xs

def asciiMembers (fmt : Int → Str) (parent : Str) (ms : List Base) : Except Exc Str := do
  let parts ← ms.mapM fun m => asciiBase fmt (parent ++ ['.'] ++ m.name) m
  pure (parts.flatMap (· ++ ['\n']))

def asciiMember (fmt : Int → Str) (parent : Str) : Member → Except Exc Str
  | .base b => asciiBase fmt (parent ++ ['.'] ++ b.name) b
  | .struct n bs => asciiMembers fmt (parent ++ ['.'] ++ n) bs

def asciiVar (fmt : Int → Str) : Var → Except Exc Str
  | .base b => asciiBase fmt b.name b
  | .struct n ms => do
    let parts ← ms.mapM (asciiMember fmt n)
    pure (parts.flatMap (· ++ ['\n']))
  | .grid n a ms => asciiMembers fmt n (a :: ms)
  | .seq n cols rows =>
    .ok (joinWith (cs!", ") (cols.map fun c => n ++ ['.'] ++ c.1) ++ ['\n'] ++
         rows.flatMap fun r => joinWith (cs!", ") (r.map (fmtVal fmt)) ++ ['\n'])

def dashes : Str := List.replicate 45 '-' ++ ['\n']

/-- data section of the ASCII response (produced while the body is iterated) -/
def asciiData (fmt : Int → Str) (ds : Dataset) : Except Exc Str := do
  let parts ← ds.vars.mapM (asciiVar fmt)
  pure (parts.flatMap (· ++ ['\n']))

def memberValues : Member → List Val
  | .base b => b.data
  | .struct _ bs => bs.flatMap (·.data)

/-- the values of the data response in wire order (what `payload` below carries, variable by variable) -/
def wireValues : Var → List Val
  | .base b => b.data
  | .struct _ ms => ms.flatMap memberValues
  | .grid _ a ms => a.data ++ ms.flatMap (·.data)
  | .seq _ _ rows => rows.flatMap id

def dodsValues (ds : Dataset) : List Val := ds.vars.flatMap wireValues

/-! ### the data response on the wire

  The XDR payload of the data response is not re-modelled here: the constrained dataset is handed,
  as a declaration (`Xdr.Tmpl`) and its data (`Xdr.Data`), to C05's model of `responses/dods.py`
  (`Xdr.encImpl`: `_basetype` with its Byte / String / regular branches, `_structuretype`,
  `_sequencetype` flat and general path; `Xdr.calcSize`: `calculate_size`).  What is modelled here
  is *which* declaration and data the handler hands over: the same constrained dataset the DDS and
  the ASCII printers get, variable by variable in the same order. -/

/-- the DAP2 type a printed type name stands for.  pydap derives the name from the numpy dtype
    (`NUMPY_TO_DAP2_TYPEMAP`), which yields only these eight; any other text is outside the domain
    (read as Int32) -/
def tyOf (s : Str) : Xdr.Ty :=
  if s = cs!"Byte" then .byte else if s = cs!"Int16" then .int16 else if s = cs!"UInt16" then .uint16
  else if s = cs!"Int32" then .int32 else if s = cs!"UInt32" then .uint32 else if s = cs!"Float32" then .float32
  else if s = cs!"Float64" then .float64 else if s = cs!"String" then .string else .int32

/-- number of binary digits of `n` (0 for 0); `fuel` ≥ that number -/
def bitLen : Nat → Nat → Nat
  | 0, _ => 0
  | f + 1, n => if n = 0 then 0 else 1 + bitLen f (n / 2)

/-- IEEE-754 bit pattern of the integer `v` in a format with `mant` mantissa bits and exponent bias
    `bias` (sign bit at position `top`); exact for `|v| < 2^(mant+1)`, which covers the integer-valued
    data of the model (beyond that the low bits are cut, not rounded) -/
def ieeeBits (mant bias top : Nat) (v : Int) : Nat :=
  if v = 0 then 0 else
  let m := v.natAbs
  let e := bitLen 64 m - 1
  (if v < 0 then 2 ^ top else 0) + (bias + e) * 2 ^ mant +
    ((if e ≤ mant then m * 2 ^ (mant - e) else m / 2 ^ (e - mant)) - 2 ^ mant)

def f32bits (v : Int) : Nat := ieeeBits 23 127 31 v
def f64bits (v : Int) : Nat := ieeeBits 52 1023 63 v

def strBytes (s : Str) : Xdr.Bytes := s.map fun c => UInt8.ofNat c.toNat
def bytesStr (b : Xdr.Bytes) : Str := b.map fun x => Char.ofNat x.toNat

/-- a value of the model as a value of declared type `t` in C05's vocabulary: integers as they are
    (floats as the bit pattern of that integer), strings as their bytes.  A numpy array is
    homogeneous: a string inside numeric data or a number inside string data cannot be built in
    Python; the model's value lists could hold one, it is read as 0 / the empty string. -/
def xVal (t : Xdr.Ty) : Val → Xdr.Val
  | .int i =>
    match t with
    | .string => .str []
    | .float32 => .num (f32bits i)
    | .float64 => .num (f64bits i)
    | _ => .num i
  | .str s =>
    match t with
    | .string => .str (strBytes s)
    | _ => .num 0

/-- the bytes `_basetype` yields for one word of a String array, by the Python type of the word:
    `word.encode("ascii")` for a `str`, `bytes(word)` for a `bytes` (`numpy.bytes_`) -/
def wordBytes (rep : StrRep) (s : Str) : Xdr.Bytes :=
  match rep with
  | .str => strBytes s
  | .bytes => strBytes s

/-- `_basetype` before the repair 4256c07: a `numpy.bytes_` has no `.encode`, `word.tobytes()` was used — one NUL
    for the empty string -/
def wordBytesPinned (rep : StrRep) (s : Str) : Xdr.Bytes :=
  match rep with
  | .str => strBytes s
  | .bytes => if s = [] then [0] else strBytes s

/-- `xVal` with the word dispatch of `_basetype` -/
def xValR (rep : StrRep) (t : Xdr.Ty) (v : Val) : Xdr.Val :=
  match v, t with
  | .str s, .string => .str (wordBytes rep s)
  | v, t => xVal t v

def tmplOfBase (b : Base) : Xdr.Tmpl := .base (tyOf b.ty) b.shape

/-- `var.data` as `_basetype` sees it: 0-d data (`shape = []`, one value) or an array -/
def dataOfBase (b : Base) : Xdr.Data :=
  match b.shape with
  | [] =>
    match b.data with
    | [v] => .scalar (xValR b.srep (tyOf b.ty) v)
    | _ => .tuple []                          -- not a 0-d array: no such object (`Base.WF` excludes it)
  | _ => .array (b.data.map (xValR b.srep (tyOf b.ty)))

def tmplOfMember : Member → Xdr.Tmpl
  | .base b => tmplOfBase b
  | .struct _ bs => .struct (bs.map tmplOfBase)

def dataOfMember : Member → Xdr.Data
  | .base b => dataOfBase b
  | .struct _ bs => .tuple (bs.map dataOfBase)

def tmplOfVar : Var → Xdr.Tmpl
  | .base b => tmplOfBase b
  | .struct _ ms => .struct (ms.map tmplOfMember)
  | .grid _ a ms => .struct (tmplOfBase a :: ms.map tmplOfBase)
  | .seq _ cols _ => .seq (cols.map fun c => .base (tyOf c.2) [])

def dataOfRow (cols : List (Str × Str)) (r : List Val) : Xdr.Data :=
  .tuple (List.zipWith (fun c v => Xdr.Data.scalar (xVal (tyOf c.2) v)) cols r)

def dataOfVar : Var → Xdr.Data
  | .base b => dataOfBase b
  | .struct _ ms => .tuple (ms.map dataOfMember)
  | .grid _ a ms => .tuple (dataOfBase a :: ms.map dataOfBase)
  | .seq _ cols rows => .rows (rows.map (dataOfRow cols))

/-- `dods(dataset)`: the dataset is a Structure -/
def tmplOf (ds : Dataset) : Xdr.Tmpl := .struct (ds.vars.map tmplOfVar)
def dataOf (ds : Dataset) : Xdr.Data := .tuple (ds.vars.map dataOfVar)

/-- the XDR part of the data response -/
def payload (ds : Dataset) : Xdr.Bytes := Xdr.encImpl (tmplOf ds) (dataOf ds)

/-- DAS of a dataset whose variables carry no attributes (attribute printing is C08's subject) -/
def dasVar (level : Nat) : Var → Str
  | .base b => indent level ++ b.name ++ cs!" {\n" ++ indent level ++ cs!"}\n"
  | .grid n _ _ => indent level ++ n ++ cs!" {\n" ++ indent level ++ cs!"}\n"
  | .struct n ms =>
    indent level ++ n ++ cs!" {\n" ++
    ms.flatMap (fun m =>
      match m with
      | .base b => indent (level + 1) ++ b.name ++ cs!" {\n" ++ indent (level + 1) ++ cs!"}\n"
      | .struct k bs =>
        indent (level + 1) ++ k ++ cs!" {\n" ++
        bs.flatMap (fun b => indent (level + 2) ++ b.name ++ cs!" {\n" ++ indent (level + 2) ++ cs!"}\n") ++
        indent (level + 1) ++ cs!"}\n") ++
    indent level ++ cs!"}\n"
  | .seq n cols _ =>
    indent level ++ n ++ cs!" {\n" ++
    cols.flatMap (fun c => indent (level + 1) ++ c.1 ++ cs!" {\n" ++ indent (level + 1) ++ cs!"}\n") ++
    indent level ++ cs!"}\n"

def dasText (ds : Dataset) : Str :=
  cs!"Attributes {\n" ++ ds.vars.flatMap (dasVar 1) ++ cs!"}\n"

/-! ### responses and `BaseHandler.__call__` -/

inductive Kind where
  | dds | das | dods | ascii
  | other        -- a registered response the model does not print (dmr, html, ver)
deriving DecidableEq, Repr, Inhabited

/-- `self.responses[response]` -/
def lookupKind (ext : Str) : Option Kind :=
  if ext = cs!"dds" then some .dds
  else if ext = cs!"das" then some .das
  else if ext = cs!"dods" then some .dods
  else if ext = cs!"ascii" ∨ ext = cs!"asc" then some .ascii
  else if ext = cs!"dmr" ∨ ext = cs!"html" ∨ ext = cs!"ver" then some .other
  else none

/-- `Content-description` and `Content-type` set by each response class -/
def contentDescription : Kind → Str
  | .dds => cs!"dods_dds" | .das => cs!"dods_das" | .dods => cs!"dods_data"
  | .ascii => cs!"dods_ascii" | .other => []

def contentType : Kind → Str
  | .dods => cs!"application/octet-stream"
  | .other => []
  | _ => cs!"text/plain; charset=ascii"

/-- the body a response object yields when iterated: a prefix, and possibly an exception -/
inductive Body where
  | complete (text : Str)
  | raises (e : Exc)          -- raised while the body is iterated, i.e. after the `try`
deriving DecidableEq, Repr, Inhabited

inductive Outcome where
  | ok (kind : Kind) (body : Body)       -- status 200 with the headers of `kind`
  | errdoc (code : Int)                  -- `ErrorResponse`
  | answered                             -- inside the guarded region, not resolved: 200 or error document
  | escaped (e : Exc)                    -- an exception leaves `__call__`
deriving DecidableEq, Repr, Inhabited

def bodyOf (fmt : Int → Str) (k : Kind) (cds : Dataset) : Body :=
  match k with
  | .dds => .complete (ddsText cds)
  | .das => .complete (dasText cds)
  | .dods => .complete (ddsText cds ++ cs!"Data:\n" ++ bytesStr (payload cds))
  | .ascii =>
    match asciiData fmt cds with
    | .ok t => .complete (ddsText cds ++ dashes ++ t)
    | .error e => .raises e
  | .other => .complete []

/-- the `Content-length` header `DODSResponse.__init__` sets: `calculate_size(dataset)`, `none` (no
    header) when the dataset holds a sequence or strings -/
def contentLength (cds : Dataset) : Option Nat := Xdr.calcSize (strBytes (ddsText cds)) (tmplOf cds)

/-- `parse_ce` followed by `BaseHandler.parse`: the one constrained dataset of a request -/
def constrained (ds : Dataset) (query : Str) : Except Exc Dataset :=
  match parseCE query with
  | .error e => .error e
  | .ok ce => constrain ds ce.1 ce.2

/-- the guarded region of `__call__` (after the `fix:` that moved the path split and `parse_ce`
    into it): split the path, drop the query for `das`, parse the CE, build the constrained
    dataset, look the response up. -/
def guarded (ds : Dataset) (path query : Str) : Except Exc (Kind × Dataset) := do
  let pr ← match rsplitDot path with
    | none => Except.error Exc.valueError
    | some pr => pure pr
  let q := if pr.2 = cs!"das" then [] else query
  let ce ← parseCE q
  let cds ← constrain ds ce.1 ce.2
  match lookupKind pr.2 with
  | none => .error .keyError
  | some .other => .error .unspecified
  | some k => pure (k, cds)

/-- `ErrorResponse`: `code = getattr(info[0], "code", -1)`; no pydap exception defines `code` -/
def errorCode (_ : Exc) : Int := -1

def handle (fmt : Int → Str) (ds : Dataset) (path query : Str) : Outcome :=
  match guarded ds path query with
  | .ok (k, cds) => .ok k (bodyOf fmt k cds)
  | .error .unspecified => .answered
  | .error e => .errdoc (errorCode e)

/-- the structure of `__call__` on the pinned tree: the path split and `parse_ce` ran *before*
    the `try`.  Kept to state what the repair changed. -/
def handlePinned (fmt : Int → Str) (ds : Dataset) (path query : Str) : Outcome :=
  match rsplitDot path with
  | none => .escaped .valueError
  | some pr =>
    let q := if pr.2 = cs!"das" then [] else query
    match parseCE q with
    | .error e => .escaped e
    | .ok _ => handle fmt ds path query

/-- the error document: `Error {\n    code = …;\n    message = …;\n}` -/
def errorBody (code : Int) (message : Str) : Str :=
  cs!"Error {\n    code = " ++ intText code ++ cs!";\n    message = " ++ message ++ cs!";\n}"

structure Headers where
  status : Nat
  contentType : Str
  description : Str
deriving DecidableEq, Repr

def errorHeaders : Headers := ⟨500, cs!"text/plain", cs!"OPeNDAP_error"⟩

def headersOf : Outcome → Option Headers
  | .ok k _ => some ⟨200, contentType k, contentDescription k⟩
  | .errdoc _ => some errorHeaders
  | .answered => none
  | .escaped _ => none

/-- the four response bodies for one query string (C06's observable) -/
def respond (fmt : Int → Str) (ds : Dataset) (ext query : Str) : Outcome :=
  handle fmt ds (cs!"/d." ++ ext) query

/-! ### a server process holding several datasets

  Handlers living in one process (a `DapServer` directory, several mounted applications): each
  holds its dataset; a request names its handler.  Serving hands the process back: what pydap keeps
  between requests is the handlers and their datasets, and `__call__` works on
  `copy.copy(self.dataset)`, on per-request responses and on no module-level table.  That the
  process is unchanged is what the model *claims* about the code; the claim is tied by running
  whole histories against handlers that live in one Python process. -/

structure Proc where
  handlers : List (Str × Dataset)
deriving DecidableEq, Repr

structure Req where
  target : Str
  path : Str
  query : Str
deriving DecidableEq, Repr

/-- one request: the answer (`none`: no handler of that name) and the process afterwards -/
def serve (fmt : Int → Str) (p : Proc) (r : Req) : Option Outcome × Proc :=
  match p.handlers.find? (·.1 = r.target) with
  | none => (none, p)
  | some h => (some (handle fmt h.2 r.path r.query), p)

/-- a history of requests served one after the other by the same process -/
def run (fmt : Int → Str) : Proc → List Req → List (Option Outcome)
  | _, [] => []
  | p, r :: rs => (serve fmt p r).1 :: run fmt (serve fmt p r).2 rs

end Pydap.Handler
