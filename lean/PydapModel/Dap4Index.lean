/-
  Model of `BaseProxyDap4.__getitem__` (handlers/dap.py): the constraint expression sent for `var[index]`
  when the proxy carries no pre-constraint (`self.slice` = one full slice per axis).
-/
import PydapModel.Slice
namespace Pydap.Dap4

/-- `combine_slices(self.slice, fix_slice(index, self.shape))` with the default `self.slice` -/
def proxy4Slices (shape : List Nat) (index : List Idx) : List PSlice :=
  combine (shape.map fun _ => Idx.sl PSlice.all) (fixSlice index shape)

/-- `"dap4.ce=" + self.id + hyperslab(index)` -/
def proxy4Request (id : List Char) (shape : List Nat) (index : List Idx) : List Char :=
  "dap4.ce=".toList ++ id ++ hyperslabText (proxy4Slices shape index)

end Pydap.Dap4
