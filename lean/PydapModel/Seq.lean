/-
  Model of how the server answers a constraint on a flat sequence (handlers/lib.py
  `BaseHandler.parse`: `apply_selection`, then `apply_projection`), for the two kinds of sequence
  data: a numpy structured array (boolean masks, `data[list(names)]`, `data[slice]`) and the lazy
  streams of `PydapModel/IterData.lean` (`IterData`, `CSVData`).

  A request is what `parse_ce` returns for `s[range]` / `s[range].c1,s.c2,…` `&clause&…`, with
  each selection token already cut at its leftmost operator (`PydapModel/CE.lean`).
-/
import PydapModel.IterData
namespace Pydap.Seq
open Pydap Pydap.IterData

inductive Backend where
  | numpy | iterdata | csv
deriving DecidableEq, Repr

structure Request where
  cols : Option (List Name)      -- `none`: the whole sequence `s`
  range : Option PSlice          -- record range, as parsed by `parse_hyperslab` (C03)
  clauses : List Cond
deriving Repr

/-- `re.match(r"%s\.[^\.]+(<=|<|>=|>|=|!=)" % re.escape(seq.id), condition)` on a clause whose
    left side is free of operator characters: the left side is `id.` + a dot-free, non-empty name -/
def relevant (id : Name) (c : Cond) : Bool :=
  match rsplitDot c.id1 with
  | some (p, c1) => decide (p = id) && !c1.isEmpty
  | none => false

/-- `parse_selection`: `get_var(dataset, text)`, else `ast.literal_eval(text)` -/
def operand {A} (lit : List Char → Option A) (id : Name) (names : List Name) (t : List Char) : Option (RRhs A) :=
  match rsplitDot t with
  | some (p, c) => if p = id ∧ c ∈ names then some (.name c) else (lit t).map .const
  | none => (lit t).map .const

/-! ### numpy structured array -/

/-- `apply_selection`: every relevant clause masks the rows: `seq.data = seq[op(id1, id2)].data` -/
def selectNumpy {A} (cmp : Op → A → A → Bool) (lit : List Char → Option A) (id : Name) (names : List Name) :
    List (List A) → List Cond → Except Err (List (List A))
  | rows, [] => .ok rows
  | rows, c :: cs =>
    if relevant id c then
      match operand lit id names c.id1, operand lit id names c.id2 with
      | some (.name c1), some rhs =>
        selectNumpy cmp lit id names (rows.filter fun r => refCond cmp names r ⟨c1, c.op, rhs⟩) cs
      | _, _ => .error .valueError
    else selectNumpy cmp lit id names rows cs

/-- `data[list(names)]`: multi-field index of a structured array (cells by field name) -/
def fieldRow {A} (names cols : List Name) (r : List A) : Except Err (Item A) :=
  match refItem names r (.table cols) with
  | some it => .ok it
  | none => .error .keyError

def fieldsNumpy {A} (names cols : List Name) (rows : List (List A)) : Except Err (List (Item A)) :=
  mapE (fieldRow names cols) rows

def serveNumpy {A} (cmp : Op → A → A → Bool) (lit : List Char → Option A) (id : Name) (names : List Name)
    (rows : List (List A)) (q : Request) : Except Err (List (Item A)) := do
  let kept ← selectNumpy cmp lit id names rows q.clauses
  let items ← fieldsNumpy names (q.cols.getD names) kept
  match q.range with
    | none => pure items
    | some sl => islice sl items       -- basic slicing with the non-negative bounds of `parse_hyperslab`

/-! ### lazy streams -/

/-- the clause the child stream builds for `child OP other`
    (`IterData.__lt__` …: `template.id`, operator, `other.template.id` or `encode(other)`) -/
def rerender {A} (enc : A → List Char) (lit : List Char → Option A) (id : Name) (names : List Name)
    (c : Cond) : Option Cond :=
  match operand lit id names c.id1, operand lit id names c.id2 with
  | some (.name c1), some (.name c2) => some ⟨id ++ '.' :: c1, c.op, id ++ '.' :: c2⟩
  | some (.name c1), some (.const v) => some ⟨id ++ '.' :: c1, c.op, enc v⟩
  | _, _ => none

def rangeKeys : Option PSlice → List Key
  | none => []
  | some sl => [Key.slice sl]

/-- the stream operations `apply_selection` and `apply_projection` perform, in order -/
def lazyKeys {A} (enc : A → List Char) (lit : List Char → Option A) (id : Name) (names : List Name)
    (q : Request) : Except Err (List Key) :=
  match (q.clauses.filter (relevant id)).mapM (rerender enc lit id names) with
  | none => .error .valueError
  | some cs => .ok (cs.map Key.cond ++ [Key.list (q.cols.getD names)] ++ rangeKeys q.range)

def serveLazy {A} (cmp : Op → A → A → Bool) (enc : A → List Char) (lit : List Char → Option A)
    (id : Name) (names : List Name) (rows : List (List A)) (csv : Bool) (q : Request) :
    Except Err (List (Item A)) := do
  let keys ← lazyKeys enc lit id names q
  let s ← chain lit (if csv then mkCSVData rows ⟨id, names, names⟩ else mkIterData rows ⟨id, names, names⟩) keys
  iter cmp s

def serve {A} (cmp : Op → A → A → Bool) (enc : A → List Char) (lit : List Char → Option A)
    (b : Backend) (id : Name) (names : List Name) (rows : List (List A)) (q : Request) :
    Except Err (List (Item A)) :=
  match b with
  | .numpy => serveNumpy cmp lit id names rows q
  | .iterdata => serveLazy cmp enc lit id names rows false q
  | .csv => serveLazy cmp enc lit id names rows true q

end Pydap.Seq
