/-
  C05 — the *independent reference encoder*: DAP2/XDR written from the rules the property lists,
  with no reference to pydap's code structure or tables:
    * Int16/UInt16/Int32/UInt32/Float32 occupy 4 bytes, Float64 8 bytes, big-endian
      (16-bit integers are widened to 32 bits, sign-extended when signed);
    * a scalar Byte is 1 byte + 3 bytes of padding; a Byte array is packed and padded to 4n;
    * a string is  length ‖ bytes ‖ zero padding to 4n;
    * an array is preceded by its element count, sent twice — once only for arrays of strings;
    * structures, grids and datasets are the concatenation of their members;
    * every sequence record is preceded by 0x5A000000, the sequence ends with 0xA5000000.
-/
import PydapModel.XdrTypes
namespace Pydap.XdrSpec
open Pydap.Xdr

def startOfInstance : Bytes := [0x5A, 0, 0, 0]
def endOfSequence : Bytes := [0xA5, 0, 0, 0]

/-- two's complement of `v` in 32 bits -/
def u32 (v : Int) : Nat := (v % 4294967296).toNat

def word (n : Nat) : Bytes := be 4 n

def encString (b : Bytes) : Bytes := word b.length ++ b ++ zeros (pad4 b.length)

/-- one element inside an array or as a scalar; Bytes are handled by the callers -/
def encElem : Ty → Val → Bytes
  | .string, .str b => encString b
  | .float64, .num v => be 8 v.toNat
  | .byte, .num v => [UInt8.ofNat v.toNat]
  | _, .num v => word (u32 v)
  | _, _ => []

def encScalar (ty : Ty) (v : Val) : Bytes :=
  match ty with
  | .byte => encElem ty v ++ zeros 3
  | _ => encElem ty v

def encArray (ty : Ty) (vs : List Val) : Bytes :=
  match ty with
  | .string => word vs.length ++ (vs.map (encElem ty)).flatten
  | .byte => word vs.length ++ word vs.length ++ (vs.map (encElem ty)).flatten ++ zeros (pad4 vs.length)
  | _ => word vs.length ++ word vs.length ++ (vs.map (encElem ty)).flatten

mutual
def enc : Tmpl → Data → Bytes
  | .base ty _, .scalar v => encScalar ty v
  | .base ty _, .array vs => encArray ty vs
  | .struct cs, .tuple ds => encs cs ds
  | .seq cs, .rows rs => encRows cs rs
  | _, _ => []
def encs : List Tmpl → List Data → Bytes
  | c :: cs, d :: ds => enc c d ++ encs cs ds
  | _, _ => []
def encRows : List Tmpl → List Data → Bytes
  | _, [] => endOfSequence
  | cs, .tuple ds :: rs => startOfInstance ++ encs cs ds ++ encRows cs rs
  | cs, _ :: rs => encRows cs rs
end

end Pydap.XdrSpec
