/-
  C07 — model of the DDS printer (`responses/dds.py`) and of the DDS parser (`parsers/dds.py`
  on top of `parsers/__init__.py` `SimpleParser`), on characters.

  Text is `List Char`; the model is exact on ASCII text (the DDS response is `.encode("ascii")`),
  where `\w` = `[A-Za-z0-9_]`, `\d` = `[0-9]`, `str.lstrip()` strips 9..13, 28..31 and 32, and
  `re.IGNORECASE` is ASCII case folding.  Every regex call of the Python is one primitive call here:

    consume("lit")     ↦ `consumeLit`   (anchored, case-insensitive match, then `lstrip`)
    peek("lit")        ↦ `peekLit`
    consume(r"\w+") …  ↦ `consumeClass p` (longest non-empty run of a character class, then `lstrip`)
    peek(r"\w+")       ↦ `takeWhile isWord`

  Trusted (Python/numpy, not pydap): `np.dtype(s).char` (`dtypeChar`), `int()` (`Pydap.parseIntChars`),
  `'{}'.format` of an int (`Pydap.intText`), urllib's `quote` on ASCII (`quoteChar`).
-/
import PydapModel.Generated.Tables
import PydapModel.Slice

namespace Pydap.Dds

abbrev Text := List Char

inductive Err where
  | parse      -- SimpleParser: Exception("Unable to parse token")
  | key        -- KeyError (type table lookup)
  | value      -- ValueError (int())
  | other      -- printer: Grid without children (IndexError)
deriving DecidableEq, Repr

/-! ### character classes (ASCII) -/

def isUpper (c : Char) : Bool := 'A' ≤ c && c ≤ 'Z'
def isLower (c : Char) : Bool := 'a' ≤ c && c ≤ 'z'
def lowerC (c : Char) : Char := if isUpper c then Char.ofNat (c.toNat + 32) else c
def lower (t : Text) : Text := t.map lowerC

/-- `\w` -/
def isWord (c : Char) : Bool := isUpper c || isLower c || isDigit c || c == '_'
/-- what `str.lstrip()` removes -/
def isSpace (c : Char) : Bool := c == ' ' || ('\t' ≤ c && c ≤ '\r') || ('\x1c' ≤ c && c ≤ '\x1f')
/-- `name_regexp = r'[\w%!~"\'\*-]+'` (parsers/dds.py) -/
def isNameRe (c : Char) : Bool :=
  isWord c || c == '%' || c == '!' || c == '~' || c == '"' || c == '\'' || c == '*' || c == '-'
/-- `[^;\[]` -/
def notSemiBr (c : Char) : Bool := c != ';' && c != '['
/-- `[^;]` -/
def notSemi (c : Char) : Bool := c != ';'

/-! ### trees -/

structure BaseV where
  name : Text
  dt : Text            -- numpy dtype string (`"f"`, `">i"`, `"|S128"` …)
  shape : List Int     -- extents (the parser accepts `int()` of any token, so negative ones can be built)
  dims : List Text
  nodata : Bool        -- `isinstance(var.data, DummyData)`: no data, `shape` is the declared shape (what the parser
                       -- builds); `false`: the variable holds data, whose leading axes inside sequences are record axes
deriving DecidableEq, Repr

inductive Tmpl where
  | base (b : BaseV)
  | struct (name : Text) (kids : List Tmpl)
  | seq (name : Text) (kids : List Tmpl)
  | grid (name : Text) (kids : List BaseV)     -- first child = array, rest = maps
deriving Repr

def Tmpl.name : Tmpl → Text
  | .base b => b.name
  | .struct n _ => n
  | .seq n _ => n
  | .grid n _ => n

structure Dataset where
  name : Text
  kids : List Tmpl
deriving Repr

/-! ### tables -/

def lookup (tbl : List (String × String)) (k : Text) : Option Text :=
  match tbl with
  | [] => none
  | p :: rest => if p.1.toList = k then some p.2.toList else lookup rest k

/-- `np.dtype(s).char` for the dtype strings that occur (byte-order prefix dropped, first char). -/
def dtypeChar (dt : Text) : Text :=
  (dt.dropWhile fun c => c == '>' || c == '<' || c == '|' || c == '=').take 1

/-! ### printer (responses/dds.py) -/

def indent (level : Nat) : Text := List.replicate (4 * level) ' '

def dimText (nm : Text) (n : Int) : Text := '[' :: nm ++ [' ', '=', ' '] ++ intText n ++ [']']
def anonText (n : Int) : Text := '[' :: intText n ++ [']']

/-- `shape = var.shape; if not isinstance(var.data, DummyData): shape = shape[sequence:]` -/
def effShape (b : BaseV) (sq : Nat) : List Int := if b.nodata then b.shape else b.shape.drop sq

def shapeText (b : BaseV) (sq : Nat) : Text :=
  let shape := effShape b sq
  if b.dims ≠ [] then (b.dims.zip shape).flatMap fun p => dimText p.1 p.2
  else if shape.length = 1 then shape.flatMap (dimText b.name)
  else shape.flatMap anonText

def printBase (b : BaseV) (level sq : Nat) : Except Err Text :=
  match lookup Gen.NUMPY_TO_DAP2_TYPEMAP (dtypeChar b.dt) with
  | none => .error .key
  | some ty => .ok (indent level ++ ty ++ [' '] ++ b.name ++ shapeText b sq ++ [';', '\n'])

def printBases : List BaseV → Nat → Nat → Except Err Text
  | [], _, _ => .ok []
  | b :: bs, level, sq =>
    match printBase b level sq with
    | .error e => .error e
    | .ok s => match printBases bs level sq with
      | .error e => .error e
      | .ok r => .ok (s ++ r)

def closeText (level : Nat) (name : Text) : Text := indent level ++ ['}', ' '] ++ name ++ [';', '\n']

def printGrid (name : Text) (kids : List BaseV) (level sq : Nat) : Except Err Text :=
  match kids with
  | [] => .error .other
  | a :: maps =>
    match printBase a (level + 2) sq with
    | .error e => .error e
    | .ok sa => match printBases maps (level + 2) sq with
      | .error e => .error e
      | .ok sm => .ok (indent level ++ "Grid {\n".toList ++ indent (level + 1) ++ "Array:\n".toList ++ sa
                        ++ indent (level + 1) ++ "Maps:\n".toList ++ sm ++ closeText level name)

mutual
def printT : Tmpl → Nat → Nat → Except Err Text
  | .base b, level, sq => printBase b level sq
  | .struct name kids, level, sq =>
    match printL kids (level + 1) sq with
    | .error e => .error e
    | .ok body => .ok (indent level ++ "Structure {\n".toList ++ body ++ closeText level name)
  | .seq name kids, level, sq =>
    match printL kids (level + 1) (sq + 1) with
    | .error e => .error e
    | .ok body => .ok (indent level ++ "Sequence {\n".toList ++ body ++ closeText level name)
  | .grid name kids, level, sq => printGrid name kids level sq
def printL : List Tmpl → Nat → Nat → Except Err Text
  | [], _, _ => .ok []
  | t :: ts, level, sq =>
    match printT t level sq with
    | .error e => .error e
    | .ok s => match printL ts level sq with
      | .error e => .error e
      | .ok r => .ok (s ++ r)
end

def printDs (d : Dataset) : Except Err Text :=
  match printL d.kids 1 0 with
  | .error e => .error e
  | .ok body => .ok ("Dataset {\n".toList ++ body ++ closeText 0 d.name)

/-! ### `_quote` (lib.py) on ASCII -/

def alwaysSafe (c : Char) : Bool := isWord c || c == '.' || c == '-' || c == '~'
def hexU (n : Nat) : Char := if n < 10 then Char.ofNat (48 + n) else Char.ofNat (55 + n)

def quoteChar (c : Char) : Text :=
  if c == '.' then ['%', '2', 'E']
  else if alwaysSafe c || Gen.QUOTE_SAFE.toList.contains c then [c]
  else ['%', hexU (c.toNat / 16), hexU (c.toNat % 16)]

def quoteName (n : Text) : Text :=
  if n.take 4 = ['d', 'a', 'p', '4'] then n.take 8 ++ (n.drop 8).flatMap quoteChar
  else n.flatMap quoteChar

/-! ### SimpleParser primitives -/

def lstrip (t : Text) : Text := t.dropWhile isSpace

/-- anchored `re.match(lit, buf, IGNORECASE)` for a literal pattern; returns the rest -/
def matchLit : Text → Text → Option Text
  | [], buf => some buf
  | _ :: _, [] => none
  | l :: ls, c :: cs => if lowerC c = lowerC l then matchLit ls cs else none

def peekLit (lit buf : Text) : Bool := (matchLit lit buf).isSome

def consumeLit (lit buf : Text) : Except Err Text :=
  match matchLit lit buf with
  | some r => .ok (lstrip r)
  | none => .error .parse

def consumeClass (p : Char → Bool) (buf : Text) : Except Err (Text × Text) :=
  if (buf.takeWhile p).isEmpty then .error .parse
  else .ok (buf.takeWhile p, lstrip (buf.dropWhile p))

/-- `int(token)` as an array extent -/
def pyInt (tok : Text) : Except Err Int :=
  match parseIntChars tok with
  | none => .error .value
  | some i => .ok i

/-! ### DDSParser -/

/-- `dimensions()`: the `while not self.peek(";")` loop (fuel: one unit per iteration) -/
def dimensions : Nat → Text → Except Err (List Int × List Text × Text)
  | 0, buf => if peekLit [';'] buf then .ok ([], [], buf) else .error .parse
  | f + 1, buf =>
    if peekLit [';'] buf then .ok ([], [], buf) else
    match consumeLit ['['] buf with
    | .error e => .error e
    | .ok b1 =>
    match consumeClass isNameRe b1 with
    | .error e => .error e
    | .ok (tok, b2) =>
    if peekLit ['='] b2 then
      match consumeLit ['='] b2 with
      | .error e => .error e
      | .ok b3 =>
      match consumeClass isDigit b3 with
      | .error e => .error e
      | .ok (tok2, b4) =>
      match pyInt tok2 with
      | .error e => .error e
      | .ok n =>
      match consumeLit [']'] b4 with
      | .error e => .error e
      | .ok b5 =>
      match dimensions f b5 with
      | .error e => .error e
      | .ok (sh, nm, b6) => .ok (n :: sh, tok :: nm, b6)
    else
      match pyInt tok with
      | .error e => .error e
      | .ok n =>
      match consumeLit [']'] b2 with
      | .error e => .error e
      | .ok b5 =>
      match dimensions f b5 with
      | .error e => .error e
      | .ok (sh, nm, b6) => .ok (n :: sh, nm, b6)

/-- `if len(dimensions) != len(shape): dimensions = ()` (parsers/dds.py `base`, repair of round 7): a declaration that
    names only some of its dimensions keeps its shape and gets no dimension names -/
def fitDims (sh : List Int) (dims : List Text) : List Text := if dims.length = sh.length then dims else []

/-- `base()` -/
def base (buf : Text) : Except Err (BaseV × Text) :=
  match consumeClass isWord buf with
  | .error e => .error e
  | .ok (ty, b1) =>
  match lookup Gen.LOWER_DAP2_TO_NUMPY_PARSER_TYPEMAP (lower ty) with
  | none => .error .key
  | some dt =>
  match consumeClass notSemiBr b1 with
  | .error e => .error e
  | .ok (nm, b2) =>
  match dimensions b2.length b2 with
  | .error e => .error e
  | .ok (sh, dims, b3) =>
  match consumeLit [';'] b3 with
  | .error e => .error e
  | .ok b4 => .ok (⟨quoteName nm, dt, sh, fitDims sh dims, true⟩, b4)   -- `BaseType(name, DummyData(dtype, shape), dimensions=…)`

/-- `container[var.name] = var` (StructureType.__setitem__): an existing key is deleted first -/
def addChildB (acc : List BaseV) (v : BaseV) : List BaseV := acc.filter (fun x => x.name != v.name) ++ [v]
def addChild (acc : List Tmpl) (v : Tmpl) : List Tmpl := acc.filter (fun x => x.name != v.name) ++ [v]
def insertAllB (l : List BaseV) : List BaseV := l.foldl addChildB []
def insertAll (l : List Tmpl) : List Tmpl := l.foldl addChild []

/-- the `while not self.peek("}")` loop of `grid()` -/
def mapsLoop : Nat → Text → Except Err (List BaseV × Text)
  | 0, buf => if peekLit ['}'] buf then .ok ([], buf) else .error .parse
  | f + 1, buf =>
    if peekLit ['}'] buf then .ok ([], buf) else
    match base buf with
    | .error e => .error e
    | .ok (v, b1) =>
    match mapsLoop f b1 with
    | .error e => .error e
    | .ok (vs, b2) => .ok (v :: vs, b2)

/-- `consume("}")`, `_quote(consume("[^;]+"))`, `consume(";")` -/
def closing (buf : Text) : Except Err (Text × Text) :=
  match consumeLit ['}'] buf with
  | .error e => .error e
  | .ok b1 =>
  match consumeClass notSemi b1 with
  | .error e => .error e
  | .ok (nm, b2) =>
  match consumeLit [';'] b2 with
  | .error e => .error e
  | .ok b3 => .ok (quoteName nm, b3)

/-- `grid()` -/
def grid (buf : Text) : Except Err (Tmpl × Text) :=
  match consumeLit "grid".toList buf with
  | .error e => .error e
  | .ok b1 =>
  match consumeLit ['{'] b1 with
  | .error e => .error e
  | .ok b2 =>
  match consumeLit "array".toList b2 with
  | .error e => .error e
  | .ok b3 =>
  match consumeLit [':'] b3 with
  | .error e => .error e
  | .ok b4 =>
  match base b4 with
  | .error e => .error e
  | .ok (arr, b5) =>
  match consumeLit "maps".toList b5 with
  | .error e => .error e
  | .ok b6 =>
  match consumeLit [':'] b6 with
  | .error e => .error e
  | .ok b7 =>
  match mapsLoop buf.length b7 with   -- fuel: `b7` is a suffix of `buf`
  | .error e => .error e
  | .ok (maps, b8) =>
  match closing b8 with
  | .error e => .error e
  | .ok (nm, b9) => .ok (.grid nm (insertAllB (arr :: maps)), b9)

mutual
/-- `declaration()` with `sequence()` / `structure()` inlined (they differ in the keyword and the
    constructor only) -/
def decl : Nat → Text → Except Err (Tmpl × Text)
  | 0, _ => .error .parse
  | f + 1, buf =>
    let w := lower (buf.takeWhile isWord)
    if w = "grid".toList then grid buf
    else if w = "sequence".toList ∨ w = "structure".toList then
      match consumeLit w buf with
      | .error e => .error e
      | .ok b1 =>
      match consumeLit ['{'] b1 with
      | .error e => .error e
      | .ok b2 =>
      match decls f b2 with
      | .error e => .error e
      | .ok (kids, b3) =>
      match closing b3 with
      | .error e => .error e
      | .ok (nm, b4) =>
        .ok (if w = "sequence".toList then .seq nm (insertAll kids) else .struct nm (insertAll kids), b4)
    else
      match base buf with
      | .error e => .error e
      | .ok (v, b1) => .ok (.base v, b1)
/-- the `while not self.peek("}")` loop of `parse()`, `sequence()`, `structure()` -/
def decls : Nat → Text → Except Err (List Tmpl × Text)
  | 0, buf => if peekLit ['}'] buf then .ok ([], buf) else .error .parse
  | f + 1, buf =>
    if peekLit ['}'] buf then .ok ([], buf) else
    match decl f buf with
    | .error e => .error e
    | .ok (v, b1) =>
    match decls f b1 with
    | .error e => .error e
    | .ok (vs, b2) => .ok (v :: vs, b2)
end

/-- `DDSParser(text).parse()` with an explicit fuel for the declaration loop -/
def parseDdsWith (fuel : Nat) (text : Text) : Except Err Dataset :=
  match consumeLit "dataset".toList text with
  | .error e => .error e
  | .ok b1 =>
  match consumeLit ['{'] b1 with
  | .error e => .error e
  | .ok b2 =>
  match decls fuel b2 with
  | .error e => .error e
  | .ok (kids, b3) =>
  match closing b3 with
  | .error e => .error e
  | .ok (nm, _) => .ok ⟨nm, insertAll kids⟩

/-- `DDSParser(text).parse()`: fuel = text length (adequate for every input: `Proofs/DdsFuel.lean`) -/
def parseDds (text : Text) : Except Err Dataset := parseDdsWith text.length text

/-! ### the normal form a printed tree parses to -/

/-- parser dtype of the DAP2 type a numpy dtype is declared as (`[]` when the printer would raise) -/
def normTy (dt : Text) : Text :=
  match lookup Gen.NUMPY_TO_DAP2_TYPEMAP (dtypeChar dt) with
  | none => []
  | some ty => match lookup Gen.LOWER_DAP2_TO_NUMPY_PARSER_TYPEMAP (lower ty) with
    | none => []
    | some d => d

/-- what the DDS says about a base variable printed at sequence depth `sq`: the leading `sq` record
    axes of a variable that holds data are not declared (`effShape`); named dimensions are paired with the
    declared extents (`zip`); an unnamed 1-d array gets its own name as dimension name; the parsed variable
    has no data (`nodata`), only this declared shape -/
def normBase (b : BaseV) (sq : Nat) : BaseV :=
  let shape := effShape b sq
  if b.dims ≠ [] then ⟨b.name, normTy b.dt, (b.dims.zip shape).map (·.2), (b.dims.zip shape).map (·.1), true⟩
  else if shape.length = 1 then ⟨b.name, normTy b.dt, shape, shape.map fun _ => b.name, true⟩
  else ⟨b.name, normTy b.dt, shape, [], true⟩

mutual
def normT : Tmpl → Nat → Tmpl
  | .base b, sq => .base (normBase b sq)
  | .struct n kids, sq => .struct n (normL kids sq)
  | .seq n kids, sq => .seq n (normL kids (sq + 1))
  | .grid n kids, sq => .grid n (kids.map fun b => normBase b sq)
def normL : List Tmpl → Nat → List Tmpl
  | [], _ => []
  | t :: ts, sq => normT t sq :: normL ts sq
end

def normDs (d : Dataset) : Dataset := ⟨d.name, normL d.kids 0⟩

end Pydap.Dds
