/-
  Several sessions in one process (the bystander scenario of seed C18-y).

  The code, as it exists:

      pydap.net.create_session(use_cache=True, cache_kwargs=…):
          session = CachedSession(**{**session_kwargs, **cache_kwargs})      -- a NEW session object per call
      requests_cache.CachedSession.__init__:  self.cache = init_backend(cache_name, backend, …)
                                                                             -- a NEW backend object per session
      pydap.client.patch_session_for_shared_dap_cache(session, shared_vars, known_url_list):
          original_create_key = session.cache.create_key                     -- whatever is installed now
          def custom_create_key(request, **kwargs): … return original_create_key(request, **kwargs)
          session.cache.create_key = custom_create_key                       -- an INSTANCE attribute of THAT backend object

  So the key function is a property of the backend object, and every session has its own backend object: a process
  is a list of sessions, each with its own key function and (backend "memory", the `DictStorage` of that backend
  object) its own store.  `use_cache=False` gives a plain `requests.Session`: no key, no store, every GET reaches the
  server, and `consolidate_metadata` returns before its first GET (`Cons.consolidate false`).

  What is shared and what is not (checked on the pinned requests_cache): with `backend="memory"` nothing is shared
  between two sessions, whatever the cache name — this file's `Proc`.  With the DEFAULT settings (`backend="sqlite"`,
  `cache_name="http_cache"`, `use_temp=True`) the two backend OBJECTS are still distinct (so are their `create_key`
  attributes), but both open the same database file: the STORE is shared through the file system, the key functions
  are not.  That second arrangement is `FileProc` below (one store, one key function per session).

  The key function of a session is the list of declarations installed on it, newest first (`keyFn`): the closure
  of the latest `patch_session_for_shared_dap_cache` answers with its normalised key when its own test passes and
  otherwise calls the function that was installed before it (`original_create_key`), down to the unpatched key.

  Events of a process history: a GET through session i (`Cache.cachedGet` with session i's key function and store),
  `consolidate_metadata(urls, session_i)` (the model `Cons.consolidate`: the DMR GETs through the key function as it
  is, then — when it declares — the new closure is installed on session i and the pre-fetch GETs go through it),
  `create_session` (a new session at the end of the list; indices of existing sessions never change).
  An event naming a session that does not exist is no event.

  Outside the model: everything `Cache.lean` and `Consolidate.lean` name as outside (expiry, filters, thread pool, …);
  threads running two sessions at the same time (a history is a sequence); sessions handed to `open_url` and kept
  inside datasets (C14/C18 session part); `requests_cache.install_cache` (global patching, not used by pydap).
-/
import PydapModel.CacheKey
import PydapModel.Cache
import PydapModel.Consolidate
namespace Pydap.Sessions
open Pydap Pydap.CK Pydap.Cons Pydap.Cache

/-- `session.cache.create_key` after the declarations `ds` (newest first) were installed one after the other -/
def keyFn (orig : List Char → List Char) : List Decl → Req → Key
  | [], r => keyBefore orig r
  | d :: ds, r =>
    match keyAfter orig d r with
    | Key.norm s h p c => Key.norm s h p c
    | Key.orig _ => keyFn orig ds r

/-- one session of the process: `caching = false` is a plain `requests.Session` (the other two fields are unused) -/
structure Sess (ρ : Type) where
  caching : Bool
  /-- the declarations installed on `session.cache.create_key`, newest first; `[]` = the unpatched method -/
  decls : List Decl
  store : Store Key ρ
deriving DecidableEq

/-- what is observed of one GET: the request, the key (`none` through a plain session), hit/miss, the answer -/
structure Obs (ρ : Type) where
  req : Req
  key : Option Key
  hit : Bool
  resp : ρ
deriving DecidableEq

variable {ρ : Type}

/-- one GET through one session -/
def getThrough (orig : List Char → List Char) (server : Req → ρ) (s : Sess ρ) (r : Req) : Obs ρ × Sess ρ :=
  if s.caching then
    (⟨r, some (keyFn orig s.decls r), isHit (keyFn orig s.decls) s.store r,
      (cachedGet (keyFn orig s.decls) server s.store r).1⟩,
     { s with store := (cachedGet (keyFn orig s.decls) server s.store r).2 })
  else (⟨r, none, false, server r⟩, s)

def getsThrough (orig : List Char → List Char) (server : Req → ρ) : Sess ρ → List Req → List (Obs ρ) × Sess ρ
  | s, [] => ([], s)
  | s, r :: rs =>
    ((getThrough orig server s r).1 :: (getsThrough orig server (getThrough orig server s r).2 rs).1,
     (getsThrough orig server (getThrough orig server s r).2 rs).2)

/-- `patch_session_for_shared_dap_cache(session, dim_ces, URLs)` when `consolidate_metadata` gets that far -/
def install (s : Sess ρ) : Except Err (Option Decl) → Sess ρ
  | .ok (some d) => { s with decls := d :: s.decls }
  | _ => s

/-- `consolidate_metadata(urls, session)` on one session -/
def consolidateThrough (orig : List Char → List Char) (server : Req → ρ) (s : Sess ρ) (files : List FileIn) :
    List (Obs ρ) × Sess ρ :=
  ((getsThrough orig server s (consolidate s.caching files).dmrGets).1 ++
     (getsThrough orig server
        (install (getsThrough orig server s (consolidate s.caching files).dmrGets).2 (consolidate s.caching files).result)
        (consolidate s.caching files).dimGets).1,
   (getsThrough orig server
      (install (getsThrough orig server s (consolidate s.caching files).dmrGets).2 (consolidate s.caching files).result)
      (consolidate s.caching files).dimGets).2)

/-! ### the process: every session has its own backend object and its own store (backend "memory") -/

abbrev Proc (ρ : Type) := List (Sess ρ)

inductive Ev where
  | get (i : Nat) (r : Req)
  | consolidate (i : Nat) (files : List FileIn)
  | create (caching : Bool)
deriving DecidableEq

/-- `create_session(use_cache=caching, …)` -/
def fresh (caching : Bool) : Sess ρ := ⟨caching, [], []⟩

def step (orig : List Char → List Char) (server : Req → ρ) (p : Proc ρ) : Ev → List (Nat × Obs ρ) × Proc ρ
  | .get i r =>
    match p[i]? with
    | none => ([], p)
    | some s => ([(i, (getThrough orig server s r).1)], p.set i (getThrough orig server s r).2)
  | .consolidate i files =>
    match p[i]? with
    | none => ([], p)
    | some s => ((consolidateThrough orig server s files).1.map (fun o => (i, o)),
                 p.set i (consolidateThrough orig server s files).2)
  | .create c => ([], p ++ [fresh c])

/-- a history: every GET handed to any session, in order, tagged with the session -/
def run (orig : List Char → List Char) (server : Req → ρ) : Proc ρ → List Ev → List (Nat × Obs ρ) × Proc ρ
  | p, [] => ([], p)
  | p, e :: es =>
    ((step orig server p e).1 ++ (run orig server (step orig server p e).2 es).1,
     (run orig server (step orig server p e).2 es).2)

/-- what session `j` saw -/
def traceOf (j : Nat) (tr : List (Nat × Obs ρ)) : List (Obs ρ) := (tr.filter (fun x => x.1 == j)).map (·.2)

/-- the events that are session `j`'s (creations concern everybody: they fix which index a session gets) -/
def concerns (j : Nat) : Ev → Bool
  | .get i _ => i == j
  | .consolidate i _ => i == j
  | .create _ => true

/-! ### the arrangement of seed C18-y: every caching session of the process points at ONE backend object -/

/-- the one backend object (key function and store) all caching sessions share; `get i` / `consolidate i` go through it
    whatever `i` is -/
def stepShared (orig : List Char → List Char) (server : Req → ρ) (c : Sess ρ) : Ev → List (Nat × Obs ρ) × Sess ρ
  | .get i r => ([(i, (getThrough orig server c r).1)], (getThrough orig server c r).2)
  | .consolidate i files => ((consolidateThrough orig server c files).1.map (fun o => (i, o)),
                             (consolidateThrough orig server c files).2)
  | .create _ => ([], c)

def runShared (orig : List Char → List Char) (server : Req → ρ) : Sess ρ → List Ev → List (Nat × Obs ρ) × Sess ρ
  | c, [] => ([], c)
  | c, e :: es =>
    ((stepShared orig server c e).1 ++ (runShared orig server (stepShared orig server c e).2 es).1,
     (runShared orig server (stepShared orig server c e).2 es).2)

/-! ### the default settings: one database file, one key function per session -/

/-- caching sessions on one sqlite file: the declarations of every session, and the one store -/
structure FileProc (ρ : Type) where
  decls : List (List Decl)
  store : Store Key ρ

/-- a GET / a consolidation through session `i` of a `FileProc`: session i's key function, the common store -/
def stepFile (orig : List Char → List Char) (server : Req → ρ) (p : FileProc ρ) : Ev → List (Nat × Obs ρ) × FileProc ρ
  | .get i r =>
    match p.decls[i]? with
    | none => ([], p)
    | some ds => ([(i, (getThrough orig server ⟨true, ds, p.store⟩ r).1)],
                  ⟨p.decls, (getThrough orig server ⟨true, ds, p.store⟩ r).2.store⟩)
  | .consolidate i files =>
    match p.decls[i]? with
    | none => ([], p)
    | some ds => ((consolidateThrough orig server ⟨true, ds, p.store⟩ files).1.map (fun o => (i, o)),
                  ⟨p.decls.set i (consolidateThrough orig server ⟨true, ds, p.store⟩ files).2.decls,
                   (consolidateThrough orig server ⟨true, ds, p.store⟩ files).2.store⟩)
  | .create _ => ([], ⟨p.decls ++ [[]], p.store⟩)

def runFile (orig : List Char → List Char) (server : Req → ρ) : FileProc ρ → List Ev → List (Nat × Obs ρ) × FileProc ρ
  | p, [] => ([], p)
  | p, e :: es =>
    ((stepFile orig server p e).1 ++ (runFile orig server (stepFile orig server p e).2 es).1,
     (runFile orig server (stepFile orig server p e).2 es).2)

end Pydap.Sessions
