/-
  S-expressions for the line protocol between the Python harness and the model driver.
  Atoms are runs of characters other than whitespace and parentheses.
-/
namespace Pydap

inductive Sexp where
  | atom (s : String)
  | list (xs : List Sexp)
deriving Repr, Inhabited, BEq

namespace Sexp

partial def toStr : Sexp → String
  | atom s => s
  | list xs => "(" ++ " ".intercalate (xs.map toStr) ++ ")"

instance : ToString Sexp := ⟨toStr⟩

def tokenize (s : String) : List String := Id.run do
  let mut out : Array String := #[]
  let mut cur : String := ""
  for c in s.toList do
    if c == '(' || c == ')' then
      if cur ≠ "" then out := out.push cur; cur := ""
      out := out.push (String.singleton c)
    else if c == ' ' || c == '\t' || c == '\n' || c == '\r' then
      if cur ≠ "" then out := out.push cur; cur := ""
    else
      cur := cur.push c
  if cur ≠ "" then out := out.push cur
  return out.toList

/-- parse a token list into a sequence of S-expressions (stack machine, total). -/
def parseToks (toks : List String) : Option (List Sexp) := Id.run do
  let mut stack : List (Array Sexp) := []
  let mut cur : Array Sexp := #[]
  for t in toks do
    if t == "(" then
      stack := cur :: stack
      cur := #[]
    else if t == ")" then
      match stack with
      | [] => return none
      | top :: rest =>
        cur := top.push (list cur.toList)
        stack := rest
    else
      cur := cur.push (atom t)
  if stack.isEmpty then return some cur.toList else return none

def parseLine (s : String) : Option (List Sexp) := parseToks (tokenize s)

def asInt? : Sexp → Option Int
  | atom s => s.toInt?
  | _ => none

def asNat? : Sexp → Option Nat
  | atom s => s.toNat?
  | _ => none

def asOptInt? : Sexp → Option (Option Int)
  | atom "none" => some none
  | atom s => s.toInt?.map some
  | _ => none

def hexDigit (c : Char) : Option Nat :=
  if '0' ≤ c ∧ c ≤ '9' then some (c.toNat - '0'.toNat)
  else if 'a' ≤ c ∧ c ≤ 'f' then some (c.toNat - 'a'.toNat + 10)
  else if 'A' ≤ c ∧ c ≤ 'F' then some (c.toNat - 'A'.toNat + 10)
  else none

def hexToBytes (cs : List Char) : Option (List UInt8) :=
  match cs with
  | [] => some []
  | [_] => none
  | a :: b :: rest => do
    let x ← hexDigit a
    let y ← hexDigit b
    let r ← hexToBytes rest
    pure (UInt8.ofNat (x * 16 + y) :: r)

/-- `x` alone is the empty byte string; otherwise `x<hex>` -/
def asBytes? : Sexp → Option (List UInt8)
  | atom s => match s.toList with
    | 'x' :: cs => hexToBytes cs
    | _ => none
  | _ => none

def hexChar (n : Nat) : Char :=
  if n < 10 then Char.ofNat ('0'.toNat + n) else Char.ofNat ('a'.toNat + n - 10)

def bytesToHex (bs : List UInt8) : String :=
  "x" ++ String.ofList (bs.flatMap fun b => [hexChar (b.toNat / 16), hexChar (b.toNat % 16)])

def ofOptInt : Option Int → Sexp
  | none => atom "none"
  | some i => atom (toString i)

end Sexp
end Pydap
