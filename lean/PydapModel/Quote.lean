/-
  C12 — model of `pydap.lib._quote` / `pydap.lib.unquote` (lib.py:143-173).

  A Python `str` is modelled as a list of characters, every character being the list of its UTF-8
  bytes (`Chr`).  This keeps the two places where `_quote` counts *characters* (`name[:4]`, `name[:8]`)
  faithful for non-ASCII names without modelling the UTF-8 codec (Python's, trusted base §3).

      def _quote(name):
          safe = "%_!~*'-\"/"                                  -- Pydap.Gen.QUOTE_SAFE (regenerated)
          if "dap4" == name[:4]:
              prefix = name[:8]; name = name[8:]
          else:
              prefix = ""
          name = quote_(name.encode("utf-8"), safe=safe).replace(".", "%2E")
          return prefix + name.replace("[", "%5B").replace("]", "%5D")

      def unquote(name):
          name = name.replace("%2E", ".").replace("%5B", "[").replace("%5D", "]")
          return unquote_(name)

  `urllib.parse.quote` on bytes is bytewise: a byte in `_ALWAYS_SAFE ∪ safe` is kept, every other byte
  becomes `%XX` with upper-case hex digits.  `urllib.parse.unquote` decodes every `%` that is followed
  by two hex digits (either case) and keeps every other character.
-/
import PydapModel.Generated.Tables

namespace Pydap.Quote

abbrev Bytes := List UInt8
/-- one character = its UTF-8 bytes -/
abbrev Chr := List UInt8
abbrev Str := List Chr

/-- urllib `_ALWAYS_SAFE`: `A-Z a-z 0-9 _ . - ~` -/
def alwaysSafe (b : UInt8) : Bool :=
  (65 ≤ b && b ≤ 90) || (97 ≤ b && b ≤ 122) || (48 ≤ b && b ≤ 57) ||
  b == 95 || b == 46 || b == 45 || b == 126

/-- the `safe` argument of `_quote`, as bytes (urllib keeps only the ASCII ones) -/
def safeBytes : Bytes :=
  (Pydap.Gen.QUOTE_SAFE.toList.map (fun c => UInt8.ofNat c.toNat)).filter (· < 128)

def isSafe (b : UInt8) : Bool := alwaysSafe b || safeBytes.contains b

/-- upper-case hex digit -/
def hexUp (n : Nat) : UInt8 := if n < 10 then UInt8.ofNat (48 + n) else UInt8.ofNat (55 + n)

/-- `'%{:02X}'.format(b)` -/
def pct (b : UInt8) : Bytes := [37, hexUp (b.toNat / 16), hexUp (b.toNat % 16)]

/-- urllib's per-byte quoter -/
def quoteByte (b : UInt8) : Bytes := if isSafe b then [b] else pct b

/-- the ASCII string `bs` as a `Str` (one character per byte) -/
def chars (bs : Bytes) : Str := bs.map (fun b => [b])

/-- `quote_(name.encode("utf-8"), safe=safe)`: the result is ASCII, one character per byte -/
def urlQuote (s : Str) : Str := chars (s.flatten.flatMap quoteByte)

/-- `str.replace(<one character>, <string>)` -/
def replChr (c : Chr) (r : Str) (s : Str) : Str := s.flatMap (fun x => if x = c then r else [x])

def dap4 : Str := [[100], [97], [112], [52]]
def pct2E : Str := [[37], [50], [69]]
def pct5B : Str := [[37], [53], [66]]
def pct5D : Str := [[37], [53], [68]]

/-- `_quote` -/
def quote (name : Str) : Str :=
  let isDap4 := name.take 4 == dap4
  let pre := if isDap4 then name.take 8 else []
  let rest := if isDap4 then name.drop 8 else name
  pre ++ replChr [93] pct5D (replChr [91] pct5B (replChr [46] pct2E (urlQuote rest)))

/-! ### unquote (on the UTF-8 bytes of the string: every pattern involved is ASCII) -/

/-- `str.replace(<three characters a b c>, <one character r>)`: leftmost, non-overlapping -/
def rep3 {α} [DecidableEq α] (a b c r : α) : List α → List α
  | x :: y :: z :: t => if x = a ∧ y = b ∧ z = c then r :: rep3 a b c r t else x :: rep3 a b c r (y :: z :: t)
  | l => l

def isHex (b : UInt8) : Bool := (48 ≤ b && b ≤ 57) || (65 ≤ b && b ≤ 70) || (97 ≤ b && b ≤ 102)

def hexVal (b : UInt8) : Nat :=
  if 48 ≤ b && b ≤ 57 then b.toNat - 48 else if 65 ≤ b && b ≤ 70 then b.toNat - 55 else b.toNat - 87

/-- `urllib.parse.unquote_to_bytes` -/
def unq : Bytes → Bytes
  | x :: y :: z :: t =>
    if x = 37 ∧ isHex y ∧ isHex z then UInt8.ofNat (16 * hexVal y + hexVal z) :: unq t else x :: unq (y :: z :: t)
  | l => l

/-- `unquote` (result as UTF-8 bytes; the final `bytes.decode` is Python's) -/
def unquote (s : Str) : Bytes :=
  unq (rep3 (37 : UInt8) 53 68 93 (rep3 (37 : UInt8) 53 66 91 (rep3 (37 : UInt8) 50 69 46 s.flatten)))

/-- the characters a DAP identifier may contain after quoting: `[A-Za-z0-9_!~*'"/%-]` -/
def legal (b : UInt8) : Bool :=
  (65 ≤ b && b ≤ 90) || (97 ≤ b && b ≤ 122) || (48 ≤ b && b ≤ 57) ||
  b == 95 || b == 33 || b == 126 || b == 42 || b == 39 || b == 34 || b == 47 || b == 37 || b == 45

/-- no literal percent-escape: no `%` followed by two hex digits -/
def noLit : Bytes → Bool
  | [] => true
  | x :: t =>
    (match t with
     | y :: z :: _ => !(x == 37 && isHex y && isHex z)
     | _ => true) && noLit t

end Pydap.Quote
