/-
  Model of the DAS text pipeline of pydap:
    responses/das.py   `das`, `build_attributes`, `get_type`, `type_convert`   (+ lib.py `encode`)
    parsers/das.py     `DASParser.parse/container/attribute`, `add_attributes`
    parsers/__init__   `SimpleParser.peek/consume`
    lib.py             `walk`

  Text is `List Char` (ASCII domain).  A number is carried as its printed `'%.6g'` text plus the
  Python type it has (`isFloat`); the `%` formatter and `ast.literal_eval` are Python's and stay
  outside the model (`literalEval` below is only the classifier int / float / malformed of a token).
  Attribute *names* are restricted to the alphabet on which `lib._quote` is the identity
  (letters, digits, `_`, `-`); the harness generates only such names.
-/
namespace Pydap.Das

abbrev Text := List Char

/-! ### values (the same type describes the server's Python objects and the client's) -/

inductive Scalar where
  | str (s : Text)
  | num (tok : Text) (isFloat : Bool)
deriving DecidableEq, Repr, Inhabited

inductive AVal where
  | sc (x : Scalar)
  | list (xs : List Scalar)
  | dict (kvs : List (Text × AVal))
deriving Repr, Inhabited

abbrev Dict := List (Text × AVal)

inductive Kind where
  | base | grid | struct | seq
deriving DecidableEq, Repr, Inhabited

/-- a variable: Base has no children, a Grid's children are its array and maps -/
inductive Var where
  | mk (kind : Kind) (name : Text) (attrs : Dict) (children : List Var)
deriving Repr, Inhabited

structure Dataset where
  name : Text
  attrs : Dict
  children : List Var
deriving Repr, Inhabited

def Var.kind : Var → Kind | .mk k _ _ _ => k
def Var.name : Var → Text | .mk _ n _ _ => n
def Var.attrs : Var → Dict | .mk _ _ a _ => a
def Var.children : Var → List Var | .mk _ _ _ c => c

/-! ### Python dict operations on association lists -/

/-- `d[k] = v` : replace in place, or append -/
def dset : Dict → Text → AVal → Dict
  | [], k, v => [(k, v)]
  | (k', v') :: rest, k, v => if k' = k then (k', v) :: rest else (k', v') :: dset rest k v

def dget (d : Dict) (k : Text) : Option AVal := List.lookup k d

def derase (d : Dict) (k : Text) : Dict := d.filter (fun kv => kv.1 ≠ k)

/-- `d.update(e)` for a dict `e` -/
def dupdate (d e : Dict) : Dict := e.foldl (fun acc kv => dset acc kv.1 kv.2) d

/-! ### the DAS printer (responses/das.py) -/

/-- one node of the DAS: an attribute line or a `name { … }` container -/
inductive Item where
  | attr (ty : Text) (name : Text) (vals : List Scalar)
  | cont (name : Text) (items : List Item)
deriving Repr, Inhabited

/-- `type_convert` -/
def typeConvert : Scalar → Text
  | .num _ true => "Float64".toList
  | .num _ false => "Int32".toList
  | .str _ => "String".toList

def isStr : Scalar → Bool | .str _ => true | _ => false
def isFloat : Scalar → Bool | .num _ true => true | _ => false

/-- `get_type` on a list: precedence String > Float64 > Int32 -/
def listType (xs : List Scalar) : Text :=
  if xs.any isStr then "String".toList
  else if xs.any isFloat then "Float64".toList
  else "Int32".toList

/-- `encode`: strings in double quotes (no escaping), numbers as their `%.6g` text -/
def encode : Scalar → Text
  | .str s => '"' :: s ++ ['"']
  | .num tok _ => tok

/-- `np.asarray(values).size > 0` on the domain: only the empty list has size 0 -/
def sizePos : AVal → Bool
  | .list [] => false
  | _ => true

mutual
/-- `build_attributes(attr, values)`; nested dicts keep their insertion order; a non-dict value of size 0
    (the empty list) yields nothing -/
def buildAttr : Text → AVal → Item
  | k, .sc x => .attr (typeConvert x) k [x]
  | k, .list xs => .attr (listType xs) k xs
  | k, .dict kvs => .cont k (buildAttrs kvs)
def buildAttrs : List (Text × AVal) → List Item
  | [] => []
  | (k, v) :: rest => if sizePos v then buildAttr k v :: buildAttrs rest else buildAttrs rest
end

/-- insertion into a list sorted by key (Python `sorted` on `str` = code point order) -/
def insKey (kv : Text × AVal) : Dict → Dict
  | [] => [kv]
  | x :: rest => if kv.1 ≤ x.1 then kv :: x :: rest else x :: insKey kv rest

/-- `sorted(var.attributes.keys())` -/
def sortKeys : Dict → Dict
  | [] => []
  | kv :: rest => insKey kv (sortKeys rest)

mutual
/-- `das(var)`: Structure/Sequence print attributes then children; Base/Grid print the attributes of
    positive size only (redundant with `build_attributes` now) and never their members -/
def dasVar : Var → Item
  | .mk .struct n a cs => .cont n (buildAttrs (sortKeys a) ++ dasVars cs)
  | .mk .seq n a cs => .cont n (buildAttrs (sortKeys a) ++ dasVars cs)
  | .mk .base n a _ => .cont n (buildAttrs ((sortKeys a).filter fun kv => sizePos kv.2))
  | .mk .grid n a _ => .cont n (buildAttrs ((sortKeys a).filter fun kv => sizePos kv.2))
def dasVars : List Var → List Item
  | [] => []
  | v :: rest => dasVar v :: dasVars rest
end

def dasItems (ds : Dataset) : List Item := buildAttrs (sortKeys ds.attrs) ++ dasVars ds.children

def indent : Nat → Text
  | 0 => []
  | n + 1 => ' ' :: ' ' :: ' ' :: ' ' :: indent n

/-- `", ".join(values)` -/
def joinVals : List Text → Text
  | [] => []
  | [v] => v
  | v :: rest => v ++ ',' :: ' ' :: joinVals rest

mutual
def renderItem (lvl : Nat) : Item → Text
  | .attr ty name vals => indent lvl ++ ty ++ ' ' :: name ++ ' ' :: joinVals (vals.map encode) ++ [';', '\n']
  | .cont name items => indent lvl ++ name ++ [' ', '{', '\n'] ++ renderItems (lvl + 1) items ++ indent lvl ++ ['}', '\n']
def renderItems (lvl : Nat) : List Item → Text
  | [] => []
  | it :: rest => renderItem lvl it ++ renderItems lvl rest
end

/-- `len(values) == 1` unwrapping -/
def unwrap : List Scalar → AVal
  | [v] => .sc v
  | vs => .list vs

mutual
/-- the (name, value) a DAS node denotes; an attribute with one value denotes a scalar -/
def denoteItem : Item → Text × AVal
  | .attr _ k xs => (k, unwrap xs)
  | .cont n sub => (n, .dict (denoteItems [] sub))
/-- the dict a sequence of DAS nodes denotes, added to `acc` with Python's `d[k] = v` -/
def denoteItems (acc : Dict) : List Item → Dict
  | [] => acc
  | it :: more => denoteItems (dset acc (denoteItem it).1 (denoteItem it).2) more
end

/-- the whole DAS response text -/
def dasText (ds : Dataset) : Text :=
  "Attributes {\n".toList ++ renderItems 1 (dasItems ds) ++ ['}', '\n']

/-! ### regular-expression primitives (`SimpleParser.peek/consume`, flags IGNORECASE|VERBOSE|DOTALL) -/

/-- `\s` / `str.isspace` on ASCII -/
def isSpace (c : Char) : Bool :=
  c == ' ' || c == '\t' || c == '\n' || c == '\r' || c == '\x0b' || c == '\x0c'
    || c == '\x1c' || c == '\x1d' || c == '\x1e' || c == '\x1f'

def lstrip : Text → Text
  | [] => []
  | c :: cs => if isSpace c then lstrip cs else c :: cs

def lowerC (c : Char) : Char := if 'A' ≤ c ∧ c ≤ 'Z' then Char.ofNat (c.toNat + 32) else c
def lower (t : Text) : Text := t.map lowerC

inductive PErr where
  | noMatch      -- `SimpleParser.consume`: "Unable to parse token"
  | literal      -- `ast.literal_eval` rejects the token
  | fuel
deriving DecidableEq, Repr

/-- `takeWhile` / `dropWhile` in one structural pass each -/
def takeNS : Text → Text
  | [] => []
  | c :: cs => if isSpace c then [] else c :: takeNS cs
def dropNS : Text → Text
  | [] => []
  | c :: cs => if isSpace c then c :: cs else dropNS cs

/-- `consume(r"[^\s]+")` (then `lstrip`) -/
def consumeWord (b : Text) : Except PErr (Text × Text) :=
  match takeNS b with
  | [] => .error .noMatch
  | t => .ok (t, lstrip (dropNS b))

/-- `peek(c)` for a one-character literal pattern -/
def peekChar (c : Char) : Text → Bool
  | [] => false
  | x :: _ => x == c

/-- `consume(c)` for a one-character literal pattern (then `lstrip`) -/
def consumeChar (c : Char) : Text → Except PErr Text
  | [] => .error .noMatch
  | x :: rest => if x == c then .ok (lstrip rest) else .error .noMatch

/-- `peek(r"[^\s]+\s+{")`: a run of non-space, a run of space, then `{` -/
def peekContainer (b : Text) : Bool :=
  match takeNS b with
  | [] => false
  | _ => match dropNS b with
    | [] => false
    | _ :: r => peekChar '{' (lstrip r)

/-- case-insensitive literal prefix -/
def dropPrefixCI : Text → Text → Option Text
  | [], b => some b
  | _ :: _, [] => none
  | p :: ps, c :: cs => if lowerC c = p then dropPrefixCI ps cs else none

/-- second alternative `".*?[^\\]"` after the opening quote: shortest run ending in a non-backslash
    character followed by a quote -/
def scanQ : Text → Option (Text × Text)
  | [] => none
  | [_] => none
  | c :: d :: rest =>
    if c ≠ '\\' ∧ d = '"' then some ([c, d], rest)
    else match scanQ (d :: rest) with
      | some (t, r) => some (c :: t, r)
      | none => none

def notSep (c : Char) : Bool := c != ';' && c != ','
def takeVal : Text → Text
  | [] => []
  | c :: cs => if notSep c then c :: takeVal cs else []
def dropVal : Text → Text
  | [] => []
  | c :: cs => if notSep c then dropVal cs else c :: cs

/-- third alternative `[^;,]+` -/
def alt3 (b : Text) : Except PErr (Text × Text) :=
  match takeVal b with
  | [] => .error .noMatch
  | t => .ok (t, dropVal b)

/-- the three-alternative value pattern:  `""` | `".*?[^\\]"` | `[^;,]+`  (token, remaining buffer) -/
def scanValue (b : Text) : Except PErr (Text × Text) :=
  match b with
  | '"' :: '"' :: rest => .ok (['"', '"'], rest)
  | '"' :: rest =>
    match scanQ rest with
    | some (t, r) => .ok ('"' :: t, r)
    | none => alt3 b
  | _ => alt3 b

def dropQ : Text → Text
  | [] => []
  | c :: cs => if c == '"' then dropQ cs else c :: cs

/-- `value.strip('"')` -/
def stripQuotes (t : Text) : Text := (dropQ (dropQ t).reverse).reverse

inductive Lit where
  | int | float | bad
  | str (s : Text)      -- a plain double-quoted Python string literal
deriving DecidableEq, Repr

def plainChar (c : Char) : Bool := c != '"' && c != '\\' && c != '\n' && c != '\r' && c != '\x00'

/-- `"…"` with nothing needing an escape inside: the Python string literal denoting `…` -/
def quotedLit (t : Text) : Option Text :=
  match t with
  | '"' :: rest =>
    match rest.reverse with
    | '"' :: r => if r.all plainChar then some r.reverse else none
    | _ => none
  | _ => none

def isDigit (c : Char) : Bool := '0' ≤ c && c ≤ '9'

def dropDigits : Text → Text
  | [] => []
  | c :: cs => if isDigit c then dropDigits cs else c :: cs

def dropSign : Text → Text
  | '-' :: cs => cs
  | '+' :: cs => cs
  | cs => cs

def rstrip (t : Text) : Text := (lstrip t.reverse).reverse

/-- after the mantissa digits: optional exponent `e[+-]?digits`, then end -/
def expOk : Text → Bool
  | [] => true
  | c :: cs =>
    if c == 'e' || c == 'E' then
      match dropSign cs with
      | [] => false
      | d :: ds => isDigit d && dropDigits ds == []
    else false

/-- classifier standing in for `ast.literal_eval` on number tokens (`%.6g` shapes and the usual
    decimal spellings): int-looking → int, decimal/exponent → float, anything else rejected -/
def literalEval (tok : Text) : Lit :=
  match quotedLit (rstrip tok) with
  | some s => .str s
  | none =>
  match dropSign (rstrip tok) with
  | [] => .bad
  | c :: cs =>
    if isDigit c then
      match dropDigits cs with
      | [] => if c == '0' && !(cs.all (· == '0')) then .bad else .int     -- `007` is a SyntaxError, `000` is 0
      | '.' :: r => if expOk (dropDigits r) then .float else .bad
      | r => if expOk r then .float else .bad
    else if c == '.' then
      match cs with
      | [] => .bad
      | d :: ds => if isDigit d && expOk (dropDigits ds) then .float else .bad
    else .bad

def strTypes : List Text := ["string".toList, "url".toList]
def floatTypes : List Text := ["float32".toList, "float64".toList]
def nanToks : List Text := ["nan".toList, "nan.".toList, "-nan".toList]
def infToks : List Text := ["inf".toList, "inf.".toList]
def ninfToks : List Text := ["-inf".toList, "-inf.".toList]

/-- the per-value conversion in `DASParser.attribute` -/
def convert (ty tok : Text) : Except PErr Scalar :=
  if strTypes.contains (lower ty) then .ok (.str (stripQuotes tok))
  else if nanToks.contains (lower tok) then .ok (.num "nan".toList true)
  else if infToks.contains (lower tok) then .ok (.num "inf".toList true)
  else if ninfToks.contains (lower tok) then .ok (.num "-inf".toList true)
  else match literalEval tok with
    | .bad => .error .literal
    | .str s => if floatTypes.contains (lower ty) then .error .literal else .ok (.str s)
    | .float => .ok (.num tok true)
    | .int => .ok (.num tok (floatTypes.contains (lower ty)))

/-- the `while not self.peek(";")` loop; fuel = buffer length + 1 -/
def values (ty : Text) : Nat → Text → Except PErr (List Scalar × Text)
  | 0, _ => .error .fuel
  | fuel + 1, b =>
    if peekChar ';' b then .ok ([], b)
    else match scanValue b with
      | .error e => .error e
      | .ok (tok, r) =>
        match convert ty tok with
        | .error e => .error e
        | .ok v =>
          let r1 := lstrip r
          let r2 := if peekChar ',' r1 then lstrip (r1.drop 1) else r1
          match values ty fuel r2 with
          | .error e => .error e
          | .ok (vs, r3) => .ok (v :: vs, r3)

/-- `DASParser.attribute` -/
def parseAttribute (b : Text) : Except PErr (Text × AVal × Text) :=
  match consumeWord b with
  | .error e => .error e
  | .ok (ty, b1) =>
    match consumeWord b1 with
    | .error e => .error e
    | .ok (name, b2) =>
      match values ty (b2.length + 1) b2 with
      | .error e => .error e
      | .ok (vs, b3) =>
        match consumeChar ';' b3 with
        | .error e => .error e
        | .ok b4 => .ok (name, unwrap vs, b4)

/-- `DASParser.container` after its opening `{` has been consumed: the `while not peek("}")` loop and
    the closing `consume("}")`.  `acc` is `target`. -/
def items : Nat → Text → Dict → Except PErr (Dict × Text)
  | 0, _, _ => .error .fuel
  | fuel + 1, b, acc =>
    if peekChar '}' b then .ok (acc, lstrip (b.drop 1))
    else if peekContainer b then
      match consumeWord b with
      | .error e => .error e
      | .ok (name, b1) =>
        match consumeChar '{' b1 with
        | .error e => .error e
        | .ok b2 =>
          match items fuel b2 [] with
          | .error e => .error e
          | .ok (sub, b3) => items fuel b3 (dset acc name (.dict sub))
    else
      match parseAttribute b with
      | .error e => .error e
      | .ok (name, v, b1) => items fuel b1 (dset acc name v)

/-- `DASParser.parse` with explicit fuel -/
def parseFuel (fuel : Nat) (t : Text) : Except PErr Dict :=
  match dropPrefixCI "attributes".toList t with
  | none => .error .noMatch
  | some b =>
    match consumeChar '{' (lstrip b) with
    | .error e => .error e
    | .ok b1 =>
      match items fuel b1 [] with
      | .error e => .error e
      | .ok (d, _) => .ok d

/-- `parse_das` -/
def dasParse (t : Text) : Except PErr Dict := parseFuel (t.length + 1) t

/-! ### `add_attributes` (parsers/das.py) -/

inductive AErr where
  | typeError | valueError | attributeError | keyError
deriving DecidableEq, Repr

/-- `operator.getitem` on a parsed value with a string key -/
def getItem (v : AVal) (k : Text) : Except AErr AVal :=
  match v with
  | .dict e => match dget e k with
    | some x => .ok x
    | none => .error .keyError
  | _ => .error .typeError

/-- `reduce(operator.getitem, [attributes] + path)` -/
def reduceGet : AVal → List Text → Except AErr AVal
  | v, [] => .ok v
  | v, k :: ks => match getItem v k with
    | .error e => .error e
    | .ok x => reduceGet x ks

/-- write a dict back at a path of nested dicts (the in-place mutation of `nested`) -/
def setNested : Dict → List Text → Dict → Dict
  | _, [], new => new
  | d, k :: ks, new =>
    match dget d k with
    | some (.dict e) => dset d k (.dict (setNested e ks new))
    | _ => d

def dotted : List Text → Text
  | [] => []
  | [n] => n
  | n :: rest => n ++ '.' :: dotted rest

/-- second half of the loop body (repaired code): the nested-id lookup
    `nested = reduce(getitem, [attributes] + id.split(".")[:-1]); value = nested[k]` — a `KeyError` (no such entry)
    or a `TypeError` (the path runs through a plain attribute: `7["t"]`, `"abc"["t"]`, `[1, 2]["t"]`) means there is
    no container for this variable: `pass`.  Only a container (`isinstance(value, dict)`) is popped and becomes the
    variable's attributes; a plain attribute named like the variable belongs to the parent and stays where it is.
    `va` = the variable's attributes so far.  The step cannot raise any more; `Except` is kept for the line protocol
    (`addAttributes_total` in Proofs/DasTotal.lean: the result is always `.ok`). -/
def nestedStep (attrs1 : Dict) (p : List Text) (va : Dict) : Except AErr (Dict × Dict) :=
  match p.getLast? with
  | none => .ok (attrs1, va)
  | some k =>
    match reduceGet (.dict attrs1) p.dropLast with
    | .error _ => .ok (attrs1, va)                                -- KeyError / TypeError: pass
    | .ok (.dict nested) =>
      match dget nested k with
      | some (.dict e) => .ok (setNested attrs1 p.dropLast (derase nested k), dupdate va e)
      | _ => .ok (attrs1, va)                                     -- KeyError, or a plain attribute: stays
    | .ok _ => .ok (attrs1, va)                                   -- `nested[k]` on a str / list / number: TypeError

/-- the body of the `for var in list(walk(dataset))[::-1]` loop for the variable with id path `p`
    and current attributes `init`; returns the remaining parsed attributes and the variable's attributes -/
def attachStep (attrs : Dict) (p : List Text) (init : Dict) : Except AErr (Dict × Dict) :=
  -- flat: `if isinstance(attributes.get(var.id), dict): var.attributes.update(attributes.pop(var.id))`
  match dget attrs (dotted p) with
  | some (.dict e) => nestedStep (derase attrs (dotted p)) p (dupdate init e)
  | _ => nestedStep attrs p init

/-- fold of the loop over an explicit list of id paths (already in visiting order) -/
def attachAll : Dict → List (List Text) → Except AErr (Dict × List (List Text × Dict))
  | attrs, [] => .ok (attrs, [])
  | attrs, p :: ps =>
    match attachStep attrs p [] with
    | .error e => .error e
    | .ok (attrs1, va) =>
      match attachAll attrs1 ps with
      | .error e => .error e
      | .ok (attrs2, out) => .ok (attrs2, (p, va) :: out)

mutual
/-- `walk(var)` as id paths, pre-order -/
def walkVar (pre : List Text) : Var → List (List Text)
  | .mk _ n _ cs => (pre ++ [n]) :: walkVars (pre ++ [n]) cs
def walkVars (pre : List Text) : List Var → List (List Text)
  | [] => []
  | v :: rest => walkVar pre v ++ walkVars pre rest
end

def globalNames : List Text := ["NC_GLOBAL".toList, "DODS_EXTRA".toList]

def isGlobalDict (kv : Text × AVal) : Bool :=
  match kv.2 with
  | .dict _ => globalNames.contains kv.1
  | _ => false

/-- `global_dict_attrs = {**global_dict_attrs, **attributes.pop(key)}` over the dict-valued
    `NC_GLOBAL` / `DODS_EXTRA` entries in the order they appear -/
def mergeGlobals : Dict → Dict → Dict
  | [], acc => acc
  | (k, .dict e) :: rest, acc =>
    if globalNames.contains k then mergeGlobals rest (dupdate acc e) else mergeGlobals rest acc
  | _ :: rest, acc => mergeGlobals rest acc

structure Attached where
  globals : Dict
  vars : List (List Text × Dict)
deriving Repr

/-- `add_attributes(dataset, attributes)`: `name`/`children` describe the client's dataset (built from
    the DDS, all attributes empty); the dataset itself is the first element of `walk`, hence the last
    one visited, starting from the merged global containers; leftovers are assigned at the end -/
def addAttributes (name : Text) (children : List Var) (attrs : Dict) : Except AErr Attached :=
  let g := mergeGlobals attrs []
  let attrs0 := attrs.filter (fun kv => !isGlobalDict kv)
  match attachAll attrs0 (walkVars [] children).reverse with
  | .error e => .error e
  | .ok (attrs1, vars) =>
    match attachStep attrs1 [name] g with
    | .error e => .error e
    | .ok (attrs2, g1) => .ok ⟨dupdate g1 attrs2, vars⟩

/-- `add_attributes` together with what it leaves in the CALLER's dict: the function pops the NC_GLOBAL/DODS_EXTRA
    containers and every container it attaches out of its argument (`attributes.pop`, `nested.pop`) — it consumes
    the parsed DAS.  Second component = the argument object after the call. -/
def addAttributesRem (name : Text) (children : List Var) (attrs : Dict) : Except AErr (Attached × Dict) :=
  let g := mergeGlobals attrs []
  let attrs0 := attrs.filter (fun kv => !isGlobalDict kv)
  match attachAll attrs0 (walkVars [] children).reverse with
  | .error e => .error e
  | .ok (attrs1, vars) =>
    match attachStep attrs1 [name] g with
    | .error e => .error e
    | .ok (attrs2, g1) => .ok (⟨dupdate g1 attrs2, vars⟩, attrs2)

/-- `DAPHandler.attach_das` (handlers/dap.py): `add_attributes(self.dataset, parse_das(das))` — the DAS text of THIS
    opening is parsed anew, the fresh dict is handed to `add_attributes` and dropped.  What a client holds is a
    function of (dataset tree from the DDS, DAS text) alone. -/
def clientAttach (name : Text) (children : List Var) (das : Text) : Option (Except AErr Attached) :=
  match dasParse das with
  | .error _ => none
  | .ok d => some (addAttributes name children d)

/-- a history of openings (any datasets, any order, texts shared or not): each opening is `clientAttach` of its own
    text; nothing is carried from one opening to the next (there is no parsed-DAS state in the client). -/
def clientHistory (h : List (Text × List Var × Text)) : List (Option (Except AErr Attached)) :=
  h.map fun o => clientAttach o.1 o.2.1 o.2.2

/-- the counterfactual client that keeps ONE parsed dict per DAS text and hands the same object to every
    `add_attributes` (a memoised `parse_das`): the second opening receives what the first one left over -/
def memoSecondOpening (name : Text) (children : List Var) (das : Text) : Option (Except AErr Attached) :=
  match dasParse das with
  | .error _ => none
  | .ok d =>
    match addAttributesRem name children d with
    | .error e => some (.error e)
    | .ok (_, left) => some (addAttributes name children left)

/-- serve, parse, attach -/
def roundTrip (ds : Dataset) : Option (Except AErr Attached) :=
  match dasParse (dasText ds) with
  | .error _ => none
  | .ok d => some (addAttributes ds.name ds.children d)

end Pydap.Das
