/-
  C13 — the request pipeline of handlers/lib.py (`BaseHandler.parse`: copy → apply_selection →
  wrap_arrayterator → apply_projection) and of wsgi/ssf.py (second projection) as a trace of object
  writes, and from it as a program of atomic steps for the machine of `Sched.lean`.

  Objects are references `Ref` carrying the request that allocated them (`own = none` for the served
  dataset).  The model follows the Python method by method (`DapType.__init__`, `_set_id`,
  `StructureType.__setitem__/__delitem__/__copy__/__shallowcopy__`, `BaseType.__copy__/__getitem__`,
  `SequenceType.__getitem__/_set_data`, `GridType.__getitem__`) and logs every slot store and every
  mutation of `_dict`, `_visible_keys`, `attributes` with the reference it goes to.  Data objects
  (numpy arrays, Arrayterators) are never mutated by the pipeline: `copy` clones structure and shares
  data; filtering, slicing and wrapping allocate new data objects.
-/
import PydapModel.Sched
namespace Pydap.HandlerSteps

inductive Kind where
  | structure | dataset | grid | sequence
deriving DecidableEq, Repr

def Kind.cls : Kind → String
  | .structure => "StructureType"
  | .dataset => "DatasetType"
  | .grid => "GridType"
  | .sequence => "SequenceType"

/-- an object: who allocated it (`none` = the served dataset), where, for which variable -/
structure Ref where
  own : Option Nat
  site : String
  id : String
deriving DecidableEq, Repr

mutual
/-- a DAP object tree: `r` the object itself (with its `_dict` and `_visible_keys`), `a` its
    attributes dict, `d` its data object -/
inductive Node where
  | base (r a d : Ref) (name : String) (arr : Bool)
  | cont (k : Kind) (r a d : Ref) (name : String) (vis : List String) (kids : Kids)
inductive Kids where
  | nil
  | cons (n : Node) (ks : Kids)
end

/-- one logged store: pipeline stage, class and field of the object written, the object, what was read -/
structure Ev where
  stage : String
  cls : String
  field : String
  target : Ref
  reads : List Ref
deriving Repr

def Node.ref : Node → Ref
  | .base r _ _ _ _ => r
  | .cont _ r _ _ _ _ _ => r

def Node.name : Node → String
  | .base _ _ _ n _ => n
  | .cont _ _ _ _ n _ _ => n

def Node.vis : Node → List String
  | .base .. => []
  | .cont _ _ _ _ _ v _ => v

def Node.isGrid : Node → Bool
  | .cont .grid .. => true
  | _ => false

def Node.kids : Node → Kids
  | .base .. => .nil
  | .cont _ _ _ _ _ _ ks => ks

def Kids.toList : Kids → List Node
  | .nil => []
  | .cons n ks => n :: ks.toList

def Kids.ofList : List Node → Kids
  | [] => .nil
  | n :: ns => .cons n (Kids.ofList ns)

def Kids.find? (name : String) : Kids → Option Node
  | .nil => none
  | .cons n ks => if n.name = name then some n else ks.find? name

/-- `node[name]` (`_getitem_string`: looked up in `_dict`, hidden children included) -/
def Node.child? (n : Node) (name : String) : Option Node := n.kids.find? name

def ev (st cls field : String) (target : Ref) (reads : List Ref := []) : Ev := ⟨st, cls, field, target, reads⟩

/-- `DapType.__init__`: name, attributes (+ `attributes.update(kwargs)` on the dict), `_id` -/
def initDap (st cls : String) (r a : Ref) (src : List Ref) : List Ev :=
  [ev st cls "name" r src, ev st cls "attributes" r src, ev st "dict" "attributes" a src, ev st cls "_id" r src]

def baseSlots : List String := ["_data", "dims", "_dtype", "_shape", "_itemsize", "_nbytes"]

/-- `BaseType.__init__` -/
def initBase (st : String) (r a : Ref) (src : List Ref) : List Ev :=
  initDap st "BaseType" r a src ++ baseSlots.map (fun f => ev st "BaseType" f r src)

def kindSlots : Kind → List String
  | .structure => []
  | .dataset => ["_session"]
  | .grid => ["_output_grid"]
  | .sequence => ["_data"]

/-- `StructureType.__init__` and the subclass constructors -/
def initCont (st : String) (k : Kind) (r a : Ref) (src : List Ref) : List Ev :=
  initDap st k.cls r a src ++ (["_visible_keys", "_dict"] ++ kindSlots k).map (fun f => ev st k.cls f r src)

def Node.clsName : Node → String
  | .base .. => "BaseType"
  | .cont k .. => k.cls

mutual
/-- `_set_id`: the object's `_id`, then recursively every *visible* child -/
def setId (st : String) : Node → List Ev
  | .base r _ _ _ _ => [ev st "BaseType" "_id" r]
  | .cont k r _ _ _ vis ks => ev st k.cls "_id" r :: setIdKids st vis ks
def setIdKids (st : String) (vis : List String) : Kids → List Ev
  | .nil => []
  | .cons n ks => (if n.name ∈ vis then setId st n else []) ++ setIdKids st vis ks
end

/-- `container[name] = child` when the key is new: `_dict`, `_visible_keys`, then the child's id -/
def setItem (st : String) (target : Ref) (child : Node) : List Ev :=
  [ev st "dict" "_dict" target, ev st "list" "_visible_keys" target] ++ setId st child

/-- `del container[name]` -/
def delItem (st : String) (target : Ref) : List Ev :=
  [ev st "dict" "_dict" target, ev st "list" "_visible_keys" target]

def fresh (t : Nat) (st : String) (old : Ref) : Ref := ⟨some t, st, old.id⟩

mutual
/-- `copy.copy(node)`: `BaseType.__copy__` / `StructureType.__copy__` — new objects and new attribute
    dicts for the whole subtree (hidden children included, all visible in the copy), data shared -/
def copyNode (t : Nat) (st : String) : Node → Node × List Ev
  | .base r a d name arr =>
    let r' := fresh t st r
    let a' := fresh t st a
    (.base r' a' d name arr, initBase st r' a' [r, a] ++ [ev st "BaseType" "_id" r' [r]])
  | .cont k r a d name _ ks =>
    let r' := fresh t st r
    let a' := fresh t st a
    let res := copyKids t st r' ks
    (.cont k r' a' d name (res.1.toList.map Node.name) res.1,
     initCont st k r' a' [r, a] ++ [ev st k.cls "_id" r' [r]] ++ res.2)
/-- the loop `for child in self._dict.values(): out[child.name] = copy.copy(child)` -/
def copyKids (t : Nat) (st : String) (parent : Ref) : Kids → Kids × List Ev
  | .nil => (.nil, [])
  | .cons n ks =>
    let c := copyNode t st n
    let rest := copyKids t st parent ks
    (.cons c.1 rest.1, c.2 ++ setItem st parent c.1 ++ rest.2)
end

/-- `__shallowcopy__` (children not cloned) -/
def shallowCopy (t : Nat) (st : String) : Node → Node × List Ev
  | .base r a d name arr => copyNode t st (.base r a d name arr)
  | .cont k r a d name _ _ =>
    let r' := fresh t st r
    let a' := fresh t st a
    (.cont k r' a' d name [] .nil, initCont st k r' a' [r, a] ++ [ev st k.cls "_id" r' [r]])

/-- `degenerate_grid_to_structure`: a fresh StructureType that keeps the candidate's attribute dict -/
def degenerate (t : Nat) (st : String) : Node → Node × List Ev
  | .cont .grid r a d name _ _ =>
    let r' : Ref := ⟨some t, st ++ "/degenerate", r.id⟩
    (.cont .structure r' a d name [] .nil, initCont st .structure r' a [r])
  | n => (n, [])

mutual
/-- visible children, in `_visible_keys` membership (order of `_dict`; only counts matter here) -/
def visKids (vis : List String) : Kids → List Node
  | .nil => []
  | .cons n ks => (if n.name ∈ vis then [n] else []) ++ visKids vis ks
end

mutual
/-- `_set_data` fan-out used by `SequenceType._set_data` / `StructureType._set_data` / the Grid slice loop:
    every visible child gets a new data object -/
def setKidsData (t : Nat) (st : String) (vis : List String) (src : List Ref) : Kids → Kids × List Ev
  | .nil => (.nil, [])
  | .cons n ks =>
    let rest := setKidsData t st vis src ks
    match n with
    | .base r a d name arr =>
      if name ∈ vis then
        (.cons (.base r a ⟨some t, st, d.id⟩ name arr) rest.1, ev st "BaseType" "_data" r (d :: src) :: rest.2)
      else (.cons n rest.1, rest.2)
    | other => (.cons other rest.1, rest.2)
end

/-- `seq.data = …` (`SequenceType._set_data`): the sequence's `_data`, then every visible child's -/
def setSeqData (t : Nat) (st : String) (src : List Ref) : Node → Node × List Ev
  | .cont k r a d name vis ks =>
    let res := setKidsData t st vis (d :: src) ks
    (.cont k r a ⟨some t, st, d.id⟩ name vis res.1, ev st k.cls "_data" r (d :: src) :: res.2)
  | n => (n, [])

/-- one selection clause on one sequence: `seq.data = seq[op(id1, id2)].data` -/
def selectOnce (t : Nat) (seq : Node) : Node × List Ev :=
  let c := copyNode t "selection" seq              -- `out = copy.copy(self)`
  let f := setSeqData t "selection" [] c.1          -- `out.data = self.data[key]`
  let s := setSeqData t "selection" [] seq          -- `seq.data = (that).data`
  (s.1, c.2 ++ f.2 ++ s.2)

def selectN (t : Nat) : Nat → Node → Node × List Ev
  | 0, n => (n, [])
  | k + 1, n =>
    let a := selectOnce t n
    let b := selectN t k a.1
    (b.1, a.2 ++ b.2)

mutual
/-- `apply_selection`: every visible sequence (walk order) gets the clauses that name it;
    `clauses id` = number of clauses matching the sequence with that id -/
def applySelection (t : Nat) (clauses : String → Nat) : Node → Node × List Ev
  | .base r a d name arr => (.base r a d name arr, [])
  | .cont k r a d name vis ks =>
    -- (a sequence's children are BaseType columns: nothing below it is walked)
    if k = .sequence then selectN t (clauses r.id) (.cont k r a d name vis ks)
    else
      let res := applySelectionKids t clauses vis ks
      (.cont k r a d name vis res.1, res.2)
def applySelectionKids (t : Nat) (clauses : String → Nat) (vis : List String) : Kids → Kids × List Ev
  | .nil => (.nil, [])
  | .cons n ks =>
    let c := if n.name ∈ vis then applySelection t clauses n else (n, [])
    let rest := applySelectionKids t clauses vis ks
    (.cons c.1 rest.1, c.2 ++ rest.2)
end

mutual
/-- `wrap_arrayterator`: every visible BaseType whose data has a shape gets `var.data = Arrayterator(var.data, n)` -/
def wrap (t : Nat) : Node → Node × List Ev
  | .base r a d name arr =>
    if arr then (.base r a ⟨some t, "wrap", d.id⟩ name arr, [ev "wrap" "BaseType" "_data" r [d]])
    else (.base r a d name arr, [])
  | .cont k r a d name vis ks =>
    let res := wrapKids t vis ks
    (.cont k r a d name vis res.1, res.2)
def wrapKids (t : Nat) (vis : List String) : Kids → Kids × List Ev
  | .nil => (.nil, [])
  | .cons n ks =>
    let c := if n.name ∈ vis then wrap t n else (n, [])
    let rest := wrapKids t vis ks
    (.cons c.1 rest.1, c.2 ++ rest.2)
end

/-! ### apply_projection -/

def Kids.remove (name : String) : Kids → Kids
  | .nil => .nil
  | .cons n ks => if n.name = name then ks.remove name else .cons n (ks.remove name)

def Kids.snoc : Kids → Node → Kids
  | .nil, c => .cons c .nil
  | .cons n ks, c => .cons n (ks.snoc c)

/-- `container[c.name] = c` on the model tree (delete first when the key is visible) -/
def insertChild (c : Node) : Node → Node
  | .cont k r a d name vis ks =>
    if c.name ∈ vis then .cont k r a d name (vis.filter (· ≠ c.name) ++ [c.name]) ((ks.remove c.name).snoc c)
    else .cont k r a d name (vis ++ [c.name]) ((ks.remove c.name).snoc c)
  | n => n

mutual
/-- apply `f` to the node reached by following `path` through `_dict` -/
def updateAt (f : Node → Node) : List String → Node → Node
  | [], n => f n
  | p :: ps, .cont k r a d name vis ks => .cont k r a d name vis (updateKids f p ps ks)
  | _ :: _, n => n
def updateKids (f : Node → Node) (p : String) (ps : List String) : Kids → Kids
  | .nil => .nil
  | .cons n ks => if n.name = p then .cons (updateAt f ps n) ks else .cons n (updateKids f p ps ks)
end

def nodeAt : List String → Node → Option Node
  | [], n => some n
  | p :: ps, n => match n.child? p with
    | some c => nodeAt ps c
    | none => none

/-- `target[name] = child` including the `if key in self: del self[key]` of `__setitem__` -/
def setItemFull (st : String) (target : Node) (child : Node) : List Ev :=
  (if child.name ∈ target.vis then delItem st target.ref else []) ++ setItem st target.ref child

abbrev Path := List (String × Bool)

/-- first loop of `apply_projection` for one projection path -/
def collect (t : Nat) (st : String) : Path → (out : Node) → (pre : List String) → (template : Node) → Node × List Ev
  | [], out, _, _ => (out, [])
  | (name, _) :: rest, out, pre, template =>
    match template.child? name, nodeAt pre out with
    | some cand, some target =>
      match cand with
      | .base .. =>
        -- fix e9f11ba: `elif isinstance(target, GridType) and name in target.keys(): pass` — a member named again
        -- after its grid was collected whole stays where it is (no `del`, no `__setitem__`)
        if target.isGrid && decide (name ∈ target.vis) then collect t st rest out pre template
        else
          let r := collect t st rest (updateAt (insertChild cand) pre out) pre template
          (r.1, setItemFull st target cand ++ r.2)
      | .cont .. =>
        if name ∈ target.vis then collect t st rest out (pre ++ [name]) cand
        else if rest.isEmpty then
          let r := collect t st rest (updateAt (insertChild cand) pre out) (pre ++ [name]) cand
          (r.1, setItemFull st target cand ++ r.2)
        else
          let s := shallowCopy t st cand
          let g := degenerate t st s.1
          let r := collect t st rest (updateAt (insertChild g.1) pre out) (pre ++ [name]) cand
          (r.1, s.2 ++ g.2 ++ setItemFull st target g.1 ++ r.2)
    | _, _ => (out, [])

def collectAll (t : Nat) (st : String) (template : Node) : List Path → Node → Node × List Ev
  | [], out => (out, [])
  | p :: ps, out =>
    let a := collect t st p out [] template
    let b := collectAll t st template ps a.1
    (b.1, a.2 ++ b.2)

mutual
/-- one BaseType child of `seq[tuple(keys)]` : `out[name] = copy.copy(child)` on the new sequence `parent` -/
def tupleKids (t : Nat) (st : String) (parent : Ref) (vis : List String) : Kids → Kids × List Ev
  | .nil => (.nil, [])
  | .cons n ks =>
    let rest := tupleKids t st parent vis ks
    if n.name ∈ vis then
      let c := copyNode t st n
      (.cons c.1 rest.1, c.2 ++ setItem st parent c.1 ++ rest.2)
    else rest
end

/-- second loop of `apply_projection` for one sequence of `out`:
    `seq.data = get_var(dataset, seq.id)[tuple(seq.keys())].data` -/
def fixSeq (t : Nat) (st : String) : Node → Node × List Ev
  | .cont k r a d name vis ks =>
    let r' : Ref := ⟨some t, st ++ "/tuple", r.id⟩
    let a' : Ref := ⟨some t, st ++ "/tuple", a.id⟩
    let tk := tupleKids t st r' vis ks
    let tmp : Node := .cont k r' a' d name vis tk.1
    let f := setSeqData t st [] tmp
    let s := setSeqData t st [] (.cont k r a d name vis ks)
    (s.1, initCont st k r' a' [r, a] ++ tk.2 ++ f.2 ++ s.2)
  | n => (n, [])

mutual
def fixSeqs (t : Nat) (st : String) : Node → Node × List Ev
  | .base r a d name arr => (.base r a d name arr, [])
  | .cont k r a d name vis ks =>
    if k = .sequence then fixSeq t st (.cont k r a d name vis ks)
    else
      let res := fixSeqsKids t st vis ks
      (.cont k r a d name vis res.1, res.2)
def fixSeqsKids (t : Nat) (st : String) (vis : List String) : Kids → Kids × List Ev
  | .nil => (.nil, [])
  | .cons n ks =>
    let c := if n.name ∈ vis then fixSeqs t st n else (n, [])
    let rest := fixSeqsKids t st vis ks
    (.cons c.1 rest.1, c.2 ++ rest.2)
end

/-- `target[slice]` for the three sliceable classes, then the store back
    (`target.data = …` for a BaseType, `parent[name] = …` for Sequence and Grid) -/
def sliceNode (t : Nat) (st : String) (parent : Node) : Node → Node × List Ev
  | .base r a d name arr =>
    let c := copyNode t st (.base r a d name arr)
    (.base r a ⟨some t, st, d.id⟩ name arr,
     c.2 ++ [ev st "BaseType" "_data" c.1.ref [d], ev st "BaseType" "_data" r [d]])
  | .cont k r a d name vis ks =>
    if k = .sequence then
      let c := copyNode t st (.cont k r a d name vis ks)
      let f := setSeqData t st [] c.1
      (f.1, c.2 ++ f.2 ++ setItemFull st parent f.1)
    else if k = .grid then
      let c := copyNode t st (.cont k r a d name vis ks)
      let f := setKidsData t st c.1.vis [] c.1.kids
      let g : Node := match c.1 with
        | .cont k' r' a' d' n' v' _ => .cont k' r' a' d' n' v' f.1
        | other => other
      (g, c.2 ++ f.2 ++ setItemFull st parent g)
    else (.cont k r a d name vis ks, [])

/-- third loop of `apply_projection` for one path -/
def applySlices (t : Nat) (st : String) : Path → (out : Node) → (pre : List String) → Node × List Ev
  | [], out, _ => (out, [])
  | (name, sl) :: rest, out, pre =>
    match nodeAt pre out with
    | some parent =>
      match parent.child? name with
      | some target =>
        if sl then
          let s := sliceNode t st parent target
          let r := applySlices t st rest (updateAt (insertChild s.1) pre out) (pre ++ [name])
          (r.1, s.2 ++ r.2)
        else applySlices t st rest out (pre ++ [name])
      | none => (out, [])
    | none => (out, [])

def applySlicesAll (t : Nat) (st : String) : List Path → Node → Node × List Ev
  | [], out => (out, [])
  | p :: ps, out =>
    let a := applySlices t st p out []
    let b := applySlicesAll t st ps a.1
    (b.1, a.2 ++ b.2)

/-- `apply_projection(projection, dataset)` -/
def applyProjection (t : Nat) (st : String) (proj : List Path) (ds : Node) : Node × List Ev :=
  match ds with
  | .cont _ r a d name _ _ =>
    -- `DatasetType(name=dataset.name, attributes=dataset.attributes)`: the attribute dict is the copy's
    let r' : Ref := ⟨some t, st ++ "/out", r.id⟩
    let out0 : Node := .cont .dataset r' a d name [] .nil
    let c := collectAll t st ds proj out0
    let f := fixSeqs t st c.1
    let s := applySlicesAll t st proj f.1
    (s.1, initCont st .dataset r' a [r] ++ c.2 ++ f.2 ++ s.2)
  | n => (n, [])

/-- a well-formed request as the pipeline sees it after `parse_ce` / `fix_shorthand` -/
structure Req where
  proj : List Path               -- projection paths, `true` = the component carries a hyperslab
  clauses : List String          -- for every non-function selection clause: the id of the sequence it names
  isFunc : Bool                  -- the request calls server-side functions (ssf.py path)
  proj2 : List Path              -- ssf.py: the non-function part of the projection, applied to the inner result

def allPaths : Node → List Path
  | n => n.vis.map (fun k => [(k, false)])

/-- `BaseHandler.parse` followed, for function requests, by the second projection of ssf.py -/
def pipeline (t : Nat) (ds : Node) (q : Req) : Node × List Ev :=
  let c := copyNode t "copy" ds
  let s := applySelection t (fun id => q.clauses.count id) c.1
  let w := wrap t s.1
  let p1 := if q.isFunc || q.proj.isEmpty then allPaths w.1 else q.proj
  let p := applyProjection t "projection" p1 w.1
  if q.isFunc && !q.proj2.isEmpty then
    let p2 := applyProjection t "ssf-projection" q.proj2 p.1
    (p2.1, c.2 ++ s.2 ++ w.2 ++ p.2 ++ p2.2)
  else if q.isFunc && !q.proj.isEmpty then
    let p2 := applyProjection t "ssf-projection" [] p.1
    (p2.1, c.2 ++ s.2 ++ w.2 ++ p.2 ++ p2.2)
  else (p.1, c.2 ++ s.2 ++ w.2 ++ p.2)

mutual
/-- every object and data object reachable from a tree (what response construction and block emission read) -/
def allRefs : Node → List Ref
  | .base r a d _ _ => [r, a, d]
  | .cont _ r a d _ _ ks => [r, a, d] ++ allRefsKids ks
def allRefsKids : Kids → List Ref
  | .nil => []
  | .cons n ks => allRefs n ++ allRefsKids ks
end

/-! ### the pipeline as a thread program for `Sched` -/

open Pydap.Sched

/-- abstract values: the provenance of a cell (which shared cells it was computed from) -/
abbrev Val := List String

/-- a logged store as an atomic step: reads what the store reads, writes its target; the stored value is
    derived from the values read (dataflow) and tagged with the field -/
def Ev.toStep (e : Ev) : Step Ref Val Val String :=
  { reads := e.reads, writes := [e.target],
    act := fun vs => .ok ([(e.cls ++ "." ++ e.field) :: vs.flatten], []) }

/-- response construction + block emission: reads the constrained dataset and its data, writes the
    request's own response object, outputs what it read -/
def emitStep (t : Nat) (out : Node) : Step Ref Val Val String :=
  { reads := allRefs out, writes := [⟨some t, "response", ""⟩],
    act := fun vs => .ok ([vs.flatten], vs) }

/-- the program of request `q` running as thread `t` against the served dataset `ds` -/
def program (ds : Node) (t : Nat) (q : Req) : List (Step Ref Val Val String) :=
  let p := pipeline t ds q
  p.2.map Ev.toStep ++ [emitStep t p.1]

end Pydap.HandlerSteps
