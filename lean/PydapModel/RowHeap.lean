/-
  C13 — the records a lazy sequence's source holds, as OBJECTS, and the maps `IterData` runs over them
  (handlers/lib.py: `build_filter` → nested `recurse`, `fix_nested`, `deep_map(itemgetter(col), 1)`,
  `IterData.__iter__`, `IterData.dtype`).

  The value-level model of the same functions (`PydapModel/IterNest.lean`, C17/C04) says WHAT the maps compute.
  This one says WHERE they write: a record is an object of some representation — a tuple, a list (what
  `csv.reader` / `json.load` produce), a numpy record (`numpy.void`, a writeable view of its array) — living in
  one of two regions:

    `src`  the objects the served dataset holds (the stream of `IterData`, the records, their lists of inner
           records, the inner records); shared by every request,
    `own`  the objects the running request has allocated so far.

  `obj[i] = v` (`RHeap.store`) is defined on BOTH regions and on every mutable representation, exactly like
  Python's: nothing in the machine prevents a store into a source record.  That the code as written never does
  one is a theorem (`Props/C13.lean`, `C13_nested_filter_*`), not a feature of the model; `recurseWith` takes
  the copy policy as a parameter so that the pinned code (`row = list(row)`, always) and the variant that skips
  the copy for rows that are not tuples are the same function at two arguments.

  Every function returns the heap and the log of stores it reached even when it raises (`Out.val = .error _`):
  a Python exception does not undo what was stored before it.
-/
namespace Pydap.RowHeap

inductive Err where
  | typeError | indexError | stopIteration
deriving DecidableEq, Repr

/-- how a container object is represented -/
inductive Rep where
  | tuple      -- immutable
  | list       -- mutable
  | nprec      -- `numpy.void`: item assignment writes the array it is a view of
  | iterdata   -- an `IterData` wrapper made by `fix_nested` (holds the cell it wraps)
deriving DecidableEq, Repr

inductive Loc where
  | src (i : Nat)
  | own (i : Nat)
deriving DecidableEq, Repr

inductive PVal where
  | atom (a : Int)
  | ref (l : Loc)
deriving DecidableEq, Repr

structure PObj where
  rep : Rep
  items : List PVal
deriving DecidableEq, Repr

structure RHeap where
  src : List PObj
  own : List PObj
deriving DecidableEq, Repr

def RHeap.get (h : RHeap) : Loc → Option PObj
  | .src i => h.src[i]?
  | .own i => h.own[i]?

/-- `list(x)`, `for c in x`, `zip(x, …)`, `tuple(x)`: the items of a container whatever its representation;
    iterating a number raises `TypeError` -/
def RHeap.items (h : RHeap) : PVal → Except Err (List PVal)
  | .atom _ => .error .typeError
  | .ref l => match h.get l with
    | some o => .ok o.items
    | none => .error .typeError

/-- a new object of the running request -/
def RHeap.alloc (h : RHeap) (o : PObj) : RHeap × Loc := (⟨h.src, h.own ++ [o]⟩, .own h.own.length)

def setObj (o : PObj) (i : Nat) (v : PVal) : Except Err PObj :=
  if o.rep = .tuple ∨ o.rep = .iterdata then .error .typeError
  else if i < o.items.length then .ok ⟨o.rep, o.items.set i v⟩
  else .error .indexError

/-- `obj[i] = v` on whatever object `l` names — a source record included -/
def RHeap.store (h : RHeap) (l : Loc) (i : Nat) (v : PVal) : Except Err RHeap :=
  match l with
  | .src a => match h.src[a]? with
    | none => .error .typeError
    | some o => match setObj o i v with
      | .error e => .error e
      | .ok o' => .ok ⟨h.src.set a o', h.own⟩
  | .own a => match h.own[a]? with
    | none => .error .typeError
    | some o => match setObj o i v with
      | .error e => .error e
      | .ok o' => .ok ⟨h.src, h.own.set a o'⟩

/-- one logged store `target[index] = …` with the objects whose items were read to compute it -/
structure Store where
  target : Loc
  index : Nat
  reads : List Loc
deriving DecidableEq, Repr

/-- what an evaluation leaves behind: the heap and the stores reached, and the value or the exception -/
structure Out (α : Type) where
  heap : RHeap
  log : List Store
  val : Except Err α

def Out.ok? {α : Type} (o : Out α) : Option α :=
  match o.val with
  | .ok v => some v
  | .error _ => none

def Out.err? {α : Type} (o : Out α) : Option Err :=
  match o.val with
  | .ok _ => none
  | .error e => some e

/-! ### the clause -/

inductive Op where
  | lt | le | gt | ge | eq | ne
deriving DecidableEq, Repr

def Op.test : Op → Int → Int → Bool
  | .lt, x, y => x < y
  | .le, x, y => x ≤ y
  | .gt, x, y => x > y
  | .ge, x, y => x ≥ y
  | .eq, x, y => x == y
  | .ne, x, y => x != y

inductive Rhs where
  | lit (a : Int)
  | col (i : Nat)
deriving DecidableEq, Repr

/-- `op(a(rec), b(rec))`, `a = itemgetter(col)`, `b` = a literal or `itemgetter(col2)` -/
structure Pred where
  col : Nat
  op : Op
  rhs : Rhs
deriving DecidableEq, Repr

/-- `operator.itemgetter(i)(v)` -/
def getItem (h : RHeap) (v : PVal) (i : Nat) : Except Err PVal :=
  match h.items v with
  | .error e => .error e
  | .ok xs => match xs[i]? with
    | some x => .ok x
    | none => .error .indexError

/-- a container against a number: `==` is false, `!=` true, an ordering raises; container against container is
    outside the model (the generators never produce it) and raises here -/
def cmpVals (op : Op) : PVal → PVal → Except Err Bool
  | .atom x, .atom y => .ok (op.test x y)
  | .ref _, .ref _ => .error .typeError
  | _, _ => match op with
    | .eq => .ok false
    | .ne => .ok true
    | _ => .error .typeError

def evalPred (h : RHeap) (p : Pred) (r : PVal) : Except Err Bool :=
  match getItem h r p.col with
  | .error e => .error e
  | .ok x => match p.rhs with
    | .lit a => cmpVals p.op x (.atom a)
    | .col j => match getItem h r j with
      | .error e => .error e
      | .ok y => cmpVals p.op x y

/-- `[col for col in row if op(a(col), b(col))]`: in order, the first failing test raises -/
def filterRecs (h : RHeap) (p : Pred) : List PVal → Except Err (List PVal)
  | [] => .ok []
  | r :: rs => match evalPred h p r with
    | .error e => .error e
    | .ok b => match filterRecs h p rs with
      | .error e => .error e
      | .ok rest => .ok (if b then r :: rest else rest)

def locsOf : PVal → List Loc
  | .atom _ => []
  | .ref l => [l]

def repOf (h : RHeap) : PVal → Option Rep
  | .atom _ => none
  | .ref l => (h.get l).map (·.rep)

/-! ### `recurse(row, [n, x], template)`

```
token = tokens.pop(0)                       # n ; tokens = [x] is not empty
col = list(target._all_keys()).index(token)
row = list(row)                             # (A) a NEW list with the cells of the row
row[col] = recurse(row[col], tokens, target)# (B) inner call: a NEW list of the records that pass; (C) the store
return tuple(row)                           # (D) a NEW tuple
```
`copy rep` says whether (A) is executed for a row of representation `rep`; the code as it exists copies always. -/
def copies (copy : Rep → Bool) (h : RHeap) (row : PVal) : Bool :=
  match repOf h row with
  | some r => copy r
  | none => true

def recurseWith (copy : Rep → Bool) (h : RHeap) (col : Nat) (p : Pred) (row : PVal) : Out PVal :=
  match h.items row with
  | .error e => ⟨h, [], .error e⟩
  | .ok cells =>
    -- (A)
    let a := if copies copy h row then h.alloc ⟨.list, cells⟩ else (h, match row with | .ref l => l | .atom _ => .own 0)
    match cells[col]? with
    | none => ⟨a.1, [], .error .indexError⟩
    | some cell =>
      -- (B)
      match a.1.items cell with
      | .error e => ⟨a.1, [], .error e⟩
      | .ok recs =>
        match filterRecs a.1 p recs with
        | .error e => ⟨a.1, [], .error e⟩
        | .ok kept =>
          let b := a.1.alloc ⟨.list, kept⟩
          -- (C)
          match b.1.store a.2 col (.ref b.2) with
          | .error e => ⟨b.1, [], .error e⟩
          | .ok h3 =>
            let st : Store := ⟨a.2, col, locsOf row ++ locsOf cell⟩
            -- (D)
            match h3.items (.ref a.2) with
            | .error e => ⟨h3, [st], .error e⟩
            | .ok cells' =>
              let d := h3.alloc ⟨.tuple, cells'⟩
              ⟨d.1, [st], .ok (.ref d.2)⟩

/-- the pinned code: `row = list(row)` unconditionally -/
def recurse (h : RHeap) (col : Nat) (p : Pred) (row : PVal) : Out PVal :=
  recurseWith (fun _ => true) h col p row

/-- the variant `if isinstance(row, tuple): row = list(row)` -/
def recurseTupleOnly (h : RHeap) (col : Nat) (p : Pred) (row : PVal) : Out PVal :=
  recurseWith (fun r => r = .tuple) h col p row

/-! ### the other maps of a served nested sequence -/

/-- `fix_nested(template)`: `tuple(IterData(col, child) if isinstance(child, SequenceType) else col
    for col, child in zip(row, template.children()))` — new wrapper objects and a new tuple, no store -/
def fixCells (h : RHeap) : List Bool → List PVal → RHeap × List PVal
  | [], _ => (h, [])
  | _ :: _, [] => (h, [])
  | false :: fs, c :: cs =>
    let r := fixCells h fs cs
    (r.1, c :: r.2)
  | true :: fs, c :: cs =>
    let a := h.alloc ⟨.iterdata, [c]⟩
    let r := fixCells a.1 fs cs
    (r.1, .ref a.2 :: r.2)

inductive RMap where
  | nest (col : Nat) (p : Pred)          -- `m` of a clause on a column of the nested sequence at position `col`
  | ident                                -- `m` of a clause on an outer column
  | fixNested (isSeq : List Bool)        -- per child of the template: is it a sequence
  | item (col : Nat)                     -- `deep_map(itemgetter(col), 1)`
deriving DecidableEq, Repr

def applyMap (m : RMap) (h : RHeap) (v : PVal) : Out PVal :=
  match m with
  | .nest col p => recurse h col p v
  | .ident => ⟨h, [], .ok v⟩
  | .fixNested fl =>
    match h.items v with
    | .error e => ⟨h, [], .error e⟩
    | .ok cells =>
      let r := fixCells h fl cells
      let d := r.1.alloc ⟨.tuple, r.2⟩
      ⟨d.1, [], .ok (.ref d.2)⟩
  | .item col =>
    match getItem h v col with
    | .error e => ⟨h, [], .error e⟩
    | .ok x => ⟨h, [], .ok x⟩

/-- `for m in self.imap: data = map(m, data)` on one record -/
def applyMaps : List RMap → RHeap → PVal → Out PVal
  | [], h, v => ⟨h, [], .ok v⟩
  | m :: ms, h, v =>
    let a := applyMap m h v
    match a.val with
    | .error e => ⟨a.heap, a.log, .error e⟩
    | .ok v' =>
      let b := applyMaps ms a.heap v'
      ⟨b.heap, a.log ++ b.log, b.val⟩

/-- `IterData.dtype`: `data = iter(self.stream); for m in self.imap: data = map(m, data); next(data)` — the maps
    run on the FIRST SOURCE RECORD, whatever the filters and slices of the stream -/
def dtypePeek (maps : List RMap) (h : RHeap) : List PVal → Out PVal
  | [] => ⟨h, [], .error .stopIteration⟩
  | r :: _ => applyMaps maps h r

/-- Python truthiness of a cell: a number is true when it is not 0, a container when it is not empty -/
def truthyObj (h : RHeap) : PVal → Bool
  | .atom a => a != 0
  | .ref l => match h.get l with
    | some o => !o.items.isEmpty
    | none => true

/-- `filter(bool, data)`: the `f` of a nested clause.  A tuple or list record is dropped when it has no cells; a
    numpy record is true when any of its fields is (numpy's rule: a record of zeros and empty lists is dropped) -/
def truthy (h : RHeap) : PVal → Bool
  | .atom a => a != 0
  | .ref l => match h.get l with
    | some o => if o.rep = .nprec then o.items.any (truthyObj h) else !o.items.isEmpty
    | none => true

/-- entries of `ifilter` -/
inductive RFilt where
  | cmp (p : Pred)      -- `f(row) = op(a(row), b(row))` of a clause on an outer column (`m` is the identity)
  | truthy              -- `f = bool` of a clause on a column of a nested sequence
deriving DecidableEq, Repr

def evalFilt (h : RHeap) : RFilt → PVal → Except Err Bool
  | .cmp p, v => evalPred h p v
  | .truthy, v => .ok (truthy h v)

/-- `for f in self.ifilter: data = filter(f, data)`: a record reaches the next filter only when it passed this one -/
def evalFilts (h : RHeap) : List RFilt → PVal → Except Err Bool
  | [], _ => .ok true
  | f :: fs, v => match evalFilt h f v with
    | .error e => .error e
    | .ok false => .ok false
    | .ok true => evalFilts h fs v

/-- `list(iter(self))` without record ranges: the records that pass every filter, each through all the maps, in
    order; the first exception (in a filter or in a map) ends the iteration.  Filters only read. -/
def iterAll (filts : List RFilt) (maps : List RMap) : RHeap → List PVal → Out (List PVal)
  | h, [] => ⟨h, [], .ok []⟩
  | h, r :: rs =>
    match evalFilts h filts r with
    | .error e => ⟨h, [], .error e⟩
    | .ok false => iterAll filts maps h rs
    | .ok true =>
      let a := applyMaps maps h r
      match a.val with
      | .error e => ⟨a.heap, a.log, .error e⟩
      | .ok v =>
        let b := iterAll filts maps a.heap rs
        ⟨b.heap, a.log ++ b.log, b.val.map (v :: ·)⟩

/-- one request on a served nested lazy sequence, as far as the source records are concerned: the type lookup
    (`peeks` times: once per inner column a response declares; the filters are NOT applied there) followed by the
    iteration that streams the data -/
def serveRows (filts : List RFilt) (maps : List RMap) (h : RHeap) (stream : List PVal) : Nat → Out (List PVal)
  | 0 => iterAll filts maps h stream
  | k + 1 =>
    let a := dtypePeek maps h stream
    match a.val with
    | .error e => ⟨a.heap, a.log, .error e⟩
    | .ok _ =>
      let b := serveRows filts maps a.heap stream k
      ⟨b.heap, a.log ++ b.log, b.val⟩

end Pydap.RowHeap
