/-
  MiniPy: a deep embedding of the tiny loop-free fragment of Python in which pydap's slice arithmetic is
  written (integers, None, booleans, slice objects, `or`/`and`, comparisons, `is None`, `isinstance(x, int)`,
  `min`, if/elif/else, assignment, augmented assignment, raise), extended in a second round for the chunk-header,
  size/padding and routing blocks: `& | >> << % //`, unary minus, `!=`, text as lists of code points (constants,
  `==`/`!=`, `[:n]`, `[n:]`, `[i]`, `[::-1]`, `startswith`, `"{0:0Nb}".format`, `int()`, `bool()`, literal str→str
  dict lookup, `os.path.join(x, "")`), `in` on literal int tuples, `int(np.prod(shape))`, `True`/`False`,
  `x[a:b]`, `numpy.frombuffer(four bytes, ">u4")[0]`; in a third round for quoting and the DMR dimension readers:
  `str.replace`, text `+`, `str.find(p, n)`, `for x in <list value>` (total: a fold over the items, no `break`),
  `x.append(e)` / `t += (e,)`, `[]` / `()`, XML elements as attribute dicts (`el.get(k)`), dicts str → int (`d[k]`);
  in a fourth round for the hyperslab check, the call test and the sequence projection: tuples of ints-or-slices,
  `for x, y in zip(a, b)`, `a if c else b`, `isinstance(x, slice)`, regexp match objects as their groups
  (`m.group(n)`, truth), `sep.join(list)`, `a in b` on text, `x[a:]` with a computed bound, `x[n] = e`,
  `a, b, c = s.rpartition(sep)`;
  in a fifth round for the lazy row streams (C17), the consolidated-metadata texts (C18) and the stored proxy slice
  (C02): lists of opaque objects (closures), `x.insert(0, e)`, `l.index(x)`, `isinstance(x, list)`,
  `try: <one assignment> except C: …`, lazy pipelines (`iter`, `filter`, `map`, `itertools.islice` as the list of their
  stages), `s.split(sep)[0]`, `tuple(e)`, tuple `+`, `tuple(c for _ in e)`.
  `harness/py2lean.py` translates the
  *source text* of the chosen function bodies into `Stmt` values (pure syntax → syntax); the semantics below is the
  trusted reading of that fragment.  Theorems in Props/ relate the interpreted source to the hand-written model.
-/
namespace Pydap.MiniPy

/-- an element of an index tuple: an int or a slice object -/
inductive Item where
  | int (i : Int)
  | slice (start stop step : Option Int)
deriving DecidableEq, Repr, Inhabited

/-- one stage of a lazy pipeline over an iterator: the function objects are opaque (tags) -/
inductive Stage where
  | filt (f : Nat)                           -- `filter(f, data)`
  | map (m : Nat)                            -- `map(m, data)`
  | islice (start stop step : Option Int)    -- `itertools.islice(data, start, stop, step)`
deriving DecidableEq, Repr, Inhabited

inductive Val where
  | none
  | int (i : Int)
  | bool (b : Bool)
  | slice (start stop step : Option Int)     -- slice objects with int-or-None fields
  | ilist (l : List Int)                     -- a list / tuple of ints (`tokens`, `var.shape`), bytes as ints
  | str (cs : List Nat)                      -- text as a list of code points
  -- third round (loops over lists of records)
  | slist (l : List (List Nat))              -- a non-empty list of strings (the empty list is `ilist []`)
  | elem (attrs : List (List Nat × List Nat))            -- an XML element, as far as `.get(key)` goes
  | elems (l : List (List (List Nat × List Nat)))        -- a list of XML elements (`findall`)
  | sidict (d : List (List Nat × Int))       -- a dict str → int (unique keys)
  -- fourth round
  | tuple (l : List Item)                    -- a tuple / list of ints and slice objects (an index)
  | matchObj (groups : List (List Nat))      -- a regexp match object: group 0, group 1, … (all participating)
  | float (bits : Nat)                       -- a Python float (opaque: only `isinstance` looks at it)
  | obj (tag : Nat)                          -- some other Python object (opaque: no operation of the fragment applies)
  -- fifth round
  | olist (l : List Nat)                     -- a list of opaque objects (closures), by their tags
  | pipe (src : Nat) (stages : List Stage)   -- a lazy iterator: `iter(obj src)` with the stages wrapped around it, innermost first
deriving DecidableEq, Repr, Inhabited

inductive Err where
  | typeError | nameError | indexError | raised (cls : String)
  | keyError | valueError | zeroDivisionError
  | unsupported                              -- the operation exists in Python but this semantics does not cover the operands
deriving DecidableEq, Repr

inductive Expr where
  | none
  | int (i : Int)
  | var (x : String)
  | attr (e : Expr) (f : String)
  | add (a b : Expr) | sub (a b : Expr) | mul (a b : Expr)
  | lt (a b : Expr) | le (a b : Expr) | gt (a b : Expr) | ge (a b : Expr) | eq (a b : Expr)
  | idx (e : Expr) (n : Nat) | len (e : Expr)
  | isNone (e : Expr) | isNotNone (e : Expr)
  | isInt (e : Expr)                          -- isinstance(e, int)
  | or_ (a b : Expr) | and_ (a b : Expr) | not_ (e : Expr)
  | min2 (a b : Expr)
  | mkSlice (a b c : Expr)
  | maxsize                                   -- sys.maxsize
  -- second round (bit arithmetic, floor division, text)
  | neg (e : Expr) | ne (a b : Expr)
  | band (a b : Expr) | bor (a b : Expr) | shr (a b : Expr) | shl (a b : Expr)
  | mod (a b : Expr) | floordiv (a b : Expr)
  | strc (cs : List Nat)                      -- string constant
  | eqStr (a b : Expr)                        -- `a == b` where one side is a string constant
  | neStr (a b : Expr)
  | inInts (e : Expr) (l : List Int)          -- `e in (1, 2, 3)` / `e in [1, 2, 3]` (literal ints)
  | fmtBin (w : Nat) (e : Expr)               -- `"{0:0<w>b}".format(e)`
  | rev (e : Expr)                            -- `e[::-1]`
  | intOf (e : Expr) | boolOf (e : Expr)      -- `int(e)`, `bool(e)`
  | strMap (tbl : List (List Nat × List Nat)) (k : Expr)   -- `{"0": ">", "1": "<"}[k]` (literal str → str dict)
  | prod (e : Expr)                           -- `int(np.prod(e))` of a tuple of ints
  | takeN (e : Expr) (n : Nat)                -- `e[:n]`
  | dropN (e : Expr) (n : Nat)                -- `e[n:]`
  | startswith (a b : Expr)                   -- `a.startswith(b)`
  | joinEmpty (e : Expr)                      -- `os.path.join(e, "")` (posixpath)
  | boolc (b : Bool)                          -- `True` / `False`
  | slice2 (e a b : Expr)                     -- `e[a:b]` with computed non-negative bounds
  | beU32 (e : Expr)                          -- `numpy.frombuffer(e, dtype=">u4")[0]` of exactly four bytes
  -- third round (text methods)
  | replace (e pat rep : Expr)                -- `e.replace(pat, rep)` (non-empty pattern)
  | concat (a b : Expr)                       -- `a + b` where one side is known to be text
  | findFrom (e pat : Expr) (start : Nat)     -- `e.find(pat, start)` (non-empty pattern)
  | getAttr (e k : Expr)                      -- `e.get(k)` of an XML element: the attribute or None
  | subscr (d k : Expr)                       -- `d[k]` of a dict str → int (KeyError when absent)
  | emptyList                                 -- `[]` / `()`
  -- fourth round
  | ifExp (c a b : Expr)                      -- `a if c else b`
  | isSlice (e : Expr)                        -- `isinstance(e, slice)`
  | group (e : Expr) (n : Nat)                -- `e.group(n)` of a match object
  | joinStr (sep e : Expr)                    -- `sep.join(e)` of a list of strings
  | inStr (a b : Expr)                        -- `a in b` on text (non-empty `a`)
  | dropE (e a : Expr)                        -- `e[a:]` with a computed non-negative bound
  | rpartition (e sep : Expr)                 -- `e.rpartition(sep)` as the list of its three parts
  | isFloat (e : Expr)                        -- `isinstance(e, float)`
  | isStrInst (e : Expr)                      -- `isinstance(e, str)`
  | slistc (l : List (List Nat))              -- a list literal of string constants
  | strRepeat (s n : Expr)                    -- `s * n` / `n * s` for text `s` and an int `n`
  | fmtArg (e : Expr)                         -- what `"{}".format(e)` substitutes: text as it is, an int in decimal
  -- fifth round
  | isList (e : Expr)                         -- `isinstance(e, list)`
  | indexOf (l x : Expr)                      -- `l.index(x)` on a list of strings (ValueError when absent)
  | iterOf (e : Expr)                         -- `iter(e)` of an opaque iterable
  | pyFilter (f d : Expr)                     -- `filter(f, d)` (lazy: a new stage)
  | pyMap (m d : Expr)                        -- `map(m, d)`
  | pyIslice (d a b c : Expr)                 -- `itertools.islice(d, a, b, c)`
  | splitHead (e sep : Expr)                  -- `e.split(sep)[0]`: the text before the first `sep` (all of it without one)
  | tupleOf (e : Expr)                        -- `tuple(e)` of a tuple / list of ints and slices
  | tconcat (a b : Expr)                      -- `a + b` on such tuples
  | repeatFor (c e : Expr)                    -- `tuple(c for _ in e)`: `c` once per element of `e` (`c` does not read `_`)
deriving Repr, Inhabited

inductive Stmt where
  | skip
  | seq (a b : Stmt)
  | assign (x : String) (e : Expr)
  | augAdd (x : String) (e : Expr)
  | ite (c : Expr) (t e : Stmt)
  | raise (cls : String)
  | forIn (x : String) (e : Expr) (body : Stmt)   -- `for x in e: body` over a list value (no break)
  | append (x : String) (e : Expr)                -- `x.append(e)` / `x += (e,)`
  -- fourth round
  | forZip (x y : String) (e1 e2 : Expr) (body : Stmt)   -- `for x, y in zip(e1, e2): body` (no break)
  | setIdx (x : String) (n : Nat) (e : Expr)      -- `x[n] = e` on a list of strings
  | unpack3 (a b c : String) (e : Expr)           -- `a, b, c = e` where `e` is a list of three strings
  | sortByIndex (x : String) (p : Expr)           -- `x.sort(key=p.index)` on lists of strings
  -- fifth round
  | tryExcept (body : Stmt) (cls : String) (handler : Stmt)   -- `try: <one assignment> except cls: handler`
  | insertFront (x : String) (e : Expr)           -- `x.insert(0, e)`
deriving Repr, Inhabited

abbrev Env := List (String × Val)

def lookup (env : Env) (x : String) : Except Err Val :=
  match env.find? (fun p => p.1 == x) with
  | some p => .ok p.2
  | none => .error .nameError

def setVar (env : Env) (x : String) (v : Val) : Env :=
  (x, v) :: env.filter (fun p => p.1 != x)

def truthy : Val → Bool
  | .none => false
  | .int i => i != 0
  | .bool b => b
  | .slice _ _ _ => true
  | .ilist l => !l.isEmpty
  | .str cs => !cs.isEmpty
  | .slist l => !l.isEmpty
  | .elem _ => true            -- (ElementTree's own truth test, "has children", is not modelled; never used)
  | .elems l => !l.isEmpty
  | .sidict d => !d.isEmpty
  | .tuple l => !l.isEmpty
  | .matchObj _ => true
  | .float b => b != 0                       -- (placeholder: the truth of a float is never read by a tied block)
  | .obj _ => true
  | .olist l => !l.isEmpty
  | .pipe _ _ => true

def Item.toVal : Item → Val
  | .int i => .int i
  | .slice a b c => .slice a b c

def asInt : Val → Except Err Int
  | .int i => .ok i
  | .bool b => .ok (if b then 1 else 0)
  | _ => .error .typeError

def ofOpt : Option Int → Val
  | some i => .int i
  | none => .none

def toOpt : Val → Except Err (Option Int)
  | .none => .ok Option.none
  | .int i => .ok (some i)
  | _ => .error .typeError

def MAXSIZE : Int := 9223372036854775807

/-! ### Python integer operators outside `+ - *` -/

/-- `a & b`; only non-negative operands are covered (two's-complement reading of negatives is not modelled) -/
def pyAnd (a b : Int) : Except Err Int :=
  if 0 ≤ a ∧ 0 ≤ b then .ok ((a.toNat &&& b.toNat : Nat) : Int) else .error .unsupported

def pyOr (a b : Int) : Except Err Int :=
  if 0 ≤ a ∧ 0 ≤ b then .ok ((a.toNat ||| b.toNat : Nat) : Int) else .error .unsupported

/-- `a >> b` (arithmetic shift, floor); a negative count is a ValueError -/
def pyShr (a b : Int) : Except Err Int :=
  if 0 ≤ b then .ok (a >>> b.toNat) else .error .valueError

def pyShl (a b : Int) : Except Err Int :=
  if 0 ≤ b then .ok (a * 2 ^ b.toNat) else .error .valueError

/-- `a % b`: Python's remainder has the sign of the divisor (floor) -/
def pyMod (a b : Int) : Except Err Int :=
  if b = 0 then .error .zeroDivisionError else .ok (Int.fmod a b)

def pyFloorDiv (a b : Int) : Except Err Int :=
  if b = 0 then .error .zeroDivisionError else .ok (Int.fdiv a b)

/-! ### text -/

/-- binary digits of `n` as `'0'`/`'1'` code points, most significant first (`"{0:b}".format(n)`) -/
def binStrAux : Nat → Nat → List Nat → List Nat
  | 0, _, acc => acc
  | f + 1, n, acc => if n < 2 then (48 + n) :: acc else binStrAux f (n / 2) ((48 + n % 2) :: acc)

def binStr (n : Nat) : List Nat := binStrAux (n + 1) n []

/-- `"{0:0<w>b}".format(i)` for `i ≥ 0`: left-padded with `'0'` to at least `w` characters -/
def fmtBin (w : Nat) (i : Int) : Except Err (List Nat) :=
  if 0 ≤ i then .ok (List.replicate (w - (binStr i.toNat).length) 48 ++ binStr i.toNat) else .error .unsupported

def isDigit (c : Nat) : Bool := 48 ≤ c && c ≤ 57

def digitsVal : List Nat → Nat → Nat
  | [], acc => acc
  | c :: cs, acc => digitsVal cs (acc * 10 + (c - 48))

/-- `int(v)`: ints and bools; text only when it is a non-empty run of ASCII digits (signs, blanks, underscores
    and the ValueError of other text are not modelled) -/
def pyInt : Val → Except Err Int
  | .int i => .ok i
  | .bool b => .ok (if b then 1 else 0)
  | .str cs => if !cs.isEmpty && cs.all isDigit then .ok (digitsVal cs 0 : Nat) else .error .unsupported
  | _ => .error .typeError

def strLookup : List (List Nat × List Nat) → List Nat → Except Err Val
  | [], _ => .error .keyError
  | (k, v) :: t, x => if k = x then .ok (.str v) else strLookup t x

/-- `posixpath.join(a, "")`: a separator is appended unless `a` is empty or already ends with one -/
def joinEmpty (a : List Nat) : List Nat :=
  if a.isEmpty || a.getLast? = some 47 then a else a ++ [47]

/-- `numpy.frombuffer(b, dtype=">u4")[0]`: only a buffer of exactly four bytes (each 0..255) is covered -/
def beU32 : List Int → Except Err Int
  | [b0, b1, b2, b3] =>
    if 0 ≤ b0 ∧ b0 < 256 ∧ 0 ≤ b1 ∧ b1 < 256 ∧ 0 ≤ b2 ∧ b2 < 256 ∧ 0 ≤ b3 ∧ b3 < 256 then
      .ok (((b0 * 256 + b1) * 256 + b2) * 256 + b3)
    else .error .unsupported
  | _ => .error .unsupported

/-- `s.replace(pat, rep)` for a non-empty `pat`: leftmost, non-overlapping occurrences.  `skip` counts the
    characters of a matched occurrence that are still to be passed over. -/
def replaceGo (pat rep : List Nat) : Nat → List Nat → List Nat
  | _, [] => []
  | skip + 1, _ :: t => replaceGo pat rep skip t
  | 0, x :: t =>
    if pat.isPrefixOf (x :: t) then rep ++ replaceGo pat rep (pat.length - 1) t else x :: replaceGo pat rep 0 t

/-- `str.replace`; the empty pattern (Python inserts `rep` between all characters) is not covered -/
def strReplace (s pat rep : List Nat) : Except Err (List Nat) :=
  if pat.isEmpty then .error .unsupported else .ok (replaceGo pat rep 0 s)

/-- index of the first occurrence of the non-empty `pat` in `s` at or after position `i` (counted from `i`), else `none` -/
def findGo (pat : List Nat) : Nat → List Nat → Option Nat
  | _, [] => none
  | i, x :: t => if pat.isPrefixOf (x :: t) then some i else findGo pat (i + 1) t

/-- `s.find(pat, start)` with a literal `start ≥ 0`: the index of the first occurrence at or after `start`, else -1 -/
def strFind (s pat : List Nat) (start : Nat) : Except Err Int :=
  if pat.isEmpty then .error .unsupported else
    match findGo pat start (s.drop start) with
    | some i => .ok (i : Int)
    | none => .ok (-1)

/-- the values a `for` statement iterates over -/
def iterItems : Val → Except Err (List Val)
  | .ilist l => .ok (l.map .int)
  | .slist l => .ok (l.map .str)
  | .elems l => .ok (l.map .elem)
  | .tuple l => .ok (l.map Item.toVal)
  | .olist l => .ok (l.map .obj)
  | _ => .error .typeError

/-- `l.append(v)` / `t += (v,)`; lists are homogeneous (ints or strings), the empty list is `ilist []` -/
def appendVal : Val → Val → Except Err Val
  | .ilist [], .str s => .ok (.slist [s])
  | .ilist l, .int i => .ok (.ilist (l ++ [i]))
  | .slist l, .str s => .ok (.slist (l ++ [s]))
  | .ilist [], .obj t => .ok (.olist [t])
  | .olist l, .obj t => .ok (.olist (l ++ [t]))
  | .ilist [], .slice a b c => .ok (.tuple [.slice a b c])
  | .tuple l, .slice a b c => .ok (.tuple (l ++ [.slice a b c]))
  | .tuple l, .int i => .ok (.tuple (l ++ [.int i]))
  | _, _ => .error .unsupported

/-- `l.insert(0, v)` on a list of opaque objects -/
def insertFrontVal : Val → Val → Except Err Val
  | .ilist [], .obj t => .ok (.olist [t])
  | .olist l, .obj t => .ok (.olist (t :: l))
  | _, _ => .error .unsupported

/-- does the exception `e` belong to the class named in an `except` clause?  (`Exception` catches everything the
    fragment can raise; a raised class is matched by name only: subclassing is not modelled) -/
def errMatches (cls : String) : Err → Bool
  | .typeError => cls == "TypeError" || cls == "Exception"
  | .nameError => cls == "NameError" || cls == "Exception"
  | .indexError => cls == "IndexError" || cls == "LookupError" || cls == "Exception"
  | .keyError => cls == "KeyError" || cls == "LookupError" || cls == "Exception"
  | .valueError => cls == "ValueError" || cls == "Exception"
  | .zeroDivisionError => cls == "ZeroDivisionError" || cls == "ArithmeticError" || cls == "Exception"
  | .raised c => c == cls || cls == "Exception"
  | .unsupported => false

/-- the text before the first occurrence of the non-empty `sep` -/
def splitHeadGo (sep : List Nat) : List Nat → List Nat
  | [] => []
  | x :: t => if sep.isPrefixOf (x :: t) then [] else x :: splitHeadGo sep t

/-- the length of anything the fragment iterates over -/
def iterLen : Val → Except Err Nat
  | .ilist l => .ok l.length
  | .slist l => .ok l.length
  | .tuple l => .ok l.length
  | .olist l => .ok l.length
  | .elems l => .ok l.length
  | _ => .error .typeError

def toItem : Val → Except Err Item
  | .int i => .ok (.int i)
  | .slice a b c => .ok (.slice a b c)
  | _ => .error .unsupported

def assocStr : List (List Nat × List Nat) → List Nat → Val
  | [], _ => .none
  | (k, v) :: t, x => if k = x then .str v else assocStr t x

def assocInt : List (List Nat × Int) → List Nat → Except Err Val
  | [], _ => .error .keyError
  | (k, v) :: t, x => if k = x then .ok (.int v) else assocInt t x

/-- `sep.join(l)` -/
def joinStrs (sep : List Nat) : List (List Nat) → List Nat
  | [] => []
  | [a] => a
  | a :: b :: rest => a ++ sep ++ joinStrs sep (b :: rest)

/-- the position of the last occurrence of the non-empty `pat` in `s`: the text before it and the text after it -/
def rpartGo (pat : List Nat) : List Nat → Option (List Nat × List Nat)
  | [] => none
  | x :: t =>
    match rpartGo pat t with
    | some (h, r) => some (x :: h, r)
    | none => if pat.isPrefixOf (x :: t) then some ([], (x :: t).drop pat.length) else none

/-- `s.rpartition(sep)`: `(head, sep, tail)` at the last occurrence, `("", "", s)` without one -/
def strRpartition (s sep : List Nat) : Except Err (List (List Nat)) :=
  if sep.isEmpty then .error .valueError else
    match rpartGo sep s with
    | some (h, t) => .ok [h, sep, t]
    | none => .ok [[], [], s]

/-- position of `x` in `p` (`p.index(x)`) -/
def indexOf? (p : List (List Nat)) (x : List Nat) : Option Nat :=
  match p with
  | [] => none
  | y :: t => if y = x then some 0 else (indexOf? t x).map (· + 1)

/-- stable insertion of a keyed element: after all elements whose key is not greater -/
def insertByKey (k : Nat) (x : List Nat) : List (Nat × List Nat) → List (Nat × List Nat)
  | [] => [(k, x)]
  | (k', y) :: t => if k < k' then (k, x) :: (k', y) :: t else (k', y) :: insertByKey k x t

/-- `l.sort(key=p.index)`: stable sort by position in `p`; an element that is not in `p` is a ValueError -/
def sortByIndex (p : List (List Nat)) : List (List Nat) → Except Err (List (Nat × List Nat))
  | [] => .ok []
  | x :: t =>
    match indexOf? p x, sortByIndex p t with
    | some k, .ok r => .ok (insertByKey k x r)
    | none, _ => .error .valueError
    | _, .error e => .error e

/-- decimal digits of a natural number as code points (`fuel` ≥ the number of digits) -/
def natStrAux : Nat → Nat → List Nat
  | 0, n => [48 + n % 10]
  | f + 1, n => if n < 10 then [48 + n] else natStrAux f (n / 10) ++ [48 + n % 10]

/-- `str(i)` of an int -/
def intStr (i : Int) : List Nat :=
  if i < 0 then 45 :: natStrAux i.natAbs i.natAbs else natStrAux i.natAbs i.natAbs

def prodInts : List Int → Int
  | [] => 1
  | x :: xs => x * prodInts xs

def eval (env : Env) : Expr → Except Err Val
  | .none => .ok .none
  | .int i => .ok (.int i)
  | .maxsize => .ok (.int MAXSIZE)
  | .var x => lookup env x
  | .attr e f => do
      match (← eval env e) with
      | .slice a b c =>
        if f == "start" then .ok (ofOpt a) else if f == "stop" then .ok (ofOpt b)
        else if f == "step" then .ok (ofOpt c) else .error .typeError
      | _ => .error .typeError
  | .add a b => do .ok (.int ((← asInt (← eval env a)) + (← asInt (← eval env b))))
  | .sub a b => do .ok (.int ((← asInt (← eval env a)) - (← asInt (← eval env b))))
  | .mul a b => do .ok (.int ((← asInt (← eval env a)) * (← asInt (← eval env b))))
  | .lt a b => do .ok (.bool (decide ((← asInt (← eval env a)) < (← asInt (← eval env b)))))
  | .le a b => do .ok (.bool (decide ((← asInt (← eval env a)) ≤ (← asInt (← eval env b)))))
  | .gt a b => do .ok (.bool (decide ((← asInt (← eval env a)) > (← asInt (← eval env b)))))
  | .ge a b => do .ok (.bool (decide ((← asInt (← eval env a)) ≥ (← asInt (← eval env b)))))
  | .eq a b => do .ok (.bool (decide ((← asInt (← eval env a)) = (← asInt (← eval env b)))))
  | .idx e n => do
      match (← eval env e) with
      | .ilist l => match l[n]? with
        | some v => .ok (.int v)
        | none => .error .indexError
      | .str cs => match cs[n]? with
        | some c => .ok (.str [c])
        | none => .error .indexError
      | .slist l => match l[n]? with
        | some s => .ok (.str s)
        | none => .error .indexError
      | _ => .error .typeError
  | .len e => do
      match (← eval env e) with
      | .ilist l => .ok (.int l.length)
      | .str cs => .ok (.int cs.length)
      | .tuple l => .ok (.int l.length)
      | .slist l => .ok (.int l.length)
      | _ => .error .typeError
  | .isNone e => do .ok (.bool (match (← eval env e) with | .none => true | _ => false))
  | .isNotNone e => do .ok (.bool (match (← eval env e) with | .none => false | _ => true))
  | .isInt e => do .ok (.bool (match (← eval env e) with | .int _ => true | .bool _ => true | _ => false))
  | .or_ a b => do
      let va ← eval env a
      if truthy va then .ok va else eval env b
  | .and_ a b => do
      let va ← eval env a
      if truthy va then eval env b else .ok va
  | .not_ e => do .ok (.bool (!truthy (← eval env e)))
  | .min2 a b => do
      let x ← asInt (← eval env a)
      let y ← asInt (← eval env b)
      .ok (.int (if y < x then y else x))
  | .mkSlice a b c => do
      .ok (.slice (← toOpt (← eval env a)) (← toOpt (← eval env b)) (← toOpt (← eval env c)))
  | .neg e => do .ok (.int (- (← asInt (← eval env e))))
  | .ne a b => do .ok (.bool (decide ((← asInt (← eval env a)) ≠ (← asInt (← eval env b)))))
  | .band a b => do
      let x ← asInt (← eval env a)
      let y ← asInt (← eval env b)
      .ok (.int (← pyAnd x y))
  | .bor a b => do
      let x ← asInt (← eval env a)
      let y ← asInt (← eval env b)
      .ok (.int (← pyOr x y))
  | .shr a b => do
      let x ← asInt (← eval env a)
      let y ← asInt (← eval env b)
      .ok (.int (← pyShr x y))
  | .shl a b => do
      let x ← asInt (← eval env a)
      let y ← asInt (← eval env b)
      .ok (.int (← pyShl x y))
  | .mod a b => do
      let x ← asInt (← eval env a)
      let y ← asInt (← eval env b)
      .ok (.int (← pyMod x y))
  | .floordiv a b => do
      let x ← asInt (← eval env a)
      let y ← asInt (← eval env b)
      .ok (.int (← pyFloorDiv x y))
  | .strc cs => .ok (.str cs)
  | .eqStr a b => do
      match (← eval env a), (← eval env b) with
      | .str x, .str y => .ok (.bool (decide (x = y)))
      | _, _ => .error .unsupported
  | .neStr a b => do
      match (← eval env a), (← eval env b) with
      | .str x, .str y => .ok (.bool (decide (x ≠ y)))
      | _, _ => .error .unsupported
  | .inInts e l => do .ok (.bool (l.contains (← asInt (← eval env e))))
  | .fmtBin w e => do .ok (.str (← fmtBin w (← asInt (← eval env e))))
  | .rev e => do
      match (← eval env e) with
      | .str cs => .ok (.str cs.reverse)
      | .ilist l => .ok (.ilist l.reverse)
      | _ => .error .typeError
  | .intOf e => do .ok (.int (← pyInt (← eval env e)))
  | .boolOf e => do .ok (.bool (truthy (← eval env e)))
  | .strMap tbl k => do
      match (← eval env k) with
      | .str cs => strLookup tbl cs
      | _ => .error .unsupported
  | .prod e => do
      match (← eval env e) with
      | .ilist l => .ok (.int (prodInts l))
      | _ => .error .typeError
  | .takeN e n => do
      match (← eval env e) with
      | .str cs => .ok (.str (cs.take n))
      | .ilist l => .ok (.ilist (l.take n))
      | _ => .error .typeError
  | .dropN e n => do
      match (← eval env e) with
      | .str cs => .ok (.str (cs.drop n))
      | .ilist l => .ok (.ilist (l.drop n))
      | _ => .error .typeError
  | .startswith a b => do
      match (← eval env a), (← eval env b) with
      | .str x, .str y => .ok (.bool (y.isPrefixOf x))
      | _, _ => .error .unsupported
  | .joinEmpty e => do
      match (← eval env e) with
      | .str cs => .ok (.str (joinEmpty cs))
      | _ => .error .typeError
  | .boolc b => .ok (.bool b)
  | .slice2 e a b => do
      let v ← eval env e
      let x ← asInt (← eval env a)
      let y ← asInt (← eval env b)
      if 0 ≤ x ∧ x ≤ y then
        match v with
        | .ilist l => .ok (.ilist ((l.drop x.toNat).take (y.toNat - x.toNat)))
        | .str cs => .ok (.str ((cs.drop x.toNat).take (y.toNat - x.toNat)))
        | _ => .error .typeError
      else .error .unsupported
  | .beU32 e => do
      match (← eval env e) with
      | .ilist l => .ok (.int (← beU32 l))
      | _ => .error .typeError
  | .replace e pat rep => do
      match (← eval env e), (← eval env pat), (← eval env rep) with
      | .str s, .str p, .str r => .ok (.str (← strReplace s p r))
      | _, _, _ => .error .unsupported
  | .concat a b => do
      match (← eval env a), (← eval env b) with
      | .str x, .str y => .ok (.str (x ++ y))
      | _, _ => .error .unsupported
  | .findFrom e pat start => do
      match (← eval env e), (← eval env pat) with
      | .str s, .str p => .ok (.int (← strFind s p start))
      | _, _ => .error .unsupported
  | .getAttr e k => do
      match (← eval env e), (← eval env k) with
      | .elem attrs, .str key => .ok (assocStr attrs key)
      | _, _ => .error .unsupported
  | .subscr d k => do
      match (← eval env d), (← eval env k) with
      | .sidict tbl, .str key => assocInt tbl key
      | _, _ => .error .unsupported
  | .emptyList => .ok (.ilist [])
  | .ifExp c a b => do
      if truthy (← eval env c) then eval env a else eval env b
  | .isSlice e => do .ok (.bool (match (← eval env e) with | .slice _ _ _ => true | _ => false))
  | .group e n => do
      match (← eval env e) with
      | .matchObj gs => match gs[n]? with
        | some g => .ok (.str g)
        | none => .error .indexError
      | .none => .error (.raised "AttributeError")
      | _ => .error .unsupported
  | .joinStr sep e => do
      match (← eval env sep), (← eval env e) with
      | .str s, .slist l => .ok (.str (joinStrs s l))
      | .str _, .ilist [] => .ok (.str [])
      | _, _ => .error .unsupported
  | .inStr a b => do
      match (← eval env a), (← eval env b) with
      | .str p, .str s => if p.isEmpty then .error .unsupported else .ok (.bool (findGo p 0 s).isSome)
      | _, _ => .error .unsupported
  | .dropE e a => do
      let v ← eval env e
      let x ← asInt (← eval env a)
      if 0 ≤ x then
        match v with
        | .ilist l => .ok (.ilist (l.drop x.toNat))
        | .str cs => .ok (.str (cs.drop x.toNat))
        | _ => .error .typeError
      else .error .unsupported
  | .rpartition e sep => do
      match (← eval env e), (← eval env sep) with
      | .str s, .str p => .ok (.slist (← strRpartition s p))
      | _, _ => .error .unsupported
  | .isFloat e => do .ok (.bool (match (← eval env e) with | .float _ => true | _ => false))
  | .isStrInst e => do .ok (.bool (match (← eval env e) with | .str _ => true | _ => false))
  | .slistc l => .ok (match l with | [] => .ilist [] | _ => .slist l)
  | .strRepeat s n => do
      match (← eval env s), (← eval env n) with
      | .str cs, .int k => .ok (.str (List.replicate k.toNat cs).flatten)
      | _, _ => .error .unsupported
  | .fmtArg e => do
      match (← eval env e) with
      | .str cs => .ok (.str cs)
      | .int i => .ok (.str (intStr i))
      | _ => .error .unsupported
  | .isList e => do
      .ok (.bool (match (← eval env e) with | .ilist _ => true | .slist _ => true | .olist _ => true | _ => false))
  | .indexOf l x => do
      match (← eval env l), (← eval env x) with
      | .slist ks, .str k => match indexOf? ks k with
        | some i => .ok (.int i)
        | none => .error .valueError
      | .ilist [], .str _ => .error .valueError
      | _, _ => .error .unsupported
  | .iterOf e => do
      match (← eval env e) with
      | .obj t => .ok (.pipe t [])
      | _ => .error .unsupported
  | .pyFilter f d => do
      match (← eval env f), (← eval env d) with
      | .obj t, .pipe s st => .ok (.pipe s (st ++ [.filt t]))
      | _, _ => .error .unsupported
  | .pyMap m d => do
      match (← eval env m), (← eval env d) with
      | .obj t, .pipe s st => .ok (.pipe s (st ++ [.map t]))
      | _, _ => .error .unsupported
  | .pyIslice d a b c => do
      let dv ← eval env d
      let x ← toOpt (← eval env a)
      let y ← toOpt (← eval env b)
      let z ← toOpt (← eval env c)
      match dv with
      | .pipe s st => .ok (.pipe s (st ++ [.islice x y z]))
      | _ => .error .unsupported
  | .splitHead e sep => do
      match (← eval env e), (← eval env sep) with
      | .str s, .str p => if p.isEmpty then .error .valueError else .ok (.str (splitHeadGo p s))
      | _, _ => .error .unsupported
  | .tupleOf e => do
      match (← eval env e) with
      | .tuple l => .ok (.tuple l)
      | .ilist l => .ok (.tuple (l.map .int))
      | _ => .error .unsupported
  | .tconcat a b => do
      match (← eval env a), (← eval env b) with
      | .tuple x, .tuple y => .ok (.tuple (x ++ y))
      | _, _ => .error .unsupported
  | .repeatFor c e => do
      let n ← iterLen (← eval env e)
      if n = 0 then .ok (.tuple []) else do      -- (no element: `c` is not evaluated)
        let v ← toItem (← eval env c)
        .ok (.tuple (List.replicate n v))

def exec (env : Env) : Stmt → Except Err Env
  | .skip => .ok env
  | .seq a b => do exec (← exec env a) b
  | .assign x e => do .ok (setVar env x (← eval env e))
  | .augAdd x e => do
      let a ← asInt (← lookup env x)
      let b ← asInt (← eval env e)
      .ok (setVar env x (.int (a + b)))
  | .ite c t e => do
      if truthy (← eval env c) then exec env t else exec env e
  | .raise cls => .error (.raised cls)
  | .forIn x e body => do
      let items ← iterItems (← eval env e)
      items.foldlM (fun env v => exec (setVar env x v) body) env
  | .append x e => do
      let l ← lookup env x
      let v ← eval env e
      .ok (setVar env x (← appendVal l v))
  | .forZip x y e1 e2 body => do
      let i1 ← iterItems (← eval env e1)
      let i2 ← iterItems (← eval env e2)
      (i1.zip i2).foldlM (fun env vw => exec (setVar (setVar env x vw.1) y vw.2) body) env
  | .setIdx x n e => do
      match (← lookup env x), (← eval env e) with
      | .slist l, .str s => if n < l.length then .ok (setVar env x (.slist (l.set n s))) else .error .indexError
      | .ilist [], .str _ => .error .indexError
      | _, _ => .error .unsupported
  | .unpack3 a b c e => do
      match (← eval env e) with
      | .slist [u, v, w] => .ok (setVar (setVar (setVar env a (.str u)) b (.str v)) c (.str w))
      | _ => .error .unsupported
  | .sortByIndex x p => do
      match (← lookup env x), (← eval env p) with
      | .slist l, .slist pr => do
          let r ← sortByIndex pr l
          .ok (setVar env x (.slist (r.map (·.2))))
      | .ilist [], _ => .ok env
      | _, _ => .error .unsupported
  | .tryExcept body cls handler =>
      match exec env body with
      | .ok env' => .ok env'
      | .error e => if errMatches cls e then exec env handler else .error e
  | .insertFront x e => do
      let l ← lookup env x
      let v ← eval env e
      .ok (setVar env x (← insertFrontVal l v))

/-- the value bound to `x` after running `body` from `env` -/
def runItem (env : Env) (body : Stmt) (x : String) : Except Err Val :=
  (exec env body) >>= (fun e => lookup e x)

end Pydap.MiniPy
