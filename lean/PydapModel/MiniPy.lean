/-
  MiniPy: a deep embedding of the tiny loop-free fragment of Python in which pydap's slice arithmetic is
  written (integers, None, booleans, slice objects, `or`/`and`, comparisons, `is None`, `isinstance(x, int)`,
  `min`, if/elif/else, assignment, augmented assignment, raise).  `harness/py2lean.py` translates the
  *source text* of the chosen function bodies into `Stmt` values (pure syntax → syntax); the semantics below is the
  trusted reading of that fragment.  Theorems in Props/ relate the interpreted source to the hand-written model.
-/
namespace Pydap.MiniPy

inductive Val where
  | none
  | int (i : Int)
  | bool (b : Bool)
  | slice (start stop step : Option Int)     -- slice objects with int-or-None fields
  | ilist (l : List Int)                     -- a list of ints (`tokens`)
deriving DecidableEq, Repr, Inhabited

inductive Err where
  | typeError | nameError | indexError | raised (cls : String)
deriving DecidableEq, Repr

inductive Expr where
  | none
  | int (i : Int)
  | var (x : String)
  | attr (e : Expr) (f : String)
  | add (a b : Expr) | sub (a b : Expr) | mul (a b : Expr)
  | lt (a b : Expr) | le (a b : Expr) | gt (a b : Expr) | ge (a b : Expr) | eq (a b : Expr)
  | idx (e : Expr) (n : Nat) | len (e : Expr)
  | isNone (e : Expr) | isNotNone (e : Expr)
  | isInt (e : Expr)                          -- isinstance(e, int)
  | or_ (a b : Expr) | and_ (a b : Expr) | not_ (e : Expr)
  | min2 (a b : Expr)
  | mkSlice (a b c : Expr)
  | maxsize                                   -- sys.maxsize
deriving Repr, Inhabited

inductive Stmt where
  | skip
  | seq (a b : Stmt)
  | assign (x : String) (e : Expr)
  | augAdd (x : String) (e : Expr)
  | ite (c : Expr) (t e : Stmt)
  | raise (cls : String)
deriving Repr, Inhabited

abbrev Env := List (String × Val)

def lookup (env : Env) (x : String) : Except Err Val :=
  match env.find? (fun p => p.1 == x) with
  | some p => .ok p.2
  | none => .error .nameError

def setVar (env : Env) (x : String) (v : Val) : Env :=
  (x, v) :: env.filter (fun p => p.1 != x)

def truthy : Val → Bool
  | .none => false
  | .int i => i != 0
  | .bool b => b
  | .slice _ _ _ => true
  | .ilist l => !l.isEmpty

def asInt : Val → Except Err Int
  | .int i => .ok i
  | .bool b => .ok (if b then 1 else 0)
  | _ => .error .typeError

def ofOpt : Option Int → Val
  | some i => .int i
  | none => .none

def toOpt : Val → Except Err (Option Int)
  | .none => .ok Option.none
  | .int i => .ok (some i)
  | _ => .error .typeError

def MAXSIZE : Int := 9223372036854775807

def eval (env : Env) : Expr → Except Err Val
  | .none => .ok .none
  | .int i => .ok (.int i)
  | .maxsize => .ok (.int MAXSIZE)
  | .var x => lookup env x
  | .attr e f => do
      match (← eval env e) with
      | .slice a b c =>
        if f == "start" then .ok (ofOpt a) else if f == "stop" then .ok (ofOpt b)
        else if f == "step" then .ok (ofOpt c) else .error .typeError
      | _ => .error .typeError
  | .add a b => do .ok (.int ((← asInt (← eval env a)) + (← asInt (← eval env b))))
  | .sub a b => do .ok (.int ((← asInt (← eval env a)) - (← asInt (← eval env b))))
  | .mul a b => do .ok (.int ((← asInt (← eval env a)) * (← asInt (← eval env b))))
  | .lt a b => do .ok (.bool (decide ((← asInt (← eval env a)) < (← asInt (← eval env b)))))
  | .le a b => do .ok (.bool (decide ((← asInt (← eval env a)) ≤ (← asInt (← eval env b)))))
  | .gt a b => do .ok (.bool (decide ((← asInt (← eval env a)) > (← asInt (← eval env b)))))
  | .ge a b => do .ok (.bool (decide ((← asInt (← eval env a)) ≥ (← asInt (← eval env b)))))
  | .eq a b => do .ok (.bool (decide ((← asInt (← eval env a)) = (← asInt (← eval env b)))))
  | .idx e n => do
      match (← eval env e) with
      | .ilist l => match l[n]? with
        | some v => .ok (.int v)
        | none => .error .indexError
      | _ => .error .typeError
  | .len e => do
      match (← eval env e) with
      | .ilist l => .ok (.int l.length)
      | _ => .error .typeError
  | .isNone e => do .ok (.bool (match (← eval env e) with | .none => true | _ => false))
  | .isNotNone e => do .ok (.bool (match (← eval env e) with | .none => false | _ => true))
  | .isInt e => do .ok (.bool (match (← eval env e) with | .int _ => true | .bool _ => true | _ => false))
  | .or_ a b => do
      let va ← eval env a
      if truthy va then .ok va else eval env b
  | .and_ a b => do
      let va ← eval env a
      if truthy va then eval env b else .ok va
  | .not_ e => do .ok (.bool (!truthy (← eval env e)))
  | .min2 a b => do
      let x ← asInt (← eval env a)
      let y ← asInt (← eval env b)
      .ok (.int (if y < x then y else x))
  | .mkSlice a b c => do
      .ok (.slice (← toOpt (← eval env a)) (← toOpt (← eval env b)) (← toOpt (← eval env c)))

def exec (env : Env) : Stmt → Except Err Env
  | .skip => .ok env
  | .seq a b => do exec (← exec env a) b
  | .assign x e => do .ok (setVar env x (← eval env e))
  | .augAdd x e => do
      let a ← asInt (← lookup env x)
      let b ← asInt (← eval env e)
      .ok (setVar env x (.int (a + b)))
  | .ite c t e => do
      if truthy (← eval env c) then exec env t else exec env e
  | .raise cls => .error (.raised cls)

/-- the value bound to `x` after running `body` from `env` -/
def runItem (env : Env) (body : Stmt) (x : String) : Except Err Val :=
  (exec env body) >>= (fun e => lookup e x)

end Pydap.MiniPy
