/-
  C17, theorem audit (round 7): the OBJECT level of `IterData` / `CSVData`.

  `PydapModel/IterData.lean` has value semantics: a stream is a record, `getitem` returns a record, so "each step
  returns a new stream and leaves its source unchanged" and "iterating twice gives the same rows" hold of it by
  construction.  In Python they are not free: `__getitem__` MUTATES (`out.imap.append`, `out.imap.insert(0, m)`,
  `out.ifilter.append`, `out.islice.append`, `out.level += 1`, `out.template = …`, `out.template._visible_keys = key`)
  and is pure only because `out = copy.copy(self)` made new list objects (`self.ifilter[:]`, `self.imap[:]`,
  `self.islice[:]`) and a new template object (`copy_template`), while `stream`/`filepath` and `root` are shared and
  never written.  This file models exactly that: objects in a heap addressed by index, `copyStream` = `__copy__`
  (allocates four objects and the new stream object), `getitemH` = `__getitem__` (every write goes through the
  reference stored in `out`), `iterH` = `__iter__` + exhausting the returned iterator (reads the source object; a list
  or a CSV path is read again by every pass, a one-shot iterator is consumed).

  `view` reads the object graph of a stream into the record of `PydapModel/IterData.lean`; the theorems of
  `Proofs/IterHeap.lean` say that `getitemH` refines `getitem` through `view`, allocates the result freshly and
  leaves EVERY pre-existing object as it was.
-/
import PydapModel.IterData
namespace Pydap.IterHeap
open Pydap Pydap.IterData

/-- what `IterData.stream` is -/
inductive Source (A : Type) where
  | rows (l : List (List A))                      -- a list of tuples: every `iter()` starts again
  | csv (l : List (List A))                       -- `CSVData.stream`: the property opens the file again per pass
  | gen (l : List (List A)) (consumed : Bool)     -- a one-shot iterator (generator): the first pass drains it
deriving DecidableEq, Repr

/-- the rows a fresh pass over the source yields -/
def Source.all {A} : Source A → List (List A)
  | .rows l => l
  | .csv l => l
  | .gen l _ => l

inductive Obj (A : Type) where
  | source (s : Source A)
  | tmpl (t : Tmpl)
  | filts (l : List (Filt A))
  | maps (l : List MapF)
  | slices (l : List PSlice)
  /-- an `IterData`/`CSVData` object: references to its source, template, three lists, and `root`; `level` is an int -/
  | stream (src tmpl ifilter imap islice : Nat) (level : Nat) (root : Nat)
deriving DecidableEq, Repr

abbrev Heap (A : Type) := List (Obj A)

/-- the fields of a stream object -/
structure Flds where
  src : Nat
  tmpl : Nat
  ifilter : Nat
  imap : Nat
  islice : Nat
  level : Nat
  root : Nat
deriving DecidableEq, Repr

def Flds.obj {A} (f : Flds) : Obj A := .stream f.src f.tmpl f.ifilter f.imap f.islice f.level f.root

def fldsAt {A} (h : Heap A) (r : Nat) : Option Flds :=
  match h[r]? with
  | some (.stream a b c d e l g) => some ⟨a, b, c, d, e, l, g⟩
  | _ => none

/-- `__copy__`: `IterData(self.stream, copy_template(self.template), self.ifilter[:], self.imap[:], self.islice[:],
    self.level, self.root)` — four new objects holding the same contents, then the new stream object; the source and
    `root` are passed on as they are.  Returns the heap, the new object and its fields.
    (`ifilter or []` … in `__init__`: an empty copy is replaced by another new empty list — new either way; `imap or
    [fix_nested(template)]` never applies to a copy of an `IterData`, whose `imap` is never empty.) -/
def copyStream {A} (h : Heap A) (r : Nat) : Option (Heap A × Nat × Flds) :=
  match fldsAt h r with
  | none => none
  | some f =>
    match h[f.tmpl]?, h[f.ifilter]?, h[f.imap]?, h[f.islice]? with
    | some (.tmpl tv), some (.filts fl), some (.maps ml), some (.slices sl) =>
      let n := h.length
      let g : Flds := ⟨f.src, n, n + 1, n + 2, n + 3, f.level, f.root⟩
      some (h ++ [.tmpl tv, .filts fl, .maps ml, .slices sl, g.obj], n + 4, g)
    | _, _, _, _ => none

/-- `lst.append(x)` on the list object `ref` -/
def appendMap {A} (h : Heap A) (ref : Nat) (m : MapF) : Option (Heap A) :=
  match h[ref]? with
  | some (.maps l) => some (h.set ref (.maps (l ++ [m])))
  | _ => none

/-- `lst.insert(0, x)` -/
def pushMap {A} (h : Heap A) (ref : Nat) (m : MapF) : Option (Heap A) :=
  match h[ref]? with
  | some (.maps l) => some (h.set ref (.maps (m :: l)))
  | _ => none

def appendFilt {A} (h : Heap A) (ref : Nat) (f : Filt A) : Option (Heap A) :=
  match h[ref]? with
  | some (.filts l) => some (h.set ref (.filts (l ++ [f])))
  | _ => none

def appendSlice {A} (h : Heap A) (ref : Nat) (s : PSlice) : Option (Heap A) :=
  match h[ref]? with
  | some (.slices l) => some (h.set ref (.slices (l ++ [s])))
  | _ => none

def tmplAt {A} (h : Heap A) (ref : Nat) : Option Tmpl :=
  match h[ref]? with
  | some (.tmpl t) => some t
  | _ => none

/-- `__getitem__`.  `none` = the heap is not a heap of streams (cannot happen for heaps built by the constructors and
    this function); `some (.error e)` = Python raises; `some (.ok (h', out))` = the heap afterwards and the object
    returned.  Reads go through `self` (`r`), writes through the references held by `out`. -/
def getitemH {A} (lit : List Char → Option A) (h : Heap A) (r : Nat) (k : Key) :
    Option (Except Err (Heap A × Nat)) :=
  match fldsAt h r, copyStream h r with
  | some self, some (h1, out, o) =>
    match k with
    | .str key =>
      -- `col = list(self.template.keys()).index(key)`
      match tmplAt h1 self.tmpl with
      | some (.base _) => some (.error .attributeError)
      | some (.seq t) =>
        match indexOf? t.visible key with
        | none => some (.error .keyError)
        | some col =>
          -- `out.level += 1`; `out.template = out.template[key]` (the child object); `out.imap.append(…)`
          match tmplAt h1 o.tmpl with
          | some (.seq tc) =>
            let h2 := h1 ++ [.tmpl (.base (tc.id ++ '.' :: key))]
            let o' : Flds := { o with level := o.level + 1, tmpl := h1.length }
            (appendMap (h2.set out o'.obj) o'.imap (.item col o'.level)).map fun h3 => .ok (h3, out)
          | _ => none
      | none => none
    | .list keys =>
      match tmplAt h1 self.tmpl with
      | some (.base _) => some (.error .attributeError)
      | some (.seq t) =>
        match keys.mapM (indexOf? t.visible) with
        | none => some (.error .valueError)
        | some cols =>
          -- `out.template._visible_keys = key`: a write INTO the template object `out` refers to
          match tmplAt h1 o.tmpl with
          | some (.seq tc) =>
            (appendMap (h1.set o.tmpl (.tmpl (.seq { tc with visible := keys }))) o.imap (.proj cols (o.level + 1))).map
              fun h3 => .ok (h3, out)
          | _ => none
      | none => none
    | .int i => (appendSlice h1 o.islice ⟨some i, some (i + 1), none⟩).map fun h3 => .ok (h3, out)
    | .slice sl => (appendSlice h1 o.islice sl).map fun h3 => .ok (h3, out)
    | .cond c =>
      -- `f, m = build_filter(key, self.root)`; `out.ifilter.append(f)`; `out.imap.insert(0, m)`
      match tmplAt h1 self.root with
      | some (.seq rt) =>
        match buildFilter lit c rt with
        | .error e => some (.error e)
        | .ok (f, m) =>
          match appendFilt h1 o.ifilter f with
          | some h2 => (pushMap h2 o.imap m).map fun h3 => .ok (h3, out)
          | none => none
      | _ => none
  | _, _ => none

/-- the record of `PydapModel/IterData.lean` a stream object stands for -/
def view {A} (h : Heap A) (r : Nat) : Option (Stream A) :=
  match fldsAt h r with
  | none => none
  | some f =>
    match h[f.src]?, h[f.tmpl]?, h[f.ifilter]?, h[f.imap]?, h[f.islice]?, h[f.root]? with
    | some (.source s), some (.tmpl tv), some (.filts fl), some (.maps ml), some (.slices sl), some (.tmpl (.seq rt)) =>
      some ⟨s.all, rt, tv, fl, ml, sl, f.level⟩
    | _, _, _, _, _, _ => none

/-- the rows one more pass over the source yields, and the source afterwards -/
def drain {A} : Source A → List (List A) × Source A
  | .rows l => (l, .rows l)
  | .csv l => (l, .csv l)
  | .gen l false => (l, .gen l true)
  | .gen l true => ([], .gen l true)

/-- `list(stream_object)`: `__iter__` reads `self.stream` and wraps the recorded pipeline around it; exhausting the
    result reads the source once.  Returns the listing and the heap afterwards (only the source object can change). -/
def iterH {A} (cmp : Op → A → A → Bool) (h : Heap A) (r : Nat) : Option (Except Err (List (Item A)) × Heap A) :=
  match view h r, fldsAt h r with
  | some s, some f =>
    match h[f.src]? with
    | some (.source so) =>
      some (iter cmp { s with src := (drain so).1 }, h.set f.src (.source (drain so).2))
    | _ => none
  | _, _ => none

/-- `IterData(rows, template)` / `CSVData(path, template)` on an empty heap: source, template (also `root`), three
    lists, the stream object (index 5) -/
def mkHeap {A} (so : Source A) (t : SeqT) (csv : Bool) : Heap A :=
  [.source so, .tmpl (.seq t), .filts [], .maps (if csv then [] else [.fixNested t.visible.length]), .slices [],
   .stream 0 1 2 3 4 0 1]

/-! ### histories: any interleaving of steps on any stream made so far and of complete passes over any of them -/

inductive Cmd where
  | step (target : Nat) (k : Key)    -- `handles[target][k]`, the result becomes a new handle
  | pass (target : Nat)              -- `list(handles[target])`

/-- run a history; `handles` are the stream objects made so far (oldest first).  A step that raises makes no handle.
    `none`: a command names a handle that does not exist, or the heap is ill-formed. -/
def runHist {A} (lit : List Char → Option A) (cmp : Op → A → A → Bool) :
    Heap A → List Nat → List Cmd → Option (Heap A × List Nat)
  | h, hs, [] => some (h, hs)
  | h, hs, .step t k :: rest =>
    match hs[t]? with
    | none => none
    | some r =>
      match getitemH lit h r k with
      | none => none
      | some (.error _) => runHist lit cmp h hs rest
      | some (.ok (h', r')) => runHist lit cmp h' (hs ++ [r']) rest
  | h, hs, .pass t :: rest =>
    match hs[t]? with
    | none => none
    | some r =>
      match iterH cmp h r with
      | none => none
      | some (_, h') => runHist lit cmp h' hs rest

end Pydap.IterHeap
