/-
  Model of the slice algebra of pydap: `lib.py` `fix_slice`, `combine_slices`, `hyperslab`
  and `parsers/__init__.py` `parse_hyperslab`.

  The functions follow the Python line by line (same case splits, same `x or d` idioms).
  `sel` is the *specification* of numpy basic slicing on one axis for steps ≥ 1; it is
  not pydap code and is compared against numpy itself in the correspondence run.
-/
namespace Pydap

structure PSlice where
  start : Option Int
  stop  : Option Int
  step  : Option Int
deriving DecidableEq, Repr, Inhabited

/-- `slice(None)` -/
def PSlice.all : PSlice := ⟨none, none, none⟩

inductive Idx where
  | int (i : Int)
  | sl  (s : PSlice)
  | ell
deriving DecidableEq, Repr, Inhabited

/-! ### numpy's selection on one axis (specification, steps ≥ 1) -/

/-- numpy's treatment of one bound on an axis of length `N` (positive step):
    `None` → default, negative → `+N` clipped at 0, otherwise clipped at `N`. -/
def npBound (N : Int) (dflt : Int) : Option Int → Int
  | none   => dflt
  | some i => if i < 0 then max (i + N) 0 else min i N

/-- the list of positions `x[start:stop:step]` selects on an axis of length `N` (step ≥ 1). -/
def sel (N : Nat) (s : PSlice) : List Nat :=
  let k := (s.step.getD 1).toNat
  let a := (npBound N 0 s.start).toNat
  let b := (npBound N N s.stop).toNat
  List.range' a ((b - a + k - 1) / k) k

/-- numpy's integer index on an axis of length `N`: `-N ≤ i < N`, negative wraps once. -/
def selInt (N : Nat) (i : Int) : Option Nat :=
  if 0 ≤ i ∧ i < N then some i.toNat
  else if -(N : Int) ≤ i ∧ i < 0 then some (i + N).toNat
  else none

/-! ### `fix_slice` -/

/-- Python's `x or d` on an optional integer: `None` and `0` are falsy. -/
def orElse (x : Option Int) (d : Int) : Int :=
  match x with
  | none => d
  | some v => if v = 0 then d else v

/-- first loop of `fix_slice`: expand `Ellipsis`; `expand` may be negative
    (`(slice(None),) * n` is empty for `n ≤ 0`). Returns the list and the remaining counter. -/
def expandEll : List Idx → Int → List Idx × Int
  | [], e => ([], e)
  | Idx.ell :: rest, e =>
      let (r, e') := expandEll rest 0
      (List.replicate (e + 1).toNat (Idx.sl PSlice.all) ++ r, e')
  | x :: rest, e =>
      let (r, e') := expandEll rest e
      (x :: r, e')

/-- the `else` branch of the per-axis body of the second loop of `fix_slice` -/
def fixSl (N : Int) (s : PSlice) : PSlice :=
  let k := orElse s.step 1
  let i : Int := match s.start with
    | none => 0
    | some i => if i < 0 then i + N else i
  let j : Int := match s.stop with
    | none => N + i
    | some j => if j ≥ N + i then N + i else if j < 0 then j + N else j
  ⟨some i, some j, some k⟩

/-- per-axis body of the second loop of `fix_slice`. An `Ellipsis` cannot reach it. -/
def fixAxis (N : Int) : Idx → Idx
  | Idx.int s => if s < 0 then Idx.int (s + N) else Idx.int s
  | Idx.sl s => Idx.sl (fixSl N s)
  | Idx.ell => Idx.ell   -- unreachable after expansion; Python would raise AttributeError

def zipFix : List Idx → List Nat → List Idx
  | s :: ss, n :: ns => fixAxis n s :: zipFix ss ns
  | _, _ => []

/-- `fix_slice(slice_, shape)` for a tuple `slice_` (a non-tuple is wrapped by the caller). -/
def fixSlice (idx : List Idx) (shape : List Nat) : List Idx :=
  let r := expandEll idx ((shape.length : Int) - idx.length)
  zipFix (r.1 ++ List.replicate r.2.toNat (Idx.sl PSlice.all)) shape

/-! ### `combine_slices` -/

def toSlice : Idx → PSlice
  | Idx.int i => ⟨some i, some (i + 1), none⟩
  | Idx.sl s => s
  | Idx.ell => PSlice.all   -- not reachable from pydap's call sites (fix_slice output)

/-- body of the loop in `combine_slices` (after the `fix:` that scales the second slice
    by the first stride). -/
def combine1 (e1 e2 : PSlice) : PSlice :=
  let start1 := orElse e1.start 0
  let step1 := orElse e1.step 1
  let start := start1 + (orElse e2.start 0) * step1
  let step := step1 * (orElse e2.step 1)
  let stop : Option Int :=
    match e1.stop, e2.stop with
    | none, none => none
    | none, some b2 => some (start1 + b2 * step1)
    | some b1, none => some b1
    | some b1, some b2 => some (min b1 (start1 + b2 * step1))
  ⟨some start, stop, some step⟩

/-- `zip_longest(slice1, slice2, fillvalue=slice(None))` then `combine1` -/
def combine : List Idx → List Idx → List PSlice
  | [], [] => []
  | a :: as, [] => combine1 (toSlice a) PSlice.all :: combine as []
  | [], b :: bs => combine1 PSlice.all (toSlice b) :: combine [] bs
  | a :: as, b :: bs => combine1 (toSlice a) (toSlice b) :: combine as bs

/-! ### `hyperslab` and `parse_hyperslab` -/

/-- `sys.maxsize` on the 64-bit CPython of this sandbox -/
def MAXSIZE : Int := 9223372036854775807

def dropTrailingAll (l : List PSlice) : List PSlice :=
  (l.reverse.dropWhile (· = PSlice.all)).reverse

/-- the three numbers printed per axis: `(s.start or 0, s.step or 1, (s.stop or MAXSIZE) - 1)` -/
def hyperTriple (s : PSlice) : Int × Int × Int :=
  (orElse s.start 0, orElse s.step 1, orElse s.stop MAXSIZE - 1)

def digitChar : Nat → Char
  | 0 => '0' | 1 => '1' | 2 => '2' | 3 => '3' | 4 => '4'
  | 5 => '5' | 6 => '6' | 7 => '7' | 8 => '8' | _ => '9'

/-- decimal digits of a natural number, most significant first (Python's `%s` of an int ≥ 0). -/
def natDigits (n : Nat) : List Char :=
  if n < 10 then [digitChar n] else natDigits (n / 10) ++ [digitChar (n % 10)]

def intText (i : Int) : List Char :=
  if i < 0 then '-' :: natDigits i.natAbs else natDigits i.natAbs

def hyperslabText (l : List PSlice) : List Char :=
  (dropTrailingAll l).flatMap fun s =>
    let (a, k, b) := hyperTriple s
    ['['] ++ intText a ++ [':'] ++ intText k ++ [':'] ++ intText b ++ [']']

/-- token-level `parse_hyperslab`: each bracket group is the list of its `int()`-parsed tokens. -/
inductive HErr where
  | invalidHyperslab   -- ConstraintExpressionError (4+ tokens)
  | valueError         -- int() failed
deriving DecidableEq, Repr

def parseGroup (tokens : List Int) : Except HErr PSlice :=
  match tokens with
  | [a] => .ok ⟨some a, some (a + 1), some 1⟩
  | [a, b] => .ok ⟨some a, some (b + 1), some 1⟩
  | [a, k, b] => .ok ⟨some a, some (b + 1), some k⟩
  | _ => .error .invalidHyperslab

/-- Python's `int()` on a decimal token: surrounding ASCII whitespace is stripped, one optional
    sign, digits with single underscores between digits. (Non-ASCII digits are not modelled:
    the correspondence generator stays in ASCII.) -/
def isWs (c : Char) : Bool := c = ' ' || c = '\t' || c = '\n' || c = '\r' || c = '\x0b' || c = '\x0c'

def isDigit (c : Char) : Bool := '0' ≤ c && c ≤ '9'

/-- digits with optional single underscores between them; `prevDigit` says whether the
    previous character was a digit (an underscore must be surrounded by digits). -/
def parseDigits : List Char → Nat → Bool → Option Nat
  | [], acc, prevDigit => if prevDigit then some acc else none
  | c :: cs, acc, prevDigit =>
    if isDigit c then parseDigits cs (acc * 10 + (c.toNat - '0'.toNat)) true
    else if c = '_' && prevDigit && (match cs with | d :: _ => isDigit d | [] => false)
      then parseDigits cs acc false
    else none

def parseNatChars (cs : List Char) : Option Nat := parseDigits cs 0 false

def stripWs (cs : List Char) : List Char :=
  ((cs.dropWhile isWs).reverse.dropWhile isWs).reverse

def parseIntChars (cs : List Char) : Option Int :=
  match stripWs cs with
  | '-' :: ds => (parseNatChars ds).map fun n => -(n : Int)
  | '+' :: ds => (parseNatChars ds).map fun n => (n : Int)
  | ds => (parseNatChars ds).map fun n => (n : Int)

/-- `str.split(sep)` for a one-character separator -/
def splitOnChar (sep : Char) : List Char → List (List Char)
  | [] => [[]]
  | c :: cs =>
    match splitOnChar sep cs with
    | [] => [[]]   -- unreachable
    | g :: gs => if c = sep then [] :: g :: gs else (c :: g) :: gs

/-- `str.split(ab)` for a two-character separator (leftmost, non-overlapping) -/
def splitOn2 (a b : Char) : List Char → List (List Char)
  | [] => [[]]
  | [c] => [[c]]
  | c :: d :: rest =>
    if c = a ∧ d = b then [] :: splitOn2 a b rest
    else match splitOn2 a b (d :: rest) with
      | [] => [[c]]   -- unreachable
      | g :: gs => (c :: g) :: gs

def parseTokens (g : List Char) : Except HErr (List Int) :=
  (splitOnChar ':' g).mapM fun t => match parseIntChars t with
    | some i => .ok i
    | none => .error .valueError

/-- `parse_hyperslab`: `hyperslab[1:-1].split("][")`, drop empty groups, then per group
    split on `:` and `int()` every token. -/
def parseHyperslab (text : List Char) : Except HErr (List PSlice) :=
  let inner := (text.drop 1).dropLast
  ((splitOn2 ']' '[' inner).filter (· ≠ [])).mapM fun g => do
    let toks ← parseTokens g
    parseGroup toks

end Pydap
