/-
  C14 / C18 — heap model of the client-side proxies (handlers/dap.py `SequenceProxy`,
  `BaseProxyDap2/4`; client.py `Functions` → `ServerFunction` → `ServerFunctionResult`).

  Objects live in an explicit heap so that "shares structure with" is expressible: a
  `SequenceProxy` refers to its template (a `SequenceType`/`BaseType` object) by reference, and
  `__getitem__` with a list of columns *writes* `_visible_keys` of the template of the object it
  returns.  Whether that write can hit a template some other object also refers to is exactly
  what `__copy__` decides.  Every GET is logged as (session, request).

  The model follows the code after commit 13350a5 (`__copy__` owns its template and forwards
  session and request options); `seqCopyOld` is the `__copy__` before that commit.
-/
import PydapModel.Slice
import PydapModel.Subset
namespace Pydap.Proxy

/-- the session a proxy carries; `none` makes `create_request` build a fresh anonymous session -/
abbrev Sess := Option Nat

/-- names, ids and URL texts are character lists -/
abbrev Name := List Char

/-- response extension of a request -/
inductive Ext where
  | dods | das | dap
deriving DecidableEq, Repr, Inhabited

/-- the template object of a sequence proxy: a `SequenceType` (with children) or, after
    `seq["child"]`, a `BaseType` (no children) -/
structure Tmpl where
  path : List Name        -- id = ".".join(path)
  keys : List Name        -- `_dict` keys, declaration order; `[]` for a BaseType
  visible : List Name     -- `_visible_keys`
deriving DecidableEq, Repr, Inhabited

/-- request options copied as a bundle: (application, timeout, verify, get_kwargs) -/
abbrev Opts := Nat

structure SeqProxy where
  baseurl : Name
  template : Nat            -- reference into `Heap.tmpls`
  selection : List Name
  slice : List PSlice       -- `(slice(None),)` initially
  subChildren : Bool
  session : Sess
  opts : Opts
deriving DecidableEq, Repr, Inhabited

structure ArrProxy where
  baseurl : Name
  baseSel : List Name     -- selection part of the base URL's query
  vid : Name
  cshape : List Nat
  slice : List Idx
  session : Sess
  opts : Opts
  dap4 : Bool
deriving DecidableEq, Repr, Inhabited

/-- what the `data` attribute of a `BaseType` holds: the proxy installed by `open_url` (by
    *reference*: `BaseType.__copy__` hands the same proxy object to the copy), or an array received
    from the server, described per source axis by (axis removed by an integer index of a *local*
    numpy indexing?, source positions held) — with distinct source values this determines the
    array. -/
inductive Data where
  | proxy (r : Nat)
  | vals (axes : List (Bool × List Nat))
deriving DecidableEq, Repr, Inhabited

inductive Obj where
  | seq (p : SeqProxy)
  | arr (p : ArrProxy)
  | fns (baseurl : Name) (session : Sess)                     -- `Functions`
  | fn (baseurl name : Name) (session : Sess)                 -- `ServerFunction`
  | res (baseurl id : Name) (session : Sess) (loaded : Bool)  -- `ServerFunctionResult`
  | var (id : Name) (data : Data)                             -- `BaseType` (of the dataset, of a grid, or a result)
  | grid (kids : List Nat) (outputGrid : Bool)                -- `GridType`: references to its children (array first,
                                                              -- then the maps), `_output_grid`
deriving DecidableEq, Repr, Inhabited

/-- what a GET asks for -/
structure Req where
  baseurl : Name
  ext : Ext
  ids : List Name          -- projection (comma separated in the URL)
  slab : List PSlice         -- hyperslab written after the last id
  selection : List Name
deriving DecidableEq, Repr, Inhabited

structure Heap where
  tmpls : List Tmpl
  objs : List Obj
  log : List (Sess × Req)
  /-- the served dataset (the other side of the wire, never written by the client): shapes of the
      source arrays by id.  The answer to a GET is a function of the request and of this. -/
  src : List (Name × List Nat) := []
deriving Repr, Inhabited

inductive DKey where
  | name (k : Name)            -- seq["i"]
  | cols (ks : List Name)      -- seq[["f", "i"]]
  | ce (clauses : List Name)   -- seq[ConstraintExpression]: `str(key).split("&")`
  | idx (i : Int)                -- seq[3]  → slice(3, 4)
  | sl (s : PSlice)              -- seq[1:5]
deriving DecidableEq, Repr, Inhabited

inductive Ev where
  | copy (r : Nat)                      -- copy.copy(proxy)
  | getitem (r : Nat) (k : DKey)         -- SequenceProxy.__getitem__
  | iter (r : Nat)                      -- SequenceProxy.__iter__: one GET
  | aget (r : Nat) (idx : List Idx)     -- BaseProxyDap2/4.__getitem__: one GET, keeps no state
  | fattr (r : Nat) (name : Name)     -- Functions.__getattr__
  | fcall (r : Nat) (args : Name)     -- ServerFunction.__call__ (argument ids/literals, joined)
  | rget (r : Nat) (decodes : Bool)     -- ServerFunctionResult.__getitem__ → open_dods_url: GET .dods; when the answer
                                        -- decodes (both transports since fix b7d1390; before it a requests session raised
                                        -- AttributeError on `r.body` right after the first GET) also GET .das and cache
                                        -- the dataset; `false`: the first answer does not decode, nothing is cached
  | vget (r : Nat) (idx : List Idx)     -- BaseType.__getitem__ with an index: copy + `self.data[index]`
  | ggrid (r : Nat) (key : List Idx)    -- GridType.__getitem__ with a non-string key (output_grid on or off)
deriving DecidableEq, Repr, Inhabited

def joinDot : List Name → Name
  | [] => []
  | [a] => a
  | a :: b :: rest => a ++ '.' :: joinDot (b :: rest)

/-! ### `SequenceProxy` -/

/-- `__copy__` (after 13350a5): a fresh template object with its own `_visible_keys`, everything
    else forwarded.  Returns the new heap and the new proxy (not yet registered as an object). -/
def seqCopy (h : Heap) (p : SeqProxy) : Option (Heap × SeqProxy) :=
  match h.tmpls[p.template]? with
  | none => none
  | some t => some ({ h with tmpls := h.tmpls ++ [t] }, { p with template := h.tmpls.length })

/-- `__copy__` before 13350a5: `self.__class__(self.baseurl, self.template, self.selection[:],
    self.slice[:], self.application)` — template shared, session/timeout/verify/get_kwargs and
    `sub_children` dropped. -/
def seqCopyOld (h : Heap) (p : SeqProxy) : Option (Heap × SeqProxy) :=
  some (h, { p with subChildren := false, session := none, opts := 0 })

def keySlice : DKey → Option PSlice
  | .idx i => some ⟨some i, some (i + 1), none⟩
  | .sl s => some s
  | _ => none

/-- the body of `__getitem__` after `out = copy.copy(self)` -/
def seqApply (h : Heap) (out : SeqProxy) : DKey → Option (Heap × SeqProxy)
  | .name k =>
    match h.tmpls[out.template]? with
    | none => none
    | some t =>
      if k ∈ t.keys then
        some ({ h with tmpls := h.tmpls ++ [⟨t.path ++ [k], [], []⟩] },
              { out with template := h.tmpls.length, subChildren := false })
      else none                                    -- KeyError
  | .cols ks =>
    match h.tmpls[out.template]? with
    | none => none
    | some t =>
      some ({ h with tmpls := h.tmpls.set out.template { t with visible := ks } },
            { out with subChildren := true })
  | .ce cl => some (h, { out with selection := out.selection ++ cl })
  | .idx i => some (h, { out with slice := combine (out.slice.map Idx.sl) [Idx.sl ⟨some i, some (i + 1), none⟩] })
  | .sl s => some (h, { out with slice := combine (out.slice.map Idx.sl) [Idx.sl s] })

/-- `SequenceProxy.__getitem__` parameterised by the copy function -/
def seqGetitemWith (cp : Heap → SeqProxy → Option (Heap × SeqProxy)) (h : Heap) (p : SeqProxy) (k : DKey) :
    Option (Heap × SeqProxy) :=
  match cp h p with
  | none => none
  | some (h1, out) => seqApply h1 out k

/-- `SequenceProxy.id` -/
def seqIds (t : Tmpl) (p : SeqProxy) : List Name :=
  if p.subChildren then t.visible.map fun k => joinDot (t.path ++ [k]) else [joinDot t.path]

/-- the request of `SequenceProxy.url` -/
def seqReq (t : Tmpl) (p : SeqProxy) : Req :=
  { baseurl := p.baseurl, ext := .dods, ids := seqIds t p, slab := dropTrailingAll p.slice,
    selection := p.selection }

/-- the columns `unpack_sequence` decodes the answer with: `list(template.children()) or [template]` -/
def seqColumns (t : Tmpl) : List Name :=
  if t.keys = [] then [joinDot t.path] else t.visible

/-! ### arrays -/

/-- `BaseProxyDap2/4.__getitem__`: `combine_slices(self.slice, fix_slice(index, self.shape))` -/
def arrReq (p : ArrProxy) (idx : List Idx) : Req :=
  { baseurl := p.baseurl, ext := if p.dap4 then .dap else .dods, ids := [p.vid],
    slab := dropTrailingAll (combine p.slice (fixSlice idx p.cshape)),
    selection := if p.dap4 then [] else p.baseSel }

/-! ### one event -/

def pushObj (h : Heap) (o : Obj) : Heap := { h with objs := h.objs ++ [o] }
def pushLog (h : Heap) (s : Sess) (r : Req) : Heap := { h with log := h.log ++ [(s, r)] }

/-! ### variables and grids (model.py `BaseType.__getitem__`, `GridType.__getitem__`) -/

/-- the server's answer to the GET of one array, as source positions per axis
    (handlers/lib.py `apply_projection` → `data[slices]`, model `npSlices`; `none` = error document) -/
def answer (src : List (Name × List Nat)) (q : Req) : Option (List (List Nat)) :=
  match q.ids with
  | [id] => match src.find? (fun e => e.1 = id) with
    | some e => match npSlices e.2 q.slab with
      | .ok pos => some pos
      | .error _ => none
    | none => none
  | _ => none

/-- numpy basic indexing of one axis holding source positions `p` -/
def npLocal1 (p : List Nat) : Idx → Option (Bool × List Nat)
  | .int i => (selInt p.length i).bind fun j => (p[j]?).map fun v => (true, [v])
  | .sl s => some (false, (sel p.length s).filterMap (p[·]?))
  | .ell => none

/-- numpy basic indexing of a received array by an Ellipsis-free key (short keys leave the
    trailing axes whole, too many entries raise IndexError) -/
def npLocalAxes : List (Bool × List Nat) → List Idx → Option (List (Bool × List Nat))
  | [], [] => some []
  | [], _ :: _ => none
  | (true, p) :: rest, ix => (npLocalAxes rest ix).map ((true, p) :: ·)
  | (false, p) :: rest, [] => (npLocalAxes rest []).map ((false, p) :: ·)
  | (false, p) :: rest, e :: ix => (npLocal1 p e).bind fun a => (npLocalAxes rest ix).map (a :: ·)

def ndim (axes : List (Bool × List Nat)) : Nat := (axes.filter fun a => !a.1).length

def npLocal (axes : List (Bool × List Nat)) (key : List Idx) : Option (List (Bool × List Nat)) :=
  npLocalAxes axes (expandKey key (ndim axes + 1 - key.length))

/-- `data[index]` for what a `BaseType` holds.  A proxy issues one GET (logged with the proxy's
    session, `BaseProxyDap2.__getitem__` keeps no state) and returns the decoded answer; a received
    array is indexed locally by numpy.  The heap returned differs from `h` by the log only;
    `none` = the read raised. -/
def readData (h : Heap) (d : Data) (idx : List Idx) : Heap × Option (List (Bool × List Nat)) :=
  match d with
  | .proxy r =>
    match h.objs[r]? with
    | some (.arr p) =>
      (pushLog h p.session (arrReq p idx), (answer h.src (arrReq p idx)).map fun pos => pos.map fun x => (false, x))
    | _ => (h, none)
  | .vals axes => (h, npLocal axes idx)

/-- `len(self.shape)` of a variable -/
def dataRank (h : Heap) : Data → Nat
  | .proxy r => match h.objs[r]? with
    | some (.arr p) => p.cshape.length
    | _ => 0
  | .vals axes => ndim axes

/-- `BaseType.__getitem__(index)`: `out = copy.copy(self); out.data = self._get_data_index(index)`.
    The copy is reachable by nobody until it is returned, so it is allocated with its final data. -/
def varGetitem (h : Heap) (r : Nat) (idx : List Idx) : Heap :=
  match h.objs[r]? with
  | some (.var id d) =>
    match (readData h d idx).2 with
    | some ax => pushObj (readData h d idx).1 (.var id (.vals ax))
    | none => (readData h d idx).1
  | _ => h

/-- the loop of `GridType.__getitem__`:
    `for var, slice_ in zip(out.children(), [key] + axes): var.data = self[var.name].data[slice_]`.
    `kids` are the children of `self` (the data is read from *them*), the result lists the children
    of `out` (clones of the same id, `copy.copy(child)` shares the parent's data until it is
    assigned); children beyond the index list keep the shared data (lazy maps of a short key). -/
def gridLoop (h : Heap) : List Nat → List (List Idx) → Heap × Option (List Obj)
  | [], _ => (h, some [])
  | k :: ks, [] =>
    match h.objs[k]? with
    | some (.var id d) => ((gridLoop h ks []).1, (gridLoop h ks []).2.map fun l => Obj.var id d :: l)
    | _ => (h, none)
  | k :: ks, ix :: ixs =>
    match h.objs[k]? with
    | some (.var id d) =>
      match (readData h d ix).2 with
      | some ax =>
        ((gridLoop (readData h d ix).1 ks ixs).1,
         (gridLoop (readData h d ix).1 ks ixs).2.map fun l => Obj.var id (.vals ax) :: l)
      | none => ((readData h d ix).1, none)
    | _ => (h, none)

def pushObjs (h : Heap) (l : List Obj) : Heap := { h with objs := h.objs ++ l }

/-- the index lists of the loop: the whole key for the array, entry `i` of the Ellipsis-expanded
    key for map `i` (after fix c853ce5) -/
def gridIndexLists (rank : Nat) (key : List Idx) : List (List Idx) :=
  key :: (expandKey key (rank + 1 - key.length)).map fun e => [e]

/-- after the loop: the new `GridType` (built by `__shallowcopy__`, so `_output_grid` is True again)
    with its children, allocated when the loop did not raise -/
def gridFinish (r : Heap × Option (List Obj)) : Heap :=
  match r.2 with
  | some newKids =>
    pushObj (pushObjs r.1 newKids)
      (.grid ((List.range newKids.length).map fun i => r.1.objs.length + i) true)
  | none => r.1

/-- `GridType.__getitem__(key)` for a non-string key -/
def gridGetitemHeap (h : Heap) (r : Nat) (key : List Idx) : Heap :=
  match h.objs[r]? with
  | some (.grid kids og) =>
    match kids.head? with
    | none => h
    | some a =>
      if og then
        match h.objs[a]? with
        | some (.var _ d) => gridFinish (gridLoop h kids (gridIndexLists (dataRank h d) key))
        | _ => h
      else varGetitem h a key        -- `return self.array[key]`
  | _ => h

/-- one client-side event; events that make Python raise leave the state unchanged -/
def stepWith (cp : Heap → SeqProxy → Option (Heap × SeqProxy)) (h : Heap) : Ev → Heap
  | .copy r =>
    match h.objs[r]? with
    | some (.seq p) => match cp h p with
      | some (h1, out) => pushObj h1 (.seq out)
      | none => h
    | _ => h
  | .getitem r k =>
    match h.objs[r]? with
    | some (.seq p) => match seqGetitemWith cp h p k with
      | some (h1, out) => pushObj h1 (.seq out)
      | none => h
    | _ => h
  | .iter r =>
    match h.objs[r]? with
    | some (.seq p) => match h.tmpls[p.template]? with
      | some t => pushLog h p.session (seqReq t p)
      | none => h
    | _ => h
  | .aget r idx =>
    match h.objs[r]? with
    | some (.arr p) => pushLog h p.session (arrReq p idx)
    | _ => h
  | .fattr r name =>
    match h.objs[r]? with
    | some (.fns b s) => pushObj h (.fn b name s)
    | _ => h
  | .fcall r args =>
    match h.objs[r]? with
    | some (.fn b name s) => pushObj h (.res b (name ++ '(' :: args ++ [')']) s false)
    | _ => h
  | .rget r dec =>
    match h.objs[r]? with
    | some (.res b id s false) =>
      let h1 := pushLog h s { baseurl := b, ext := .dods, ids := [id], slab := [], selection := [] }
      if dec then
        let h2 := pushLog h1 s { baseurl := b, ext := .das, ids := [id], slab := [], selection := [] }
        { h2 with objs := h2.objs.set r (.res b id s true) }
      else h1
    | _ => h
  | .vget r idx => varGetitem h r idx
  | .ggrid r key => gridGetitemHeap h r key

def step : Heap → Ev → Heap := stepWith seqCopy
def stepOld : Heap → Ev → Heap := stepWith seqCopyOld

def run (h : Heap) (evs : List Ev) : Heap := evs.foldl step h
def runOld (h : Heap) (evs : List Ev) : Heap := evs.foldl stepOld h

/-! ### observables -/

structure Obs where
  req : Option Req           -- the request a read would issue now (sequences), `none` otherwise
  columns : List Name      -- the columns the answer would be decoded with
  session : Sess
  ident : List Name        -- id / url parts of arrays and function objects
  aslice : List Idx := []    -- the slice an array proxy stores
  data : Option Data := none -- what a variable holds
  kids : List Nat := []      -- the children of a grid, its `_output_grid`
  flag : Bool := false
  kind : Nat := 0            -- 0 sequence/function objects, 1 array proxy, 2 variable, 3 grid
deriving DecidableEq, Repr, Inhabited

def obsObj (h : Heap) : Obj → Option Obs
  | .seq p => (h.tmpls[p.template]?).map fun t =>
      { req := some (seqReq t p), columns := seqColumns t, session := p.session, ident := [] }
  | .arr p => some { req := none, columns := [], session := p.session, ident := [p.vid], aslice := p.slice, kind := 1 }
  | .var id d => some { req := none, columns := [], session := none, ident := [id], data := some d, kind := 2 }
  | .grid ks og => some { req := none, columns := [], session := none, ident := [], kids := ks, flag := og, kind := 3 }
  | .fns b s => some { req := none, columns := [], session := s, ident := [b] }
  | .fn b n s => some { req := none, columns := [], session := s, ident := [b, n] }
  | .res b id s _ => some { req := none, columns := [], session := s, ident := [b, id] }

def obs (h : Heap) (r : Nat) : Option Obs := (h.objs[r]?).bind (obsObj h)

/-! ### opening a dataset (`add_dap2_proxies` with session σ) -/

/-- a dataset with one sequence (children `keys`), arrays, and `dataset.functions` -/
def openHeap (baseurl : Name) (baseSel : List Name) (σ : Sess) (seqName : Name) (keys : List Name)
    (arrays : List (Name × List Nat × Bool)) : Heap :=
  { tmpls := [⟨[seqName], keys, keys⟩],
    objs := [.seq { baseurl := baseurl, template := 0, selection := baseSel, slice := [PSlice.all],
                    subChildren := false, session := σ, opts := 1 }]
      ++ arrays.map (fun (id, cs, d4) =>
          Obj.arr (ArrProxy.mk baseurl baseSel id cs (List.replicate cs.length (Idx.sl PSlice.all)) σ 1 d4))
      ++ [.fns baseurl σ],
    log := [],
    src := arrays.map fun (id, cs, _) => (id, cs) }

/-- the `BaseType`/`GridType` objects of the opened dataset on top of the proxies: `vars` =
    (id, reference of its proxy), `grids` = (references of the children, `output_grid`) -/
def openVars (h : Heap) (vars : List (Name × Nat)) (grids : List (List Nat × Bool)) : Heap :=
  { h with objs := h.objs ++ vars.map (fun v => Obj.var v.1 (.proxy v.2)) ++ grids.map (fun g => Obj.grid g.1 g.2) }

end Pydap.Proxy
