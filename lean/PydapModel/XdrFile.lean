/-
  C01 — model of client.py `open_dods_file`: the saved `.dods` response reopened from disk.

      dds = ""
      with open(file_path, "rt", buffering=1, encoding="ascii", newline="\n", errors="ignore") as f:
          for line in f:
              if line.strip() == "Data:":
                  break
              dds += line
      dataset = dds_to_dataset(dds)
      pos = len(dds) + len("Data:\n")
      with open(file_path, "rb") as f:
          f.seek(pos)
          dataset.data = unpack_dap2_data(BytesReader(f.read()), dataset)

  The file is read twice: once as TEXT (`textLines`: with `newline="\n"` a line ends after each 0x0A and nowhere else,
  nothing is translated; `asciiIgnore`: `errors="ignore"` drops every byte ≥ 128, so `len(dds)` counts the ASCII
  bytes only; `pyStrip`: `str.strip()`), once as BYTES from the offset computed from the text.  The DDS parse is
  another model (C07); the declaration `t` the decoder runs with is given, exactly as in `openDodsUrl`.
  Core Lean only.
-/
import PydapModel.Xdr
namespace Pydap.Xdr

/-- `str.isspace()` on the code points below 128: TAB LF VT FF CR, FS GS RS US, SPACE
    (`str.strip()` — unlike `bytes.strip()` — also strips 0x1C–0x1F) -/
def isPySpace (b : UInt8) : Bool :=
  b == 9 || b == 10 || b == 11 || b == 12 || b == 13 || b == 28 || b == 29 || b == 30 || b == 31 || b == 32

/-- `line.strip()` -/
def pyStrip (s : Bytes) : Bytes := ((s.dropWhile isPySpace).reverse.dropWhile isPySpace).reverse

/-- iterating a text file opened with `newline="\n"`: the lines, each with its `\n`; a last line without newline is
    kept; no empty line after a final newline -/
def textLines : Bytes → List Bytes
  | [] => []
  | b :: s =>
      if b = 10 then [b] :: textLines s
      else match textLines s with
        | [] => [[b]]
        | l :: ls => (b :: l) :: ls

/-- `encoding="ascii", errors="ignore"`: undecodable bytes vanish from the text -/
def asciiIgnore (s : Bytes) : Bytes := s.filter fun b => b.toNat < 128

/-- b"Data:" -/
def dataWord : Bytes := [68, 97, 116, 97, 58]

/-- the `for line in f:` loop with its `break`: the text accumulated in `dds` -/
def ddsOfLines : List Bytes → Bytes
  | [] => []
  | l :: ls =>
      if pyStrip (asciiIgnore l) = dataWord then []
      else asciiIgnore l ++ ddsOfLines ls

/-- `open_dods_file(path)` on a file holding `raw`: (the text handed to `dds_to_dataset`,
    `unpack_dap2_data(BytesReader(f.read()), dataset)` after `f.seek(len(dds) + len("Data:\n"))`
    — a seek beyond the end reads nothing) -/
def openDodsFile (t : Tmpl) (raw : Bytes) : Bytes × Except Err (Data × Bytes) :=
  let dds := ddsOfLines (textLines raw)
  (dds, decImpl t (raw.drop (dds.length + dataMarker.length)))

end Pydap.Xdr
