/-
  Model of the server-side-function middleware: `wsgi/ssf.py` `ServerSideFunctions.__call__`
  (call detection by the FUNCTION regexp, pass-through branch, stripping of the calls from the
  inner request), `eval_function` (parenthesis-aware tokeniser, nested calls), and of the two
  functions `wsgi/functions.py` `mean` (as exact sums with a common denominator, with the
  dims / maps bookkeeping) and `bounds` (successive filters on the X / Y / Z axis columns).
-/
import PydapModel.Handler
namespace Pydap.Ssf
open Pydap Pydap.Handler

/-! ### detection of calls -/

/-- `FUNCTION.match(s).groups()` for `FUNCTION = ([^(]*)\((.*)\)`: the name is everything before
    the first `(`, the arguments everything between it and the *last* `)` after it -/
def functionMatch (s : Str) : Option (Str × Str) :=
  match s.dropWhile (· ≠ '(') with
  | [] => none
  | _ :: rest =>
    match rest.reverse.dropWhile (· ≠ ')') with
    | [] => none
    | _ :: body => some (s.takeWhile (· ≠ '('), body.reverse)

/-- `RELOP.search(s)` for `RELOP = (<=|<|>=|>|=~|=|!=)`: every alternative contains one of `<`, `>`, `=` -/
def relopSearch (s : Str) : Bool := s.any fun c => c == '<' || c == '>' || c == '='

/-- `is_call(s)` (since the repair): FUNCTION matches and no comparison precedes the first parenthesis
    (`s.name="(a)"` is a selection whose constant holds parentheses, not a call) -/
def isCallSel (s : Str) : Bool :=
  match functionMatch s with
  | some (name, _) => !relopSearch name
  | none => false

def isCallItem : ProjItem → Bool
  | .call _ => true
  | .path _ => false

/-- `called = any(s for s in selection if is_call(s)) or any(p for p in projection if isinstance(p, str))` -/
def hasCall (proj : List ProjItem) (sel : List Str) : Bool :=
  sel.any isCallSel || proj.any isCallItem

/-- the query string of the inner request: `"&".join(s for s in selection if not is_call(s))` -/
def stripped (sel : List Str) : Str :=
  joinWith ['&'] (sel.filter fun s => !isCallSel s)

/-- what the middleware does with a request -/
inductive Route where
  | pass                       -- `return self.app(environ, start_response)`
  | function (inner : Str)     -- inner request with the calls stripped, then evaluation
  | error (e : Exc)            -- raised before delegating (answered with the error document)
deriving DecidableEq, Repr

def route (path query : Str) : Route :=
  match parseCE query with
  | .error e => .error e
  | .ok (proj, sel) =>
    match rsplitDot path with
    | none => .error .valueError
    | some (_, resp) =>
      if resp = cs!"das" ∨ hasCall proj sel = false then .pass else .function (stripped sel)

/-- `ServerSideFunctions.__call__` over an inner application `app` and an evaluator `fn` for the
    function branch (both answer with an `Outcome`; a raise inside the middleware is answered with
    the error document since the repair) -/
def ssf (app : Str → Str → Outcome) (fn : Str → Str → Str → Except Exc Outcome) (path query : Str) : Outcome :=
  match route path query with
  | .pass => app path query
  | .function inner =>
    match fn path query inner with
    | .ok o => o
    | .error _ => .errdoc (-1)
  | .error _ => .errdoc (-1)

/-! ### `eval_function`: call trees -/

inductive Arg where
  | call (name : Str) (args : List Arg)
  | tok (s : Str)
deriving Repr, Inhabited

/-- `eval_function`'s `tokenize(args)`: no token for an empty argument text (`f()`; since the repair —
    before it, one empty token, which `parse` resolved to the dataset itself), else the shared
    parenthesis-aware tokeniser -/
def tokenizeArgs (args : Str) : List Str := if args = [] then [] else tokTop ',' args 0 []

/-- `eval_function`'s parse: FUNCTION groups, the tokeniser on the arguments, recursion on
    tokens that match FUNCTION again.  `fuel` bounds the nesting depth (the text gets shorter). -/
def parseCall : Nat → Str → Arg
  | 0, s => .tok s
  | fuel + 1, s =>
    match functionMatch s with
    | none => .tok s
    | some (name, args) => .call name ((tokenizeArgs args).map (parseCall fuel))

/-- the id string built by the client's `ServerFunction.__call__`:
    `name + "(" + ",".join(params) + ")"` with nested results contributing their own id -/
def render : Arg → Str
  | .tok s => s
  | .call name args => name ++ ['('] ++ joinWith [','] (renderList args) ++ [')']
where renderList : List Arg → List Str
  | [] => []
  | a :: as => render a :: renderList as

/-! ### `mean` -/

/-- an integer-valued array whose true values are `data[i] / den` -/
structure Arr where
  shape : List Nat
  dims : List Str
  data : List Int
  den : Nat
deriving DecidableEq, Repr, Inhabited

/-- sums along one axis of a row-major array (`np.mean` = this divided by the axis length) -/
def sumAxis : List Nat → Nat → List Int → List Int
  | [], _, d => d
  | n :: sh, 0, d =>
    (List.range (prod sh)).map fun j => ((List.range n).map fun i => (d[i * prod sh + j]?).getD 0).sum
  | n :: sh, k + 1, d =>
    (List.range n).flatMap fun i => sumAxis sh k ((d.drop (i * prod sh)).take (prod sh))

/-- `mean(dataset, var, axis)` on a `BaseType`: `dims` loses entry `axis`
    (`tuple(dim for i, dim in enumerate(var.dims) if i != axis)`), the data is `np.mean(..., axis)` -/
def meanArr (a : Arr) (axis : Nat) : Except Exc Arr :=
  match a.shape[axis]? with
  | none => .error .valueError          -- numpy AxisError
  | some n => .ok ⟨a.shape.eraseIdx axis, a.dims.eraseIdx axis, sumAxis a.shape axis a.data, a.den * n⟩

structure GridA where
  array : Arr
  maps : List (Str × List Int)
deriving DecidableEq, Repr, Inhabited

/-- `mean` on a `GridType`: the array as above, then `for dim in dims: out[dim] = var[dim]` -/
def meanGrid (g : GridA) (axis : Nat) : Except Exc GridA :=
  match meanArr g.array axis with
  | .error e => .error e
  | .ok a =>
    match a.dims.mapM (fun d => g.maps.find? (·.1 = d)) with
    | none => .error .keyError
    | some ms => .ok ⟨a, ms⟩

/-! ### the axis argument: `axis = int(axis)`, negative values

  numpy reads a negative axis from the last one (`-1` = the last axis).  `mean` drops the dimension name and the
  map *by position* (`i != axis`), so since the repair it first counts the axis from the front:
  `if -ndim <= axis < 0: axis += ndim`; anything else goes to numpy as it is (AxisError when out of range). -/

/-- the position the repaired `mean` works with -/
def normAxis (rank : Nat) (axis : Int) : Except Exc Nat :=
  if 0 ≤ axis then .ok axis.toNat
  else if -(rank : Int) ≤ axis then .ok (axis + rank).toNat
  else .error .valueError          -- numpy AxisError

/-- `mean(dataset, var, axis)` for the axis as the request spells it -/
def meanAxis (a : Arr) (axis : Int) : Except Exc Arr :=
  match normAxis a.shape.length axis with
  | .error e => .error e
  | .ok k => meanArr a k

def meanGridAxis (g : GridA) (axis : Int) : Except Exc GridA :=
  match normAxis g.array.shape.length axis with
  | .error e => .error e
  | .ok k => meanGrid g k

/-- before the repair: numpy took the negative axis (shape and data of the axis counted from the last), the
    comprehension `i != axis` dropped no name: every dimension name (and, on a grid, every map) stayed -/
def meanAxisOld (a : Arr) (axis : Int) : Except Exc Arr :=
  match normAxis a.shape.length axis with
  | .error e => .error e
  | .ok k =>
    match meanArr a k with
    | .error e => .error e
    | .ok r => .ok (if axis < 0 then { r with dims := a.dims } else r)

/-! ### `eval_function` on (nested) calls of `mean`

  `eval_function(dataset, "mean(mean(v,k1),k2)", functions)`: the arguments are evaluated first (`map(parse, tokenize(args))`:
  a token that matches FUNCTION is evaluated recursively, another token is looked up in the dataset, else read by
  `ast.literal_eval`), then `functions[name](dataset, *args)`.  Here for the one function `mean` over an environment
  `env` of array variables (what `reduce(operator.getitem, [dataset] + names)` finds): the first argument is a call or a
  variable, the optional second a token that `literal_eval` reads as a decimal integer (`int(axis)`).  Outside this
  fragment (an axis token that is no decimal integer: `1.5`, `0x1`, a variable) the model does not resolve the call
  (`unspecified`). -/
def evalMean (env : Str → Option Arr) : Arg → Except Exc Arr
  | .tok s => match env s with
    | some a => .ok a
    | none => .error .unspecified            -- a literal / unknown name as the array: `mean` raises (not resolved which error)
  | .call name [x] =>
    if name = cs!"mean" then
      match evalMean env x with
      | .ok a => meanAxis a 0                 -- `axis=0` default
      | .error e => .error e
    else .error .keyError                     -- `functions[name]`
  | .call name [x, .tok k] =>
    if name = cs!"mean" then
      match evalMean env x, parseIntChars k with
      | .ok a, some axis => meanAxis a axis
      | .error e, _ => .error e
      | .ok _, none => .error .unspecified
    else .error .keyError
  | .call name _ => if name = cs!"mean" then .error .unspecified else .error .keyError

/-! ### `bounds` -/

inductive Axis where | x | y | z
deriving DecidableEq, Repr

/-- `child == lo` when `lo == hi`, else `(child >= lo) & (child <= hi)` -/
def inIv (lo hi v : Int) : Bool := if lo = hi then v == lo else (decide (lo ≤ v) && decide (v ≤ hi))

def keepRow (iv : Axis → Int × Int) (ax : Axis) (i : Nat) (r : List Int) : Bool :=
  match r[i]? with
  | some v => inIv (iv ax).1 (iv ax).2 v
  | none => false

/-- `for child in sequence.children(): if axis attribute is x / y / z: sequence.data = sequence[...]` -/
def boundsLoop (iv : Axis → Int × Int) : List (Option Axis × Nat) → List (List Int) → List (List Int)
  | [], rows => rows
  | (none, _) :: cs, rows => boundsLoop iv cs rows
  | (some ax, i) :: cs, rows => boundsLoop iv cs (rows.filter (keepRow iv ax i))

def bounds (iv : Axis → Int × Int) (cols : List (Option Axis)) (rows : List (List Int)) : List (List Int) :=
  boundsLoop iv cols.zipIdx rows

/-! ### `ServerSideFunctions.handle` past the routing: the function branch

  The inner request carries the function-free selection clauses and **no projection**: the inner
  handler serves its whole dataset with those clauses applied (`method(DatasetType)` hands the parsed
  dataset over, nothing is serialised).  The middleware then runs `fix_shorthand` on the *whole*
  projection against that dataset, splits it into the ordinary items (`base`) and the calls (`func`),
  runs `apply_projection(base, dataset)` — the handler's own function, hyperslabs included — and
  appends the result of every call, in the order of the calls.

  Outside the model (explicitly `Exc.unspecified`): calls in selection position (the loop over
  `selection`: `bounds` is modelled on its own above), and a result of a call whose name is already a
  key of the output when the result has children (the insertion loop then walks on to the children
  and merges them into `out[name]`).  The evaluator is a parameter: `ev inner call` is the variable
  `eval_function(dataset, call, self.functions)` returns, a fresh top-level variable whose id is its
  name (what `mean` builds). -/

/-- `base = [p for p in projection if not isinstance(p, str)]` -/
def ordinary (proj : List ProjItem) : List ProjItem := proj.filter fun p => !isCallItem p

/-- `func = [p for p in projection if isinstance(p, str)]` -/
def callsOf : List ProjItem → List Str
  | [] => []
  | .call s :: ps => s :: callsOf ps
  | .path _ :: ps => callsOf ps

/-- the insertion loop for one result:
    `for child in walk(var): parent = out[…child.id.split(".")[:-1]]; if child.name not in parent.keys(): parent[child.name] = child; break`.
    The first `child` is `var` itself, its parent is `out`: a name that is not yet a key is appended at
    the end.  A name that is a key already: nothing is inserted at top level and the loop goes on to
    the children of `var` — a `BaseType` has none (the result is **not** in the answer); a constructor's
    children are merged into `out[name]` (not resolved). -/
def insertResult (out : List Var) (v : Var) : Except Exc (List Var) :=
  if oddName v.name || v.name.contains '.' then .error .unspecified
  else if (out.map Var.name).contains v.name then
    match v with
    | .base _ => .ok out
    | _ => .error .unspecified
  else .ok (out ++ [v])

/-- `for call in func: var = eval_function(dataset, call, self.functions); …insert…` — the evaluator sees
    the *inner* dataset, not `out` -/
def insertResults (ev : Dataset → Str → Except Exc Var) (inner : Dataset) :
    List Var → List Str → Except Exc (List Var)
  | out, [] => .ok out
  | out, c :: cs =>
    match ev inner c with
    | .error e => .error e
    | .ok v =>
      match insertResult out v with
      | .error e => .error e
      | .ok out' => insertResults ev inner out' cs

/-- the dataset the function branch hands to the response: `inner` is the parsed dataset of the
    inner request -/
def fnProject (ev : Dataset → Str → Except Exc Var) (inner : Dataset) (proj : List ProjItem) :
    Except Exc Dataset :=
  if proj = [] then .ok inner
  else
    match proj.mapM (fixShorthand1 inner) with
    | .error e => .error e
    | .ok proj' =>
      match applyProjection (ordinary proj') inner with
      | .error e => .error e
      | .ok out =>
        match insertResults ev inner out.vars (callsOf proj') with
        | .error e => .error e
        | .ok vars => .ok { out with vars := vars }

/-- inner request (`query_string = stripped sel`, answered by `BaseHandler`), the selection-position
    calls (not resolved), then the projection -/
def fnDataset (ev : Dataset → Str → Except Exc Var) (ds : Dataset) (proj : List ProjItem) (sel : List Str) :
    Except Exc Dataset :=
  match constrained ds (stripped sel) with
  | .error e => .error e
  | .ok inner =>
    if sel.any isCallSel then .error .unspecified
    else fnProject ev inner proj

/-- the function branch of `handle` for a request that `route` sends there -/
def fnBranch (fmt : Int → Str) (ev : Dataset → Str → Except Exc Var) (ds : Dataset)
    (path query _inner : Str) : Except Exc Outcome :=
  match parseCE query, rsplitDot path with
  | .ok (proj, sel), some (_, resp) =>
    match lookupKind resp with
    | none => .error .keyError               -- the inner handler answers with an error document
    | some .other => .ok .answered
    | some k =>
      match fnDataset ev ds proj sel with
      | .ok cds => .ok (.ok k (bodyOf fmt k cds))
      | .error .unspecified => .ok .answered
      | .error e => .error e
  | _, _ => .error .valueError

/-- `ServerSideFunctions(BaseHandler(ds))` with the function table behind `ev` -/
def ssfHandle (fmt : Int → Str) (ev : Dataset → Str → Except Exc Var) (ds : Dataset) (path query : Str) : Outcome :=
  ssf (Handler.handle fmt ds) (fnBranch fmt ev ds) path query

/-! ### per-application function tables (`__init__`)

  `self.functions = load_functions(); self.functions.update(kwargs)`: `load_functions()` builds a
  **fresh** dict from the entry points on every call.  A table is an association list in insertion
  order (a dict), a function is an identifier. -/

abbrev Table := List (Str × Nat)

def tlookup (t : Table) (n : Str) : Option Nat := (t.find? (·.1 = n)).map (·.2)

/-- `d[k] = v`: an existing key keeps its place and takes the new value, a new key is appended -/
def tset : Table → Str → Nat → Table
  | [], k, v => [(k, v)]
  | (k', v') :: t, k, v => if k' = k then (k', v) :: t else (k', v') :: tset t k v

/-- `d.update(kw)` -/
def tupdate (t : Table) : Table → Table
  | [] => t
  | (k, v) :: kw => tupdate (tset t k v) kw

/-- a server process: what the entry points declare, and the applications built so far, each with
    its own table -/
structure FProc where
  stock : Table
  apps : List Table
deriving DecidableEq, Repr

/-- `load_functions()`: a new dict with the entry points' functions; the process is unchanged -/
def loadFunctions (p : FProc) : Table × FProc := (p.stock, p)

/-- `ServerSideFunctions(app, **kw)` -/
def buildApp (p : FProc) (kw : Table) : FProc :=
  let r := loadFunctions p
  { r.2 with apps := r.2.apps ++ [tupdate r.1 kw] }

def buildApps (p : FProc) (kws : List Table) : FProc := kws.foldl buildApp p

/-- `self.functions[name]` in application `i` -/
def appLookup (p : FProc) (i : Nat) (n : Str) : Option Nat := (p.apps[i]?).bind fun t => tlookup t n

/-- the *seeded mutant's* process (seed C19-z): `load_functions` memoised, every application holds the
    same dict object and `update` writes into it -/
structure SProc where
  shared : Table
  napps : Nat
deriving DecidableEq, Repr

def buildAppShared (p : SProc) (kw : Table) : SProc := ⟨tupdate p.shared kw, p.napps + 1⟩

def buildAppsShared (p : SProc) (kws : List Table) : SProc := kws.foldl buildAppShared p

def appLookupShared (p : SProc) (i : Nat) (n : Str) : Option Nat :=
  if i < p.napps then tlookup p.shared n else none

end Pydap.Ssf
