/-
  Model of the server-side-function middleware: `wsgi/ssf.py` `ServerSideFunctions.__call__`
  (call detection by the FUNCTION regexp, pass-through branch, stripping of the calls from the
  inner request), `eval_function` (parenthesis-aware tokeniser, nested calls), and of the two
  functions `wsgi/functions.py` `mean` (as exact sums with a common denominator, with the
  dims / maps bookkeeping) and `bounds` (successive filters on the X / Y / Z axis columns).
-/
import PydapModel.Handler
namespace Pydap.Ssf
open Pydap Pydap.Handler

/-! ### detection of calls -/

/-- `FUNCTION.match(s).groups()` for `FUNCTION = ([^(]*)\((.*)\)`: the name is everything before
    the first `(`, the arguments everything between it and the *last* `)` after it -/
def functionMatch (s : Str) : Option (Str × Str) :=
  match s.dropWhile (· ≠ '(') with
  | [] => none
  | _ :: rest =>
    match rest.reverse.dropWhile (· ≠ ')') with
    | [] => none
    | _ :: body => some (s.takeWhile (· ≠ '('), body.reverse)

/-- `RELOP.search(s)` for `RELOP = (<=|<|>=|>|=~|=|!=)`: every alternative contains one of `<`, `>`, `=` -/
def relopSearch (s : Str) : Bool := s.any fun c => c == '<' || c == '>' || c == '='

/-- `is_call(s)` (since the repair): FUNCTION matches and no comparison precedes the first parenthesis
    (`s.name="(a)"` is a selection whose constant holds parentheses, not a call) -/
def isCallSel (s : Str) : Bool :=
  match functionMatch s with
  | some (name, _) => !relopSearch name
  | none => false

def isCallItem : ProjItem → Bool
  | .call _ => true
  | .path _ => false

/-- `called = any(s for s in selection if is_call(s)) or any(p for p in projection if isinstance(p, str))` -/
def hasCall (proj : List ProjItem) (sel : List Str) : Bool :=
  sel.any isCallSel || proj.any isCallItem

/-- the query string of the inner request: `"&".join(s for s in selection if not is_call(s))` -/
def stripped (sel : List Str) : Str :=
  joinWith ['&'] (sel.filter fun s => !isCallSel s)

/-- what the middleware does with a request -/
inductive Route where
  | pass                       -- `return self.app(environ, start_response)`
  | function (inner : Str)     -- inner request with the calls stripped, then evaluation
  | error (e : Exc)            -- raised before delegating (answered with the error document)
deriving DecidableEq, Repr

def route (path query : Str) : Route :=
  match parseCE query with
  | .error e => .error e
  | .ok (proj, sel) =>
    match rsplitDot path with
    | none => .error .valueError
    | some (_, resp) =>
      if resp = cs!"das" ∨ hasCall proj sel = false then .pass else .function (stripped sel)

/-- `ServerSideFunctions.__call__` over an inner application `app` and an evaluator `fn` for the
    function branch (both answer with an `Outcome`; a raise inside the middleware is answered with
    the error document since the repair) -/
def ssf (app : Str → Str → Outcome) (fn : Str → Str → Str → Except Exc Outcome) (path query : Str) : Outcome :=
  match route path query with
  | .pass => app path query
  | .function inner =>
    match fn path query inner with
    | .ok o => o
    | .error _ => .errdoc (-1)
  | .error _ => .errdoc (-1)

/-! ### `eval_function`: call trees -/

inductive Arg where
  | call (name : Str) (args : List Arg)
  | tok (s : Str)
deriving Repr, Inhabited

/-- `eval_function`'s `tokenize(args)`: no token for an empty argument text (`f()`; since the repair —
    before it, one empty token, which `parse` resolved to the dataset itself), else the shared
    parenthesis-aware tokeniser -/
def tokenizeArgs (args : Str) : List Str := if args = [] then [] else tokTop ',' args 0 []

/-- `eval_function`'s parse: FUNCTION groups, the tokeniser on the arguments, recursion on
    tokens that match FUNCTION again.  `fuel` bounds the nesting depth (the text gets shorter). -/
def parseCall : Nat → Str → Arg
  | 0, s => .tok s
  | fuel + 1, s =>
    match functionMatch s with
    | none => .tok s
    | some (name, args) => .call name ((tokenizeArgs args).map (parseCall fuel))

/-- the id string built by the client's `ServerFunction.__call__`:
    `name + "(" + ",".join(params) + ")"` with nested results contributing their own id -/
def render : Arg → Str
  | .tok s => s
  | .call name args => name ++ ['('] ++ joinWith [','] (renderList args) ++ [')']
where renderList : List Arg → List Str
  | [] => []
  | a :: as => render a :: renderList as

/-! ### `mean` -/

/-- an integer-valued array whose true values are `data[i] / den` -/
structure Arr where
  shape : List Nat
  dims : List Str
  data : List Int
  den : Nat
deriving DecidableEq, Repr, Inhabited

/-- sums along one axis of a row-major array (`np.mean` = this divided by the axis length) -/
def sumAxis : List Nat → Nat → List Int → List Int
  | [], _, d => d
  | n :: sh, 0, d =>
    (List.range (prod sh)).map fun j => ((List.range n).map fun i => (d[i * prod sh + j]?).getD 0).sum
  | n :: sh, k + 1, d =>
    (List.range n).flatMap fun i => sumAxis sh k ((d.drop (i * prod sh)).take (prod sh))

/-- `mean(dataset, var, axis)` on a `BaseType`: `dims` loses entry `axis`
    (`tuple(dim for i, dim in enumerate(var.dims) if i != axis)`), the data is `np.mean(..., axis)` -/
def meanArr (a : Arr) (axis : Nat) : Except Exc Arr :=
  match a.shape[axis]? with
  | none => .error .valueError          -- numpy AxisError
  | some n => .ok ⟨a.shape.eraseIdx axis, a.dims.eraseIdx axis, sumAxis a.shape axis a.data, a.den * n⟩

structure GridA where
  array : Arr
  maps : List (Str × List Int)
deriving DecidableEq, Repr, Inhabited

/-- `mean` on a `GridType`: the array as above, then `for dim in dims: out[dim] = var[dim]` -/
def meanGrid (g : GridA) (axis : Nat) : Except Exc GridA :=
  match meanArr g.array axis with
  | .error e => .error e
  | .ok a =>
    match a.dims.mapM (fun d => g.maps.find? (·.1 = d)) with
    | none => .error .keyError
    | some ms => .ok ⟨a, ms⟩

/-! ### `bounds` -/

inductive Axis where | x | y | z
deriving DecidableEq, Repr

/-- `child == lo` when `lo == hi`, else `(child >= lo) & (child <= hi)` -/
def inIv (lo hi v : Int) : Bool := if lo = hi then v == lo else (decide (lo ≤ v) && decide (v ≤ hi))

def keepRow (iv : Axis → Int × Int) (ax : Axis) (i : Nat) (r : List Int) : Bool :=
  match r[i]? with
  | some v => inIv (iv ax).1 (iv ax).2 v
  | none => false

/-- `for child in sequence.children(): if axis attribute is x / y / z: sequence.data = sequence[...]` -/
def boundsLoop (iv : Axis → Int × Int) : List (Option Axis × Nat) → List (List Int) → List (List Int)
  | [], rows => rows
  | (none, _) :: cs, rows => boundsLoop iv cs rows
  | (some ax, i) :: cs, rows => boundsLoop iv cs (rows.filter (keepRow iv ax i))

def bounds (iv : Axis → Int × Int) (cols : List (Option Axis)) (rows : List (List Int)) : List (List Int) :=
  boundsLoop iv cols.zipIdx rows

end Pydap.Ssf
