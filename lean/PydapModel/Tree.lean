/-
  C12 — model of the pydap data model (`model.py`): DapType / BaseType / StructureType / SequenceType /
  GridType / DatasetType as objects carrying an identity (`oid`, the model's `id(obj)`).

  An object is a header (`Hdr`) plus the forest of the objects stored in its `_dict`, in `OrderedDict`
  order.  `__setitem__` enforces `key == item.name`, so the dict key of a child *is* its `name` and is
  not stored twice.  A forest is encoded first-child / next-sibling, which makes it a plain inductive
  type (structural recursion, ordinary `induction`).

  Data objects are never inspected by the tree code, only passed around, indexed and copied: they are
  symbolic terms (`DRef`); the harness uses a Python class that records the same terms.
-/
import PydapModel.Quote

namespace Pydap.Tree
open Pydap.Quote

inductive Kind where
  | base | struct | seq | grid | dataset
deriving DecidableEq, Repr, Inhabited

/-- symbolic data objects: `None`, an opaque array, `d[k]`, `d[[k1,…]]`, `copy.copy(d)` -/
inductive DRef where
  | none
  | atom (n : Nat)
  | item (d : DRef) (k : Str)
  | items (d : DRef) (ks : List Str)
  | copy (d : DRef)
deriving DecidableEq, Repr, Inhabited

/-- attribute values: an integer, or the list of data objects `GridType.__getitem__` leaves in `attributes["data"]` -/
inductive AVal where
  | nat (n : Nat)
  | dlist (ds : List DRef)
deriving DecidableEq, Repr, Inhabited

structure Hdr where
  oid : Nat
  kind : Kind
  name : Str
  id : Str
  visible : List Str
  attrs : List (Str × AVal)
  data : DRef
deriving DecidableEq, Repr, Inhabited

/-- `cons h kids rest`: the object `h` with `_dict` contents `kids`, followed by its later siblings -/
inductive Forest where
  | nil
  | cons (h : Hdr) (kids : Forest) (rest : Forest)
deriving DecidableEq, Repr, Inhabited

structure Obj where
  hdr : Hdr
  kids : Forest
deriving DecidableEq, Repr, Inhabited

inductive Err where
  | keyError | typeError | indexError
  | outside      -- behaviour of the code that this model does not describe (see design_notes/C12.md)
deriving DecidableEq, Repr, Inhabited

def dot : Chr := [46]
def slash : Chr := [47]

namespace Forest

/-- `list(_dict.keys())` -/
def keys : Forest → List Str
  | nil => []
  | cons h _ rest => h.name :: keys rest

/-- `_dict.values()` -/
def objs : Forest → List Obj
  | nil => []
  | cons h kids rest => ⟨h, kids⟩ :: objs rest

/-- `_dict[k]` -/
def find? (k : Str) : Forest → Option Obj
  | nil => none
  | cons h kids rest => if h.name = k then some ⟨h, kids⟩ else find? k rest

/-- `del _dict[k]` (first and, keys being unique, only entry) -/
def remove (k : Str) : Forest → Forest
  | nil => nil
  | cons h kids rest => if h.name = k then rest else cons h kids (remove k rest)

/-- `_dict[o.name] = o` of an `OrderedDict`: replace in place or append -/
def put (o : Obj) : Forest → Forest
  | nil => cons o.hdr o.kids nil
  | cons h kids rest => if h.name = o.hdr.name then cons o.hdr o.kids rest else cons h kids (put o rest)

/-- apply `f` to the entry stored under `k` -/
def update (k : Str) (f : Obj → Except Err Obj) : Forest → Except Err Forest
  | nil => .error .keyError
  | cons h kids rest =>
    if h.name = k then do
      let o ← f ⟨h, kids⟩
      pure (cons o.hdr o.kids rest)
    else do
      let r ← update k f rest
      pure (cons h kids r)

/-- every object identity in the forest -/
def oids : Forest → List Nat
  | nil => []
  | cons h kids rest => h.oid :: (oids kids ++ oids rest)

end Forest

/-- `child in parent.children()`: children are listed through `_visible_keys`, each key being looked
    up with `self[key]`, i.e. `_dict[_quote(key)]` -/
def listed (vis : List Str) (name : Str) : Bool := vis.any (fun k => quote k == name)

/-- `DapType._set_id` / `DatasetType._set_id` for the children of a parent of kind `pk` whose id is `pid` -/
def childId (pk : Kind) (pid : Str) (name : Str) : Str :=
  if pk = .dataset then name else pid ++ dot :: name

/-- the recursive part of `_set_id`: re-derive the ids of everything listed below a parent -/
def setIdKids (pk : Kind) (pid : Str) (vis : List Str) : Forest → Forest
  | .nil => .nil
  | .cons h kids rest =>
    if listed vis h.name then
      let nid := childId pk pid h.name
      .cons { h with id := nid } (setIdKids h.kind nid h.visible kids) (setIdKids pk pid vis rest)
    else
      .cons h kids (setIdKids pk pid vis rest)

/-- `children()` raises `KeyError` when a visible key has no entry; the model stops there -/
def visibleOk (vis : List Str) (kids : Forest) : Bool := vis.all (fun k => (kids.find? (quote k)).isSome)

/-- `obj.id = id` -/
def setId (o : Obj) (id : Str) : Except Err Obj :=
  if visibleOk o.hdr.visible o.kids then
    .ok ⟨{ o.hdr with id := id }, setIdKids o.hdr.kind id o.hdr.visible o.kids⟩
  else .error .outside

/-- `list(obj.children())` -/
def children (o : Obj) : Except Err (List Obj) :=
  o.hdr.visible.mapM fun k => match o.kids.find? (quote k) with
    | some c => .ok c
    | none => .error .keyError

/-- `Mapping.keys()` through `StructureType.__iter__` (dict order, visible only);
    `SequenceType.keys()` returns the visible keys themselves -/
def keysOf (o : Obj) : List Str :=
  if o.hdr.kind = .seq then o.hdr.visible else o.kids.keys.filter (fun k => o.hdr.visible.contains k)

/-- ids in `walk(obj)` order -/
def walkIdsF (vis : List Str) (fuel : Nat) (f : Forest) : List Str :=
  match fuel with
  | 0 => []
  | fuel + 1 =>
    vis.flatMap fun k => match f.find? (quote k) with
      | some c => c.hdr.id :: walkIdsF c.hdr.visible fuel c.kids
      | none => []

/-- depth bound used as fuel -/
def Forest.depth : Forest → Nat
  | .nil => 0
  | .cons _ kids rest => max (depth kids + 1) (depth rest)

def walkIds (o : Obj) : List Str := o.hdr.id :: walkIdsF o.hdr.visible (o.kids.depth + 1) o.kids

/-- any object of kind `k` among the objects `walk` reaches below the parent -/
def walkAny (k : Kind) (vis : List Str) : Forest → Bool
  | .nil => false
  | .cons h kids rest =>
    (listed vis h.name && (h.kind == k || walkAny k h.visible kids)) || walkAny k vis rest

/-- `len(structures()) > 0`: a *direct* listed child whose `type` is `"Structure"` -/
def hasStruct (vis : List Str) : Forest → Bool
  | .nil => false
  | .cons h _ rest => (listed vis h.name && h.kind == .struct) || hasStruct vis rest

/-! ### `__getitem__` with a string -/

def splitOn (sep : Chr) (s : Str) : List Str :=
  let r := s.foldr (fun c (acc : Str × List Str) => if c = sep then ([], acc.1 :: acc.2) else (c :: acc.1, acc.2)) ([], [])
  r.1 :: r.2

/-- `_getitem_string` restricted to what the property's names can reach: the direct hit, the `""`/`"/"`
    case of `DatasetType`, `KeyError` for a missing plain key; the dotted / path fall-backs are `outside` -/
def getItem (o : Obj) (key : Str) : Except Err Obj :=
  match o.kids.find? (quote key) with
  | some c => .ok c
  | none =>
    if o.hdr.kind = .base then .error .outside
    else if o.hdr.kind = .dataset ∧ (key = [] ∨ key = [slash]) then .ok o
    else if key.contains dot ∨ (o.hdr.kind = .dataset ∧ key.contains slash) then .error .outside
    else .error .keyError

/-- `get_var(dataset, id)`: `reduce(operator.getitem, [dataset] + id.split("."))` -/
def getVar (o : Obj) (id : Str) : Except Err Obj :=
  (splitOn dot id).foldlM getItem o

/-! ### `obj[key]` with any string: the dotted fall-back of `_getitem_string` -/

/-- `".".join(ns)` -/
def joinDot : List Str → Str
  | [] => []
  | [n] => n
  | n :: m :: t => n ++ dot :: joinDot (m :: t)

/-- what `obj[key]` hands back: an object of the tree itself (Python: `is`), or the fresh variable that
    `BaseType.__getitem__(key)` builds (`copy.copy(self)` with `data = self._data[key]`) -/
inductive Found where
  | obj (o : Obj)
  | derived (src : Obj) (d : DRef)
deriving DecidableEq, Repr, Inhabited

/-- `obj[".".join(segs)]` for `segs = key.split(".")`.

    `StructureType._getitem_string` / `DatasetType._getitem_string`: the direct hit `_dict[_quote(key)]`; for a
    dataset `""` and `"/"` are the dataset itself and any other key with a `/` takes the DAP4 path branch (not
    modelled: `outside`); otherwise, with more than one segment, `self[segs[0]][".".join(segs[1:])]` and — when that
    raises `KeyError`/`IndexError` — `self[".".join(segs[1:])]`; a single missing segment is a `KeyError`.
    `BaseType.__getitem__(key)` indexes the data object (`None[key]` is a `TypeError`, which is not caught).
    Both recursive calls drop the first segment: structural recursion on the segment list. -/
def lookupSegs : List Str → Obj → Except Err Found
  | [], _ => .error .keyError
  | k :: rest, o =>
    if o.hdr.kind = .base then
      (if o.hdr.data = .none then .error .typeError
       else .ok (.derived o (.item o.hdr.data (joinDot (k :: rest)))))
    else match o.kids.find? (quote (joinDot (k :: rest))) with
      | some c => .ok (.obj c)
      | none =>
        if o.hdr.kind = .dataset ∧ (joinDot (k :: rest) = [] ∨ joinDot (k :: rest) = [slash]) then .ok (.obj o)
        else if o.hdr.kind = .dataset ∧ (joinDot (k :: rest)).contains slash then .error .outside
        else if rest.isEmpty then .error .keyError
        else
          let first : Except Err Found :=
            match o.kids.find? (quote k) with
            | some c => lookupSegs rest c
            | none => if o.hdr.kind = .dataset ∧ k = [] then lookupSegs rest o else .error .keyError
          match first with
          | .error .keyError => lookupSegs rest o
          | .error .indexError => lookupSegs rest o
          | r => r

/-- `obj[key]`, `key` a string -/
def lookup (o : Obj) (key : Str) : Except Err Found := lookupSegs (splitOn dot key) o

/-! ### `__delitem__`, `__setitem__` -/

def isContainer (k : Kind) : Bool := k != .base

/-- `StructureType.__delitem__(key)`: the key is *not* quoted -/
def delItem (o : Obj) (key : Str) : Except Err Obj :=
  if !isContainer o.hdr.kind then .error .typeError
  else if (o.kids.find? key).isNone then .error .keyError
  else .ok ⟨{ o.hdr with visible := o.hdr.visible.erase key }, o.kids.remove key⟩

/-- common tail of both `__setitem__`s once the key has been quoted and compared -/
def insertItem (o : Obj) (key : Str) (item : Obj) : Except Err Obj := do
  -- if key in self: del self[key]
  let o1 ← if o.hdr.visible.contains key then delItem o key else pure o
  pure ⟨{ o1.hdr with visible := o1.hdr.visible ++ [key] }, o1.kids.put item⟩

/-- `StructureType.__setitem__` (also Sequence, Grid) -/
def setItemStruct (o : Obj) (key : Str) (item : Obj) : Except Err Obj := do
  let key := quote key
  if key ≠ item.hdr.name then throw .keyError
  let item ← setId item (o.hdr.id ++ dot :: item.hdr.name)
  insertItem o key item

def lastOf : List Str → Str
  | [] => []
  | [x] => x
  | _ :: t => lastOf t

/-- `DatasetType.__setitem__` (model.py:626) after the repair that stops splitting keys at blanks.
    There are no `GroupType` nodes in this model, so `groups()` is empty; a key that the `re.split`
    would cut (a `.` while the dataset lists a Structure child or any Sequence) is `outside`. -/
def setItemDataset (o : Obj) (key : Str) (item : Obj) : Except Err Obj := do
  if !visibleOk o.hdr.visible o.kids then throw .outside
  let splitDot := walkAny .seq o.hdr.visible o.kids || hasStruct o.hdr.visible o.kids
  if splitDot ∧ key.contains dot then throw .outside
  if key = [] then throw .indexError
  let key := quote key
  if key ≠ item.hdr.name then throw .keyError
  let key2 := rep3 [37] [50] [69] dot key
  let nid := if (splitOn dot key2).length = 1 then item.hdr.name else lastOf (splitOn slash key2)
  let item ← setId item nid
  insertItem o key item

def setItem (o : Obj) (key : Str) (item : Obj) : Except Err Obj :=
  match o.hdr.kind with
  | .base => .error .typeError
  | .dataset => setItemDataset o key item
  | _ => if item.hdr.kind = .dataset then .error .outside else setItemStruct o key item

/-! ### construction and copies -/

/-- `DapType.__init__`: `name = _quote(name)`, `_id = name`, no children -/
def mkObj (oid : Nat) (kind : Kind) (name : Str) (attrs : List (Str × AVal)) (data : DRef) : Obj :=
  ⟨⟨oid, kind, quote name, quote name, [], attrs, data⟩, .nil⟩

/-- `__shallowcopy__` / `BaseType.__copy__` head: a new object of the same class, re-quoted name,
    copied attributes, `out.id = self.id`; a Sequence and a Base keep the data object, the others have none -/
def shallow (oid : Nat) (h : Hdr) : Obj :=
  ⟨⟨oid, h.kind, quote h.name, h.id, [], h.attrs,
    if h.kind = .base ∨ h.kind = .seq then h.data else .none⟩, .nil⟩

/-- `copy.copy` of every object of a forest: allocate the shell, copy the children (all of `_dict`,
    hidden ones included) and insert them with the class's own `__setitem__` -/
def copyF (next : Nat) : Forest → Except Err (List Obj × Nat)
  | .nil => .ok ([], next)
  | .cons h kids rest => do
    let (cs, n1) ← copyF (next + 1) kids
    let out ← cs.foldlM (fun o c => setItem o c.hdr.name c) (shallow next h)
    let (rs, n2) ← copyF n1 rest
    pure (out :: rs, n2)

def copyObj (next : Nat) (o : Obj) : Except Err (Obj × Nat) := do
  let (cs, n) ← copyF next (.cons o.hdr o.kids .nil)
  match cs with
  | [c] => pure (c, n)
  | _ => throw .outside

/-! ### data assignment -/

/-- `reduce(operator.getitem, [data] + tokens)` on symbolic data; `None[...]` is a `TypeError` -/
def itemPath (d : DRef) (tokens : List Str) : Except Err DRef :=
  tokens.foldlM (fun d k => if d = .none then .error .typeError else .ok (.item d k)) d

/-- `SequenceType._set_data` below a sequence whose id has `n` characters: listed Base children take
    `data[tokens]`, listed Sequence children recurse; any other listed child makes `zip(data, …)` raise
    half-way, which the model does not follow (`outside`) -/
def seqSetKids (n : Nat) (d : DRef) (vis : List Str) : Forest → Except Err Forest
  | .nil => .ok .nil
  | .cons h kids rest => do
    let rest' ← seqSetKids n d vis rest
    if listed vis h.name then
      let d' ← itemPath d (splitOn dot (h.id.drop (n + 1)))
      match h.kind with
      | .base => pure (.cons { h with data := d' } kids rest')
      | .seq =>
        let kids' ← seqSetKids h.id.length d' h.visible kids
        pure (.cons { h with data := d' } kids' rest')
      | _ => throw .outside
    else pure (.cons h kids rest')

/-- `obj.data = d` with `d` a data object (never `None`, never a Python sequence) -/
def setData (o : Obj) (d : DRef) : Except Err Obj :=
  match o.hdr.kind with
  | .base => .ok ⟨{ o.hdr with data := d }, o.kids⟩
  | .seq =>
    if !visibleOk o.hdr.visible o.kids then .error .outside
    else match seqSetKids o.hdr.id.length d o.hdr.visible o.kids with
      | .ok kids => .ok ⟨{ o.hdr with data := d }, kids⟩
      | .error .typeError => .error .outside     -- raised half-way
      | .error e => .error e
  | _ => .error .typeError                        -- `zip(data, …)`: the data object is not iterable

/-- `obj.attributes[k] = v` -/
def setAttr (o : Obj) (k : Str) (v : AVal) : Obj :=
  ⟨{ o.hdr with attrs := if o.hdr.attrs.any (·.1 == k) then o.hdr.attrs.map (fun p => if p.1 = k then (k, v) else p)
                         else o.hdr.attrs ++ [(k, v)] }, o.kids⟩

/-! ### selection by a tuple of names -/

/-- order-preserving removal of duplicates (first occurrence wins) -/
def dedup : List Str → List Str
  | [] => []
  | x :: t => x :: (dedup t).filter (· ≠ x)

/-- `StructureType.__getitem__(tuple)` (also Dataset) after the repair: a copy whose visible keys are the
    quoted names, each checked to exist, duplicates dropped -/
def selectStruct (next : Nat) (o : Obj) (keys : List Str) : Except Err (Obj × Nat) := do
  let (out, n) ← copyObj next o
  let qs := keys.map quote
  if qs.all (fun k => (out.kids.find? k).isSome) then
    pure (⟨{ out.hdr with visible := dedup qs }, out.kids⟩, n)
  else throw .keyError

/-- `_getitem_string_tuple`: a fresh container of the same class and (re-quoted) name, whose id is its
    name, filled with copies of the named children -/
def selectInto (next : Nat) (shell : Obj) (o : Obj) : List Str → Except Err (Obj × Nat)
  | [] => .ok (shell, next)
  | k :: ks => do
    let c ← getItem o k
    let (cc, n1) ← copyObj next c
    let shell' ← setItem shell k cc
    selectInto n1 shell' o ks

def allBase (vis : List Str) : Forest → Bool
  | .nil => true
  | .cons h _ rest => (!listed vis h.name || h.kind == .base) && allBase vis rest

/-- `SequenceType.__getitem__(tuple)` -/
def selectSeq (next : Nat) (o : Obj) (keys : List Str) : Except Err (Obj × Nat) := do
  let shell := mkObj next .seq o.hdr.name o.hdr.attrs o.hdr.data
  let (out, n) ← selectInto (next + 1) shell o keys
  if o.hdr.data = .none then throw .typeError
  let out ← setData out (.copy (.items o.hdr.data keys))
  pure (out, n)

/-- `GridType.__getitem__(tuple)`: the constructor call puts `self.data` under `attributes["data"]`;
    the final loop re-assigns the very same data objects (Base children only, otherwise `outside`) -/
def selectGrid (next : Nat) (o : Obj) (keys : List Str) : Except Err (Obj × Nat) := do
  -- `grid[()]` is an index selecting everything (repaired `GridType.__getitem__`, fix 9f2dbb0), not a selection
  -- of no children: it belongs to C02/C14, not to this operation alphabet
  if keys.isEmpty then throw .outside
  if !(visibleOk o.hdr.visible o.kids && allBase o.hdr.visible o.kids) then throw .outside
  let ds ← children o
  let shell := setAttr (mkObj next .grid o.hdr.name o.hdr.attrs .none) [[100], [97], [116], [97]] (.dlist (ds.map (·.hdr.data)))
  let (out, n) ← selectInto (next + 1) shell o keys
  if !allBase out.hdr.visible out.kids then throw .outside
  pure (out, n)

def select (next : Nat) (o : Obj) (keys : List Str) : Except Err (Obj × Nat) :=
  match o.hdr.kind with
  | .base => .error .outside
  | .seq => selectSeq next o keys
  | .grid => selectGrid next o keys
  | _ => selectStruct next o keys

/-! ### acting on an object reached by a path of `__getitem__`s -/

/-- apply `f` to `o[k1][k2]…` in place -/
def modifyAt (f : Obj → Except Err Obj) : List Str → Obj → Except Err Obj
  | [], o => f o
  | k :: ks, o =>
    if o.hdr.kind = .base then .error .outside
    else match o.kids.find? (quote k) with
      | none => .error .keyError
      | some _ => do
        let kids ← o.kids.update (quote k) (modifyAt f ks)
        pure ⟨o.hdr, kids⟩

/-- `o[k1][k2]…` -/
def navigate : List Str → Obj → Except Err Obj
  | [], o => .ok o
  | k :: ks, o =>
    if o.hdr.kind = .base then .error .outside
    else match o.kids.find? (quote k) with
      | none => .error .keyError
      | some c => navigate ks c

end Pydap.Tree
