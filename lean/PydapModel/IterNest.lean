/-
  Model of `IterData` (handlers/lib.py) over tables with ONE nested sequence level: an outer
  sequence some of whose children are sequences of base columns.  Same functions as
  `PydapModel/IterData.lean` (`__init__`, `__iter__`, `__getitem__`, `build_filter`, `deep_map`,
  `fix_nested`), now with the parts that only matter for nested data:

  * `fix_nested(template)` wraps the cells of sequence children as inner streams,
  * a child selection of a sequence child makes the inner sequence the template (`level = 1`); the maps
    recorded afterwards are `deep_map(f, 2)`: `f` over every inner row,
  * `build_filter(key, self.root)` walks `id1.split(".")` down the template of the SOURCE rows (repaired
    code: whatever was selected so far): one token = a level-0 filter on the source rows; two tokens = the
    filter is `bool` and the *map* filters the records of the named child (`recurse`), found among all the
    keys of the outer sequence,
  * the map of a clause is inserted at the FRONT of `imap`: it acts on the source row, before
    `fix_nested` and before every recorded selection.

  `self.root` is the outer sequence: its id and `_dict` are the fields `id`, `hdr` of the stream.
  Closures are represented by the data they capture.  The model follows the repaired code
  (column-vs-column operand looked up among the keys of the clause's own sequence; clauses resolved
  against `root`).
-/
import PydapModel.IterData
namespace Pydap.IterNest
open Pydap Pydap.IterData

/-- a cell of an outer row: a base value, or the rows of a nested sequence -/
inductive NCell (A : Type) where
  | base (a : A)
  | seq (rows : List (List A))
deriving DecidableEq, Repr

/-- `_dict` of the outer sequence, in order: child name and, for a sequence child, its column names -/
abbrev Hdr := List (Name × Option (List Name))

def Hdr.names (h : Hdr) : List Name := h.map (·.1)

/-- `IterData.template`: the outer sequence (visible keys), an inner sequence `n` (visible keys),
    or a `BaseType` -/
inductive Tmpl where
  | outer (visible : List Name)
  | inner (n : Name) (visible : List Name)
  | base (id : Name)
deriving DecidableEq, Repr, Inhabited

/-- entries of `ifilter` -/
inductive NFilt (A : Type) where
  | cmp (f : Filt A)       -- level-0 filter `op(a(row), b(row))`
  | truthy                 -- `f = bool` of a nested filter
deriving DecidableEq, Repr

/-- entries of `imap` -/
inductive NMap (A : Type) where
  | fixNested (arity : List (Option Nat))   -- `fix_nested(template)`: per child, `some m` = sequence of `m` columns
  | ident
  | item (col : Nat) (level : Nat)          -- `deep_map(itemgetter(col), level)`
  | proj (cols : List Nat) (level : Nat)    -- `deep_map(lambda row: tuple(row[i] for i in cols), level)`
  | nest (col : Nat) (f : Filt A)           -- `m(row) = recurse(row, [n, x], root)`; `col`: index of `n` among all keys
deriving DecidableEq, Repr

/-- what iteration yields -/
inductive Item (A : Type) where
  | row (cells : List (NCell A))            -- a record of the outer sequence
  | cell (a : A)                            -- after selecting a base child
  | inner (rows : List (List A))            -- after selecting a sequence child: its records
  | innerCol (cells : List A)               -- … and then one of its columns
deriving DecidableEq, Repr

structure Stream (A : Type) where
  src : List (List (NCell A))
  id : Name
  hdr : Hdr
  template : Tmpl
  ifilter : List (NFilt A)
  imap : List (NMap A)
  islice : List PSlice
  level : Nat
deriving DecidableEq, Repr

/-- `IterData(stream, template)` -/
def mkIterData {A} (src : List (List (NCell A))) (id : Name) (hdr : Hdr) : Stream A :=
  ⟨src, id, hdr, .outer hdr.names, [], [.fixNested (hdr.map fun p => p.2.map List.length)], [], 0⟩

/-! ### `__iter__` -/

/-- Python's comparison of two cells of a source row (a nested cell is a list there): ordering a list
    against a number/string raises, `==` is false, `!=` true; list against list is not modelled -/
def cellCmp {A} (cmp : Op → A → A → Bool) (op : Op) : NCell A → NCell A → Except Err Bool
  | .base x, .base y => .ok (cmp op x y)
  | .seq _, .seq _ => .error .typeError
  | _, _ => match op with
    | .eq => .ok false
    | .ne => .ok true
    | _ => .error .typeError

def evalNFilt {A} (cmp : Op → A → A → Bool) (f : NFilt A) (r : List (NCell A)) : Except Err Bool :=
  match f with
  | .truthy => .ok (!r.isEmpty)
  | .cmp f => do
    let x ← getCell r f.a
    let y ← match f.b with
      | .col i => getCell r i
      | .lit a => pure (.base a)
    cellCmp cmp f.op x y

def evalNFilts {A} (cmp : Op → A → A → Bool) : List (NFilt A) → List (NCell A) → Except Err Bool
  | [], _ => .ok true
  | f :: fs, r => do
    let b ← evalNFilt cmp f r
    if b then evalNFilts cmp fs r else pure false

/-- `zip(row, template.children())`: sequence children are wrapped as inner streams, whose iteration
    applies `fix_nested(child)` to their own rows -/
def fixRow {A} : List (Option Nat) → List (NCell A) → Except Err (List (NCell A))
  | [], _ => .ok []
  | _, [] => .ok []
  | none :: ar, c :: cs => (fixRow ar cs).map (c :: ·)
  | some m :: ar, .seq rows :: cs => (fixRow ar cs).map (.seq (rows.map (List.take m)) :: ·)
  | some _ :: _, .base _ :: _ => .error .typeError

def evalMap {A} (cmp : Op → A → A → Bool) : NMap A → Item A → Except Err (Item A)
  | .fixNested ar, .row r => (fixRow ar r).map Item.row
  | .ident, x => .ok x
  | .item c lvl, .row r =>
      if lvl = 1 then (getCell r c).map fun
        | .base a => Item.cell a
        | .seq rows => Item.inner rows
      else .error .typeError
  | .item c lvl, .inner rows =>
      if lvl = 2 then (mapE (fun ir => getCell ir c) rows).map Item.innerCol else .error .typeError
  | .proj cols lvl, .row r =>
      if lvl = 1 then (cols.mapM (getCell r)).map Item.row else .error .typeError
  | .proj cols lvl, .inner rows =>
      if lvl = 2 then (mapE (fun ir => cols.mapM (getCell ir)) rows).map Item.inner else .error .typeError
  | .nest c f, .row r =>
      match r[c]? with
      | some (.seq rows) => (filterE (evalFilt cmp f) rows).map fun kept => Item.row (r.set c (.seq kept))
      | some (.base _) => .error .typeError
      | none => .error .indexError
  | _, _ => .error .typeError

def evalMaps {A} (cmp : Op → A → A → Bool) : List (NMap A) → Item A → Except Err (Item A)
  | [], x => .ok x
  | m :: ms, x => evalMap cmp m x >>= evalMaps cmp ms

/-- `list(stream)`: filters over the source rows, then maps, then slices -/
def iter {A} (cmp : Op → A → A → Bool) (s : Stream A) : Except Err (List (Item A)) := do
  let rows ← filterE (evalNFilts cmp s.ifilter) s.src
  let items ← mapE (fun r => evalMaps cmp s.imap (.row r)) rows
  applySlices s.islice items

/-! ### `build_filter` -/

/-- the operand `b`: a column of the clause's own sequence (`keys`, its id `parent`) or a literal -/
def rhsOperand {A} (lit : List Char → Option A) (parent : Name) (keys : List Name) (id2 : List Char) :
    Except Err (Operand A) :=
  if rsplitHead id2 = parent then
    match indexOf? keys (lastTok id2) with
    | none => .error .valueError        -- `keys.index(...)` outside the `try`
    | some col2 => .ok (.col col2)
  else
    match lit id2 with
    | none => .error .ceError
    | some v => .ok (.lit v)

def innerKeys (hdr : Hdr) (n : Name) : Option (List Name) :=
  match hdr.lookup n with
  | some (some ks) => some ks
  | _ => none

/-- `build_filter(expression, root)`, `root` = the outer sequence `id` with children `hdr` -/
def buildFilter {A} (lit : List Char → Option A) (id : Name) (hdr : Hdr) (c : Cond) :
    Except Err (NFilt A × NMap A) :=
  match splitOnChar '.' (c.id1.drop (id.length + 1)) with
  | [token] =>
    match indexOf? hdr.names token with
    | none => .error .ceError
    | some col => do
      let b ← rhsOperand lit id hdr.names c.id2
      pure (.cmp ⟨col, c.op, b⟩, .ident)
  | [tok1, tok2] =>
    match indexOf? hdr.names tok1, innerKeys hdr tok1 with
    | some ocol, some keys =>
      match indexOf? keys tok2 with
      | none => .error .ceError
      | some col => do
        let b ← rhsOperand lit (id ++ '.' :: tok1) keys c.id2
        pure (.truthy, .nest ocol ⟨col, c.op, b⟩)
    | _, _ => .error .ceError          -- unknown child, or a second token under a `BaseType`
  | _ => .error .ceError

/-! ### `__getitem__` -/

def getitem {A} (lit : List Char → Option A) (s : Stream A) : Key → Except Err (Stream A)
  | .str key =>
    match s.template with
    | .base _ => .error .attributeError
    | .outer vis =>
      match indexOf? vis key with
      | none => .error .keyError
      | some col =>
        match s.hdr.lookup key with
        | none => .error .keyError
        | some kid =>
          .ok { s with level := s.level + 1,
                       template := (match kid with
                         | some ks => .inner key ks
                         | none => .base (s.id ++ '.' :: key)),
                       imap := s.imap ++ [.item col (s.level + 1)] }
    | .inner n vis =>
      match indexOf? vis key with
      | none => .error .keyError
      | some col =>
        .ok { s with level := s.level + 1, template := .base (s.id ++ '.' :: n ++ '.' :: key),
                     imap := s.imap ++ [.item col (s.level + 1)] }
  | .list keys =>
    match s.template with
    | .base _ => .error .attributeError
    | .outer vis =>
      match keys.mapM (indexOf? vis) with
      | none => .error .valueError
      | some cols => .ok { s with template := .outer keys, imap := s.imap ++ [.proj cols (s.level + 1)] }
    | .inner n vis =>
      match keys.mapM (indexOf? vis) with
      | none => .error .valueError
      | some cols => .ok { s with template := .inner n keys, imap := s.imap ++ [.proj cols (s.level + 1)] }
  | .int i => .ok { s with islice := s.islice ++ [⟨some i, some (i + 1), none⟩] }
  | .slice sl => .ok { s with islice := s.islice ++ [sl] }
  | .cond c => do
    -- `f, m = build_filter(key, self.root)`; `out.ifilter.append(f)`; `out.imap.insert(0, m)`
    let fm ← buildFilter lit s.id s.hdr c
    pure { s with ifilter := s.ifilter ++ [fm.1], imap := fm.2 :: s.imap }

def chain {A} (lit : List Char → Option A) : Stream A → List Key → Except Err (Stream A)
  | s, [] => .ok s
  | s, k :: ks => getitem lit s k >>= fun s' => chain lit s' ks

/-! ### the reference: filter the source (outer rows by the clauses on outer columns, the records of a
    nested sequence by the clauses on its columns), select by name in order, then slice -/

inductive Layout where
  | table (vs : List Name)
  | column (k : Name)
  | innerTable (n : Name) (vs : List Name)
  | innerColumn (n : Name) (k : Name)
deriving DecidableEq, Repr

structure Ref (A : Type) where
  oconds : List (RCond A)              -- clauses on base columns of the outer sequence
  iconds : List (Name × RCond A)       -- clauses on columns of the nested sequence named
  layout : Layout
  slices : List PSlice

def isBase (hdr : Hdr) (k : Name) : Bool := hdr.lookup k == some none

def rhsBase {A} (hdr : Hdr) : RRhs A → Bool
  | .name k => isBase hdr k
  | .const _ => true

/-- `id.c OP id.c2 | literal` on base columns of the outer sequence -/
def resolveOuter {A} (lit : List Char → Option A) (id : Name) (hdr : Hdr) (c : Cond) : Option (RCond A) :=
  match resolve lit id hdr.names c with
  | some rc => if isBase hdr rc.c1 && rhsBase hdr rc.rhs then some rc else none
  | none => none

/-- `id.n.x OP id.n.y | literal` on columns of the nested sequence `n` -/
def resolveInner {A} (lit : List Char → Option A) (id : Name) (hdr : Hdr) (c : Cond) : Option (Name × RCond A) :=
  match rsplitDot c.id1 with
  | none => none
  | some (p, _) =>
    match rsplitDot p with
    | none => none
    | some (q, n) =>
      match innerKeys hdr n with
      | none => none
      | some keys => if q = id then (resolve lit p keys c).map fun rc => (n, rc) else none

/-- one clause on the nested sequence `n` applied to a source row: its records are filtered -/
def applyOne {A} (cmp : Op → A → A → Bool) (hdr : Hdr) (nc : Name × RCond A) (r : List (NCell A)) : List (NCell A) :=
  match indexOf? hdr.names nc.1, innerKeys hdr nc.1 with
  | some i, some keys =>
    match r[i]? with
    | some (.seq rows) => r.set i (.seq (rows.filter fun ir => refCond cmp keys ir nc.2))
    | _ => r
  | _, _ => r

def applyInner {A} (cmp : Op → A → A → Bool) (hdr : Hdr) : List (Name × RCond A) → List (NCell A) → List (NCell A)
  | [], r => r
  | nc :: ncs, r => applyInner cmp hdr ncs (applyOne cmp hdr nc r)

/-- a clause on outer base columns: both cells are base values -/
def refOCond {A} (cmp : Op → A → A → Bool) (names : List Name) (r : List (NCell A)) (c : RCond A) : Bool :=
  match cellOf names r c.c1, c.rhs with
  | some (.base x), .const y => cmp c.op x y
  | some (.base x), .name k => match cellOf names r k with
    | some (.base y) => cmp c.op x y
    | _ => false
  | _, _ => false

/-- a clause is accepted on every layout: it is resolved against the header of the source rows -/
def refStep {A} (lit : List Char → Option A) (id : Name) (hdr : Hdr) (st : Ref A) : Key → Option (Ref A)
  | .str k => match st.layout with
    | .table vs =>
      if k ∈ vs then
        match hdr.lookup k with
        | some (some ks) => some { st with layout := .innerTable k ks }
        | some none => some { st with layout := .column k }
        | none => none
      else none
    | .innerTable n vs => if k ∈ vs then some { st with layout := .innerColumn n k } else none
    | _ => none
  | .list ks => match st.layout with
    | .table vs => if ks.all (· ∈ vs) then some { st with layout := .table ks } else none
    | .innerTable n vs => if ks.all (· ∈ vs) then some { st with layout := .innerTable n ks } else none
    | _ => none
  | .int i => some { st with slices := st.slices ++ [⟨some i, some (i + 1), none⟩] }
  | .slice sl => some { st with slices := st.slices ++ [sl] }
  | .cond c =>
    match resolveOuter lit id hdr c with
    | some rc => some { st with oconds := st.oconds ++ [rc] }
    | none => (resolveInner lit id hdr c).map fun nc => { st with iconds := st.iconds ++ [nc] }

def refRun {A} (lit : List Char → Option A) (id : Name) (hdr : Hdr) : Ref A → List Key → Option (Ref A)
  | st, [] => some st
  | st, k :: ks => (refStep lit id hdr st k).bind fun st' => refRun lit id hdr st' ks

def innerRows {A} (names : List Name) (r : List (NCell A)) (n : Name) : Option (List (List A)) :=
  match cellOf names r n with
  | some (.seq rows) => some rows
  | _ => none

def refItem {A} (hdr : Hdr) (r : List (NCell A)) : Layout → Option (Item A)
  | .table vs => (vs.mapM (cellOf hdr.names r)).map Item.row
  | .column k => match cellOf hdr.names r k with
    | some (.base a) => some (.cell a)
    | _ => none
  | .innerTable n vs =>
    match innerRows hdr.names r n, innerKeys hdr n with
    | some rows, some keys => (rows.mapM fun ir => vs.mapM (cellOf keys ir)).map Item.inner
    | _, _ => none
  | .innerColumn n k =>
    match innerRows hdr.names r n, innerKeys hdr n with
    | some rows, some keys => (rows.mapM fun ir => cellOf keys ir k).map Item.innerCol
    | _, _ => none

/-- filter the source with all the filters, select by name, then the slices in order -/
def refEval {A} (cmp : Op → A → A → Bool) (hdr : Hdr) (st : Ref A) (src : List (List (NCell A))) :
    Except Err (List (Item A)) :=
  match ((src.filter fun r => st.oconds.all (refOCond cmp hdr.names r)).mapM
      fun r => refItem hdr (applyInner cmp hdr st.iconds r) st.layout) with
  | none => .error .indexError
  | some items => applySlices st.slices items

/-- shape of a source row: one cell per child, nested cells for sequence children, one value per inner column -/
def wsCell {A} : Option (List Name) → NCell A → Bool
  | none, .base _ => true
  | some ks, .seq rows => rows.all fun ir => ir.length == ks.length
  | _, _ => false

def wsRow {A} : Hdr → List (NCell A) → Bool
  | [], [] => true
  | (_, kid) :: h, c :: cs => wsCell kid c && wsRow h cs
  | _, _ => false

/-- names of the header and of every nested sequence are distinct -/
def wsHdr (hdr : Hdr) : Bool :=
  decide hdr.names.Nodup && hdr.all fun p => match p.2 with
    | some ks => decide ks.Nodup
    | none => true

end Pydap.IterNest
