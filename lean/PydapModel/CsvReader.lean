/-
  C20 — model of `csv.reader(fp, quoting=csv.QUOTE_NONNUMERIC)` as the CSV handler uses it (default dialect:
  delimiter `,`, quotechar `"`, doublequote, no escapechar, not strict, no skipinitialspace), following the state
  machine of CPython's `_csv.c` (`parse_process_char`, `parse_save_field`, `Reader_iternext`) case by case.

  The file is opened with `newline=""` (repaired handler): the reader receives the file's lines with their
  terminators (`\n`, `\r`, `\r\n`) untouched; after the characters of each line it processes the pseudo
  character EOL.  The model consumes the text as one character stream and processes EOL after every line
  terminator (and after a last unterminated line), which is the same thing.

  QUOTE_NONNUMERIC: a field that *starts* unquoted with an ordinary character is converted with `float()` when it
  is saved; an empty unquoted field stays `''`; a quoted field is a string, `""` inside it is one quote.
  `float()` is Python's (a parameter here).
-/
namespace Pydap.Csv

inductive St where
  | startRecord | startField | inField | inQuoted | quoteInQuoted | eatCrnl
deriving DecidableEq, Repr

/-- a field as `parse_save_field` hands it over -/
inductive Field where
  | str (s : List Char)
  | num (tok : List Char)          -- `numeric_field` was set: goes through `float()`
deriving DecidableEq, Repr

inductive CErr where
  | newlineInUnquoted               -- `_csv.Error: new-line character seen in unquoted field`
  | notAFloat                       -- `ValueError: could not convert string to float`
  | noHeader                        -- `StopIteration` from `next(reader)` on an empty file
  | numericTitle                    -- a header cell that is an unquoted number (read as a float): refused (repaired)
  | duplicateTitle                  -- two header cells with one (quoted) name: refused (repaired)
deriving DecidableEq, Repr

structure PS where
  st : St
  field : List Char
  numeric : Bool
  fields : List Field
deriving DecidableEq, Repr

/-- `parse_reset` -/
def reset : PS := ⟨.startRecord, [], false, []⟩

/-- `parse_save_field`, then the new state -/
def save (p : PS) (st : St) : PS :=
  ⟨st, [], false, p.fields ++ [if p.numeric then .num p.field else .str p.field]⟩

/-- `parse_add_char` -/
def add (p : PS) (c : Char) (st : St) (numeric : Bool) : PS := ⟨st, p.field ++ [c], numeric, p.fields⟩

inductive In where
  | ch (c : Char)
  | eol
deriving DecidableEq, Repr

def isNl (c : Char) : Bool := c = '\n' || c = '\r'

/-- `case START_FIELD` -/
def stepStartField (p : PS) : In → PS
  | .eol => save p .startRecord
  | .ch c =>
    if isNl c then save p .eatCrnl
    else if c = '"' then ⟨.inQuoted, p.field, p.numeric, p.fields⟩
    else if c = ',' then save p .startField
    else add p c .inField true

/-- `parse_process_char` -/
def step (p : PS) (i : In) : Except CErr PS :=
  match p.st with
  | .startRecord =>
    match i with
    | .eol => .ok p
    | .ch c => if isNl c then .ok ⟨.eatCrnl, p.field, p.numeric, p.fields⟩ else .ok (stepStartField p i)   -- falls through
  | .startField => .ok (stepStartField p i)
  | .inField =>
    match i with
    | .eol => .ok (save p .startRecord)
    | .ch c =>
      if isNl c then .ok (save p .eatCrnl)
      else if c = ',' then .ok (save p .startField)
      else .ok (add p c .inField p.numeric)
  | .inQuoted =>
    match i with
    | .eol => .ok p
    | .ch c => if c = '"' then .ok ⟨.quoteInQuoted, p.field, p.numeric, p.fields⟩ else .ok (add p c .inQuoted p.numeric)
  | .quoteInQuoted =>
    match i with
    | .eol => .ok (save p .startRecord)
    | .ch c =>
      if c = '"' then .ok (add p c .inQuoted p.numeric)
      else if c = ',' then .ok (save p .startField)
      else if isNl c then .ok (save p .eatCrnl)
      else .ok (add p c .inField p.numeric)                  -- not strict
  | .eatCrnl =>
    match i with
    | .eol => .ok ⟨.startRecord, p.field, p.numeric, p.fields⟩
    | .ch c => if isNl c then .ok p else .error .newlineInUnquoted

/-- does the line end after `c` (followed by `rest`)?  `\n`, or `\r` not followed by `\n` -/
def lineEnds (c : Char) (rest : List Char) : Bool :=
  c = '\n' || (c = '\r' && rest.head? != some '\n')

/-- the record just completed goes in front of the records that follow (an error later in the file is an error) -/
def consRow (r : List Field) : Except CErr (List (List Field)) → Except CErr (List (List Field))
  | .error e => .error e
  | .ok rows => .ok (r :: rows)

/-- `Reader_iternext` over the whole text: a record is complete when, after the EOL of a line, the state is
    START_RECORD again; at end of input a pending field or an open quoted field is still saved (not strict).
    `pending`: characters of an unterminated last line have been processed. -/
def readFrom (p : PS) (pending : Bool) : List Char → Except CErr (List (List Field))
  | [] =>
    match (if pending then step p .eol else .ok p) with
    | .error e => .error e
    | .ok p' =>
      if pending ∧ p'.st = .startRecord then .ok [p'.fields]
      else if p'.field ≠ [] ∨ p'.st = .inQuoted then .ok [(save p' .startRecord).fields]
      else .ok []
  | c :: cs =>
    match step p (.ch c) with
    | .error e => .error e
    | .ok p1 =>
      if lineEnds c cs then
        match step p1 .eol with
        | .error e => .error e
        | .ok p2 =>
          if p2.st = .startRecord then consRow p2.fields (readFrom reset false cs)
          else readFrom p2 false cs
      else readFrom p1 true cs

/-- all records of a text -/
def readAll (text : List Char) : Except CErr (List (List Field)) := readFrom reset false text

/-- a cell as the handler sees it -/
inductive Cell where
  | str (s : List Char)
  | num (bits : Nat)               -- the float, as its bit pattern
deriving DecidableEq, Repr

def convField (float : List Char → Option Nat) : Field → Except CErr Cell
  | .str s => .ok (.str s)
  | .num tok => match float tok with
    | some b => .ok (.num b)
    | none => .error .notAFloat

def convRow (float : List Char → Option Nat) : List Field → Except CErr (List Cell)
  | [] => .ok []
  | f :: fs => match convField float f with
    | .error e => .error e
    | .ok c => match convRow float fs with
      | .error e => .error e
      | .ok cs => .ok (c :: cs)

def convRows (float : List Char → Option Nat) : List (List Field) → Except CErr (List (List Cell))
  | [] => .ok []
  | r :: rs => match convRow float r with
    | .error e => .error e
    | .ok c => match convRows float rs with
      | .error e => .error e
      | .ok cs => .ok (c :: cs)

/-- `CSVHandler.__init__` + `CSVData.stream`: the first record is the header (`vars = next(reader)`), the others
    are the rows; any exception becomes `OpenFileError` -/
def csvFile (float : List Char → Option Nat) (text : List Char) : Except CErr (List Cell × List (List Cell)) :=
  match readAll text with
  | .error e => .error e
  | .ok recs =>
    match convRows float recs with
    | .error e => .error e
    | .ok [] => .error .noHeader
    | .ok (h :: rows) => .ok (h, rows)

/-! ### the header: one column per title

  `for var in vars: …; seq[var] = BaseType(var)` of the repaired `CSVHandler.__init__`.  `q` is `pydap.lib._quote`
  (C12's; a parameter here): the column is *named* `q title` — an empty title is a column named `""`, a title with a
  blank, comma, period, bracket … is a column under its percent-quoted name.  A sequence holds one member per name
  (`StructureType.__setitem__` deletes an existing key and appends the new one: the pinned handler served
  `"a","b","a"` as columns `b, a` over records still laid out `a, b, a`); the repaired loop refuses a title whose
  name is already a column, and a title that is not a string. -/

/-- the loop over the header cells; `acc` = the columns created so far, in order -/
def csvColumnsFrom (q : List Char → List Char) : List (List Char) → List Cell → Except CErr (List (List Char))
  | acc, [] => .ok acc
  | _, .num _ :: _ => .error .numericTitle
  | acc, .str t :: r => if q t ∈ acc then .error .duplicateTitle else csvColumnsFrom q (acc ++ [q t]) r

def csvColumns (q : List Char → List Char) (header : List Cell) : Except CErr (List (List Char)) :=
  csvColumnsFrom q [] header

/-- the sequence the handler serves: its columns (names, in order) and its records (`CSVData.stream`) -/
structure CsvSeq where
  columns : List (List Char)
  records : List (List Cell)
deriving DecidableEq, Repr

/-- `CSVHandler(filepath)` + `CSVData.stream` on the text of the file -/
def csvHandler (q : List Char → List Char) (float : List Char → Option Nat) (text : List Char) : Except CErr CsvSeq :=
  match csvFile float text with
  | .error e => .error e
  | .ok (h, rows) =>
    match csvColumns q h with
    | .error e => .error e
    | .ok cols => .ok ⟨cols, rows⟩

/-- column `j` read on its own (`seq[name].iterdata()`): the j-th cell of every record (`none`: the record is short) -/
def CsvSeq.column (s : CsvSeq) (j : Nat) : List (Option Cell) := s.records.map (·[j]?)

/-! ### the writer side (`csv.writer(quoting=QUOTE_NONNUMERIC)`), for the round-trip theorem -/

inductive WCell where
  | q (s : List Char)              -- a string: written quoted, `"` doubled
  | bare (tok : List Char)         -- a number (`repr`), or nothing at all (empty unquoted cell)
deriving DecidableEq, Repr

def escQ : List Char → List Char
  | [] => []
  | c :: cs => if c = '"' then '"' :: '"' :: escQ cs else c :: escQ cs

def renderCell : WCell → List Char
  | .q s => '"' :: (escQ s ++ ['"'])
  | .bare t => t

def renderRow : List WCell → List Char
  | [] => []
  | [c] => renderCell c
  | c :: cs => renderCell c ++ ',' :: renderRow cs

/-- rows with line terminator `nl` -/
def renderRows (nl : List Char) : List (List WCell) → List Char
  | [] => []
  | r :: rs => renderRow r ++ nl ++ renderRows nl rs

def expectField : WCell → Field
  | .q s => .str s
  | .bare [] => .str []
  | .bare (c :: t) => .num (c :: t)

end Pydap.Csv
