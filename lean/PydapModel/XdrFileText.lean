/-
  C01 — `open_dods_file` (client.py) with its own DDS parse: `Xdr.openDodsFile` (PydapModel/XdrFile.lean) takes the
  declaration as given; here it is the one `dds_to_dataset(dds)` builds from the text the line loop accumulated (C07's
  parser model, the declaration conversion of PydapModel/EndToEnd.lean) — the file counterpart of `E2E.clientDecode`.
  Core Lean only.
-/
import PydapModel.XdrFile
import PydapModel.EndToEnd
namespace Pydap.E2E
open Pydap Pydap.Xdr

/-- `open_dods_file(path)` on a file holding `raw`: text loop, `dds_to_dataset(dds)`, `f.seek(len(dds) + len("Data:\n"))`,
    `unpack_dap2_data(BytesReader(f.read()), dataset)` -/
def fileDecode (raw : Bytes) : Except Err (Dds.Dataset × Data × Bytes) :=
  match Dds.parseDds (decodeAscii (ddsOfLines (textLines raw))) with
  | .error e => .error (.ddsParse e)
  | .ok ds =>
    match tmplOfDataset ds with
    | none => .error .template
    | some t =>
      match decImpl t (raw.drop ((ddsOfLines (textLines raw)).length + dataMarker.length)) with
      | .error e => .error (.decode e)
      | .ok (d, rest) => .ok (ds, d, rest)

end Pydap.E2E
