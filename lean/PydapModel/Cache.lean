/-
  Model of a caching session: what `requests_cache.CachedSession.send` does with `cache.create_key`
  for a GET request (the only method pydap's `net.GET` issues):

      key = self.cache.create_key(request)        -- patched or not, see PydapModel/CacheKey.lean
      cached = self.cache.get_response(key)
      if cached is usable:  return cached          -- hit: nothing reaches the transport adapter
      response = super().send(request)             -- miss: the request goes to the wire
      self.cache.save_response(response, key)      -- stored under the key computed above
      return response

  Abstracted (outside the model, stated here and nowhere hidden):
    * expiry and revalidation (`expire_after`, Cache-Control, ETag): pydap passes no expiry, the default is
      "never expires"; an expired entry is a miss, which only removes sharing;
    * the filters that decide whether a response is stored at all (`allowable_methods`, `allowable_codes`,
      `filter_fn`): every response of the model is storable (a GET answered 200);
    * `match_headers`, request bodies and the serialisation of the stored response: a response is an opaque
      value of type `ρ`, a stored response is returned as it was stored;
    * the server is a function of the request (`server : α → ρ`); a data set changing on the server between
      two reads is outside the property.
  The request type `α`, the key type `κ` and the key function are parameters: the model is instantiated with
  `Pydap.CK.Req` / `Pydap.CK.Key` / `Pydap.CK.customKey` in Props/C18.lean, and with atoms in the driver.
-/
import PydapModel.CacheKey
namespace Pydap.Cache

/-- the store: association list key → response, newest first -/
abbrev Store (κ ρ : Type) := List (κ × ρ)

/-- `cache.get_response(key)` -/
def lookup {κ ρ : Type} [DecidableEq κ] (k : κ) : Store κ ρ → Option ρ
  | [] => none
  | (k', r) :: rest => if k' = k then some r else lookup k rest

/-- one GET through the caching session: (response handed to the caller, store afterwards) -/
def cachedGet {α κ ρ : Type} [DecidableEq κ] (key : α → κ) (server : α → ρ) (cache : Store κ ρ) (u : α) :
    ρ × Store κ ρ :=
  match lookup (key u) cache with
  | some r => (r, cache)
  | none => (server u, (key u, server u) :: cache)

/-- is this GET answered from the store (`response.from_cache`; nothing is sent to the server) -/
def isHit {α κ ρ : Type} [DecidableEq κ] (key : α → κ) (cache : Store κ ρ) (u : α) : Bool :=
  (lookup (key u) cache).isSome

/-- a history of GETs through the caching session: the responses, in order, and the final store -/
def runCached {α κ ρ : Type} [DecidableEq κ] (key : α → κ) (server : α → ρ) :
    Store κ ρ → List α → List ρ × Store κ ρ
  | cache, [] => ([], cache)
  | cache, u :: us =>
    ((cachedGet key server cache u).1 :: (runCached key server (cachedGet key server cache u).2 us).1,
     (runCached key server (cachedGet key server cache u).2 us).2)

/-- the same history through a plain session: every GET reaches the server -/
def runPlain {α ρ : Type} (server : α → ρ) (urls : List α) : List ρ := urls.map server

/-- the history with the hit/miss flag of every GET next to its response (what the harness observes:
    `from_cache` / the wire log of the transport adapter, and the body) -/
def runTrace {α κ ρ : Type} [DecidableEq κ] (key : α → κ) (server : α → ρ) :
    Store κ ρ → List α → List (Bool × ρ)
  | _, [] => []
  | cache, u :: us =>
    (isHit key cache u, (cachedGet key server cache u).1) :: runTrace key server (cachedGet key server cache u).2 us

/-- the requests of a history that reach the server through the caching session: the misses -/
def wire {α κ ρ : Type} [DecidableEq κ] (key : α → κ) (server : α → ρ) : Store κ ρ → List α → List α
  | _, [] => []
  | cache, u :: us =>
    if isHit key cache u then wire key server (cachedGet key server cache u).2 us
    else u :: wire key server (cachedGet key server cache u).2 us

/-- The cache invariant: every stored response is the server's answer to every admissible request that
    maps to its key. `adm` is the set of requests the history may contain. -/
def CacheInv {α κ ρ : Type} (key : α → κ) (server : α → ρ) (adm : α → Prop) (cache : Store κ ρ) : Prop :=
  ∀ k r, (k, r) ∈ cache → ∀ u, adm u → key u = k → server u = r

/-- The second disjunct of `C18_cache_key`: two requests that metadata consolidation lets share an entry —
    the same declared shared constraint on the same scheme and host, both under the declared base (or both
    in one Earthdata provider/collection). -/
def SharedDim (shared : List (List Char)) (base : Option CK.Base) (r1 r2 : CK.Req) : Prop :=
  r1.ce = r2.ce ∧ ∃ c, r1.ce = some c ∧ c ∈ shared ∧ r1.scheme = r2.scheme ∧ r1.host = r2.host ∧
    ((CK.underBase base r1 = true ∧ CK.underBase base r2 = true) ∨
     (r1.host = CK.earthdataHost ∧ r2.host = CK.earthdataHost ∧
        ∃ coll, CK.findCollection r1.path = some coll ∧ CK.findCollection r2.path = some coll))

end Pydap.Cache
