import PydapModel.DasText
/-
  A DAS printer in the style of *other* servers (specification; not pydap code): the same nodes as
  `Item`, each decorated with the white space its writer chose — between type and name, name and first value,
  after every comma, after the `;`; before and after `{`, after `}` — so that several attributes may share a
  line or spread over many; the keyword `Attributes` and the type words in any letter case.
  Used by the C08 foreign-style theorems and, through the driver command `das-fprint`, fed to the real
  `parse_das` / `add_attributes`.
-/
namespace Pydap.Das

inductive FItem where
  | attr (ty name : Text) (vals : List Scalar) (w1 w2 sep w3 : Text)
  | cont (name : Text) (items : List FItem) (w1 w2 w3 : Text)
deriving Repr, Inhabited

/-- `", ".join(values)` with the writer's own white space after each comma -/
def fjoin (sep : Text) : List Text → Text
  | [] => []
  | [v] => v
  | v :: rest => v ++ ',' :: (sep ++ fjoin sep rest)

mutual
def frenderItem : FItem → Text
  | .attr ty k xs w1 w2 sep w3 => ty ++ (w1 ++ (k ++ (w2 ++ (fjoin sep (xs.map encode) ++ ';' :: w3))))
  | .cont n its w1 w2 w3 => n ++ (w1 ++ '{' :: (w2 ++ (frenderItems its ++ '}' :: w3)))
def frenderItems : List FItem → Text
  | [] => []
  | it :: rest => frenderItem it ++ frenderItems rest
end

/-- the whole text: keyword, white space, `{`, white space, nodes, `}`, anything -/
def ftext (kw w0 w1 : Text) (its : List FItem) (trail : Text) : Text :=
  kw ++ (w0 ++ '{' :: (w1 ++ (frenderItems its ++ '}' :: trail)))

mutual
/-- forget the decoration -/
def eraseItem : FItem → Item
  | .attr ty k xs _ _ _ _ => .attr ty k xs
  | .cont n its _ _ _ => .cont n (eraseItems its)
def eraseItems : List FItem → List Item
  | [] => []
  | it :: rest => eraseItem it :: eraseItems rest
end

end Pydap.Das
