import Driver
open Pydap Pydap.Driver

/-- all model drivers, tried in order -/
def handlers : List (List Sexp → Option String) := [handleSlice]

def step (line : String) : String :=
  match Sexp.parseLine line with
  | none => "bad-sexp"
  | some toks =>
    match handlers.findSome? (fun h => h toks) with
    | some out => out
    | none => "bad-op"

partial def loop (h : IO.FS.Stream) (out : IO.FS.Stream) : IO Unit := do
  let line ← h.getLine
  if line.isEmpty then return ()
  out.putStrLn (step line)
  loop h out

def main : IO Unit := do
  let out ← IO.getStdout
  loop (← IO.getStdin) out
  out.flush
