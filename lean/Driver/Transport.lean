import PydapModel.Sexp
import PydapModel.Transport
namespace Pydap.Driver
open Pydap Pydap.Cache Pydap.Transport Sexp

/-- the codec of a line: a table (payload, compressed) supplied by the harness (REAL gzip bytes);
    `z` looks a payload up, `unz` a compressed body; anything outside the table becomes the marker `ee` -/
def trZ (tab : List (Bytes × Bytes)) (b : Bytes) : Bytes :=
  match tab.find? (fun p => p.1 == b) with
  | some p => p.2
  | none => [0xee]

def trUnz (tab : List (Bytes × Bytes)) (b : Bytes) : Bytes :=
  match tab.find? (fun p => p.2 == b) with
  | some p => p.1
  | none => [0xee]

def trCodecRow : Sexp → Option (Bytes × Bytes)
  | list [p, c] => do pure ((← asBytes? p), (← asBytes? c))
  | _ => none

/-- one URL of the server: `(key none|gzip|other xPAYLOAD)`: the key requests_cache gives it, the coding
    the server applies (gzip: body = z payload, header gzip; other: header of an unknown coding, body as is) -/
def trUrlRow (z : Bytes → Bytes) : Sexp → Option (String × Served)
  | list [atom k, atom "none", b] => do pure (k, ⟨.none, ← asBytes? b⟩)
  | list [atom k, atom "gzip", b] => do pure (k, ⟨.gzip, z (← asBytes? b)⟩)
  | list [atom k, atom "other", b] => do pure (k, ⟨.other, ← asBytes? b⟩)
  | _ => none

/-- one GET: `(url-id w|s stream? (cuts…))` -/
def trGet : Sexp → Option (Get Nat)
  | list [u, atom p, atom s, list cuts] => do
    let path ← (if p == "w" then some Path.whole else if p == "s" then some Path.stream else none)
    let kw ← (if s == "1" then some true else if s == "0" then some false else none)
    pure ⟨← asNat? u, path, kw, ← cuts.mapM asNat?⟩
  | _ => none

def trEnc : Enc → String
  | .none => "none" | .gzip => "gzip" | .other => "other"

/-- `tr-run plain|cached (codec (xPAYLOAD xCOMPRESSED) …) (urls (key coding xPAYLOAD) …) (hist (id w|s 0|1 (cuts…)) …)`
    → per GET `m|h:w|s:x<bytes the reader got>`, then `wire=(id:coding:len …)`: the GETs that reached the server,
    with the header and the length of the body on the wire -/
def handleTransport : List Sexp → Option String
  | [atom "tr-run", atom mode, list (atom "codec" :: codec), list (atom "urls" :: urls), list (atom "hist" :: hist)] => do
    let tab ← codec.mapM trCodecRow
    let us ← urls.mapM (trUrlRow (trZ tab))
    let h ← hist.mapM trGet
    let srv : Nat → Served := fun i => match us[i]? with | some r => r.2 | none => ⟨.none, [0xee]⟩
    let key : Nat → String := fun i => match us[i]? with | some r => r.1 | none => "?"
    let unz := trUnz tab
    let (flags, reads, w) :=
      if mode == "plain" then (h.map (fun _ => false), readsPlain unz srv h, h)
      else ((runTrace (fun g : Get Nat => key g.req) (storeOf unz srv) [] h).map (·.1), readsCached unz key srv h,
            wire (fun g : Get Nat => key g.req) (storeOf unz srv) [] h)
    let per := List.zipWith (fun (g : Get Nat) (fr : Bool × Bytes) =>
        (if fr.1 then "h:" else "m:") ++ (match g.path with | .whole => "w:" | .stream => "s:") ++ bytesToHex fr.2)
      h (flags.zip reads)
    let ws := w.map (fun g => toString g.req ++ ":" ++ trEnc (srv g.req).enc ++ ":" ++ toString (srv g.req).body.length)
    pure ("(" ++ " ".intercalate per ++ ") wire=(" ++ " ".intercalate ws ++ ")")
  | _ => none

end Pydap.Driver
