import PydapModel.Sexp
import PydapModel.Cache
namespace Pydap.Driver
open Pydap Pydap.Cache Sexp

/-- one read of a history: `(key url-id)`, both atoms. The model is run on requests `(key, url-id)` with
    `key = fst` and a server that answers every request with its url-id (a distinct body per URL). -/
def cachePair : Sexp → Option (String × String)
  | list [atom k, atom u] => some (k, u)
  | _ => none

def cacheShow (t : Bool × String) : String := (if t.1 then "h:" else "m:") ++ t.2

/-- `cache-run ((k u) …)` → `(m:u h:u' …) wire=(u …)`: per read hit/miss and whose response is returned; the
    url-ids that reached the server -/
def handleCache : List Sexp → Option String
  | [atom "cache-run", list hist] => do
    let h ← hist.mapM cachePair
    let tr := runTrace (fun r : String × String => r.1) (fun r => r.2) [] h
    let w := wire (fun r : String × String => r.1) (fun r => r.2) [] h
    pure ("(" ++ " ".intercalate (tr.map cacheShow) ++ ") wire=(" ++ " ".intercalate (w.map (·.2)) ++ ")")
  | _ => none

end Pydap.Driver
