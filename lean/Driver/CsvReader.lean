import PydapModel.Sexp
import PydapModel.CsvReader
/-
  Line-protocol driver for the CSV reader model (PydapModel/CsvReader.lean).
  `fh-csvtext <text hex> ((<token hex> <float bits | none>) …)`: the table is Python's `float()` on the tokens the
  harness found between delimiters; a token missing from the table prints `(err notable)`.
-/
namespace Pydap.Driver
open Pydap Pydap.Sexp Pydap.Csv

private def csvChars (bs : List UInt8) : List Char := bs.map fun b => Char.ofNat b.toNat
private def csvHex (cs : List Char) : Sexp := atom (bytesToHex (cs.map fun c => UInt8.ofNat c.toNat))

private def csvCellOf : Csv.Cell → Sexp
  | .num b => list [atom "n", atom (toString b)]
  | .str s => list [atom "s", csvHex s]

def handleCsvReader : List Sexp → Option String
  | [atom "fh-csvtext", text, list table] => do
    let text ← (asBytes? text).map csvChars
    let table ← table.mapM fun e => match e with
      | list [t, atom "none"] => do pure ((← (asBytes? t).map csvChars), (none : Option Nat))
      | list [t, b] => do pure ((← (asBytes? t).map csvChars), some (← asNat? b))
      | _ => none
    -- a token absent from the table is reported, not guessed
    let missing := match readAll text with
      | .ok recs => recs.any fun r => r.any fun f => match f with
          | .num tok => (table.lookup tok).isNone
          | .str _ => false
      | .error _ => false
    if missing then pure "(err notable)" else
    let float : List Char → Option Nat := fun tok => (table.lookup tok).join
    pure (match csvFile float text with
      | .ok (h, rows) => toString (list [atom "ok", list (h.map csvCellOf), list (rows.map fun r => list (r.map csvCellOf))])
      | .error _ => "(err)")
  | [atom "fh-csvcols", list titles, list quoted] => do
    -- the header loop: titles and, as a table, what `_quote` makes of each (`q` is a parameter of the model)
    let titles ← titles.mapM fun t => (asBytes? t).map csvChars
    let quoted ← quoted.mapM fun t => (asBytes? t).map csvChars
    let q : List Char → List Char := fun t => ((titles.zip quoted).lookup t).getD t
    pure (match csvColumns q (titles.map Csv.Cell.str) with
      | .ok cols => toString (list (atom "ok" :: cols.map csvHex))
      | .error _ => "(err)")
  | [atom "fh-csvhandler", text, list table, list qtable] => do
    -- the whole handler on the text of a file: reader, header loop, records; column j read on its own
    let text ← (asBytes? text).map csvChars
    let table ← table.mapM fun e => match e with
      | list [t, atom "none"] => do pure ((← (asBytes? t).map csvChars), (none : Option Nat))
      | list [t, b] => do pure ((← (asBytes? t).map csvChars), some (← asNat? b))
      | _ => none
    let qtable ← qtable.mapM fun e => match e with
      | list [t, u] => do pure ((← (asBytes? t).map csvChars), (← (asBytes? u).map csvChars))
      | _ => none
    let missing := match readAll text with
      | .ok recs => recs.any fun r => r.any fun f => match f with
          | .num tok => (table.lookup tok).isNone
          | .str _ => false
      | .error _ => false
    if missing then pure "(err notable)" else
    let float : List Char → Option Nat := fun tok => (table.lookup tok).join
    let q : List Char → List Char := fun t => (qtable.lookup t).getD t
    pure (match csvHandler q float text with
      | .ok s =>
        let cols := (List.range s.columns.length).map fun j =>
          list ((s.column j).map fun c => match c with | some c => csvCellOf c | none => atom "short")
        toString (list [atom "ok", list (s.columns.map csvHex), list (s.records.map fun r => list (r.map csvCellOf)), list cols])
      | .error _ => "(err)")
  | _ => none

end Pydap.Driver
