import PydapModel.Sexp
import PydapModel.Slice
import PydapModel.Handler
namespace Pydap.Driver
open Pydap Sexp Pydap.Handler

def hStr? (s : Sexp) : Option Handler.Str := (asBytes? s).map fun bs => bs.map fun b => Char.ofNat b.toNat

def hHex (s : Handler.Str) : String := bytesToHex (s.map fun c => UInt8.ofNat c.toNat)

/-- a value: a decimal integer, or a string as `x<hex>` -/
def hVal? (s : Sexp) : Option Val :=
  match asInt? s with
  | some i => some (.int i)
  | none => (hStr? s).map .str

def hBase? : Sexp → Option Base
  | list [atom "b", n, t, list sh, list dims, list data] => do
    pure { name := ← hStr? n, ty := ← hStr? t, shape := ← sh.mapM asNat?, dims := ← dims.mapM hStr?,
           data := ← data.mapM hVal?, kind := .arr }
  -- a String array the source holds as bytes (numpy dtype S)
  | list [atom "b", n, t, list sh, list dims, list data, atom "S"] => do
    pure { name := ← hStr? n, ty := ← hStr? t, shape := ← sh.mapM asNat?, dims := ← dims.mapM hStr?,
           data := ← data.mapM hVal?, kind := .arr, srep := .bytes }
  | _ => none

def hMember? : Sexp → Option Member
  | list [atom "st", n, list bs] => do pure (.struct (← hStr? n) (← bs.mapM hBase?))
  | s => (hBase? s).map .base

def hCol? : Sexp → Option (Handler.Str × Handler.Str)
  | list [n, t] => do pure (← hStr? n, ← hStr? t)
  | _ => none

def hRow? : Sexp → Option (List Val)
  | list r => r.mapM hVal?
  | _ => none

def hVar? : Sexp → Option Var
  | list [atom "st", n, list ms] => do pure (.struct (← hStr? n) (← ms.mapM hMember?))
  | list [atom "g", n, a, list ms] => do pure (.grid (← hStr? n) (← hBase? a) (← ms.mapM hBase?))
  | list [atom "sq", n, list cols, list rows] => do pure (.seq (← hStr? n) (← cols.mapM hCol?) (← rows.mapM hRow?))
  | s => (hBase? s).map .base

def hDataset? : Sexp → Option Dataset
  | list [atom "ds", n, list vs] => do pure ⟨← hStr? n, ← vs.mapM hVar?⟩
  | _ => none

def hExc : Exc → String
  | .valueError => "ValueError" | .ceError => "ConstraintExpressionError" | .keyError => "KeyError"
  | .attributeError => "AttributeError" | .typeError => "TypeError" | .syntaxError => "SyntaxError"
  | .unspecified => "unspecified"

def hKind : Kind → String
  | .dds => "dds" | .das => "das" | .dods => "dods" | .ascii => "ascii" | .other => "other"

def hOutcome : Outcome → String
  | .ok k (.complete t) => "ok:" ++ hKind k ++ ":" ++ hHex t
  | .ok k (.raises e) => "ok:" ++ hKind k ++ ":raises:" ++ hExc e
  | .errdoc c => "errdoc:" ++ toString c
  | .answered => "answered"
  | .escaped e => "escaped:" ++ hExc e

def hSlices (l : List PSlice) : Sexp :=
  list (l.map fun s => list [atom "s", ofOptInt s.start, ofOptInt s.stop, ofOptInt s.step])

def hProjItem : ProjItem → Sexp
  | .call s => list [atom "call", atom (hHex s)]
  | .path parts => list (atom "path" :: parts.map fun p => list [atom (hHex p.1), hSlices p.2])

def handleHandler : List Sexp → Option String
  | [atom "h-handle", ds, p, q] => do
    pure (hOutcome (handle intText (← hDataset? ds) (← hStr? p) (← hStr? q)))
  | [atom "h-exc", ds, p, q] => do
    -- which exception class (constructor of `Exc`) the guarded region raises for this request
    match guarded (← hDataset? ds) (← hStr? p) (← hStr? q) with
    | .ok (k, _) => pure ("ok:" ++ hKind k)
    | .error e => pure ("err:" ++ hExc e)
  | [atom "h-clen", ds, p, q] => do
    -- the Content-length header of the data response (`calculate_size`): a number, `none`, or `n/a`
    match guarded (← hDataset? ds) (← hStr? p) (← hStr? q) with
    | .ok (.dods, cds) => pure (match contentLength cds with | some n => toString n | none => "none")
    | _ => pure "n/a"
  | [atom "h-xdrwf", ds, p, q] => do
    -- is the constrained dataset in C05's domain (the hypothesis of C06_payload_decodes; proved from hypotheses on
    -- the source by C06_payload_decodes_source)?  measured on the generated cases
    match guarded (← hDataset? ds) (← hStr? p) (← hStr? q) with
    | .ok (_, cds) => pure (toString (Xdr.WF (tmplOf cds) (dataOf cds)))
    | _ => pure "n/a"
  | [atom "h-proc", list hs, list rs] => do
    -- a history: handlers `(key dataset)`, requests `(key path query)`; the answers in order
    let handlers ← hs.mapM fun h => match h with
      | list [k, ds] => do pure (← hStr? k, ← hDataset? ds)
      | _ => none
    let reqs ← rs.mapM fun r => match r with
      | list [k, p, q] => do pure (Req.mk (← hStr? k) (← hStr? p) (← hStr? q))
      | _ => none
    pure (";".intercalate ((run intText ⟨handlers⟩ reqs).map fun o => match o with
      | some o => hOutcome o
      | none => "no-handler"))
  | [atom "h-pinned", ds, p, q] => do
    pure (hOutcome (handlePinned intText (← hDataset? ds) (← hStr? p) (← hStr? q)))
  | [atom "h-parsece", q] => do
    match parseCE (← hStr? q) with
    | .ok (p, s) => pure (toString (list [atom "ok", list (p.map hProjItem), list (s.map fun x => atom (hHex x))]))
    | .error e => pure ("(err " ++ hExc e ++ ")")
  | [atom "h-table", e] => do
    match lookupKind (← hStr? e) with
    | some k => pure (hKind k ++ "|" ++ String.ofList (contentType k) ++ "|" ++ String.ofList (contentDescription k))
    | none => pure "none"
  | [atom "h-errbody", c, m] => do
    pure (hHex (errorBody (← asInt? c) (← hStr? m)))
  | [atom "h-errheaders"] =>
    pure (toString errorHeaders.status ++ "|" ++ String.ofList errorHeaders.contentType ++ "|" ++ String.ofList errorHeaders.description)
  | _ => none

end Pydap.Driver
