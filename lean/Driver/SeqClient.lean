import PydapModel.Sexp
import PydapModel.SeqClient
import PydapModel.TableVal
import Driver.IterData
import Driver.Seq
namespace Pydap.Driver
open Pydap Sexp Pydap.IterData Pydap.TableVal Pydap.Seq Pydap.SeqClient

def hexOfChars (cs : List Char) : String := bytesToHex (cs.map fun ch => UInt8.ofNat ch.toNat)

def scChars? (s : Sexp) : Option (List Char) := (asBytes? s).map itCharsOfBytes

def scCmp? : Sexp → Option (Cmp Val)
  | list [atom "cmp", c, op, list [atom "col", k]] => do
    pure ⟨← sexpToName? c, ← sexpToOp? op, .col (← sexpToName? k)⟩
  | list [atom "cmp", c, op, list [atom "val", v]] => do
    pure ⟨← sexpToName? c, ← sexpToOp? op, .val (← sexpToVal? v)⟩
  | _ => none

def scOp? : Sexp → Option (COp Val)
  | list (atom "filt" :: c :: cs) => do pure (.filt (← scCmp? c) (← cs.mapM scCmp?))
  | list [atom "cols", list ks] => (ks.mapM sexpToName?).map COp.cols
  | list [atom "sl", a, b, k] => do pure (.sl ⟨← asOptInt? a, ← asOptInt? b, ← asOptInt? k⟩)
  | list [atom "idx", i] => (asInt? i).map COp.idx
  | _ => none

/-- `(url none)` = `open_url(url)`; `(url (proj cols|none range|none) (sel hex…))`;
    `(url noproj (sel hex…))` = a URL with a selection only -/
def scUrl? : Sexp → Option UrlCE
  | list [atom "url", atom "none"] => some ⟨none, []⟩
  | list [atom "url", atom "noproj", list (atom "sel" :: toks)] => do pure ⟨none, ← toks.mapM scChars?⟩
  | list [atom "url", list [atom "proj", cols, range], list (atom "sel" :: toks)] => do
    let cols ← match cols with
      | atom "none" => some none
      | list cs => (cs.mapM sexpToName?).map some
      | _ => none
    let range ← match range with
      | atom "none" => some none
      | list [atom "sl", a, b, k] => do pure (some ⟨← asOptInt? a, ← asOptInt? b, ← asOptInt? k⟩)
      | _ => none
    pure ⟨some (cols, range), ← toks.mapM scChars?⟩
  | _ => none

def slabText (l : List PSlice) : String :=
  "(" ++ " ".intercalate (l.map fun s => s!"({ofOptInt s.start} {ofOptInt s.stop} {ofOptInt s.step})") ++ ")"

def projSexp (p : List (List (Name × List PSlice))) : String :=
  "(" ++ " ".intercalate (p.map fun item =>
    "(" ++ " ".intercalate (item.map fun e => s!"({hexOfChars e.1} {slabText e.2})") ++ ")") ++ ")"

/-- derive along keys, each applied to the object the previous one created, after a history of other events
    (the `deriveAmid` of the C14 proofs, on the executable heap model) -/
def scDerive (h : Proxy.Heap) (r : Nat) : List (List Proxy.Ev × Proxy.DKey) → Proxy.Heap × Nat
  | [] => (h, r)
  | (evs, k) :: rest =>
    scDerive (Proxy.step (Proxy.run h evs) (.getitem r k)) (Proxy.run h evs).objs.length rest

def handleSeqClient : List Sexp → Option String
  -- the query text the proxy derived by a chain of client operators writes (the chain runs on the heap model:
  -- every derivation after a read of the opened sequence)
  | [atom "sc-url", id, list names, u, list ops] => do
    let id ← sexpToName? id
    let names ← names.mapM sexpToName?
    let u ← scUrl? u
    let ops ← ops.mapM scOp?
    let p0 := openProxy ['u'] (some 1) 0 u
    let h : Proxy.Heap := { tmpls := [openTmpl id names u], objs := [.seq p0], log := [] }
    let d := scDerive h 0 (ops.map fun op => ([Proxy.Ev.iter 0], keyOf encVal [id] p0 op))
    match objQuery d.1 d.2 with
    | some q => pure (hexOfChars q)
    | none => pure "none"
  -- `parse_ce(query)`
  | [atom "sc-parse", q] => do
    let q ← scChars? q
    match parseCE q with
    | some (proj, sel) => pure s!"{projSexp proj} ({" ".intercalate (sel.map hexOfChars)})"
    | none => pure "none"
  -- the server's answer to a query text
  | [atom "sc-serve", atom backend, id, list names, list rows, q] => do
    let id ← sexpToName? id
    let names ← names.mapM sexpToName?
    let rows ← rows.mapM fun r => match r with
      | list cells => cells.mapM sexpToVal?
      | _ => none
    let q ← scChars? q
    let b ← match backend with
      | "np" => some Backend.numpy
      | "it" => some Backend.iterdata
      | "csv" => some Backend.csv
      | _ => none
    match serveQuery cmpVal encVal litVal b id names rows q with
    | some (.ok items) => pure ("[" ++ " ".intercalate (items.map itemText) ++ "]")
    | some (.error e) => pure ("err:" ++ errText e)
    | none => pure "outside"
  | _ => none

end Pydap.Driver
