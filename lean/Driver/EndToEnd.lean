import PydapModel.Sexp
import PydapModel.EndToEnd
import Driver.Slice
import Driver.Subset
import Driver.Xdr
namespace Pydap.Driver
open Pydap Sexp Pydap.Xdr Pydap.E2E

def e2eErr : E2E.Err → String
  | .server e => "(err server " ++ serr e ++ ")"
  | .decode _ => "(err decode)"
  | .split => "(err split)"
  | .ddsPrint _ => "(err ddsPrint)"
  | .ddsParse _ => "(err ddsParse)"
  | .template => "(err template)"

def e2eNats (l : List Nat) : Sexp := list (l.map fun n => atom (toString n))

def e2eResult (shape : List Nat) (pre : List PSlice) (idx : List Idx) :
    Except E2E.Err (Data × Bytes) → String
  | .error e => e2eErr e
  | .ok (d, rest) =>
    let cshape := match remoteIndex shape pre idx with
      | .ok R => selShape R
      | .error _ => []
    toString (list [atom "ok", e2eNats cshape, xdrDataSexp d, atom (bytesToHex rest)])

def e2eTextOfHex? (s : Sexp) : Option (List Char) := (asBytes? s).map charsOfBytes

def e2eHexOfText (t : List Char) : String := bytesToHex (t.map fun c => UInt8.ofNat c.toNat)

/-- the parsed declaration as the client sees it: name, parser dtype, shape, dimension names -/
def e2eDeclSexp : Dds.Tmpl → Sexp
  | .base b => list [atom "b", atom (e2eHexOfText b.name), atom (e2eHexOfText b.dt),
      list (b.shape.map fun n => atom (toString n)), list (b.dims.map fun d => atom (e2eHexOfText d))]
  | .grid n _ => list [atom "grid", atom (e2eHexOfText n)]
  | .struct n _ => list [atom "struct", atom (e2eHexOfText n)]
  | .seq n _ => list [atom "seq", atom (e2eHexOfText n)]

def e2eMap? : Sexp → Option (Ty × List Val)
  | list [ty, list vs] => do pure (← xdrTy? ty, ← vs.mapM xdrVal?)
  | _ => none

def handleEndToEnd : List Sexp → Option String
  | [atom "e2e-array", ty, list shape, list vals, list pre, list idx] => do
    let ty ← xdrTy? ty
    let sh ← shape.mapM asNat?
    let vs ← vals.mapM xdrVal?
    let pre ← pre.mapM sexpToSlice?
    let ix ← idx.mapM sexpToIdx?
    pure (e2eResult sh pre ix (fetchArray ty sh vs pre ix))
  | [atom "e2e-gather", list shape, list pos, list vals] => do
    let sh ← shape.mapM asNat?
    let S ← pos.mapM fun p => match p with
      | list l => l.mapM asNat?
      | _ => none
    let vs ← vals.mapM asInt?
    pure (toString (list ((gather sh S vs).map fun v => atom (toString v))))
  | [atom "e2e-body", dsn, nm, list dims, ty, list shape, list vals, list pre, list idx] => do
    let dsn ← e2eTextOfHex? dsn
    let nm ← e2eTextOfHex? nm
    let dims ← dims.mapM e2eTextOfHex?
    let ty ← xdrTy? ty
    let sh ← shape.mapM asNat?
    let vs ← vals.mapM xdrVal?
    let pre ← pre.mapM sexpToSlice?
    let ix ← idx.mapM sexpToIdx?
    match remoteIndex sh pre ix with
    | .error e => pure (e2eErr (.server e))
    | .ok R =>
      match responseBody dsn nm dims ty (served sh vs R).1 (served sh vs R).2 with
      | .error e => pure (e2eErr e)
      | .ok raw => pure (bytesToHex raw)
  | [atom "e2e-text", dsn, nm, list dims, ty, list shape, list vals, list pre, list idx] => do
    let dsn ← e2eTextOfHex? dsn
    let nm ← e2eTextOfHex? nm
    let dims ← dims.mapM e2eTextOfHex?
    let ty ← xdrTy? ty
    let sh ← shape.mapM asNat?
    let vs ← vals.mapM xdrVal?
    let pre ← pre.mapM sexpToSlice?
    let ix ← idx.mapM sexpToIdx?
    match fetchArrayText dsn nm dims ty sh vs pre ix with
    | .error e => pure (e2eErr e)
    | .ok (ds, d, rest) =>
      pure (toString (list [atom "ok", atom (e2eHexOfText ds.name), list (ds.kids.map e2eDeclSexp),
        xdrDataSexp d, atom (bytesToHex rest)]))
  | [atom "e2e-grid", og, ty, list shape, list vals, list maps, list pre, list key] => do
    let og ← asNat? og
    let ty ← xdrTy? ty
    let sh ← shape.mapM asNat?
    let vs ← vals.mapM xdrVal?
    let maps ← maps.mapM e2eMap?
    let pre ← pre.mapM sexpToSlice?
    let key ← key.mapM sexpToIdx?
    pure (toString (list ((fetchGrid (og != 0) ty sh vs maps pre key).map fun (c, r) =>
      list [atom (toString c), atom (match r with
        | .error e => e2eErr e
        | .ok (d, rest) => toString (list [atom "ok", xdrDataSexp d, atom (bytesToHex rest)]))])))
  | _ => none

end Pydap.Driver
