import PydapModel.Sexp
import PydapModel.Quote
import PydapModel.Tree
import PydapModel.Heap
namespace Pydap.Driver
open Pydap Sexp Pydap.Quote Pydap.Tree

def c12Str? : Sexp → Option Str
  | list xs => xs.mapM asBytes?
  | _ => none

def c12Strs? : Sexp → Option (List Str)
  | list xs => xs.mapM c12Str?
  | _ => none

def c12Kind? : Sexp → Option Kind
  | atom "base" => some .base
  | atom "struct" => some .struct
  | atom "seq" => some .seq
  | atom "grid" => some .grid
  | atom "dataset" => some .dataset
  | _ => none

def c12Op? : Sexp → Option Op
  | list [atom "new", k, n, a] => do pure (.new (← c12Kind? k) (← c12Str? n) (← asNat? a))
  | list [atom "set", h, p, k, src] => do pure (.set (← asNat? h) (← c12Strs? p) (← c12Str? k) (← asNat? src))
  | list [atom "del", h, p, k] => do pure (.del (← asNat? h) (← c12Strs? p) (← c12Str? k))
  | list [atom "copy", h, p] => do pure (.copy (← asNat? h) (← c12Strs? p))
  | list [atom "select", h, p, ks] => do pure (.select (← asNat? h) (← c12Strs? p) (← c12Strs? ks))
  | list [atom "setdata", h, p, a] => do pure (.setData (← asNat? h) (← c12Strs? p) (← asNat? a))
  | list [atom "setattr", h, p, k, v] => do pure (.setAttr (← asNat? h) (← c12Strs? p) (← c12Str? k) (← asNat? v))
  | _ => none

def c12Hex (s : Str) : String := bytesToHex s.flatten

def c12Kind : Kind → String
  | .base => "base" | .struct => "struct" | .seq => "seq" | .grid => "grid" | .dataset => "dataset"

def c12Data : DRef → String
  | .none => "none"
  | .atom n => "a" ++ toString n
  | .item d k => "(item " ++ c12Data d ++ " " ++ c12Hex k ++ ")"
  | .items d ks => "(items " ++ c12Data d ++ " (" ++ " ".intercalate (ks.map c12Hex) ++ "))"
  | .copy d => "(copy " ++ c12Data d ++ ")"

def c12AVal : AVal → String
  | .nat n => "n" ++ toString n
  | .dlist ds => "(dl " ++ " ".intercalate (ds.map c12Data) ++ ")"

/-- insertion sort of strings (attributes come out of a dict: canonical order) -/
def c12Sort (l : List String) : List String :=
  l.foldl (fun acc x => (acc.filter (· < x)) ++ [x] ++ (acc.filter (fun y => ¬ y < x))) []

def c12Hdr (canon : Nat → Nat) (h : Hdr) : String :=
  c12Kind h.kind ++ " " ++ c12Hex h.name ++ " " ++ c12Hex h.id ++ " o" ++ toString (canon h.oid)
  ++ " (v " ++ " ".intercalate (h.visible.map c12Hex) ++ ")"
  ++ " (a " ++ " ".intercalate (c12Sort (h.attrs.map fun p => "(" ++ c12Hex p.1 ++ " " ++ c12AVal p.2 ++ ")")) ++ ")"
  ++ " " ++ c12Data h.data

def c12Forest (canon : Nat → Nat) : Forest → List String
  | .nil => []
  | .cons h kids rest =>
    ("(" ++ c12Hdr canon h ++ " (" ++ " ".intercalate (c12Forest canon kids) ++ "))") :: c12Forest canon rest

def c12Obj (canon : Nat → Nat) (o : Obj) : String :=
  "(" ++ c12Hdr canon o.hdr ++ " (" ++ " ".intercalate (c12Forest canon o.kids) ++ "))"

def c12Err : Err → String
  | .keyError => "KeyError" | .typeError => "TypeError" | .indexError => "IndexError" | .outside => "outside"

/-- objects in `walk` order (fuel = depth) -/
def c12Walk (fuel : Nat) (o : Obj) : List Obj :=
  match fuel with
  | 0 => [o]
  | fuel + 1 => o :: (match children o with
      | .ok cs => cs.flatMap (c12Walk fuel)
      | .error _ => [])

/-- the observers named by the property: keys(), children(), walk ids, get_var(root, id) is var -/
def c12Observe (o : Obj) : String :=
  let ks := " ".intercalate ((keysOf o).map c12Hex)
  let ch := match children o with
    | .ok cs => " ".intercalate (cs.map fun c => c12Hex c.hdr.name)
    | .error _ => "E"
  let wk := " ".intercalate ((walkIds o).map c12Hex)
  let gv := if o.hdr.kind = .dataset then
      String.ofList (((c12Walk (o.kids.depth + 1) o).drop 1).map fun v =>
        match getVar o v.hdr.id with
        | .ok r => if r.hdr.oid = v.hdr.oid then '1' else '0'
        | .error _ => 'E')
    else "-"
  "[k " ++ ks ++ "][c " ++ ch ++ "][w " ++ wk ++ "][g " ++ gv ++ "]"

/-- every object below a forest, pre-order over `_dict` (hidden children included), with the names on the way -/
def c12Below : Forest → List (List Str × Obj)
  | .nil => []
  | .cons h kids rest =>
    ([h.name], ⟨h, kids⟩) :: ((c12Below kids).map fun p => (h.name :: p.1, p.2)) ++ c12Below rest

def c12Found (canon : Nat → Nat) : Except Err Found → String
  | .ok (.obj r) => "o" ++ toString (canon r.hdr.oid)
  | .ok (.derived src d) =>
    "(derived " ++ c12Hex src.hdr.name ++ " " ++ c12Hex src.hdr.id
      ++ " (a " ++ " ".intercalate (c12Sort (src.hdr.attrs.map fun p => "(" ++ c12Hex p.1 ++ " " ++ c12AVal p.2 ++ ")")) ++ ")"
      ++ " " ++ c12Data d ++ ")"
  | .error e => c12Err e

/-- `A[v.id]` and `A[<names from A to v joined by '.'>]` for every container `A` of the tree and every `v` below it -/
def c12Lookups (canon : Nat → Nat) (o : Obj) : String :=
  let conts := (o :: (c12Below o.kids).map (·.2)).filter fun a => a.hdr.kind != .base
  let one := fun (a : Obj) => (c12Below a.kids).map fun p =>
    c12Found canon (lookup a p.2.hdr.id) ++ "," ++ c12Found canon (lookup a (joinDot p.1))
  "[L " ++ " ".intercalate (conts.flatMap one) ++ "]"

def c12State (s : State) : String :=
  let all := s.oids
  let canon := fun i => all.idxOf i
  let hs := (s.handles.zipIdx.filterMap fun (o, i) => o.map fun o =>
    "h" ++ toString i ++ "=" ++ c12Obj canon o ++ c12Observe o ++ c12Lookups canon o)
  let inv := s.handles.all (fun | some o => invObj o | none => true) && decide s.oids.Nodup
  "inv=" ++ (if inv then "1" else "0") ++ " " ++ " ".intercalate hs

def c12HOp? : Sexp → Option HOp
  | list [atom "lookup", h, p, k] => do pure (.lookup (← asNat? h) (← c12Strs? p) (← c12Str? k))
  | x => do pure (.op (← c12Op? x))

def c12Run (s : State) : List HOp → List String
  | [] => []
  | .lookup h path key :: ops =>
    match lookupAt s h path key with
    | .error .outside => ["outside"]
    | r =>
      let canon := fun i => s.oids.idxOf i
      ("L:" ++ c12Found canon r ++ " " ++ c12State s) :: c12Run s ops
  | .op op :: ops =>
    match stepE s op with
    | .ok s' => ("ok " ++ c12State s') :: c12Run s' ops
    | .error .outside => ["outside"]
    | .error e => (c12Err e ++ " " ++ c12State s) :: c12Run s ops

def handleTree : List Sexp → Option String
  | [atom "c12-quote", n] => do
    let n ← c12Str? n
    pure (c12Hex (quote n))
  | [atom "c12-unquote", n] => do
    let n ← c12Str? n
    pure (bytesToHex (unquote n))
  | [atom "c12-run", list ops] => do
    let ops ← ops.mapM c12HOp?
    pure (" ; ".intercalate (c12Run State.init ops))
  | [atom "c12-scope", list ops] => do
    let ops ← ops.mapM c12HOp?
    pure (if (edits ops).all Op.scope then "1" else "0")
  | [atom "c12-nolit", n] => do
    let n ← c12Str? n
    pure (if noLit n.flatten then "1" else "0")
  | _ => none

end Pydap.Driver
