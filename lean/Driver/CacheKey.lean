import PydapModel.Sexp
import PydapModel.CacheKey
namespace Pydap.Driver
open Pydap Pydap.CK Sexp

/-- text travels as the hex of its UTF-8 bytes; equality, membership, '/'-segments and prefixes are the same
    on UTF-8 bytes as on code points, so the model is run on one `Char` per byte -/
def ckChars (s : Sexp) : Option (List Char) :=
  (asBytes? s).map fun bs => bs.map fun b => Char.ofNat b.toNat

def ckHex (cs : List Char) : String :=
  bytesToHex (cs.map fun c => UInt8.ofNat c.toNat)

def ckOptChars : Sexp → Option (Option (List Char))
  | atom "none" => some none
  | s => (ckChars s).map some

def ckBase : Sexp → Option (Option Base)
  | atom "none" => some none
  | list [s, h, p] => do pure (some ⟨← ckChars s, ← ckChars h, ← ckChars p⟩)
  | _ => none

def ckKey : Key → String
  | Key.orig _ => "orig"
  | Key.norm s h p c => "(norm " ++ ckHex s ++ " " ++ ckHex h ++ " " ++ ckHex p ++ " " ++ ckHex c ++ ")"

def handleCacheKey : List Sexp → Option String
  | [atom "ck-key", list shared, base, list [s, h, p, ce]] => do
    let shared ← shared.mapM ckChars
    let base ← ckBase base
    let r : Req := ⟨← ckChars s, ← ckChars h, ← ckChars p, ← ckOptChars ce, []⟩
    pure (ckKey (customKey id shared base r))
  | [atom "ck-key-prefix", list shared, base, list [s, h, p, ce]] => do
    let shared ← shared.mapM ckChars
    let base ← ckBase base
    let r : Req := ⟨← ckChars s, ← ckChars h, ← ckChars p, ← ckOptChars ce, []⟩
    pure (ckKey (customKeyPrefix id shared base r))
  | _ => none

end Pydap.Driver
