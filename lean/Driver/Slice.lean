import PydapModel.Sexp
import PydapModel.Slice
namespace Pydap.Driver
open Pydap Sexp

def sexpToSlice? : Sexp → Option PSlice
  | list [atom "s", a, b, k] => do
    pure ⟨← asOptInt? a, ← asOptInt? b, ← asOptInt? k⟩
  | _ => none

def sexpToIdx? : Sexp → Option Idx
  | atom "e" => some Idx.ell
  | list [atom "i", n] => (asInt? n).map Idx.int
  | s => (sexpToSlice? s).map Idx.sl

def sliceToSexp (s : PSlice) : Sexp :=
  list [atom "s", ofOptInt s.start, ofOptInt s.stop, ofOptInt s.step]

def idxToSexp : Idx → Sexp
  | Idx.ell => atom "e"
  | Idx.int i => list [atom "i", atom (toString i)]
  | Idx.sl s => sliceToSexp s

def charsOfBytes (bs : List UInt8) : List Char := bs.map fun b => Char.ofNat b.toNat

def herr : HErr → String
  | .invalidHyperslab => "ConstraintExpressionError"
  | .valueError => "ValueError"

def handleSlice : List Sexp → Option String
  | [atom "fixslice", list shape, list idx] => do
    let sh ← shape.mapM asNat?
    let ix ← idx.mapM sexpToIdx?
    pure (toString (list ((fixSlice ix sh).map idxToSexp)))
  | [atom "combine", list a, list b] => do
    let a ← a.mapM sexpToIdx?
    let b ← b.mapM sexpToIdx?
    pure (toString (list ((combine a b).map sliceToSexp)))
  | [atom "hyperslab", list l] => do
    let l ← l.mapM sexpToSlice?
    pure ("t:" ++ String.ofList (hyperslabText l))
  | [atom "parsehs", t] => do
    let bs ← asBytes? t
    match parseHyperslab (charsOfBytes bs) with
    | .ok l => pure (toString (list (atom "ok" :: l.map sliceToSexp)))
    | .error e => pure ("(err " ++ herr e ++ ")")
  | [atom "sel", n, s] => do
    let n ← asNat? n
    let s ← sexpToSlice? s
    pure (toString (list ((sel n s).map fun i => atom (toString i))))
  | [atom "selint", n, i] => do
    let n ← asNat? n
    let i ← asInt? i
    match selInt n i with
    | some k => pure (toString k)
    | none => pure "IndexError"
  | _ => none

end Pydap.Driver
