import PydapModel.Sexp
import PydapModel.Handler
import PydapModel.Ssf
import Driver.Handler
namespace Pydap.Driver
open Pydap Sexp Pydap.Handler Pydap.Ssf

partial def argSexp : Arg → Sexp
  | .tok s => atom (hHex s)
  | .call n args => list (atom "call" :: atom (hHex n) :: args.map argSexp)

def sAxis? : Sexp → Option (Option Axis)
  | atom "x" => some (some .x) | atom "y" => some (some .y) | atom "z" => some (some .z)
  | atom "-" => some none
  | _ => none

def sInts (l : List Int) : Sexp := list (l.map fun i => atom (toString i))
def sNats (l : List Nat) : Sexp := list (l.map fun i => atom (toString i))

def sArr (a : Arr) : Sexp := list [sNats a.shape, list (a.dims.map fun d => atom (hHex d)), sInts a.data, atom (toString a.den)]

def meanChain (a : Arr) : List Int → Except Exc Arr
  | [] => .ok a
  | k :: ks => match meanAxis a k with
    | .ok b => meanChain b ks
    | .error e => .error e

def meanGridChain (g : GridA) : List Int → Except Exc GridA
  | [] => .ok g
  | k :: ks => match meanGridAxis g k with
    | .ok b => meanGridChain b ks
    | .error e => .error e

def sMap? : Sexp → Option (Handler.Str × List Int)
  | list [n, list vs] => do pure (← hStr? n, ← vs.mapM asInt?)
  | _ => none


/-- a function table `((name id) ...)` -/
def sTable? : Sexp → Option Table
  | list es => es.mapM fun e => match e with
    | list [n, i] => do pure (← hStr? n, ← asNat? i)
    | _ => none
  | _ => none

def tableText (t : Table) : String :=
  "(" ++ " ".intercalate (t.map fun e => "(" ++ hHex e.1 ++ " " ++ toString e.2 ++ ")") ++ ")"

/-- the results of the calls as handed over in the input line: `((calltext var) ...)`; a call that is
    not listed raised -/
def sResults? : Sexp → Option (List (Handler.Str × Var))
  | list es => es.mapM fun e => match e with
    | list [c, v] => do pure (← hStr? c, ← hVar? v)
    | _ => none
  | _ => none

def evTable (rs : List (Handler.Str × Var)) (_ : Dataset) (c : Handler.Str) : Except Exc Var :=
  match rs.find? (·.1 = c) with
  | some r => .ok r.2
  | none => .error .ceError

def handleSsf : List Sexp → Option String
  | [atom "ssf-route", p, q] => do
    match route (← hStr? p) (← hStr? q) with
    | .pass => pure "pass"
    | .function inner => pure ("function:" ++ hHex inner)
    | .error _ => pure "error"
  | [atom "ssf-match", s] => do
    match functionMatch (← hStr? s) with
    | none => pure "none"
    | some (n, a) => pure (hHex n ++ " " ++ hHex a)
  | [atom "ssf-parsecall", s] => do
    let cs ← hStr? s
    pure (toString (argSexp (parseCall cs.length cs)))
  | [atom "ssf-mean", list sh, list dims, list data, list axes] => do
    let a : Arr := ⟨← sh.mapM asNat?, ← dims.mapM hStr?, ← data.mapM asInt?, 1⟩
    match meanChain a (← axes.mapM asInt?) with
    | .ok r => pure (toString (sArr r))
    | .error e => pure ("(err " ++ hExc e ++ ")")
  | [atom "ssf-meaneval", c, v, list sh, list dims, list data] => do
    -- the call TEXT, parsed by `parseCall` (eval_function's own fuel) and evaluated by `evalMean`; `v` names the array
    let a : Arr := ⟨← sh.mapM asNat?, ← dims.mapM hStr?, ← data.mapM asInt?, 1⟩
    let cs ← hStr? c
    let vn ← hStr? v
    match evalMean (fun s => if s = vn then some a else none) (parseCall cs.length cs) with
    | .ok r => pure (toString (sArr r))
    | .error e => pure ("(err " ++ hExc e ++ ")")
  | [atom "ssf-meangrid", list sh, list dims, list data, list maps, list axes] => do
    let a : Arr := ⟨← sh.mapM asNat?, ← dims.mapM hStr?, ← data.mapM asInt?, 1⟩
    match meanGridChain ⟨a, ← maps.mapM sMap?⟩ (← axes.mapM asInt?) with
    | .ok r => pure (toString (list [sArr r.array, list (r.maps.map fun m => list [atom (hHex m.1), sInts m.2])]))
    | .error e => pure ("(err " ++ hExc e ++ ")")
  | [atom "ssf-bounds", list cols, list [x0, x1, y0, y1, z0, z1], list rows] => do
    let cols ← cols.mapM sAxis?
    let xs := (← asInt? x0, ← asInt? x1)
    let ys := (← asInt? y0, ← asInt? y1)
    let zs := (← asInt? z0, ← asInt? z1)
    let iv : Axis → Int × Int := fun a => match a with | .x => xs | .y => ys | .z => zs
    let rows ← rows.mapM fun r => match r with | list r => r.mapM asInt? | _ => none
    pure (toString (list ((bounds iv cols rows).map sInts)))
  | [atom "ssf-handle", ds, p, q, rs] => do
    -- `ServerSideFunctions(BaseHandler(ds))` past the routing; the evaluator is the table of results in the line
    pure (hOutcome (ssfHandle intText (evTable (← sResults? rs)) (← hDataset? ds) (← hStr? p) (← hStr? q)))
  | [atom "ssf-tables", stock, list kws, list qs] => do
    -- a history of application constructions, then lookups `(app name)`; the tables, then the lookups
    let p := buildApps ⟨← sTable? stock, []⟩ (← kws.mapM sTable?)
    let qs ← qs.mapM fun q => match q with
      | list [i, n] => do pure (← asNat? i, ← hStr? n)
      | _ => none
    let again := (loadFunctions p).1
    pure (" ".intercalate (p.apps.map tableText) ++ " | " ++ tableText again ++ " | " ++
      " ".intercalate (qs.map fun q => match appLookup p q.1 q.2 with | some i => toString i | none => "none"))
  | [atom "ssf-tables-shared", stock, list kws, list qs] => do
    -- the seeded mutant's process (one memoised table), for comparison
    let p := buildAppsShared ⟨← sTable? stock, 0⟩ (← kws.mapM sTable?)
    let qs ← qs.mapM fun q => match q with
      | list [i, n] => do pure (← asNat? i, ← hStr? n)
      | _ => none
    pure (" ".intercalate (qs.map fun q => match appLookupShared p q.1 q.2 with | some i => toString i | none => "none"))
  | _ => none

end Pydap.Driver
