import PydapModel.Sexp
import PydapModel.DdsText
import PydapModel.DdsForeign
namespace Pydap.Driver
open Pydap Sexp Pydap.Dds

def ddsChars (bs : List UInt8) : List Char := bs.map fun b => Char.ofNat b.toNat
def ddsHex (t : List Char) : String := bytesToHex (t.map fun c => UInt8.ofNat c.toNat)
def ddsText? (s : Sexp) : Option (List Char) := (asBytes? s).map ddsChars

def ddsBase? : Sexp → Option BaseV
  | list [atom "b", n, dt, list sh, list dims, nd] => do
    pure ⟨← ddsText? n, ← ddsText? dt, ← sh.mapM asInt?, ← dims.mapM ddsText?, (← asNat? nd) != 0⟩
  | _ => none

partial def ddsTmpl? : Sexp → Option Tmpl
  | list [atom "st", n, list kids] => do pure (.struct (← ddsText? n) (← kids.mapM ddsTmpl?))
  | list [atom "sq", n, list kids] => do pure (.seq (← ddsText? n) (← kids.mapM ddsTmpl?))
  | list [atom "g", n, list kids] => do pure (.grid (← ddsText? n) (← kids.mapM ddsBase?))
  | s => (ddsBase? s).map Tmpl.base

def ddsDs? : Sexp → Option Dataset
  | list [atom "ds", n, list kids] => do pure ⟨← ddsText? n, ← kids.mapM ddsTmpl?⟩
  | _ => none

def ddsBaseS (b : BaseV) : Sexp :=
  list [atom "b", atom (ddsHex b.name), atom (ddsHex b.dt), list (b.shape.map fun n => atom (toString n)),
        list (b.dims.map fun d => atom (ddsHex d)), atom (if b.nodata then "1" else "0")]

partial def ddsTmplS : Tmpl → Sexp
  | .base b => ddsBaseS b
  | .struct n kids => list [atom "st", atom (ddsHex n), list (kids.map ddsTmplS)]
  | .seq n kids => list [atom "sq", atom (ddsHex n), list (kids.map ddsTmplS)]
  | .grid n kids => list [atom "g", atom (ddsHex n), list (kids.map ddsBaseS)]

def ddsDsS (d : Dataset) : Sexp := list [atom "ds", atom (ddsHex d.name), list (d.kids.map ddsTmplS)]

def ddsDim? : Sexp → Option (Option (List Char) × Int)
  | list [atom "none", n] => do pure (none, ← asInt? n)
  | list [d, n] => do pure (some (← ddsText? d), ← asInt? n)
  | _ => none

def ddsFBase? : Sexp → Option FBase
  | list [atom "fb", ty, n, list dims, list gs] => do
    pure ⟨← ddsText? ty, ← ddsText? n, ← dims.mapM ddsDim?, ← gs.mapM ddsText?⟩
  | _ => none

partial def ddsFTmpl? : Sexp → Option FTmpl
  | list [atom "fc", sq, kw, n, list gs, list kids] => do
    pure (.cont ((← asNat? sq) != 0) (← ddsText? kw) (← ddsText? n) (← gs.mapM ddsText?) (← kids.mapM ddsFTmpl?))
  | list [atom "fg", kw, kwA, kwM, n, list gs, arr, list maps] => do
    pure (.grid (← ddsText? kw) (← ddsText? kwA) (← ddsText? kwM) (← ddsText? n) (← gs.mapM ddsText?)
      (← ddsFBase? arr) (← maps.mapM ddsFBase?))
  | s => (ddsFBase? s).map FTmpl.base

def ddsFDs? : Sexp → Option FDataset
  | list [atom "fds", kw, n, list gs, list kids] => do
    pure ⟨← ddsText? kw, ← ddsText? n, ← gs.mapM ddsText?, ← kids.mapM ddsFTmpl?⟩
  | _ => none

def ddsErr : Err → String
  | .parse => "(err Exception)"
  | .key => "(err KeyError)"
  | .value => "(err ValueError)"
  | .other => "(err Other)"

def handleDdsText : List Sexp → Option String
  | [atom "dds-print", d] => do
    let d ← ddsDs? d
    match printDs d with
    | .ok t => pure (ddsHex t)
    | .error e => pure (ddsErr e)
  | [atom "dds-parse", t] => do
    let t ← ddsText? t
    match parseDds t with
    | .ok d => pure (toString (ddsDsS d))
    | .error e => pure (ddsErr e)
  | [atom "dds-norm", d] => do
    let d ← ddsDs? d
    pure (toString (ddsDsS (normDs d)))
  | [atom "dds-fprint", d] => do
    let d ← ddsFDs? d
    pure (ddsHex (ftextDs d))
  | [atom "dds-fdecl", d] => do
    let d ← ddsFDs? d
    pure (toString (ddsDsS (declDs d)))
  | [atom "dds-quote", t] => do
    let t ← ddsText? t
    pure (ddsHex (quoteName t))
  | _ => none

end Pydap.Driver
