import PydapModel.Sexp
import PydapModel.DdsText
namespace Pydap.Driver
open Pydap Sexp Pydap.Dds

def ddsChars (bs : List UInt8) : List Char := bs.map fun b => Char.ofNat b.toNat
def ddsHex (t : List Char) : String := bytesToHex (t.map fun c => UInt8.ofNat c.toNat)
def ddsText? (s : Sexp) : Option (List Char) := (asBytes? s).map ddsChars

def ddsBase? : Sexp → Option BaseV
  | list [atom "b", n, dt, list sh, list dims] => do
    pure ⟨← ddsText? n, ← ddsText? dt, ← sh.mapM asInt?, ← dims.mapM ddsText?⟩
  | _ => none

partial def ddsTmpl? : Sexp → Option Tmpl
  | list [atom "st", n, list kids] => do pure (.struct (← ddsText? n) (← kids.mapM ddsTmpl?))
  | list [atom "sq", n, list kids] => do pure (.seq (← ddsText? n) (← kids.mapM ddsTmpl?))
  | list [atom "g", n, list kids] => do pure (.grid (← ddsText? n) (← kids.mapM ddsBase?))
  | s => (ddsBase? s).map Tmpl.base

def ddsDs? : Sexp → Option Dataset
  | list [atom "ds", n, list kids] => do pure ⟨← ddsText? n, ← kids.mapM ddsTmpl?⟩
  | _ => none

def ddsBaseS (b : BaseV) : Sexp :=
  list [atom "b", atom (ddsHex b.name), atom (ddsHex b.dt), list (b.shape.map fun n => atom (toString n)),
        list (b.dims.map fun d => atom (ddsHex d))]

partial def ddsTmplS : Tmpl → Sexp
  | .base b => ddsBaseS b
  | .struct n kids => list [atom "st", atom (ddsHex n), list (kids.map ddsTmplS)]
  | .seq n kids => list [atom "sq", atom (ddsHex n), list (kids.map ddsTmplS)]
  | .grid n kids => list [atom "g", atom (ddsHex n), list (kids.map ddsBaseS)]

def ddsDsS (d : Dataset) : Sexp := list [atom "ds", atom (ddsHex d.name), list (d.kids.map ddsTmplS)]

def ddsErr : Err → String
  | .parse => "(err Exception)"
  | .key => "(err KeyError)"
  | .value => "(err ValueError)"
  | .other => "(err Other)"

def handleDdsText : List Sexp → Option String
  | [atom "dds-print", d] => do
    let d ← ddsDs? d
    match printDs d with
    | .ok t => pure (ddsHex t)
    | .error e => pure (ddsErr e)
  | [atom "dds-parse", t] => do
    let t ← ddsText? t
    match parseDds t with
    | .ok d => pure (toString (ddsDsS d))
    | .error e => pure (ddsErr e)
  | [atom "dds-norm", d] => do
    let d ← ddsDs? d
    pure (toString (ddsDsS (normDs d)))
  | [atom "dds-quote", t] => do
    let t ← ddsText? t
    pure (ddsHex (quoteName t))
  | _ => none

end Pydap.Driver
