import PydapModel.Sexp
import PydapModel.Dmr
import PydapModel.Dap4
import Driver.Dap4
import Driver.Slice
import PydapModel.Dap4Index
import PydapModel.Dap4Order
namespace Pydap.Driver
open Pydap Sexp Pydap.Dmr

def bytesToStr (bs : List UInt8) : Dmr.Str := bs.map fun b => Char.ofNat b.toNat
def strToHex (s : Dmr.Str) : String := bytesToHex (s.map fun c => UInt8.ofNat c.toNat)

def asStr? (s : Sexp) : Option Dmr.Str := (asBytes? s).map bytesToStr

def asOptStr? : Sexp → Option (Option Dmr.Str)
  | atom "none" => some none
  | s => (asStr? s).map some

/-- `(n <tag> ((<k> <v>) ...) <text|none> (<child> ...))`, strings as `x<hex>`; fuel bounds the depth -/
def sexpToXNode? : Nat → Sexp → Option XNode
  | 0, _ => none
  | f + 1, list [atom "n", tag, list attrs, text, list kids] => do
    let tag ← asStr? tag
    let attrs ← attrs.mapM fun a => match a with
      | list [k, v] => do pure (← asStr? k, ← asStr? v)
      | _ => none
    let text ← asOptStr? text
    let kids ← kids.mapM (sexpToXNode? f)
    pure (XNode.mk tag attrs text kids)
  | _, _ => none

def dmrErr : Dmr.Err → String
  | .keyError => "(err KeyError)"
  | .valueError => "(err ValueError)"
  | .typeError => "(err TypeError)"
  | .syntaxError => "(err SyntaxError)"
  | .warning => "(err Warning)"
  | .unmodelled => "(err unmodelled)"

def optStr : Option Dmr.Str → String
  | none => "none"
  | some s => strToHex s

def scalarStr : Scalar → String
  | .int i => "(i " ++ toString i ++ ")"
  | .float t => "(f " ++ strToHex t ++ ")"
  | .str s => "(s " ++ strToHex s ++ ")"
  | .none => "none"

def attrValStr : AttrVal → String
  | .none => "none"
  | .one s => scalarStr s
  | .many l => "(m" ++ String.join (l.map fun s => " " ++ scalarStr s) ++ ")"

/-- numpy dtype string of the table → kind + item size (`">f4"` → `f4`, `"B"` → `u1`) -/
def dtypeCanon (d : Dmr.Str) : Dmr.Str :=
  match d with
  | ['B'] => "u1".toList
  | c :: rest => if c = '>' || c = '<' || c = '|' || c = '=' then rest else d
  | [] => []

/-- a parsed variable as the dataset shows it: the stored key `_quote(key)` (what `createVariable` is given) and
    the stored short name `_quote(name)`; the other fields as parsed -/
def recStr (r : VarRec) : String :=
  "(" ++ strToHex (quoteName r.key) ++ " " ++ strToHex (quoteName r.name) ++ " " ++ optStr r.path ++ " " ++ String.ofList (dtypeCanon r.dtype)
    ++ " (" ++ " ".intercalate (r.dims.map strToHex) ++ ")"
    ++ " (" ++ " ".intercalate (r.shape.map toString) ++ ")"
    ++ " (" ++ " ".intercalate (r.maps.map optStr) ++ ")"
    ++ " (" ++ " ".intercalate (r.attrs.map fun (k, v) => "(" ++ strToHex k ++ " " ++ attrValStr v ++ ")") ++ "))"

def itemSize? (d : Dmr.Str) : Option Nat :=
  match dtypeCanon d with
  | [_, '1'] => some 1 | [_, '2'] => some 2 | [_, '4'] => some 4 | [_, '8'] => some 8
  | _ => none

def layoutOf? (r : VarRec) : Option Dap4.Layout := do
  let w ← itemSize? r.dtype
  if r.shape.any (· < 0) then none
  pure ⟨r.shape.foldl (fun a n => a * n.toNat) 1, w⟩

def handleDmr : List Sexp → Option String
  | [atom "dmr-walk", x] => do
    let x ← sexpToXNode? 64 x
    match datasetWalk x with
    | .ok rs => pure ("(ok" ++ String.join (rs.map fun r => " " ++ recStr r) ++ ")")
    | .error e => pure (dmrErr e)
  | [atom "dmr-vars", x] => do
    let x ← sexpToXNode? 64 x
    match parseVars x with
    | .ok rs => pure ("(ok" ++ String.join (rs.map fun r => " " ++ recStr r) ++ ")")
    | .error e => pure (dmrErr e)
  | [atom "dmr-attr", x] => do
    let x ← sexpToXNode? 64 x
    match getAtomicAttr x with
    | .ok (n, v) => pure ("(ok " ++ optStr n ++ " " ++ attrValStr v ++ ")")
    | .error e => pure (dmrErr e)
  | [atom "dmr-tag", atom k, d] => do
    let d ← asStr? d
    pure (strToHex (dmrTypeTag (k.toList.headD ' ') d))
  | [atom "dap4-ce", id, list shape, list idx] => do
    let id ← asStr? id
    let sh ← shape.mapM asNat?
    let ix ← idx.mapM sexpToIdx?
    pure (strToHex (Dap4.proxy4Request id sh ix))
  | [atom "dap4-response", x, resp] => do
    -- UNPACKDAP4DATA: the DMR chunk's element tree is supplied by the harness (ElementTree is trusted),
    -- the variables are decoded in the model's `decodeOrder` (walk order sorted by position in get_variables)
    let x ← sexpToXNode? 64 x
    let resp ← asBytes? resp
    match decodeOrder x with
    | .error e => pure (dmrErr e)
    | .ok rs =>
      match rs.mapM layoutOf? with
      | none => pure "(err unmodelled)"
      | some ls =>
        match Dap4.unpackResponse true (fun _ => .ok ls) resp with
        | .error e => pure (dap4Err e)
        | .ok (_, little, ds) =>
          pure ("(ok " ++ (if little then "<" else ">")
            ++ String.join ((rs.zip (ls.zip ds)).map fun (r, l, d) =>
                " (" ++ strToHex (quoteName r.key) ++ " " ++ decodedToStr l.itemsize d ++ ")") ++ ")")
  | _ => none

end Pydap.Driver
