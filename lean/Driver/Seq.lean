import PydapModel.Sexp
import PydapModel.Seq
import PydapModel.CE
import PydapModel.TableVal
import Driver.IterData
namespace Pydap.Driver
open Pydap Sexp Pydap.IterData Pydap.TableVal Pydap.Seq

def sexpToCond? : Sexp → Option Cond
  | list [atom "cond", id1, op, id2] => do
    let a ← asBytes? id1
    let o ← sexpToOp? op
    let b ← asBytes? id2
    pure ⟨itCharsOfBytes a, o, itCharsOfBytes b⟩
  | _ => none

def opName : Op → String
  | .lt => "lt" | .gt => "gt" | .ne => "ne" | .eq => "eq" | .ge => "ge" | .le => "le"

def handleSeq : List Sexp → Option String
  | [atom "seq-serve", atom backend, id, list names, list rows, cols, range, list clauses] => do
    let id ← sexpToName? id
    let names ← names.mapM sexpToName?
    let rows ← rows.mapM fun r => match r with
      | list cells => cells.mapM sexpToVal?
      | _ => none
    let cols ← match cols with
      | atom "none" => some none
      | list cs => (cs.mapM sexpToName?).map some
      | _ => none
    let range ← match range with
      | atom "none" => some none
      | list [atom "sl", a, b, k] => do pure (some ⟨← asOptInt? a, ← asOptInt? b, ← asOptInt? k⟩)
      | _ => none
    let clauses ← clauses.mapM sexpToCond?
    let b ← match backend with
      | "np" => some Backend.numpy
      | "it" => some Backend.iterdata
      | "csv" => some Backend.csv
      | _ => none
    match serve cmpVal encVal litVal b id names rows ⟨cols, range, clauses⟩ with
    | .ok items => pure ("[" ++ " ".intercalate (items.map itemText) ++ "]")
    | .error e => pure ("err:" ++ errText e)
  | [atom "ce-clause", t] => do
    let bs ← asBytes? t
    match CE.parseClause (itCharsOfBytes bs) with
    | some c => pure s!"({bytesToHex (c.id1.map fun ch => UInt8.ofNat ch.toNat)} {opName c.op} {bytesToHex (c.id2.map fun ch => UInt8.ofNat ch.toNat)})"
    | none => pure "none"
  | [atom "seq-enc", v] => do
    let v ← sexpToVal? v
    pure (bytesToHex ((encVal v).map fun ch => UInt8.ofNat ch.toNat))
  | _ => none

end Pydap.Driver
