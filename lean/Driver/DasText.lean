import PydapModel.Sexp
import PydapModel.DasText
import PydapModel.DasForeign
namespace Pydap.Driver
open Pydap Sexp Pydap.Das

def dasChars (bs : List UInt8) : Text := bs.map fun b => Char.ofNat b.toNat
def dasHex (t : Text) : String := bytesToHex (t.map fun c => UInt8.ofNat c.toNat)
def dasText? (s : Sexp) : Option Text := (asBytes? s).map dasChars

def dasScalar? : Sexp → Option Scalar
  | list [atom "s", t] => (dasText? t).map Scalar.str
  | list [atom "n", t, atom "f"] => (dasText? t).map fun x => Scalar.num x true
  | list [atom "n", t, atom "i"] => (dasText? t).map fun x => Scalar.num x false
  | _ => none

partial def dasVal? : Sexp → Option AVal
  | list (atom "l" :: xs) => (xs.mapM dasScalar?).map AVal.list
  | list (atom "d" :: kvs) => (kvs.mapM fun kv => match kv with
      | list [k, v] => do pure ((← dasText? k), (← dasVal? v))
      | _ => none).map AVal.dict
  | s => (dasScalar? s).map AVal.sc

def dasDict? (kvs : List Sexp) : Option Dict :=
  kvs.mapM fun kv => match kv with
    | list [k, v] => do pure ((← dasText? k), (← dasVal? v))
    | _ => none

def dasKind? : Sexp → Option Kind
  | atom "b" => some .base
  | atom "g" => some .grid
  | atom "s" => some .struct
  | atom "q" => some .seq
  | _ => none

partial def dasVar? : Sexp → Option Var
  | list [atom "v", k, n, list attrs, list cs] => do
    pure (Var.mk (← dasKind? k) (← dasText? n) (← dasDict? attrs) (← cs.mapM dasVar?))
  | _ => none

def dasDataset? : Sexp → Option Dataset
  | list [atom "ds", n, list attrs, list cs] => do
    pure ⟨← dasText? n, ← dasDict? attrs, ← cs.mapM dasVar?⟩
  | _ => none

partial def dasFItem? : Sexp → Option FItem
  | list [atom "fa", ty, n, list vals, w1, w2, sep, w3] => do
    pure (FItem.attr (← dasText? ty) (← dasText? n) (← vals.mapM dasScalar?) (← dasText? w1) (← dasText? w2)
      (← dasText? sep) (← dasText? w3))
  | list [atom "fc", n, list its, w1, w2, w3] => do
    pure (FItem.cont (← dasText? n) (← its.mapM dasFItem?) (← dasText? w1) (← dasText? w2) (← dasText? w3))
  | _ => none

def dasScalarOut : Scalar → String
  | .str s => "(s " ++ dasHex s ++ ")"
  | .num t f => "(n " ++ dasHex t ++ (if f then " f)" else " i)")

partial def dasValOut : AVal → String
  | .sc x => dasScalarOut x
  | .list xs => "(l" ++ String.join (xs.map fun x => " " ++ dasScalarOut x) ++ ")"
  | .dict kvs => "(d" ++ String.join (kvs.map fun kv => " (" ++ dasHex kv.1 ++ " " ++ dasValOut kv.2 ++ ")") ++ ")"

def dasAErr : AErr → String
  | .typeError => "TypeError"
  | .valueError => "ValueError"
  | .attributeError => "AttributeError"
  | .keyError => "KeyError"

def dasAttachedOut : Except AErr Attached → String
  | .error e => "(err " ++ dasAErr e ++ ")"
  | .ok a => "(ok (g " ++ dasValOut (.dict a.globals) ++ ") (vars"
      ++ String.join (a.vars.map fun pv => " (" ++ dasHex (dotted pv.1) ++ " " ++ dasValOut (.dict pv.2) ++ ")") ++ "))"

def handleDasText : List Sexp → Option String
  | [atom "das-print", ds] => do
    let ds ← dasDataset? ds
    pure ("t:" ++ dasHex (dasText ds))
  | [atom "das-parse", t] => do
    let t ← dasText? t
    match dasParse t with
    | .ok d => pure ("(ok " ++ dasValOut (.dict d) ++ ")")
    | .error _ => pure "(err parse)"
  | [atom "das-attach", n, list cs, t] => do
    let n ← dasText? n
    let cs ← cs.mapM dasVar?
    let t ← dasText? t
    match dasParse t with
    | .error _ => pure "(err parse)"
    | .ok d => pure (dasAttachedOut (addAttributes n cs d))
  | [atom "das-fprint", kw, w0, w1, list its, trail] => do
    let its ← its.mapM dasFItem?
    pure ("t:" ++ dasHex (ftext (← dasText? kw) (← dasText? w0) (← dasText? w1) its (← dasText? trail)))
  | [atom "das-roundtrip", ds] => do
    let ds ← dasDataset? ds
    match roundTrip ds with
    | none => pure "(err parse)"
    | some r => pure (dasAttachedOut r)
  | _ => none

end Pydap.Driver
