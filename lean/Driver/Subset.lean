import PydapModel.Sexp
import PydapModel.Slice
import PydapModel.Subset
import Driver.Slice
namespace Pydap.Driver
open Pydap Sexp

def serr : SErr → String
  | .hyperslab e => herr e
  | .indexError => "IndexError"
  | .invalidProjection => "ConstraintExpressionError"
  | .keyError => "KeyError"

def posToSexp (r : List (List Nat)) : Sexp :=
  list (r.map fun ax => list (ax.map fun i => atom (toString i)))

def slicesToSexp (l : List PSlice) : Sexp := list (l.map sliceToSexp)

/-- requests of `grid[key]`: per child of `gridGetitem`, the slices its proxy asks for -/
def gridRequests (og : Bool) (stored : List Idx) (cshape : List Nat) (key : List Idx) : List (Nat × List PSlice) :=
  (gridGetitem og cshape.length key).filterMap fun (c, ix) =>
    if c = 0 then some (0, proxyIndex stored cshape ix)
    else match stored[c - 1]?, cshape[c - 1]? with
      | some s, some n => some (c, proxyIndex [s] [n] ix)
      | _, _ => none

def handleSubset : List Sexp → Option String
  | [atom "c02-open", list pre, list cshape] => do
    let pre ← pre.mapM sexpToSlice?
    let cs ← cshape.mapM asNat?
    pure (toString (list ((openSlice pre cs).map idxToSexp)))
  | [atom "c02-req", list stored, list cshape, list idx] => do
    let st ← stored.mapM sexpToIdx?
    let cs ← cshape.mapM asNat?
    let ix ← idx.mapM sexpToIdx?
    pure (toString (slicesToSexp (proxyIndex st cs ix)))
  | [atom "c02-chain", list shape, list pre, list idx] => do
    let sh ← shape.mapM asNat?
    let pre ← pre.mapM sexpToSlice?
    let ix ← idx.mapM sexpToIdx?
    match remoteIndex sh pre ix with
    | .ok r => pure (toString (list [atom "ok", posToSexp r]))
    | .error e => pure ("(err " ++ serr e ++ ")")
  | [atom "c02-cshape", list shape, list pre] => do
    let sh ← shape.mapM asNat?
    let pre ← pre.mapM sexpToSlice?
    match constrainedShape sh pre with
    | .ok r => pure (toString (list (r.map fun n => atom (toString n))))
    | .error e => pure ("(err " ++ serr e ++ ")")
  | [atom "c02-grid", og, list stored, list cshape, list key] => do
    let og ← asNat? og
    let st ← stored.mapM sexpToIdx?
    let cs ← cshape.mapM asNat?
    let key ← key.mapM sexpToIdx?
    pure (toString (list ((gridRequests (og != 0) st cs key).map fun (c, sl) =>
      list [atom (toString c), slicesToSexp sl])))
  | [atom "c02-proj", t] => do
    let bs ← asBytes? t
    match parseProjToken (charsOfBytes bs) with
    | .ok parts => pure (toString (list (atom "ok" :: parts.map fun (n, sl) =>
        list [atom (bytesToHex (n.map fun c => UInt8.ofNat c.toNat)), slicesToSexp sl])))
    | .error e => pure ("(err " ++ serr e ++ ")")
  | [atom "c02-serve", list shape, t] => do
    let sh ← shape.mapM asNat?
    let bs ← asBytes? t
    match serveSlab sh (charsOfBytes bs) with
    | .ok r => pure (toString (list [atom "ok", posToSexp r]))
    | .error e => pure ("(err " ++ serr e ++ ")")
  | _ => none

end Pydap.Driver
