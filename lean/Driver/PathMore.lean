import PydapModel.Sexp
import PydapModel.Path
import PydapModel.PathServer
import PydapModel.PathRoot
import PydapModel.PathRe
import PydapModel.PathSort
/-
  Line-protocol driver for the round-6 C16 models: the data directory as spelled (PathRoot), the handlers' regular
  expressions as written (PathRe), Python's partial comparison of `alphanum_key` keys (PathSort).
-/
namespace Pydap.Driver
open Pydap Pydap.Sexp Pydap.Path

private def pmChars (bs : List UInt8) : List Char := bs.map fun b => Char.ofNat b.toNat
private def pmHex (cs : List Char) : Sexp := atom (bytesToHex (cs.map fun c => UInt8.ofNat c.toNat))
private def pmChars? (s : Sexp) : Option (List Char) := (asBytes? s).map pmChars
private def pmSegs? : Sexp → Option Segs
  | list l => l.mapM pmChars?
  | _ => none
private def pmSegsOf (p : Segs) : Sexp := list (p.map pmHex)

private def pmFsEntry? : Sexp → Option (Segs × Node)
  | list [p, atom "f"] => do pure ((← pmSegs? p), Node.file)
  | list [p, atom "d", es] => do pure ((← pmSegs? p), Node.dir (← pmSegs? es))
  | _ => none

private def pmFs (l : List (Segs × Node)) : FS := fun p =>
  match l.find? (fun e => e.1 == p) with
  | some e => e.2
  | none => Node.missing

private def pmOutcome : Outcome → Sexp
  | .forbidden => list [atom "forbidden"]
  | .notFound => list [atom "notfound"]
  | .listing c d fs ds =>
    list [atom (if c then "catalog" else "listing"), pmSegsOf d,
          list (((if c then fs.filter (·.2) else fs)).map fun f => list [pmHex f.1, atom (if f.2 then "1" else "0")]),
          pmSegsOf ds]
  | .file p => list [atom "file", pmSegsOf p]
  | .dap b => list [atom "dap", pmSegsOf b]
  | .unsupported b => list [atom "unsupported", pmSegsOf b]

private def pmAtom? : Sexp → Option Atom
  | list [atom "star"] => some .anyStar
  | list [atom "eol"] => some .eol
  | list [atom "chr", c] => do
    match (← pmChars? c) with
    | [x] => some (.chr x)
    | _ => none
  | list [atom "alts", list ws] => do pure (.alts (← ws.mapM pmChars?))
  | _ => none

private def pmPattern? : Sexp → Option Pattern
  | list [atom ic, list atoms] => do pure ⟨ic == "1", (← atoms.mapM pmAtom?)⟩
  | _ => none

private def pmChunk : Chunk → Sexp
  | .str s => list [atom "s", pmHex s]
  | .num n => list [atom "n", atom (toString n)]

def handlePathMore : List Sexp → Option String
  | [atom "path-abspath", cwd, spelling] => do
    let cwd ← pmSegs? cwd
    let sp ← pmChars? spelling
    pure (toString (pmHex (text (abspath cwd sp))))
  | [atom "path-serve-spelled", exts, cwd, spelling, pi, list fs] => do
    let exts ← pmSegs? exts
    let cwd ← pmSegs? cwd
    let sp ← pmChars? spelling
    let pi ← pmChars? pi
    let fs ← fs.mapM pmFsEntry?
    pure (toString (pmOutcome (serveSpelled exts (pmFs fs) cwd sp pi).2))
  | [atom "path-history-spelled", exts, cwd, spelling, list evs] => do
    let exts ← pmSegs? exts
    let cwd ← pmSegs? cwd
    let sp ← pmChars? spelling
    let evs ← evs.mapM fun e => match e with
      | list [pi, list fs] => do
        let pi ← pmChars? pi
        let fs ← fs.mapM pmFsEntry?
        pure ((pmFs fs, pi) : Event)
      | _ => none
    pure (toString (list ((runHistory (Srv.init cwd sp exts) evs).map fun r => pmOutcome r.2)))
  | [atom "path-rematch", pat, s] => do
    let pat ← pmPattern? pat
    let s ← pmChars? s
    pure (if pat.matches s then "1" else "0")
  | [atom "path-gethandler", list pats, p] => do
    let pats ← pats.mapM pmPattern?
    let p ← pmSegs? p
    pure (match getHandler pats p with | some i => toString i | none => "none")
  | [atom "path-key", s] => do
    let s ← pmChars? s
    pure (toString (list ((alphanumKey s).map pmChunk)))
  | [atom "path-sortpy", l] => do
    let l ← pmSegs? l
    pure (match sortNames? l with | some r => toString (pmSegsOf r) | none => "(err TypeError)")
  | _ => none

end Pydap.Driver
