import PydapModel.Sexp
import PydapModel.Consolidate
import Driver.CacheKey
namespace Pydap.Driver
open Pydap Pydap.CK Pydap.Cons Pydap.Cache Sexp

def consDim : Sexp → Option (List Char × Nat)
  | list [n, s] => do pure (← ckChars n, ← asNat? s)
  | _ => none

/-- `(scheme host path query|none qce|none ((dim size) …))` -/
def consFile : Sexp → Option FileIn
  | list [s, h, p, q, qce, list dims] => do
    pure ⟨← ckChars s, ← ckChars h, ← ckChars p, ← ckOptChars q, ← ckOptChars qce, ← dims.mapM consDim, []⟩
  | _ => none

def consReq : Sexp → Option Req
  | list [s, h, p, ce, u] => do pure ⟨← ckChars s, ← ckChars h, ← ckChars p, ← ckOptChars ce, ← ckChars u⟩
  | _ => none

def consSlab : Sexp → Option (Nat × Nat × Nat)
  | list [a, s, b] => do pure (← asNat? a, ← asNat? s, ← asNat? b)
  | _ => none

/-- a step of the read history: `(get <req>)` an arbitrary GET (e.g. the DMR of `open_url`),
    `(read fileIndex name ((a s b) …))` a DAP4 array read -/
def consStep (files : List FileIn) : Sexp → Option Req
  | list [atom "get", r] => consReq r
  | list [atom "read", i, n, list slabs] => do
    let f ← files[(← asNat? i)]?
    pure (readReq f (← ckChars n) (← slabs.mapM consSlab))
  | _ => none

def consShowReq (r : Req) : String :=
  "(" ++ ckHex r.scheme ++ " " ++ ckHex r.host ++ " " ++ ckHex r.path ++ " " ++
    (match r.ce with | none => "none" | some c => ckHex c) ++ ")"

def consInsertSorted (s : String) : List String → List String
  | [] => [s]
  | t :: ts => if s ≤ t then s :: t :: ts else t :: consInsertSorted s ts

def consSortStrings (l : List String) : List String := l.foldr consInsertSorted []

def consErr : Err → String
  | .typeError => "TypeError" | .valueError => "ValueError" | .keyError => "KeyError"

/-- `cons-run cached (files) (probes) (steps)` →
    `dmr=(sorted requests) dim=(sorted requests) res=ok|(err E) keys=(key per probe) trace=(<request>=m | <request>=h:<origin request> per step)`:
    the GETs of the two phases, the outcome, the key every probe request gets afterwards, and the read history run
    through the caching-session model from the store the consolidation left (server = identity: the response IS the
    request that reached the wire). -/
def handleConsolidate : List Sexp → Option String
  | [atom "cons-run", c, list files, list probes, list steps] => do
    let cached := (← asNat? c) != 0
    let files ← files.mapM consFile
    let probes ← probes.mapM consReq
    let steps ← steps.mapM (consStep files)
    let out := consolidate cached files
    let orig : List Char → List Char := id
    let key2 : Req → Key := match out.result with
      | .ok (some d) => keyAfter orig d
      | _ => keyBefore orig
    let store1 := (runCached (keyBefore orig) (fun r : Req => r) [] out.dmrGets).2
    let store2 := (runCached key2 (fun r : Req => r) store1 out.dimGets).2
    let tr := runTrace key2 (fun r : Req => r) store2 steps
    let res := match out.result with | .ok _ => "ok" | .error e => "(err " ++ consErr e ++ ")"
    pure ("dmr=(" ++ " ".intercalate (consSortStrings (out.dmrGets.map consShowReq)) ++ ") dim=(" ++
      " ".intercalate (consSortStrings (out.dimGets.map consShowReq)) ++ ") res=" ++ res ++ " keys=(" ++
      " ".intercalate (probes.map fun r => ckKey (key2 r)) ++ ") trace=(" ++
      " ".intercalate ((steps.zip tr).map fun (r, t) =>
        consShowReq r ++ "=" ++ (if t.1 then "h:" ++ consShowReq t.2 else "m")) ++ ")")
  | [atom "cons-decl", d, n] => do
    pure (ckHex (declText (← ckChars d) (← asNat? n)))
  | [atom "cons-ce", n, list slabs] => do
    pure (ckHex (ceText (← ckChars n) (← slabs.mapM consSlab)))
  | _ => none

end Pydap.Driver
