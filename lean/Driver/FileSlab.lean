import PydapModel.Sexp
import PydapModel.FileSlab
/-
  Line-protocol driver for PydapModel/FileSlab.lean: `fh-slabpos (<extent> …) ((<start> <stride> <last>) …)` → the positions
  read on each axis for the key `LazyVariable.__getitem__` receives.
-/
namespace Pydap.Driver
open Pydap Pydap.Sexp Pydap.FileHandlers

def handleFileSlab : List Sexp → Option String
  | [atom "fh-slabpos", list shape, list hs] => do
    let shape ← shape.mapM asNat?
    let hs ← hs.mapM fun h => match h with
      | list [a, k, b] => do pure ((← asNat? a), (← asNat? k), (← asNat? b))
      | _ => none
    let pos := keyPositions shape (keyOfHyperslab hs)
    pure (toString (list (pos.map fun l => list (l.map fun i => atom (toString i)))))
  | _ => none

end Pydap.Driver
