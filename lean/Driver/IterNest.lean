import PydapModel.Sexp
import PydapModel.IterNest
import PydapModel.TableVal
import Driver.IterData
namespace Pydap.Driver
open Pydap Sexp Pydap.IterData Pydap.TableVal Pydap.IterNest

def sexpToNCell? : Sexp → Option (NCell Val)
  | list [atom "q", list rows] =>
    (rows.mapM fun r => match r with
      | list cells => cells.mapM sexpToVal?
      | _ => none).map NCell.seq
  | v => (sexpToVal? v).map NCell.base

def sexpToHdr? (cols : List Sexp) : Option Hdr :=
  cols.mapM fun c => match c with
    | list [n] => (sexpToName? n).map fun n => (n, none)
    | list [n, list ks] => do
      let n ← sexpToName? n
      let ks ← ks.mapM sexpToName?
      pure (n, some ks)
    | _ => none

def innerRowsText (rows : List (List Val)) : String :=
  "[" ++ " ".intercalate (rows.map fun r => "(" ++ " ".intercalate (r.map valText) ++ ")") ++ "]"

def ncellText : NCell Val → String
  | .base v => valText v
  | .seq rows => innerRowsText rows

def nitemText : IterNest.Item Val → String
  | .row cells => "(" ++ " ".intercalate (cells.map ncellText) ++ ")"
  | .cell v => valText v
  | .inner rows => innerRowsText rows
  | .innerCol cells => "[" ++ " ".intercalate (cells.map valText) ++ "]"

def nlistingText (r : Except Err (List (IterNest.Item Val))) : String :=
  match r with
  | .ok items => "[" ++ " ".intercalate (items.map nitemText) ++ "]"
  | .error e => "iter:" ++ errText e

def npipeText (s : IterNest.Stream Val) : String :=
  let vis := match s.template with
    | .outer vis => "seq:" ++ ",".intercalate (vis.map String.ofList)
    | .inner _ vis => "seq:" ++ ",".intercalate (vis.map String.ofList)
    | .base id => "base:" ++ String.ofList id
  s!"{vis}/{s.ifilter.length}/{s.imap.length}/{s.islice.length}/{s.level}"

def nrunPrefixes (s : IterNest.Stream Val) : List Key → List String
  | [] => [nlistingText (IterNest.iter cmpVal s) ++ "@" ++ npipeText s]
  | k :: ks =>
    (nlistingText (IterNest.iter cmpVal s) ++ "@" ++ npipeText s) ::
      match IterNest.getitem litVal s k with
      | .ok s' => nrunPrefixes s' ks
      | .error e => ["getitem:" ++ errText e]

def handleIterNest : List Sexp → Option String
  | [atom "nest-run", id, list hdr, list rows, list ops] => do
    let id ← sexpToName? id
    let hdr ← sexpToHdr? hdr
    let rows ← rows.mapM fun r => match r with
      | list cells => cells.mapM sexpToNCell?
      | _ => none
    let ops ← ops.mapM sexpToKey?
    pure (" | ".intercalate (nrunPrefixes (IterNest.mkIterData rows id hdr) ops))
  | _ => none

end Pydap.Driver
