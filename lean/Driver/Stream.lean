import PydapModel.Sexp
import PydapModel.Stream
import PydapModel.StreamTree
namespace Pydap.Driver
open Pydap Sexp Pydap.Stream

def stErr : Err → String
  | .eof => "eof"
  | .value => "value"
  | .noData => "nodata"
  | .negLen => "neglen"
  | .fuel => "fuel"

def stBytesList? : Sexp → Option (List Bytes)
  | list xs => xs.mapM asBytes?
  | _ => none

def stNats? : Sexp → Option (List Nat)
  | list xs => xs.mapM asNat?
  | _ => none

def stCol? : Sexp → Option Col
  | atom "s" => some .str
  | atom s => match s.toList with
    | 'f' :: ds => (String.ofList ds).toNat?.map Col.fixed
    | _ => none
  | _ => none

def stCols? : Sexp → Option (List Col)
  | list xs => xs.mapM stCol?
  | _ => none

partial def stTmpl? : Sexp → Option Tmpl
  | atom "s" => some .str
  | atom "b" => some .byte
  | atom s => match s.toList with
    | 'f' :: ds => (String.ofList ds).toNat?.map Tmpl.fixed
    | _ => none
  | list [atom "arr", w, n] => do pure (.arr (← asNat? w) (← asNat? n))
  | list [atom "sarr", n] => do pure (.strArr (← asNat? n))
  | list (atom "seq" :: cols) => do pure (.seq (← cols.mapM stTmpl?))
  | list (atom "struct" :: fs) => do pure (.struct (← fs.mapM stTmpl?))
  | _ => none

def stToks (ts : List Tok) : Sexp :=
  list (ts.map fun t => match t with
    | .val b => atom (bytesToHex b)
    | .rowStart => atom "r"
    | .seqEnd => atom "e")

def stHexList (bs : List Bytes) : Sexp := list (bs.map fun b => atom (bytesToHex b))

def stTrace (t : Trace) : String :=
  toString (list [stHexList t.1, atom (match t.2 with | none => "ok" | some e => stErr e)])

def stRows (rs : List Row) : Sexp := list (rs.map stHexList)

def handleStream : List Sexp → Option String
  | [atom "st-sr-reads", cs, ns] => do
    let cs ← stBytesList? cs
    let ns ← stNats? ns
    pure (stTrace (srReadMany ns ⟨cs, []⟩))
  | [atom "st-br-reads", d, ns] => do
    let d ← asBytes? d
    let ns ← stNats? ns
    pure (stTrace (brReadMany ns d))
  | [atom "st-find", p, cs] => do
    let p ← asBytes? p
    let cs ← stBytesList? cs
    match findPattern p cs with
    | none => pure "none"
    | some x => pure (toString (list [atom "some", atom (bytesToHex x.1), stHexList x.2]))
  | [atom "st-seq-bytes", cols, d] => do
    let cols ← stCols? cols
    let d ← asBytes? d
    match unpackSeqBytes cols d with
    | .error e => pure ("(err " ++ stErr e ++ ")")
    | .ok x => pure (toString (list [atom "ok", stRows x.1, atom (bytesToHex x.2)]))
  | [atom "st-seq-lenient", cols, d] => do
    let cols ← stCols? cols
    let d ← asBytes? d
    match unpackSeqLenient cols d with
    | .error e => pure ("(err " ++ stErr e ++ ")")
    | .ok x => pure (toString (list [atom "ok", stRows x.1, atom (bytesToHex x.2)]))
  | [atom "st-seq-stream", cols, cs] => do
    let cols ← stCols? cols
    let cs ← stBytesList? cs
    match unpackSeqStream cols ⟨cs, []⟩ with
    | .error e => pure ("(err " ++ stErr e ++ ")")
    | .ok x => pure (toString (list [atom "ok", stRows x.1, atom (bytesToHex x.2.abs)]))
  | [atom "st-client", cols, cs] => do
    let cols ← stCols? cols
    let cs ← stBytesList? cs
    match clientSeq cols cs with
    | .error e => pure ("(err " ++ stErr e ++ ")")
    | .ok rows => pure (toString (list [atom "ok", stRows rows]))
  | [atom "st-data", list vars, d] => do
    let vars ← vars.mapM stTmpl?
    let d ← asBytes? d
    match unpackData vars d with
    | .error e => pure ("(err " ++ stErr e ++ ")")
    | .ok x => pure (toString (list [atom "ok", stToks x.1, atom (bytesToHex x.2)]))
  | [atom "st-data-stream", list vars, cs] => do
    let vars ← vars.mapM stTmpl?
    let cs ← stBytesList? cs
    match unpackDataStream vars ⟨cs, []⟩ with
    | .error e => pure ("(err " ++ stErr e ++ ")")
    | .ok x => pure (toString (list [atom "ok", stToks x.1, atom (bytesToHex x.2.abs)]))
  | [atom "st-split", d] => do
    let d ← asBytes? d
    match splitData d with
    | none => pure "none"
    | some x => pure (toString (list [atom "some", atom (bytesToHex x)]))
  | [atom "st-dechunk", d] => do
    let d ← asBytes? d
    match stream2bytearray d with
    | .error e => pure ("(err " ++ stErr e ++ ")")
    | .ok b => pure (toString (list [atom "ok", atom (bytesToHex b)]))
  | [atom "st-frame", d] => do
    let d ← asBytes? d
    match unpackFrame d with
    | .error e => pure ("(err " ++ stErr e ++ ")")
    | .ok x => pure (toString (list [atom "ok", atom (bytesToHex x.1), atom (bytesToHex x.2)]))
  | _ => none

end Pydap.Driver
