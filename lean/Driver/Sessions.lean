import PydapModel.Sexp
import PydapModel.Sessions
import Driver.CacheKey
import Driver.Consolidate
namespace Pydap.Driver
open Pydap Pydap.CK Pydap.Cons Pydap.Cache Pydap.Sessions Sexp

/-- an event of a process history: `(get i <req>)`, `(cons i (<file> …))` (file as for `cons-run`), `(create 0|1)` -/
def sessEv : Sexp → Option Ev
  | list [atom "get", i, r] => do pure (.get (← asNat? i) (← consReq r))
  | list [atom "cons", i, list files] => do pure (.consolidate (← asNat? i) (← files.mapM consFile))
  | list [atom "create", c] => do pure (.create ((← asNat? c) != 0))
  | _ => none

/-- `<session>:<request>=<plain|orig|(norm …)>:<m | h:<request whose answer is returned>>` (server = identity) -/
def sessShow (x : Nat × Obs Req) : String :=
  toString x.1 ++ ":" ++ consShowReq x.2.req ++ "=" ++
    (match x.2.key with | none => "plain" | some k => ckKey k) ++ ":" ++
    (if x.2.hit then "h:" ++ consShowReq x.2.resp else "m")

/-- the observations event by event; those of one consolidation sorted (the thread pool decides their order) -/
def sessRun (p : Proc Req) : List Ev → List String
  | [] => []
  | e :: es =>
    let r := step (fun u => u) (fun q : Req => q) p e
    let shown := r.1.map sessShow
    (match e with | .consolidate _ _ => consSortStrings shown | _ => shown) ++ sessRun r.2 es

/-- `sess-run (0|1 …) (events)` → one entry per GET handed to any session: the process starts with one session per
    flag (1 = caching session of `create_session(use_cache=True)`, 0 = plain), every one with its own backend object -/
def handleSessions : List Sexp → Option String
  | [atom "sess-run", list flags, list evs] => do
    let flags ← flags.mapM asNat?
    let evs ← evs.mapM sessEv
    let p : Proc Req := flags.map fun c => fresh (c != 0)
    pure ("(" ++ " ".intercalate (sessRun p evs) ++ ")")
  | _ => none

end Pydap.Driver
