import PydapModel.Sexp
import PydapModel.Slice
import PydapModel.Proxy
import Driver.Slice
namespace Pydap.Driver
open Pydap Pydap.Proxy Sexp

def nameOf? (s : Sexp) : Option Name := (asBytes? s).map charsOfBytes

def nameSexp (n : Name) : Sexp := atom (bytesToHex (n.map fun c => UInt8.ofNat c.toNat))

def sessOf? : Sexp → Option Sess
  | atom "none" => some none
  | s => (asNat? s).map some

def sessSexp : Sess → Sexp
  | none => atom "none"
  | some n => atom (toString n)

def tripleSexp (s : PSlice) : Sexp :=
  let t := hyperTriple s
  list [atom (toString t.1), atom (toString t.2.1), atom (toString t.2.2)]

def extSexp : Ext → Sexp
  | .dods => atom "dods" | .das => atom "das" | .dap => atom "dap"

def reqSexp (q : Proxy.Req) : List Sexp :=
  [list (q.ids.map nameSexp), list (q.slab.map tripleSexp), list (q.selection.map nameSexp)]

def natsSexp (l : List Nat) : Sexp := list (l.map fun n => atom (toString n))

def dataSexp : Data → Sexp
  | .proxy r => list [atom "p", atom (toString r)]
  | .vals axes =>
    -- an empty array holds no values: its positions cannot be observed (canonical form: all axes empty)
    let empty := axes.any fun a => a.2.isEmpty
    list [atom "v", natsSexp ((axes.filter fun a => !a.1).map fun a => a.2.length),
      list (axes.map fun a => natsSexp (if empty then [] else a.2))]

def obsSexp : Option Obs → Sexp
  | none => atom "dangling"
  | some o => match o.req with
    | some q => list ([atom "seq"] ++ reqSexp q ++ [list (o.columns.map nameSexp), sessSexp o.session])
    | none =>
      if o.kind = 1 then list ([atom "arr"] ++ o.ident.map nameSexp ++ [list (o.aslice.map idxToSexp), sessSexp o.session])
      else if o.kind = 2 then
        list ([atom "var"] ++ o.ident.map nameSexp ++ [match o.data with | some d => dataSexp d | none => atom "none"])
      else if o.kind = 3 then list [atom "grid", natsSexp o.kids, atom (if o.flag then "1" else "0")]
      else list ([atom "o"] ++ o.ident.map nameSexp ++ [sessSexp o.session])

def allObs (h : Heap) : Sexp := list ((List.range h.objs.length).map fun r => obsSexp (obs h r))

def keyOf? : Sexp → Option DKey
  | list (atom "name" :: [n]) => (nameOf? n).map DKey.name
  | list (atom "cols" :: ns) => (ns.mapM nameOf?).map DKey.cols
  | list (atom "ce" :: ns) => (ns.mapM nameOf?).map DKey.ce
  | list [atom "idx", i] => (asInt? i).map DKey.idx
  | list [atom "sl", a, b, k] => do pure (DKey.sl ⟨← asOptInt? a, ← asOptInt? b, ← asOptInt? k⟩)
  | _ => none

def evOf? : Sexp → Option Ev
  | list [atom "copy", r] => (asNat? r).map Ev.copy
  | list [atom "get", r, k] => do pure (Ev.getitem (← asNat? r) (← keyOf? k))
  | list [atom "iter", r] => (asNat? r).map Ev.iter
  | list [atom "aget", r, list ix] => do pure (Ev.aget (← asNat? r) (← ix.mapM sexpToIdx?))
  | list [atom "fattr", r, n] => do pure (Ev.fattr (← asNat? r) (← nameOf? n))
  | list [atom "fcall", r, n] => do pure (Ev.fcall (← asNat? r) (← nameOf? n))
  | list [atom "rget", r, d] => do pure (Ev.rget (← asNat? r) ((← asNat? d) != 0))
  | list [atom "vget", r, list ix] => do pure (Ev.vget (← asNat? r) (← ix.mapM sexpToIdx?))
  | list [atom "ggrid", r, list ix] => do pure (Ev.ggrid (← asNat? r) (← ix.mapM sexpToIdx?))
  | _ => none

def arrOf? : Sexp → Option (Name × List Nat × Bool)
  | list [n, list sh, d] => do pure (← nameOf? n, ← sh.mapM asNat?, (← asNat? d) != 0)
  | _ => none

def varOf? : Sexp → Option (Name × Nat)
  | list [n, r] => do pure (← nameOf? n, ← asNat? r)
  | _ => none

def gridOf? : Sexp → Option (List Nat × Bool)
  | list [list ks, og] => do pure (← ks.mapM asNat?, (← asNat? og) != 0)
  | _ => none

def logSexp (l : List (Sess × Proxy.Req)) : Sexp :=
  list (l.map fun e => list ([atom "get", sessSexp e.1, extSexp e.2.ext] ++ reqSexp e.2))

/-- run a history, printing the observables of all objects after every event and the final log -/
def runTrace (st : Heap → Ev → Heap) (h : Heap) (evs : List Ev) : List Sexp × Heap :=
  evs.foldl (fun (acc : List Sexp × Heap) e => let h' := st acc.2 e; (acc.1 ++ [allObs h'], h')) ([allObs h], h)

def handleProxy : List Sexp → Option String
  | [atom "px-run", old, list [atom "open", b, list bs, σ, n, list keys, list arrays], list evs] => do
    let old ← asNat? old
    let h := openHeap (← nameOf? b) (← bs.mapM nameOf?) (← sessOf? σ) (← nameOf? n) (← keys.mapM nameOf?)
      (← arrays.mapM arrOf?)
    let evs ← evs.mapM evOf?
    let r := runTrace (if old != 0 then stepOld else step) h evs
    pure (toString (list [list r.1, logSexp r.2.log]))
  | [atom "px-rung", old, list [atom "open", b, list bs, σ, n, list keys, list arrays], list vars, list grids,
      list evs] => do
    let old ← asNat? old
    let h := openVars (openHeap (← nameOf? b) (← bs.mapM nameOf?) (← sessOf? σ) (← nameOf? n) (← keys.mapM nameOf?)
      (← arrays.mapM arrOf?)) (← vars.mapM varOf?) (← grids.mapM gridOf?)
    let evs ← evs.mapM evOf?
    let r := runTrace (if old != 0 then stepOld else step) h evs
    pure (toString (list [list r.1, logSexp r.2.log]))
  | _ => none

end Pydap.Driver
