import PydapModel.Sexp
import PydapModel.IterData
import PydapModel.TableVal
namespace Pydap.Driver
open Pydap Sexp Pydap.IterData Pydap.TableVal

def itCharsOfBytes (bs : List UInt8) : List Char := bs.map fun b => Char.ofNat b.toNat

def sexpToVal? : Sexp → Option Val
  | list [atom "n", i] => (asInt? i).map Val.num
  | list [atom "s", b] => (asBytes? b).map fun bs => Val.str (itCharsOfBytes bs)
  | _ => none

def valText : Val → String
  | .num i => "n" ++ toString i
  | .str s => "s" ++ bytesToHex (s.map fun c => UInt8.ofNat c.toNat)

def itemText : Item Val → String
  | .row cells => "(" ++ " ".intercalate (cells.map valText) ++ ")"
  | .cell v => valText v

def errText : Err → String
  | .keyError => "KeyError"
  | .valueError => "ValueError"
  | .attributeError => "AttributeError"
  | .ceError => "ConstraintExpressionError"
  | .typeError => "TypeError"
  | .indexError => "IndexError"

def sexpToOp? : Sexp → Option Op
  | atom "lt" => some .lt
  | atom "gt" => some .gt
  | atom "ne" => some .ne
  | atom "eq" => some .eq
  | atom "ge" => some .ge
  | atom "le" => some .le
  | _ => none

def sexpToName? : Sexp → Option Name
  | atom s => some s.toList
  | _ => none

def sexpToKey? : Sexp → Option Key
  | list [atom "str", k] => (sexpToName? k).map Key.str
  | list [atom "list", list ks] => (ks.mapM sexpToName?).map Key.list
  | list [atom "int", i] => (asInt? i).map Key.int
  | list [atom "sl", a, b, k] => do
    pure (Key.slice ⟨← asOptInt? a, ← asOptInt? b, ← asOptInt? k⟩)
  | list [atom "cond", id1, op, id2] => do
    let a ← asBytes? id1
    let o ← sexpToOp? op
    let b ← asBytes? id2
    pure (Key.cond ⟨itCharsOfBytes a, o, itCharsOfBytes b⟩)
  | _ => none

def listingText (r : Except Err (List (Item Val))) : String :=
  match r with
  | .ok items => "[" ++ " ".intercalate (items.map itemText) ++ "]"
  | .error e => "iter:" ++ errText e

def pipeText (s : Stream Val) : String :=
  let vis := match s.template with
    | .seq t => "seq:" ++ ",".intercalate (t.visible.map String.ofList)
    | .base id => "base:" ++ String.ofList id
  s!"{vis}/{s.ifilter.length}/{s.imap.length}/{s.islice.length}/{s.level}"

/-- listing and recorded pipeline of every prefix of the program -/
def runPrefixes (s : Stream Val) : List Key → List String
  | [] => [listingText (iter cmpVal s) ++ "@" ++ pipeText s]
  | k :: ks =>
    (listingText (iter cmpVal s) ++ "@" ++ pipeText s) ::
      match getitem litVal s k with
      | .ok s' => runPrefixes s' ks
      | .error e => ["getitem:" ++ errText e]

def handleIterData : List Sexp → Option String
  | [atom "iter-run", atom kind, id, list names, list rows, list ops] => do
    let id ← sexpToName? id
    let names ← names.mapM sexpToName?
    let rows ← rows.mapM fun r => match r with
      | list cells => cells.mapM sexpToVal?
      | _ => none
    let ops ← ops.mapM sexpToKey?
    let t : SeqT := ⟨id, names, names⟩
    let s0 := if kind == "csv" then mkCSVData rows t else mkIterData rows t
    pure (" | ".intercalate (runPrefixes s0 ops))
  | [atom "iter-lit", t] => do
    let bs ← asBytes? t
    match litVal (itCharsOfBytes bs) with
    | some v => pure (valText v)
    | none => pure "none"
  | _ => none

end Pydap.Driver
