import PydapModel.Sexp
import PydapModel.XdrTypes
import PydapModel.Xdr
import PydapModel.XdrFile
import Driver.Xdr
namespace Pydap.Driver
open Pydap Sexp Pydap.Xdr

/-- `xdr-file <declaration> x<hex of the whole file>`: `open_dods_file` on a file with these bytes —
    `(<dds text>) <decoding, as xdr-dec prints it>` -/
def handleXdrFile : List Sexp → Option String
  | [atom "xdr-file", t, b] => do
    let r := openDodsFile (← xdrTmpl? t) (← asBytes? b)
    let dds := toString (list [atom (bytesToHex r.1)])
    match r.2 with
    | .ok (d, rest) => pure (dds ++ " " ++ toString (list [atom "ok", xdrDataSexp d, atom (bytesToHex rest)]))
    | .error _ => pure (dds ++ " (err)")
  | _ => none

end Pydap.Driver
