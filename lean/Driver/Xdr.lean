import PydapModel.Sexp
import PydapModel.XdrTypes
import PydapModel.XdrSpec
import PydapModel.Xdr
import PydapModel.XdrStream
namespace Pydap.Driver
open Pydap Sexp Pydap.Xdr

def xdrTy? : Sexp → Option Ty
  | atom s => Ty.ofName s
  | _ => none

def xdrVal? : Sexp → Option Val
  | list [atom "n", v] => (asInt? v).map Val.num
  | list [atom "s", b] => (asBytes? b).map Val.str
  | _ => none

partial def xdrTmpl? : Sexp → Option Tmpl
  | list [atom "b", ty, list dims] => do
    pure (.base (← xdrTy? ty) (← dims.mapM asNat?))
  | list (atom "st" :: cs) => do pure (.struct (← cs.mapM xdrTmpl?))
  | list (atom "sq" :: cs) => do pure (.seq (← cs.mapM xdrTmpl?))
  | _ => none

partial def xdrData? : Sexp → Option Data
  | list [atom "sc", v] => (xdrVal? v).map Data.scalar
  | list (atom "ar" :: vs) => do pure (.array (← vs.mapM xdrVal?))
  | list (atom "tu" :: ds) => do pure (.tuple (← ds.mapM xdrData?))
  | list (atom "ro" :: ds) => do pure (.rows (← ds.mapM xdrData?))
  | _ => none

def xdrValSexp : Val → Sexp
  | .num v => list [atom "n", atom (toString v)]
  | .str b => list [atom "s", atom (bytesToHex b)]

partial def xdrDataSexp : Data → Sexp
  | .scalar v => list [atom "sc", xdrValSexp v]
  | .array vs => list (atom "ar" :: vs.map xdrValSexp)
  | .tuple ds => list (atom "tu" :: ds.map xdrDataSexp)
  | .rows ds => list (atom "ro" :: ds.map xdrDataSexp)

/-- which model branches a sequence-bearing declaration takes (reported in the evidence) -/
partial def xdrTags : Tmpl → List String
  | .base ty sh => [(if sh.isEmpty then "scalar-" else "array-") ++ ty.name]
  | .struct cs => cs.flatMap xdrTags
  | .seq cs => [(if flatCols cs then "enc-flat" else "enc-nested"),
                (if simpleCols cs then "dec-simple" else "dec-general")] ++ cs.flatMap xdrTags

def handleXdr : List Sexp → Option String
  | [atom "xdr-enc", t, d] => do
    pure (bytesToHex (encImpl (← xdrTmpl? t) (← xdrData? d)))
  | [atom "xdr-spec", t, d] => do
    pure (bytesToHex (XdrSpec.enc (← xdrTmpl? t) (← xdrData? d)))
  | [atom "xdr-dec", t, b] => do
    match decImpl (← xdrTmpl? t) (← asBytes? b) with
    | .ok (d, rest) => pure (toString (list [atom "ok", xdrDataSexp d, atom (bytesToHex rest)]))
    | .error _ => pure "(err)"
  | [atom "xdr-dec-e", t, b] => do
    -- like xdr-dec, with the error class: short = the reader ran out of data
    match decImpl (← xdrTmpl? t) (← asBytes? b) with
    | .ok (d, rest) => pure (toString (list [atom "ok", xdrDataSexp d, atom (bytesToHex rest)]))
    | .error .short => pure "(err short)"
    | .error .fuel => pure "(err fuel)"
    | .error .neglen => pure "(err neglen)"
    | .error _ => pure "(err other)"
  | [atom "xdr-decv", t, b] => do
    match decImpl (← xdrTmpl? t) (← asBytes? b) with
    | .ok (d, _) => pure (toString (list [atom "ok", xdrDataSexp d]))
    | .error _ => pure "(err)"
  | [atom "xdr-dec-sr", t, list cs] => do
    -- unpack_dap2_data(StreamReader(iter(chunks)), dataset): value and everything the reader still holds
    match decStream (← xdrTmpl? t) (← cs.mapM asBytes?) with
    | .ok (d, r) => pure (toString (list [atom "ok", xdrDataSexp d, atom (bytesToHex r.abs)]))
    | .error _ => pure "(err)"
  | [atom "xdr-trace", t, b] => do
    pure (" ".intercalate ((decTrace (← xdrTmpl? t) (← asBytes? b)).map toString))
  | [atom "xdr-url", t, b] => do
    match openDodsUrl (← xdrTmpl? t) (← asBytes? b) with
    | some (_, .ok d) => pure (toString (list [atom "ok", xdrDataSexp d]))
    | some (_, .error _) => pure "(err)"
    | none => pure "none"
  | [atom "xdr-seqproxy", t, list cs] => do
    match seqProxy (← xdrTmpl? t) (← cs.mapM asBytes?) with
    | .ok d => pure (toString (list [atom "ok", xdrDataSexp d]))
    | .error _ => pure "(err)"
  | [atom "xdr-size", t, n] => do
    let t ← xdrTmpl? t
    let n ← asNat? n
    match calcSize (List.replicate n 32) t with
    | some k => pure (toString k)
    | none => pure "none"
  | [atom "xdr-split", b] => do
    match splitBody (← asBytes? b) with
    | some (a, c) => pure (toString (list [atom "ok", atom (bytesToHex a), atom (bytesToHex c)]))
    | none => pure "none"
  | [atom "xdr-wf", t, d] => do
    pure (toString (WF (← xdrTmpl? t) (← xdrData? d)))
  | [atom "xdr-tags", t] => do
    pure (" ".intercalate (xdrTags (← xdrTmpl? t)))
  | _ => none

end Pydap.Driver
