import PydapModel.Sexp
import PydapModel.FileHandlers
/-
  Line-protocol driver for the C20 model (PydapModel/FileHandlers.lean).
  Every string travels as an `x<hex>` atom (ASCII).
-/
namespace Pydap.Driver
open Pydap Pydap.Sexp Pydap.FileHandlers

private def strOf (bs : List UInt8) : String := String.ofList (bs.map fun b => Char.ofNat b.toNat)
private def hexS (s : String) : Sexp := atom (bytesToHex (s.toList.map fun c => UInt8.ofNat c.toNat))
private def asStr? (s : Sexp) : Option String := (asBytes? s).map strOf

private def asStrs? : Sexp → Option (List String)
  | list l => l.mapM asStr?
  | _ => none

private def asNats? : Sexp → Option (List Nat)
  | list l => l.mapM asNat?
  | _ => none

private def asKV? : Sexp → Option (String × String)
  | list [k, v] => do pure ((← asStr? k), (← asStr? v))
  | _ => none

private def asKVs? : Sexp → Option (List (String × String))
  | list l => l.mapM asKV?
  | _ => none

private def asDim? : Sexp → Option (String × Nat)
  | list [k, v] => do pure ((← asStr? k), (← asNat? v))
  | _ => none

private def asVar? : Sexp → Option Var
  | list [n, t, sh, ds, ats] => do
    pure { name := (← asStr? n), ty := (← asStr? t), shape := (← asNats? sh), dims := (← asStrs? ds),
           attrs := (← asKVs? ats) }
  | _ => none

private def asGrp? : Sexp → Option Grp
  | list [p, list ds, ats, list vs] => do
    pure { path := (← asStrs? p), dims := (← ds.mapM asDim?), attrs := (← asKVs? ats), vars := (← vs.mapM asVar?) }
  | _ => none

private def kvsOf (l : List (String × String)) : Sexp := list (l.map fun kv => list [hexS kv.1, hexS kv.2])
private def natsOf (l : List Nat) : Sexp := list (l.map fun n => atom (toString n))

private def entryOf : Entry → Sexp
  | .group p ds ats =>
    list [atom "group", list (p.map hexS), list (ds.map fun d => list [hexS d.1, atom (toString d.2)]), kvsOf ats]
  | .var p n t sh ds ats lz =>
    list [atom "var", list (p.map hexS), hexS n, hexS t, natsOf sh, list (ds.map fun q => hexS (fqnText q)), kvsOf ats,
          atom (if lz then "lazy" else "eager")]

private def asTriple? : Sexp → Option (Nat × Nat × Nat)
  | list [a, b, c] => do pure ((← asNat? a), (← asNat? b), (← asNat? c))
  | _ => none

private def asKey? : Sexp → Option Key
  | atom "ellipsis" => some (.scalar .ellipsis)
  | atom "empty" => some (.scalar .empty)
  | atom "newaxis" => some (.scalar .newaxis)
  | list l => do pure (.slices (← l.mapM asTriple?))
  | _ => none

/-- `(ok (shape) (data))` | `(err index|reshape|library)` -/
private def asRead? : Sexp → Option (Except Err Arr)
  | list [atom "ok", sh, d] => do pure (.ok { shape := (← asNats? sh), data := (← asNats? d) })
  | list [atom "err", atom "index"] => some (.error .index)
  | list [atom "err", atom "reshape"] => some (.error .reshape)
  | list [atom "err", _] => some (.error .library)
  | _ => none

private def errName : Err → String
  | .index => "index" | .reshape => "reshape" | .library => "library" | .typeError => "typeError"

private def resOf : Except Err Arr → Sexp
  | .ok a => list [atom "ok", natsOf a.shape, natsOf a.data]
  | .error e => list [atom "err", atom (errName e)]

private def asCell? : Sexp → Option Cell
  | list [atom "n", b] => do pure (.num (← asNat? b))
  | list [atom "s", s] => do pure (.str (← asStr? s))
  | _ => none

private def cellOf : Cell → Sexp
  | .num b => list [atom "n", atom (toString b)]
  | .str s => list [atom "s", hexS s]

private def asNamed? : Sexp → Option (String × List (String × String))
  | list [k, v] => do pure ((← asStr? k), (← asKVs? v))
  | _ => none

private def namedOf (l : List (String × List (String × String))) : Sexp :=
  list (l.map fun kv => list [hexS kv.1, kvsOf kv.2])

def handleFileHandlers : List Sexp → Option String
  | [atom "fh-netcdf", root, list groups] => do
    let root ← asGrp? root
    let groups ← groups.mapM asGrp?
    pure (toString (list ((netcdfEntries { root := root, groups := groups }).map entryOf)))
  | [atom "fh-resolve-last", list regs, d] => do
    let regs ← regs.mapM fun r => match r with
      | list [p, n] => do pure ((← asStrs? p), (← asStr? n))
      | _ => none
    let d ← asStr? d
    pure (match resolveLastRegistered regs d with
          | some q => toString (hexS (fqnText q))
          | none => "none")
  | [atom "fh-lazyget", shape, reshape, key, full, rd] => do
    -- `rd` is what the library returns for `key`, `full` what it returns for `...`
    let shape ← asNats? shape
    let reshape ← asNats? reshape
    let key ← asKey? key
    let full ← asRead? full
    let rd ← asRead? rd
    let read : Key → Except Err Arr := fun k => if k = .scalar .ellipsis then full else rd
    pure (toString (resOf (lazyGet read id shape reshape key)))
  | [atom "fh-lazyobj", ty, shape, atom nd, list ops] => do
    let ty ← asStr? ty
    let shape ← asNats? shape
    let nd ← nd.toNat?
    let ops ← ops.mapM fun o => match o with
      | list (atom "ints" :: l) => do pure (ReshapeArgs.ints (← l.mapM asNat?))
      | list (atom "seq" :: l) => do pure (ReshapeArgs.seq (← l.mapM asNat?))
      | _ => none
    let v : Var := { name := "", ty := ty, shape := shape, dims := List.replicate nd "", attrs := [] }
    let lv := ops.foldl Lazy.doReshape (Lazy.ofVar v)
    let ln := match lv.len with
      | .ok n => list [atom "ok", atom (toString n)]
      | .error e => list [atom "err", atom (errName e)]
    pure (toString (list [hexS lv.dtype, atom (toString lv.ndim), natsOf lv.shape, natsOf lv.reshape,
                          atom (toString lv.size), ln]))
  | [atom "fh-lazyget-pinned", reshape, key, rd] => do
    let reshape ← asNats? reshape
    let key ← asKey? key
    let rd ← asRead? rd
    pure (toString (resOf (lazyGetPinned (fun _ => rd) id reshape key)))
  | [atom "fh-csv", header, list rows, sidecar] => do
    let header ← asStrs? header
    let rows ← rows.mapM fun r => match r with
      | list cs => cs.mapM asCell?
      | _ => none
    let sc : Option Sidecar ← match sidecar with
      | atom "none" => some none
      | list [list top, list seq] => do
        pure (some { top := (← top.mapM asNamed?), seq := (← seq.mapM asNamed?) })
      | _ => none
    let d := csvDataset header rows sc
    pure (toString (list [list (d.columns.map hexS), list (d.rows.map fun r => list (r.map cellOf)),
                          kvsOf d.globalAttrs, namedOf d.colAttrs, namedOf d.seqAttrs]))
  | _ => none

end Pydap.Driver
