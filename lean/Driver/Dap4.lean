import PydapModel.Sexp
import PydapModel.Dap4
namespace Pydap.Driver
open Pydap Sexp Pydap.Dap4

def dap4Err : Dap4.Err → String
  | .valueError => "(err ValueError)"
  | .indexError => "(err IndexError)"
  | .keyError => "(err KeyError)"
  | .eofError => "(err EOFError)"

def b01 (b : Bool) : String := if b then "1" else "0"

def sexpToLayout? : Sexp → Option Layout
  | list [c, w] => do pure ⟨← asNat? c, ← asNat? w⟩
  | _ => none

def decodedToStr (w : Nat) (d : Decoded) : String :=
  "(" ++ bytesToHex (d.values.flatMap (beBytes w)) ++ " " ++
    (match d.checksum with | some c => toString c | none => "none") ++ ")"

def handleDap4 : List Sexp → Option String
  | [atom "dap4-chunktype", host, t] => do
    let host ← asNat? host
    let t ← asNat? t
    let f := decodeChunkType (host == 1) t
    pure ("(" ++ b01 f.last ++ " " ++ b01 f.error ++ " " ++ (if f.little then "<" else ">") ++ ")")
  | [atom "dap4-dechunk", d] => do
    let d ← asBytes? d
    match stream2bytearray true d with
    | .ok b => pure ("(ok " ++ bytesToHex b ++ ")")
    | .error e => pure (dap4Err e)
  | [atom "dap4-split", d] => do
    let d ← asBytes? d
    match safeDmrAndData true d with
    | .ok s => pure ("(ok " ++ bytesToHex s.dmr ++ " " ++ (if s.little then "<" else ">") ++ " " ++ bytesToHex s.data ++ ")")
    | .error e => pure (dap4Err e)
  | [atom "dap4-unpack", little, list ls, buf] => do
    let little ← asNat? little
    let ls ← ls.mapM sexpToLayout?
    let buf ← asBytes? buf
    match unpackVars (little == 1) ls buf with
    | .ok ds => pure ("(ok" ++ String.join ((ls.zip ds).map fun (l, d) => " " ++ decodedToStr l.itemsize d) ++ ")")
    | .error e => pure (dap4Err e)
  | _ => none

end Pydap.Driver
