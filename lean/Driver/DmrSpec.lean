import PydapModel.Sexp
import PydapModel.Dmr
import PydapModel.DmrSpec
import PydapModel.DmrServer
import PydapModel.Dap4Order
import PydapModel.DmrFind
import Driver.Dmr
namespace Pydap.Driver
open Pydap Sexp Pydap.Dmr

/-- `(r <fq> <size>)` | `(a <size>)` -/
def sexpToSDim? : Sexp → Option SDim
  | list [atom "r", fq, sz] => do pure (.named (← asStr? fq) (← asInt? sz))
  | list [atom "a", sz] => do pure (.anon (← asNat? sz))
  | _ => none

/-- `(i <text> <int>)` | `(f <text>)` | `(s <text>)` -/
def sexpToSVal? : Sexp → Option SVal
  | list [atom "i", t, i] => do pure (.int (← asStr? t) (← asInt? i))
  | list [atom "f", t] => do pure (.float (← asStr? t))
  | list [atom "s", t] => do pure (.str (← asStr? t))
  | _ => none

/-- `(attr <name> <type> <inline val | none> ((t|v <val>) ...))` -/
def sexpToSAttr? : Sexp → Option SAttr
  | list [atom "attr", n, ty, inl, list vals] => do
    let inl ← match inl with
      | atom "none" => some none
      | s => (sexpToSVal? s).map some
    let vals ← vals.mapM fun v => match v with
      | list [atom "t", x] => do pure (true, ← sexpToSVal? x)
      | list [atom "v", x] => do pure (false, ← sexpToSVal? x)
      | _ => none
    pure ⟨← asStr? n, ← asStr? ty, inl, vals⟩
  | _ => none

/-- `(var <tag> <name> (<dim> ...) (<attr> ...) (<map> ...))` -/
def sexpToSVar? : Sexp → Option SVar
  | list [atom "var", tag, n, list dims, list attrs, list maps] => do
    pure ⟨← asStr? tag, ← asStr? n, ← dims.mapM sexpToSDim?, ← attrs.mapM sexpToSAttr?, ← maps.mapM asStr?⟩
  | _ => none

/-- items in document order; `(dim <name> <size>)`, `(var …)`, `(attr …)`, `(group <name> (<item> ...))` -/
def sexpToSpec? : Nat → List Sexp → Option Spec
  | 0, _ => none
  | _ + 1, [] => some .nil
  | f + 1, x :: rest => do
    let rest ← sexpToSpec? f rest
    match x with
    | list [atom "dim", n, sz] => pure (.dim (← asStr? n) (← asNat? sz) rest)
    | list [atom "group", n, list items] => pure (.group (← asStr? n) (← sexpToSpec? f items) rest)
    | list (atom "var" :: _) => pure (.var (← sexpToSVar? x) rest)
    | list (atom "attr" :: _) => pure (.attr (← sexpToSAttr? x) rest)
    | _ => none

/-- a served attribute value: `(i <0|1 unsigned> <lg itemsize> <int>)`, `(f <4|8> x<text>)`, `(t x<text>)` -/
def sexpToSrvVal? : Sexp → Option SrvVal
  | list [atom "i", u, lg, i] => do
    let lg ← asNat? lg
    if h : lg < 4 then pure (.int ((← asNat? u) == 1) ⟨lg, h⟩ (← asInt? i)) else none
  | list [atom "f", w, t] => do pure (.float ((← asNat? w) == 8) (← asStr? t))
  | list [atom "t", t] => do pure (.text (← asStr? t))
  | _ => none

def sexpToSrvAttr? : Sexp → Option SrvAttr
  | list [n, list vs] => do pure ⟨← asStr? n, ← vs.mapM sexpToSrvVal?⟩
  | _ => none

/-- `(var <name> <kind> <dtypeName> ((<fq> <extent>) ...) [(<attr> ...) (<map> ...)])` | `(group <name> ((<dim> <size>) ...) (<kid> ...))` -/
def sexpToSrv? : Nat → List Sexp → Option SrvTree
  | 0, _ => none
  | _ + 1, [] => some .nil
  | f + 1, x :: rest => do
    let rest ← sexpToSrv? f rest
    match x with
    | list [atom "var", n, atom k, dt, list dims] =>
      let dims ← dims.mapM fun d => match d with
        | list [fq, sz] => do pure (← asStr? fq, ← asInt? sz)
        | _ => none
      pure (.var ⟨← asStr? n, k.toList.headD ' ', ← asStr? dt, dims, [], []⟩ rest)
    | list [atom "var", n, atom k, dt, list dims, list attrs, list maps] =>
      let dims ← dims.mapM fun d => match d with
        | list [fq, sz] => do pure (← asStr? fq, ← asInt? sz)
        | _ => none
      pure (.var ⟨← asStr? n, k.toList.headD ' ', ← asStr? dt, dims, ← attrs.mapM sexpToSrvAttr?, ← maps.mapM asStr?⟩ rest)
    | list [atom "group", n, list dims, list kids] =>
      let dims ← dims.mapM fun d => match d with
        | list [dn, sz] => do pure (← asStr? dn, ← asNat? sz)
        | _ => none
      pure (.group (← asStr? n) dims (← sexpToSrv? f kids) rest)
    | _ => none

partial def xnodeStr : XNode → String
  | .mk tag attrs text kids =>
    "(n " ++ strToHex tag ++ " (" ++ " ".intercalate (attrs.map fun (k, v) => "(" ++ strToHex k ++ " " ++ strToHex v ++ ")")
      ++ ") " ++ optStr text ++ " (" ++ " ".intercalate (kids.map xnodeStr) ++ "))"

/-- the integer texts of a spec denote the integers the spec says (hypothesis of `C11_parse`, decidable part) -/
def svalOk : SVal → Bool
  | .int t i => parseIntChars t == some i
  | _ => true

def sattrOk (a : SAttr) : Bool := a.all.all svalOk

def specValsOk : Spec → Bool
  | .nil => true
  | .dim _ _ rest => specValsOk rest
  | .var v rest => v.attrs.all sattrOk && specValsOk rest
  | .attr a rest => sattrOk a && specValsOk rest
  | .group _ body rest => specValsOk body && specValsOk rest

def recsStr (rs : List VarRec) : String := "(ok" ++ String.join (rs.map fun r => " " ++ recStr r) ++ ")"

def handleDmrSpec : List Sexp → Option String
  | [atom "dmr-spec-tree", name, list items] => do
    let s ← sexpToSpec? 4096 items
    pure (xnodeStr (renderRoot [] (← asStr? name) s))
  | [atom "dmr-spec-vars", list items] => do
    -- the right-hand side of `C11_parse`: what the spec declares
    let s ← sexpToSpec? 4096 items
    if !specValsOk s then pure "(hyp-fails int-text)" else pure (recsStr (expectVars s))
  | [atom "dmr-spec-parse", name, list items] => do
    -- the left-hand side of `C11_parse` / `C10_decode_order` on the model: parse, walk, decode order
    let s ← sexpToSpec? 4096 items
    let root := renderRoot [] (← asStr? name) s
    match parseVars root, datasetWalk root, decodeOrder root with
    | .ok a, .ok b, .ok c => pure ("(" ++ recsStr a ++ " " ++ recsStr b ++ " " ++ recsStr c ++ ")")
    | _, _, _ => pure "(err)"
  | [atom "dmr-srv-tree", name, list dims, list kids] => do
    let dims ← dims.mapM fun d => match d with
      | list [dn, sz] => do pure (← asStr? dn, ← asNat? sz)
      | _ => none
    pure (xnodeStr (renderServer (← asStr? name) dims (← sexpToSrv? 4096 kids)))
  | [atom "dmr-find", x, list keys] => do
    -- `dataset[key]` for every key the harness supplies (declared and stored spellings of every declared
    -- variable's path, document order): the stored key of what is found
    let x ← sexpToXNode? 64 x
    let keys ← keys.mapM asStr?
    match datasetTree x with
    | .ok t =>
      pure ("(ok" ++ String.join (keys.map fun k =>
        " (" ++ strToHex k ++ " " ++ (match getitemPath k t with
          | some f => strToHex (quoteName f.key)
          | none => "none") ++ ")") ++ ")")
    | .error e => pure (dmrErr e)
  | [atom "dmr-order", x] => do
    let x ← sexpToXNode? 64 x
    match decodeOrder x with
    | .ok rs => pure ("(ok" ++ String.join (rs.map fun r => " " ++ strToHex (quoteName r.key)) ++ ")")
    | .error e => pure (dmrErr e)
  | _ => none

end Pydap.Driver
