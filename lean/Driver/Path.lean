import PydapModel.Sexp
import PydapModel.Path
import PydapModel.PathServer
/-
  Line-protocol driver for the C16 model (PydapModel/Path.lean).
  Strings travel as `x<hex>` atoms (ASCII); a path is a list of such atoms.
-/
namespace Pydap.Driver
open Pydap Pydap.Sexp Pydap.Path

private def charsOf (bs : List UInt8) : List Char := bs.map fun b => Char.ofNat b.toNat
private def hexOf (cs : List Char) : Sexp := atom (bytesToHex (cs.map fun c => UInt8.ofNat c.toNat))

private def asChars? (s : Sexp) : Option (List Char) := (asBytes? s).map charsOf

private def asSegs? : Sexp → Option Segs
  | list l => l.mapM asChars?
  | _ => none

private def segsOf (p : Segs) : Sexp := list (p.map hexOf)

/-- `((path) f)` | `((path) d (entries…))` -/
private def asFsEntry? : Sexp → Option (Segs × Node)
  | list [p, atom "f"] => do pure ((← asSegs? p), Node.file)
  | list [p, atom "d", es] => do pure ((← asSegs? p), Node.dir (← asSegs? es))
  | _ => none

private def mkFs (l : List (Segs × Node)) : FS := fun p =>
  match l.find? (fun e => e.1 == p) with
  | some e => e.2
  | none => Node.missing

private def outcomeOf : Outcome → Sexp
  | .forbidden => list [atom "forbidden"]
  | .notFound => list [atom "notfound"]
  | .listing c d fs ds =>
    list [atom (if c then "catalog" else "listing"), segsOf d,
          list (((if c then fs.filter (·.2) else fs)).map fun f => list [hexOf f.1, atom (if f.2 then "1" else "0")]),
          segsOf ds]
  | .file p => list [atom "file", segsOf p]
  | .dap b => list [atom "dap", segsOf b]
  | .unsupported b => list [atom "unsupported", segsOf b]

private def opName : Op → String
  | .stat => "stat" | .listdir => "listdir" | .serve => "serve" | .handler => "handler"

private def boolStr (b : Bool) : String := if b then "1" else "0"

def handlePath : List Sexp → Option String
  | [atom "path-serve", exts, root, pi, list fs] => do
    let exts ← asSegs? exts
    let root ← asSegs? root
    let pi ← asChars? pi
    let fs ← fs.mapM asFsEntry?
    pure (toString (outcomeOf (serve exts (mkFs fs) root pi).2))
  | [atom "path-trace", exts, root, pi, list fs] => do
    let exts ← asSegs? exts
    let root ← asSegs? root
    let pi ← asChars? pi
    let fs ← fs.mapM asFsEntry?
    let tr := (serve exts (mkFs fs) root pi).1
    pure (toString (list (tr.map fun a => list [atom (opName a.op), segsOf a.path])))
  | [atom "path-history", exts, root, list evs] => do
    -- one server object, a history of (path_info, file system) events
    let exts ← asSegs? exts
    let root ← asSegs? root
    let evs ← evs.mapM fun e => match e with
      | list [pi, list fs] => do
        let pi ← asChars? pi
        let fs ← fs.mapM asFsEntry?
        pure ((mkFs fs, pi) : Event)
      | _ => none
    pure (toString (list ((runHistory ⟨root, exts⟩ evs).map fun r => outcomeOf r.2)))
  | [atom "path-resolve", root, pi] => do
    let root ← asSegs? root
    let pi ← asChars? pi
    pure (toString (hexOf (text (resolve root (splitSlash pi)))))
  | [atom "path-contained", root, p] => do
    let root ← asSegs? root
    let p ← asSegs? p
    pure (boolStr (contained root p) ++ " " ++ boolStr (containedStringPrefix root p))
  | [atom "path-splitext", s] => do
    let s ← asChars? s
    let r := splitextSeg s
    pure (toString (list [hexOf r.1, hexOf r.2]))
  | [atom "path-sort", l] => do
    let l ← asSegs? l
    pure (toString (segsOf (sortNames l)))
  | [atom "path-hashandler", exts, p] => do
    let exts ← asSegs? exts
    let p ← asSegs? p
    pure (boolStr (hasHandler exts p))
  | _ => none

end Pydap.Driver
