import PydapModel.Sexp
import PydapModel.XdrTypes
import PydapModel.Xdr
import PydapModel.XdrSrc
import Driver.Xdr
namespace Pydap.Driver
open Pydap Sexp Pydap.Xdr

/-- `(c big chars (shape…) (strides…) offset xBUF)` -/
def xdrArr? : Sexp → Option NpArr
  | list [atom c, atom big, chars, list shape, list strides, off, buf] => do
    pure { char := (← NChar.ofCode c), big := big == "1", chars := (← asNat? chars),
           shape := (← shape.mapM asNat?), strides := (← strides.mapM asInt?),
           offset := (← asNat? off), buf := (← asBytes? buf) }
  | _ => none

def xdrCell? : Sexp → Option Cell
  | list [atom "n", atom c, v] => do pure (.num (← NChar.ofCode c) (← asInt? v))
  | list (atom "u" :: cps) => do pure (.ustr (← cps.mapM asNat?))
  | list [atom "b", b] => do pure (.bstr (← asBytes? b))
  | _ => none

def srcErrName : SrcErr → String
  | .keyError => "keyError" | .unicode => "unicode" | .typeError => "typeError" | .index => "index"

def srcOut : Except SrcErr Bytes → String
  | .ok b => "(ok " ++ bytesToHex b ++ ")"
  | .error e => "(err " ++ srcErrName e ++ ")"

def handleXdrSrc : List Sexp → Option String
  | [atom "xdr-src-enc", a] => do pure (srcOut (encArr (← xdrArr? a)))
  | [atom "xdr-src-data", a] => do
    -- the DAP2 type of the dtype and the values numpy indexing reads, in logical order
    let a ← xdrArr? a
    let ty := match a.ty? with | some t => t.name | none => "none"
    match a.data? with
    | some d => pure (ty ++ " " ++ toString (xdrDataSexp d))
    | none => pure (ty ++ " none")
  | [atom "xdr-src-dtype", atom c] => do
    let c ← NChar.ofCode c
    let k := match c.kind with
      | .int => "i" | .uint => "u" | .float => "f" | .bytes => "S" | .text => "U" | .other => "O"
    pure (k ++ " " ++ toString c.size)
  | [atom "xdr-src-store", atom c, atom big, list shape, list vs] => do
    let a := storeC (← NChar.ofCode c) (big == "1") (← shape.mapM asNat?) (← vs.mapM asInt?)
    pure (toString (list [list (a.strides.map fun s => atom (toString s)), atom (bytesToHex a.buf)]))
  | [atom "xdr-src-build", atom c, atom big, step, pre, fill, list shape, list vs] => do
    -- `Rep.build`: strides, offset and memory of the array the representation lays out
    let r : Rep := ⟨(← NChar.ofCode c), big == "1", (← asNat? step), (← asNat? pre), UInt8.ofNat (← asNat? fill)⟩
    let a := r.build (← shape.mapM asNat?) (← vs.mapM asInt?)
    pure (toString (list [list (a.strides.map fun s => atom (toString s)), atom (toString a.offset),
      atom (bytesToHex a.buf)]))
  | [atom "xdr-src-rec", list tys, list cells] => do
    pure (srcOut (encCellsFlat (← tys.mapM xdrTy?) (← cells.mapM xdrCell?)))
  | [atom "xdr-src-cellarr", atom big, c] => do
    -- `np.array(value)` as the model builds it: dtype char, characters per item, memory
    let a := (← xdrCell? c).toArr (big == "1")
    pure (toString (list [atom a.char.code, atom (toString a.chars), atom (bytesToHex a.buf)]))
  | [atom "xdr-src-recg", list cells] => do
    -- one record on the general path: cells are `(big cell)`
    let cs ← cells.mapM fun
      | list [atom big, c] => do pure (big == "1", (← xdrCell? c))
      | _ => none
    pure (srcOut (encCellsGeneral cs))
  | [atom "xdr-src-rows", list tys, list rows] => do
    -- `_sequencetype` on rows of `(big cell)` cells
    let rs ← rows.mapM fun
      | list cells => cells.mapM fun
        | list [atom big, c] => do pure (big == "1", (← xdrCell? c))
        | _ => none
      | _ => none
    pure (srcOut (encRowsCells (← tys.mapM xdrTy?) rs))
  | [atom "xdr-src-seq", list tys, list fields, n] => do
    -- `_sequencetype` on a structured array given by its field views
    pure (srcOut (encSeqFields (← tys.mapM xdrTy?) (← fields.mapM xdrArr?) (← asNat? n)))
  | [atom "xdr-src-cellty", c] => do
    match (← xdrCell? c).ty? with
    | some t => pure t.name
    | none => pure "none"
  | _ => none

end Pydap.Driver
