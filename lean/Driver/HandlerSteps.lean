import PydapModel.Sexp
import PydapModel.Sched
import PydapModel.HandlerSteps
namespace Pydap.Driver
open Pydap Sexp Pydap.HandlerSteps

def hsKind? : String → Option Kind
  | "s" => some .structure
  | "d" => some .dataset
  | "g" => some .grid
  | "q" => some .sequence
  | _ => none

/-- served dataset from its spec: every object shared (`own = none`), every child visible -/
partial def hsNode? (pre : String) : Sexp → Option Node
  | list [atom "b", atom name, atom arr] =>
    let id := pre ++ name
    some (.base ⟨none, "served", id⟩ ⟨none, "served-attrs", id⟩ ⟨none, "served-data", id⟩ name (arr == "1"))
  | list [atom "c", atom k, atom name, list kids] => do
    let k ← hsKind? k
    let id := pre ++ name
    let pre' := if k == .dataset then "" else id ++ "."
    let ks ← kids.mapM (hsNode? pre')
    some (.cont k ⟨none, "served", id⟩ ⟨none, "served-attrs", id⟩ ⟨none, "served-data", id⟩ name
      (ks.map Node.name) (Kids.ofList ks))
  | _ => none

def hsPath? : Sexp → Option Path
  | list comps => comps.mapM fun
    | list [atom n, atom s] => some (n, s == "1")
    | _ => none
  | _ => none

def hsAtoms? : Sexp → Option (List String)
  | list xs => xs.mapM fun
    | atom a => some a
    | _ => none
  | _ => none

def hsReq? : Sexp → Option Req
  | list [atom "req", list paths, cl, atom f, list paths2] => do
    let p ← paths.mapM hsPath?
    let c ← hsAtoms? cl
    let p2 ← paths2.mapM hsPath?
    some ⟨p, c, f == "1", p2⟩
  | _ => none

def insertSorted (x : String) : List (String × Nat) → List (String × Nat)
  | [] => [(x, 1)]
  | (y, n) :: rest => if x == y then (y, n + 1) :: rest
                      else if x < y then (x, 1) :: (y, n) :: rest
                      else (y, n) :: insertSorted x rest

def hsSummary (t : Nat) (evs : List Ev) : String :=
  let keys := evs.map fun e =>
    e.stage ++ "|" ++ e.cls ++ "|" ++ e.field ++ "|" ++ (if e.target.own == some t then "T" else "F")
  let counted := keys.foldl (fun acc k => insertSorted k acc) []
  " ".intercalate (counted.map fun (k, n) => k ++ "=" ++ toString n)

/-- ownership audit of a whole program: every write owned by `t`, every read owned by `t` or shared -/
def hsAudit (t : Nat) (prog : List (Sched.Step Ref Val Val String)) : Bool :=
  prog.all fun s => s.writes.all (fun r => r.own == some t) && s.reads.all (fun r => r.own == some t || r.own == none)

def handleHandlerSteps : List Sexp → Option String
  | [atom "hs-log", t, ds, rq] => do
    let t ← asNat? t
    let ds ← hsNode? "" ds
    let rq ← hsReq? rq
    pure (hsSummary t (pipeline t ds rq).2)
  | [atom "hs-audit", t, ds, rq] => do
    let t ← asNat? t
    let ds ← hsNode? "" ds
    let rq ← hsReq? rq
    let prog := program ds t rq
    pure (toString (hsAudit t prog) ++ " steps=" ++ toString prog.length)
  | _ => none

end Pydap.Driver
