import PydapModel.Sexp
import PydapModel.RowHeap
namespace Pydap.Driver
open Pydap Sexp Pydap.RowHeap

/-- a value: a decimal integer, or `s<i>` = the `i`-th source object -/
def rhVal? : Sexp → Option PVal
  | atom s =>
    if s.startsWith "s" then (s.drop 1).toNat?.map fun i => PVal.ref (.src i)
    else s.toInt?.map PVal.atom
  | _ => none

def rhRep? : String → Option Rep
  | "t" => some .tuple
  | "l" => some .list
  | "n" => some .nprec
  | _ => none

def rhObj? : Sexp → Option PObj
  | list (atom r :: items) => do
    let rep ← rhRep? r
    let vs ← items.mapM rhVal?
    pure ⟨rep, vs⟩
  | _ => none

def rhOp? : String → Option Op
  | "lt" => some .lt
  | "le" => some .le
  | "gt" => some .gt
  | "ge" => some .ge
  | "eq" => some .eq
  | "ne" => some .ne
  | _ => none

def rhMap? : Sexp → Option RMap
  | list [atom "nest", c, ic, atom op, list [atom "lit", v]] => do
    pure (.nest (← asNat? c) ⟨← asNat? ic, ← rhOp? op, .lit (← asInt? v)⟩)
  | list [atom "nest", c, ic, atom op, list [atom "col", j]] => do
    pure (.nest (← asNat? c) ⟨← asNat? ic, ← rhOp? op, .col (← asNat? j)⟩)
  | list [atom "ident"] => some .ident
  | list (atom "fix" :: flags) => do
    let fl ← flags.mapM fun f => (asNat? f).map (· != 0)
    pure (.fixNested fl)
  | list [atom "item", c] => (asNat? c).map RMap.item
  | _ => none

def rhFilt? : Sexp → Option RFilt
  | list [atom "truthy"] => some .truthy
  | list [atom "cmp", c, atom op, list [atom "lit", v]] => do
    pure (.cmp ⟨← asNat? c, ← rhOp? op, .lit (← asInt? v)⟩)
  | list [atom "cmp", c, atom op, list [atom "col", j]] => do
    pure (.cmp ⟨← asNat? c, ← rhOp? op, .col (← asNat? j)⟩)
  | _ => none

def rhRepName : Rep → String
  | .tuple => "t"
  | .list => "l"
  | .nprec => "n"
  | .iterdata => "i"

/-- a value as the harness prints the real one: source objects by their number (they are not descended into),
    objects of the request by representation and content -/
def rhShow (h : RHeap) : Nat → PVal → String
  | _, .atom a => toString a
  | _, .ref (.src i) => "s" ++ toString i
  | 0, .ref (.own _) => "?"
  | fuel + 1, .ref (.own i) =>
    match h.own[i]? with
    | none => "?"
    | some o => "(" ++ " ".intercalate (rhRepName o.rep :: o.items.map (rhShow h fuel)) ++ ")"

def rhLoc : Loc → String
  | .src i => "s" ++ toString i
  | .own _ => "own"

def rhErr : Err → String
  | .typeError => "TypeError"
  | .indexError => "IndexError"
  | .stopIteration => "StopIteration"

def rhReport {α : Type} (src : List PObj) (o : Out α) (shown : α → String) : String :=
  (match o.val with
   | .ok v => "ok " ++ shown v
   | .error e => "err:" ++ rhErr e)
  ++ " | src=" ++ (if o.heap.src == src then "same" else "CHANGED")
  -- (only the stores into SOURCE objects: the harness cannot see a store into a list the code allocated itself)
  ++ " | stores=" ++ " ".intercalate ((o.log.filter fun s => match s.target with | .src _ => true | .own _ => false).map
        fun s => rhLoc s.target ++ "[" ++ toString s.index ++ "]")

def handleRowHeap : List Sexp → Option String
  -- the maps on ONE value (`m(row)` for a single nest map)
  | [atom "rh-map", list src, v, list maps] => do
    let src ← src.mapM rhObj?
    let v ← rhVal? v
    let maps ← maps.mapM rhMap?
    let o := applyMaps maps ⟨src, []⟩ v
    pure (rhReport src o (rhShow o.heap 8))
  -- `peeks` type lookups, then the iteration
  | [atom "rh-serve", list src, list stream, list filts, list maps, peeks] => do
    let src ← src.mapM rhObj?
    let stream ← stream.mapM rhVal?
    let filts ← filts.mapM rhFilt?
    let maps ← maps.mapM rhMap?
    let peeks ← asNat? peeks
    let o := serveRows filts maps ⟨src, []⟩ stream peeks
    pure (rhReport src o fun vs => "[" ++ " ".intercalate (vs.map (rhShow o.heap 8)) ++ "]")
  | _ => none

end Pydap.Driver
