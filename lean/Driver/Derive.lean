import PydapModel.Sexp
import PydapModel.Derive
import PydapModel.TableVal
import Driver.IterData
import Driver.Seq
import Driver.SeqClient
namespace Pydap.Driver
open Pydap Sexp Pydap.IterData Pydap.TableVal Pydap.Seq Pydap.SeqClient Pydap.Derive

def dvStep? : Sexp → Option (DStep Val)
  | list [atom "cols", list ks] => (ks.mapM sexpToName?).map DStep.cols
  | list (atom "filt" :: c :: cs) => do pure (.filt (← scCmp? c) (← cs.mapM scCmp?))
  | list (atom "colfilt" :: c :: cs) => do pure (.colfilt (← scCmp? c) (← cs.mapM scCmp?))
  | list [atom "sl", a, b, k] => do pure (.sl ⟨← asOptInt? a, ← asOptInt? b, ← asOptInt? k⟩)
  | list [atom "idx", i] => (asInt? i).map DStep.idx
  | list [atom "child", k] => (sexpToName? k).map DStep.child
  | _ => none

def rowsText (l : List (List Val)) : String :=
  "[" ++ " ".intercalate (l.map fun r => "(" ++ " ".intercalate (r.map valText) ++ ")") ++ "]"

/-- `dv-run id (names) (rows) (steps)`: the chain runs on the heap model (every derivation after a read of the opened
    sequence); prints the query text of the derived proxy, the by-name reference `refSelection`, and the server
    model's answer to that text -/
def handleDerive : List Sexp → Option String
  | [atom "dv-run", id, list names, list rows, list steps] => do
    let id ← sexpToName? id
    let names ← names.mapM sexpToName?
    let rows ← rows.mapM fun r => match r with
      | list cells => cells.mapM sexpToVal?
      | _ => none
    let chain ← steps.mapM dvStep?
    let u : UrlCE := ⟨none, []⟩
    let p0 := openProxy ['u'] (some 1) 0 u
    let h : Proxy.Heap := { tmpls := [openTmpl id names u], objs := [.seq p0], log := [] }
    let d := scDerive h 0 (chain.map fun st => ([Proxy.Ev.iter 0], keyOfStep encVal [id] p0 st))
    let ref := match refSelection cmpVal names chain rows with
      | some out => rowsText out
      | none => "none"
    match objQuery d.1 d.2 with
    | none => pure s!"none {ref} none"
    | some q =>
      let served := match serveQuery cmpVal encVal litVal .numpy id names rows q with
        | some (.ok items) => "[" ++ " ".intercalate (items.map itemText) ++ "]"
        | some (.error e) => "err:" ++ errText e
        | none => "outside"
      pure s!"{hexOfChars q} {ref} {served}"
  | _ => none

end Pydap.Driver
