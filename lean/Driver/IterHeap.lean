import PydapModel.Sexp
import PydapModel.IterHeap
import PydapModel.TableVal
import Driver.IterData
namespace Pydap.Driver
open Pydap Sexp Pydap.IterData Pydap.TableVal Pydap.IterHeap

/-- which fields of `out` are the very objects `self` holds (`is`), which are new -/
def aliasText (a b : Flds) : String :=
  let m (x y : Nat) : String := if x == y then "shared" else "new"
  s!"stream:{m a.src b.src},template:{m a.tmpl b.tmpl},ifilter:{m a.ifilter b.ifilter},imap:{m a.imap b.imap},islice:{m a.islice b.islice},root:{m a.root b.root}"

/-- the contents of the objects `self` holds (to be compared before / after the step) -/
def contentText (h : Heap Val) (r : Nat) : String :=
  match view h r with
  | some s => pipeText s
  | none => "?"

/-- every step is applied to the latest stream; per step: aliasing of the result with its operand, and the operand's
    recorded pipeline read again AFTER the step -/
def runAlias (h : Heap Val) (r : Nat) : List Key → List String
  | [] => []
  | k :: ks =>
    match getitemH litVal h r k, fldsAt h r with
    | some (.ok (h', r')), some f =>
      match fldsAt h' r' with
      | some f' => (aliasText f f' ++ ";operand:" ++ contentText h' r) :: runAlias h' r' ks
      | none => ["?"]
    | some (.error e), _ => ["getitem:" ++ errText e]
    | _, _ => ["?"]

def handleIterHeap : List Sexp → Option String
  | [atom "iterheap-run", atom kind, id, list names, list rows, list ops] => do
    let id ← sexpToName? id
    let names ← names.mapM sexpToName?
    let rows ← rows.mapM fun r => match r with
      | list cells => cells.mapM sexpToVal?
      | _ => none
    let ops ← ops.mapM sexpToKey?
    let t : SeqT := ⟨id, names, names⟩
    let h0 : Heap Val := if kind == "csv" then mkHeap (.csv rows) t true else mkHeap (.rows rows) t false
    pure (" | ".intercalate (runAlias h0 5 ops))
  | _ => none

end Pydap.Driver
