import PydapModel.Sexp
import PydapModel.Dap4E2E
import Driver.Dmr
import Driver.Handler
import Driver.Slice
namespace Pydap.Driver
open Pydap Sexp Pydap.Dmr Pydap.Dap4

/-- the sender's chunking as a function of the body: cut at the given sizes -/
def splitSizes : List Nat → Dap4.Bytes → List Dap4.Bytes
  | [], _ => []
  | n :: ns, b => b.take n :: splitSizes ns (b.drop n)

def e4Str : E4 → String
  | .request e => "(err request " ++ hExc e ++ ")"
  | .notOneVar => "(err notOneVar)"
  | .unknownVar => "(err unknownVar)"
  | .slice _ => "(err slice)"
  | .decode e => "(err decode " ++ dap4Err e ++ ")"
  | .dmr e => "(err dmr " ++ dmrErr e ++ ")"
  | .lookup => "(err lookup)"

def handleDap4E2E : List Sexp → Option String
  | [atom "dap4-parsece", q] => do
    match parseCE4 (← hStr? q) with
    | .ok (p, s) => pure (toString (list [atom "ok", list (p.map hProjItem), list (s.map fun x => atom (hHex x))]))
    | .error e => pure ("(err " ++ hExc e ++ ")")
  | [atom "dap4-e2e", little, id, width, list shape, vals, list idx, x, dmr, list sizes, crc] => do
    -- `var[idx]` through the whole model chain (request, parse_ce, numpy slicing, serialisation in the given byte
    -- order, the given chunking, decode, lookup).  `x` = ElementTree's tree of the answer's DMR (trusted),
    -- `dmr` its text, `sizes` the chunk sizes the reference server used, `crc` its checksum word.
    let little := (← asNat? little) == 1
    let id ← hStr? id
    let w ← asNat? width
    let shape ← shape.mapM asNat?
    let raw ← asBytes? vals
    let n := shape.foldl (· * ·) 1
    let vs := (Dap4.items w n raw).map (Dap4.decodeItem false)
    let ix ← idx.mapM sexpToIdx?
    let x ← sexpToXNode? 64 x
    let dmr ← asBytes? dmr
    let sizes ← sizes.mapM asNat?
    let crc ← asNat? crc
    let src : Source := ⟨id, w, shape, vs⟩
    let itemsize : VarRec → Nat := fun r => (itemSize? r.dtype).getD 0
    match fetchIndex4 (fun _ => x) itemsize (refServer4 little src (fun _ => dmr) (splitSizes sizes) (fun _ => crc))
        id shape ix with
    | .error e => pure (e4Str e)
    | .ok (sh, vals) =>
      pure ("(ok (" ++ " ".intercalate (sh.map toString) ++ ") "
        ++ bytesToHex (vals.flatMap (Dap4.beBytes w)) ++ ")")
  | _ => none

end Pydap.Driver
