import Proofs.DdsFixpoint
import Proofs.DdsRoundtrip
import Proofs.DdsText
import Proofs.DdsTree
import Proofs.Hyperslab
import Proofs.Slice
import Proofs.SliceTuple
