import Proofs.Hyperslab
import Proofs.MiniPy
import Proofs.Slice
import Proofs.SliceSrc
import Proofs.SliceTuple
