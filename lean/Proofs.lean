import Proofs.Hyperslab
import Proofs.IterData
import Proofs.IterDataSim
import Proofs.Seq
import Proofs.Slice
import Proofs.SliceTuple
