import Proofs.Hyperslab
import Proofs.Quote
import Proofs.Slice
import Proofs.SliceTuple
import Proofs.Tree
