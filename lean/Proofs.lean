import Proofs.HandlerSteps
import Proofs.Hyperslab
import Proofs.Sched
import Proofs.Slice
import Proofs.SliceTuple
