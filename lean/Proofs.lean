import Proofs.Handler
import Proofs.Hyperslab
import Proofs.Slice
import Proofs.SliceTuple
