import Proofs.Hyperslab
import Proofs.MiniPy
import Proofs.Quote
import Proofs.Slice
import Proofs.SliceSrc
import Proofs.SliceTuple
import Proofs.Tree
