import Proofs.Hyperslab
import Proofs.Slice
import Proofs.SliceTuple
import Proofs.XdrBasic
import Proofs.XdrDec
import Proofs.XdrEnc
import Proofs.XdrSize
