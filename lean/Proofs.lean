import Proofs.FileHandlers
import Proofs.Hyperslab
import Proofs.Path
import Proofs.PathServe
import Proofs.Slice
import Proofs.SliceTuple
