import Proofs.Dap4
import Proofs.Dmr
import Proofs.Hyperslab
import Proofs.Slice
import Proofs.SliceTuple
