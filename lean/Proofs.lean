import Proofs.Slice
import Proofs.SliceTuple
import Proofs.Hyperslab
