import Proofs.Hyperslab
import Proofs.Slice
import Proofs.SliceTuple
import Proofs.Stream
