import Proofs.Hyperslab
import Proofs.Slice
import Proofs.SliceTuple
import Proofs.Stream
import Proofs.StreamClient
import Proofs.StreamDap4
import Proofs.StreamFind
import Proofs.StreamSeq
