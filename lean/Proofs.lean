import Proofs.CacheKey
import Proofs.Hyperslab
import Proofs.Proxy
import Proofs.Slice
import Proofs.SliceTuple
import Proofs.Subset
