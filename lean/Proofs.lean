import Proofs.Hyperslab
import Proofs.Slice
import Proofs.SliceTuple
