import Props.C03
import Props.C16
import Props.C20
