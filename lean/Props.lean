import Props.C03
import Props.C10
import Props.C11
