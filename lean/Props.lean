import Props.C03
import Props.C07
import Props.C08
