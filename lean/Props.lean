import Props.C02
import Props.C03
import Props.C14
import Props.C18
