import Props.C03
import Props.C06
import Props.C15
import Props.C19
