import Props.C01
import Props.C03
import Props.C04
import Props.C05
import Props.C10
import Props.C11
import Props.C12
import Props.C17
