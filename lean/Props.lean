import Props.C03
import Props.C09
