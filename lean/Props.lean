import Props.C03
