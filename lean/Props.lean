import Props.C03
import Props.C04
import Props.C17
