import Props.C01
import Props.C03
import Props.C05
import Props.C12
