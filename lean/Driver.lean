import Driver.Slice
import Driver.Tree
import Driver.Xdr
