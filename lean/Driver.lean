import Driver.IterData
import Driver.Seq
import Driver.Slice
