import Driver.Dap4
import Driver.Dmr
import Driver.Slice
