import Driver.Path
import Driver.Slice
