import Driver.CacheKey
import Driver.Proxy
import Driver.Slice
import Driver.Subset
