import Driver.DdsText
import Driver.Slice
