import Driver.Slice
