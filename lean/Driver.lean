import Driver.IterData
import Driver.Slice
