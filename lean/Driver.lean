import Driver.Slice
import Driver.Xdr
