import Driver.Handler
import Driver.Slice
