import Driver.Slice
import Driver.Stream
