import Driver.FileHandlers
import Driver.Path
import Driver.Slice
