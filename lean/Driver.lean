import Driver.Slice
import Driver.Tree
