import Driver.DasText
import Driver.DdsText
import Driver.Slice
