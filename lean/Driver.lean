import Driver.Dap4
import Driver.Slice
