import Driver.Handler
import Driver.Slice
import Driver.Ssf
