import Driver.Dap4
import Driver.Dmr
import Driver.HandlerSteps
import Driver.IterData
import Driver.Seq
import Driver.Slice
import Driver.Tree
import Driver.Xdr
