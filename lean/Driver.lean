import Driver.HandlerSteps
import Driver.Slice
