/-
  C09 helper lemmas: `stream2bytearray` / `safe_dmr_and_data` (after the repair) decode the chunked wire
  form and raise on every proper prefix of it.
-/
import PydapModel.Stream
import Proofs.Stream
import Proofs.StreamSeq
namespace Pydap.Stream

theorem hdr_size (flags n : Nat) (hf : flags < 256) (hn : n < 16777216) :
    be32 (be32enc (flags * 16777216 + n)) % 16777216 = n ∧
    be32 (be32enc (flags * 16777216 + n)) / 16777216 % 256 = flags := by
  rw [be32_be32enc _ (by omega)]
  omega

theorem take4_be32enc (k : Nat) (rest : Bytes) : (be32enc k ++ rest).take 4 = be32enc k := rfl
theorem drop4_be32enc (k : Nat) (rest : Bytes) : (be32enc k ++ rest).drop 4 = rest := rfl

theorem encChunk_length (flags : Nat) (c : Bytes) : (encChunk flags c).length = 4 + c.length := by
  simp [encChunk, be32enc_length]

theorem split_prefix {p x y : Bytes} (hp : p <+: x ++ y) (hl : x.length ≤ p.length) :
    ∃ p', p = x ++ p' ∧ p' <+: y := by
  have hx : x <+: p := List.prefix_of_prefix_length_le (List.prefix_append x y) hp hl
  obtain ⟨p', rfl⟩ := hx
  exact ⟨p', rfl, (List.prefix_append_right_inj x).mp hp⟩

/-- one turn of the loop on a complete chunk -/
theorem dechunk_step (f flags : Nat) (c rest acc : Bytes) (hf : flags < 256) (hc : c.length < 16777216) :
    dechunkLoop (f + 1) (encChunk flags c ++ rest) acc =
      if chunkLast flags then .ok (acc ++ c) else dechunkLoop f rest (acc ++ c) := by
  obtain ⟨h1, h2⟩ := hdr_size flags c.length hf hc
  have e1 : (encChunk flags c ++ rest).take 4 = be32enc (flags * 16777216 + c.length) := by
    simp only [encChunk, List.append_assoc, take4_be32enc]
  have e2 : (encChunk flags c ++ rest).drop 4 = c ++ rest := by
    simp only [encChunk, List.append_assoc, drop4_be32enc]
  have e3 : (encChunk flags c ++ rest).drop (4 + c.length) = rest := by
    rw [← List.drop_drop, e2]; simp
  have l : (encChunk flags c ++ rest).length = 4 + c.length + rest.length := by
    simp [encChunk_length]
  have n0 : ¬ (encChunk flags c ++ rest).length = 0 := by omega
  have n1 : ¬ (encChunk flags c ++ rest).length < 4 := by omega
  have n2 : ¬ (encChunk flags c ++ rest).length < 4 + c.length := by omega
  simp only [dechunkLoop, n0, n1, if_false, e1, h1, h2, n2, e2, e3]
  simp

/-- a prefix that stops inside the first chunk (header included) raises -/
theorem dechunk_short (f flags : Nat) (c rest acc p : Bytes) (hf : flags < 256) (hc : c.length < 16777216)
    (hp : p <+: encChunk flags c ++ rest) (hl : p.length < 4 + c.length) :
    dechunkLoop (f + 1) p acc = .error .eof := by
  by_cases h0 : p.length = 0
  · simp [dechunkLoop, h0]
  by_cases h4 : p.length < 4
  · simp [dechunkLoop, h0, h4]
  obtain ⟨h1, _⟩ := hdr_size flags c.length hf hc
  have e1 : p.take 4 = be32enc (flags * 16777216 + c.length) := by
    obtain ⟨t, ht⟩ := hp
    have := congrArg (List.take 4) ht
    rw [List.take_append_of_le_length (by omega)] at this
    rw [this]
    simp only [encChunk, List.append_assoc, take4_be32enc]
  simp only [dechunkLoop, h0, h4, if_false, e1, h1, hl, if_true]

def ChunksOk (fl : Nat) (cs : List Bytes) : Prop :=
  fl % 2 = 0 ∧ fl < 255 ∧ ∀ c ∈ cs, c.length < 16777216

theorem chunkLast_even (fl : Nat) (h : fl % 2 = 0) : chunkLast fl = false ∧ chunkLast (fl + 1) = true := by
  simp [chunkLast]; omega

theorem dechunk_enc (fl : Nat) : ∀ (cs : List Bytes) (f : Nat) (rest acc : Bytes), cs ≠ [] → ChunksOk fl cs →
    cs.length ≤ f → dechunkLoop f (encChunks fl cs ++ rest) acc = .ok (acc ++ cs.flatten) := by
  intro cs
  induction cs with
  | nil => intro f rest acc h; exact absurd rfl h
  | cons c cs ih =>
    intro f rest acc _ hok hf
    obtain ⟨he, hfl, hcs⟩ := hok
    obtain ⟨f, rfl⟩ : ∃ g, f = g + 1 := ⟨f - 1, by simp at hf; omega⟩
    obtain ⟨l0, l1⟩ := chunkLast_even fl he
    cases cs with
    | nil =>
      simp only [encChunks]
      rw [dechunk_step f (fl + 1) c rest acc (by omega) (hcs c (by simp)), l1]
      simp
    | cons c' cs =>
      simp only [encChunks, List.append_assoc]
      rw [dechunk_step f fl c _ acc (by omega) (hcs c (by simp)), l0]
      have := ih f rest (acc ++ c) (by simp) ⟨he, hfl, fun x hx => hcs x (by simp [hx])⟩ (by simp at hf ⊢; omega)
      simp only [Bool.false_eq_true, if_false]
      rw [this]; simp

theorem dechunk_prefix (fl : Nat) : ∀ (cs : List Bytes) (p : Bytes) (f : Nat) (acc : Bytes), ChunksOk fl cs →
    p <+: encChunks fl cs → p ≠ encChunks fl cs → p.length < f → dechunkLoop f p acc = .error .eof := by
  intro cs
  induction cs with
  | nil =>
    intro p f acc _ hp hne _
    simp [encChunks] at hp
    exact absurd hp (by simpa [encChunks] using hne)
  | cons c cs ih =>
    intro p f acc hok hp hne hf
    obtain ⟨he, hfl, hcs⟩ := hok
    obtain ⟨f, rfl⟩ : ∃ g, f = g + 1 := ⟨f - 1, by omega⟩
    obtain ⟨l0, l1⟩ := chunkLast_even fl he
    cases cs with
    | nil =>
      simp only [encChunks] at hp hne
      have hp' : p <+: encChunk (fl + 1) c ++ [] := by simpa using hp
      apply dechunk_short f (fl + 1) c [] acc p (by omega) (hcs c (by simp)) hp'
      have h1 := hp.length_le
      rw [encChunk_length] at h1
      have : p.length ≠ 4 + c.length := fun h => hne (hp.eq_of_length (by rw [encChunk_length, h]))
      omega
    | cons c' cs =>
      simp only [encChunks] at hp hne
      by_cases hl : p.length < 4 + c.length
      · exact dechunk_short f fl c _ acc p (by omega) (hcs c (by simp)) hp hl
      · obtain ⟨p', rfl, hp'⟩ := split_prefix hp (by rw [encChunk_length]; omega)
        rw [dechunk_step f fl c p' acc (by omega) (hcs c (by simp)), l0]
        simp only [Bool.false_eq_true, if_false]
        apply ih p' f (acc ++ c) ⟨he, hfl, fun x hx => hcs x (by simp [hx])⟩ hp'
        · intro h; apply hne; rw [h]
        · simp [encChunk_length] at hf; omega

theorem encChunks_length (fl : Nat) : ∀ cs : List Bytes, cs.length ≤ (encChunks fl cs).length := by
  intro cs
  induction cs with
  | nil => simp
  | cons c cs ih =>
    cases cs with
    | nil => simp [encChunks, encChunk_length]; omega
    | cons c' cs => simp [encChunks, encChunk_length] at ih ⊢; omega

theorem stream2bytearray_enc (fl : Nat) (cs : List Bytes) (hne : cs ≠ []) (hok : ChunksOk fl cs) :
    stream2bytearray (encChunks fl cs) = .ok cs.flatten := by
  have := dechunk_enc fl cs ((encChunks fl cs).length + 1) [] [] hne hok
    (by have := encChunks_length fl cs; omega)
  simpa [stream2bytearray] using this

theorem stream2bytearray_prefix (fl : Nat) (cs : List Bytes) (p : Bytes) (hok : ChunksOk fl cs)
    (hp : p <+: encChunks fl cs) (hne : p ≠ encChunks fl cs) : stream2bytearray p = .error .eof :=
  dechunk_prefix fl cs p (p.length + 1) [] hok hp hne (by omega)

/-! ### the whole response: DMR chunk + data chunks -/

/- `unpackFrame` is unfolded on variables only: asking Lean to reduce `brRead (… % 16777216) …` on the
   concrete wire form makes `whnf` unfold `Nat.mod` on open terms. -/

theorem unpackFrame_err1 (body : Bytes) (e : Err) (h1 : brRead 4 body = .error e) :
    unpackFrame body = .error e := by
  unfold unpackFrame; rw [h1]

theorem unpackFrame_err2 (body hd r1 : Bytes) (e : Err) (h1 : brRead 4 body = .ok (hd, r1))
    (h2 : brRead (be32 hd % 16777216) r1 = .error e) : unpackFrame body = .error e := by
  unfold unpackFrame; rw [h1]; dsimp only; rw [h2]

theorem unpackFrame_ok (body hd r1 dmr r2 : Bytes) (h1 : brRead 4 body = .ok (hd, r1))
    (h2 : brRead (be32 hd % 16777216) r1 = .ok (dmr, r2)) :
    unpackFrame body = (match stream2bytearray r2 with
      | .error e => .error e
      | .ok buf => .ok (dmr, buf)) := by
  unfold unpackFrame; rw [h1]; dsimp only; rw [h2]; rfl

theorem frame_enc (fl : Nat) (dmr : Bytes) (cs : List Bytes) (hne : cs ≠ []) (hok : ChunksOk fl cs)
    (hd : dmr.length < 16777216) : unpackFrame (encFrame fl dmr cs) = .ok (dmr, cs.flatten) := by
  have hfl := hok.2.1
  obtain ⟨h1, _⟩ := hdr_size fl dmr.length (by omega) hd
  have e1 : brRead 4 (encFrame fl dmr cs)
      = .ok (be32enc (fl * 16777216 + dmr.length), dmr ++ encChunks fl cs) := by
    have := brRead_append' 4 (be32enc (fl * 16777216 + dmr.length)) (dmr ++ encChunks fl cs) rfl
    simpa only [encFrame, encChunk, List.append_assoc] using this
  have e2 : brRead (be32 (be32enc (fl * 16777216 + dmr.length)) % 16777216) (dmr ++ encChunks fl cs)
      = .ok (dmr, encChunks fl cs) := by
    rw [h1]; exact brRead_append _ _
  rw [unpackFrame_ok _ _ _ _ _ e1 e2, stream2bytearray_enc fl cs hne hok]

theorem frame_prefix (fl : Nat) (dmr : Bytes) (cs : List Bytes) (p : Bytes) (hok : ChunksOk fl cs)
    (hd : dmr.length < 16777216) (hp : p <+: encFrame fl dmr cs) (hne : p ≠ encFrame fl dmr cs) :
    unpackFrame p = .error .eof := by
  have hfl := hok.2.1
  obtain ⟨h1, _⟩ := hdr_size fl dmr.length (by omega) hd
  by_cases h4 : 4 ≤ p.length
  · have e1 : p.take 4 = be32enc (fl * 16777216 + dmr.length) := by
      obtain ⟨t, ht⟩ := hp
      have := congrArg (List.take 4) ht
      rw [List.take_append_of_le_length h4] at this
      rw [this]
      simp only [encFrame, encChunk, List.append_assoc, take4_be32enc]
    have hb : brRead 4 p = .ok (be32enc (fl * 16777216 + dmr.length), p.drop 4) := by
      rw [← e1]; simp [brRead, h4]
    by_cases hl : 4 + dmr.length ≤ p.length
    · obtain ⟨p', rfl, hp'⟩ := split_prefix (x := encChunk fl dmr) hp (by rw [encChunk_length]; omega)
      have hne' : p' ≠ encChunks fl cs := by intro h; apply hne; rw [h]; rfl
      have ed : (encChunk fl dmr ++ p').drop 4 = dmr ++ p' := by
        simp only [encChunk, List.append_assoc, drop4_be32enc]
      rw [ed] at hb
      have e2 : brRead (be32 (be32enc (fl * 16777216 + dmr.length)) % 16777216) (dmr ++ p') = .ok (dmr, p') := by
        rw [h1]; exact brRead_append _ _
      rw [unpackFrame_ok _ _ _ _ _ hb e2, stream2bytearray_prefix fl cs p' hok hp' hne']
    · have hb2 : brRead (be32 (be32enc (fl * 16777216 + dmr.length)) % 16777216) (p.drop 4) = .error .eof := by
        rw [h1]; simp [brRead]; omega
      exact unpackFrame_err2 _ _ _ _ hb hb2
  · have : ¬ 4 ≤ p.length := h4
    exact unpackFrame_err1 _ _ (by simp [brRead, this])

end Pydap.Stream
