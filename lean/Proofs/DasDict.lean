import Proofs.DasParse
/-! Python-dict algebra on association lists and the locality of the nested-id lookup (C08). -/
namespace Pydap.Das

def keys (d : Dict) : List Text := d.map (·.1)

theorem dget_nil (k : Text) : dget [] k = none := rfl

theorem dget_cons (kv : Text × AVal) (d : Dict) (k : Text) :
    dget (kv :: d) k = if k = kv.1 then some kv.2 else dget d k := by
  obtain ⟨a, b⟩ := kv
  unfold dget
  by_cases h : k = a
  · simp [List.lookup, h]
  · have : (k == a) = false := by simp [h]
    simp [List.lookup, this, h]

theorem dget_none_of_not_mem (d : Dict) (k : Text) (h : k ∉ keys d) : dget d k = none := by
  induction d with
  | nil => rfl
  | cons kv rest ih =>
    simp only [keys, List.map_cons, List.mem_cons, not_or] at h
    rw [dget_cons, if_neg h.1]
    exact ih h.2

theorem dget_append_left (a b : Dict) (k : Text) (h : k ∉ keys a) : dget (a ++ b) k = dget b k := by
  induction a with
  | nil => rfl
  | cons kv rest ih =>
    simp only [keys, List.map_cons, List.mem_cons, not_or] at h
    rw [List.cons_append, dget_cons, if_neg h.1]
    exact ih h.2

theorem dset_cons (kv : Text × AVal) (d : Dict) (k : Text) (v : AVal) :
    dset (kv :: d) k v = if kv.1 = k then (kv.1, v) :: d else kv :: dset d k v := by
  obtain ⟨a, b⟩ := kv; rfl

theorem derase_cons (kv : Text × AVal) (d : Dict) (k : Text) :
    derase (kv :: d) k = if kv.1 = k then derase d k else kv :: derase d k := by
  unfold derase
  by_cases h : kv.1 = k <;> simp [List.filter, h]

theorem derase_nil (k : Text) : derase [] k = [] := rfl

theorem dget_dset_self (d : Dict) (k : Text) (v : AVal) : dget (dset d k v) k = some v := by
  induction d with
  | nil => simp [dset, dget_cons]
  | cons kv rest ih =>
    rw [dset_cons]
    by_cases h : kv.1 = k
    · rw [if_pos h, dget_cons, if_pos h.symm]
    · rw [if_neg h, dget_cons, if_neg (fun e => h e.symm)]; exact ih

theorem dset_dset (d : Dict) (k : Text) (x y : AVal) : dset (dset d k x) k y = dset d k y := by
  induction d with
  | nil => simp [dset]
  | cons kv rest ih =>
    rw [dset_cons, dset_cons]
    by_cases h : kv.1 = k
    · rw [if_pos h, if_pos h, dset_cons, if_pos h]
    · rw [if_neg h, if_neg h, dset_cons, if_neg h, ih]

theorem dset_of_get (d : Dict) (k : Text) (v : AVal) (h : dget d k = some v) : dset d k v = d := by
  induction d with
  | nil => simp [dget_nil] at h
  | cons kv rest ih =>
    rw [dget_cons] at h
    rw [dset_cons]
    by_cases hk : kv.1 = k
    · rw [if_pos hk.symm] at h; injection h with h; subst h; rw [if_pos hk]
    · rw [if_neg (fun e => hk e.symm)] at h; rw [if_neg hk, ih h]

theorem derase_dset (d : Dict) (k : Text) (v : AVal) : derase (dset d k v) k = derase d k := by
  induction d with
  | nil => simp [dset, derase_cons, derase_nil]
  | cons kv rest ih =>
    rw [dset_cons]
    by_cases h : kv.1 = k
    · rw [if_pos h, derase_cons, derase_cons, if_pos h, if_pos h]
    · rw [if_neg h, derase_cons, derase_cons, if_neg h, if_neg h, ih]

theorem derase_of_not_mem (d : Dict) (k : Text) (h : k ∉ keys d) : derase d k = d := by
  induction d with
  | nil => rfl
  | cons kv rest ih =>
    simp only [keys, List.map_cons, List.mem_cons, not_or] at h
    rw [derase_cons, if_neg (fun e => h.1 e.symm), ih h.2]

theorem derase_append_single (b : Dict) (k : Text) (v : AVal) (h : k ∉ keys b) :
    derase (b ++ [(k, v)]) k = b := by
  induction b with
  | nil => simp [derase_cons, derase_nil]
  | cons kv rest ih =>
    simp only [keys, List.map_cons, List.mem_cons, not_or] at h
    rw [List.cons_append, derase_cons, if_neg (fun e => h.1 e.symm), ih h.2]

theorem dset_new (d : Dict) (k : Text) (v : AVal) (h : k ∉ keys d) : dset d k v = d ++ [(k, v)] := by
  induction d with
  | nil => rfl
  | cons kv rest ih =>
    simp only [keys, List.map_cons, List.mem_cons, not_or] at h
    rw [dset_cons, if_neg (fun e => h.1 e.symm), ih h.2]
    rfl

theorem keys_append (a b : Dict) : keys (a ++ b) = keys a ++ keys b := by simp [keys]

/-- `d.update(e)` when no key of `e` is already there and `e` has no duplicate: concatenation -/
theorem dupdate_nodup (e : Dict) : ∀ d : Dict, (keys (d ++ e)).Nodup → dupdate d e = d ++ e := by
  induction e with
  | nil => intro d _; simp [dupdate]
  | cons kv rest ih =>
    intro d h
    have hk : kv.1 ∉ keys d := by
      rw [keys_append] at h
      have := (List.nodup_append.mp h).2.2
      intro hmem
      exact this _ hmem _ (by simp [keys]) rfl
    unfold dupdate
    simp only [List.foldl_cons]
    rw [dset_new d kv.1 kv.2 hk]
    have h' : (keys ((d ++ [(kv.1, kv.2)]) ++ rest)).Nodup := by simpa [List.append_assoc] using h
    have := ih (d ++ [(kv.1, kv.2)]) h'
    unfold dupdate at this
    rw [this]; simp

/-- the dict a list of nodes denotes when no name repeats: the nodes' (name, value) pairs in order -/
theorem denoteItems_nodup (its : List Item) : ∀ acc : Dict,
    (keys acc ++ its.map (fun it => (denoteItem it).1)).Nodup →
    denoteItems acc its = acc ++ its.map denoteItem := by
  induction its with
  | nil => intro acc _; simp [denoteItems]
  | cons it more ih =>
    intro acc h
    have hk : (denoteItem it).1 ∉ keys acc := by
      have := (List.nodup_append.mp h).2.2
      intro hmem
      exact this _ hmem _ (by simp) rfl
    simp only [denoteItems]
    rw [dset_new acc _ _ hk, ih]
    · simp
    · simpa [keys_append, keys, List.append_assoc] using h

end Pydap.Das
