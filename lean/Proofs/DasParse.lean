import Proofs.DasTree
/-! `parse_das` on the whole text of a DAS (C08): fuel adequacy and the source-level domain. -/
namespace Pydap.Das

mutual
theorem needItem_len : (it : Item) → (lvl : Nat) → needItem it + 2 ≤ (renderItem lvl it).length
  | .attr ty k xs, lvl => by simp [needItem, renderItem]; omega
  | .cont n sub, lvl => by
    have := needItems_len sub (lvl + 1)
    simp only [needItem, renderItem, List.length_append, List.length_cons, List.length_nil]
    omega
theorem needItems_len : (its : List Item) → (lvl : Nat) → needItems its ≤ (renderItems lvl its).length
  | [], lvl => by simp [needItems]
  | it :: more, lvl => by
    have h1 := needItem_len it lvl
    have h2 := needItems_len more lvl
    simp only [needItems, renderItems, List.length_append]
    omega
end

/-- `parse_das` on `Attributes {` + rendered nodes + `}`: the dict the nodes denote -/
theorem parse_rendered (its : List Item) (hok : ItemsOk its) :
    dasParse ("Attributes {\n".toList ++ renderItems 1 its ++ ['}', '\n']) = .ok (denoteItems [] its) := by
  have hlen := needItems_len its 1
  have e0 : "Attributes {\n".toList ++ renderItems 1 its ++ ['}', '\n']
      = 'A' :: 't' :: 't' :: 'r' :: 'i' :: 'b' :: 'u' :: 't' :: 'e' :: 's' :: ' ' :: '{' :: '\n'
          :: (renderItems 1 its ++ (indent 0 ++ '}' :: ['\n'])) := by
    simp [indent]
  unfold dasParse
  have hf : needItems its + 1 ≤ ("Attributes {\n".toList ++ renderItems 1 its ++ ['}', '\n']).length + 1 := by
    simp only [List.length_append]; omega
  generalize ("Attributes {\n".toList ++ renderItems 1 its ++ ['}', '\n']).length + 1 = fuel at hf
  rw [e0]
  have e1 : dropPrefixCI "attributes".toList
      ('A' :: 't' :: 't' :: 'r' :: 'i' :: 'b' :: 'u' :: 't' :: 'e' :: 's' :: ' ' :: '{' :: '\n'
          :: (renderItems 1 its ++ (indent 0 ++ '}' :: ['\n'])))
      = some (' ' :: '{' :: '\n' :: (renderItems 1 its ++ (indent 0 ++ '}' :: ['\n']))) := by
    simp [dropPrefixCI, lowerC]
  have e2 : consumeChar '{' (lstrip (' ' :: '{' :: '\n' :: (renderItems 1 its ++ (indent 0 ++ '}' :: ['\n']))))
      = .ok (lstrip (renderItems 1 its ++ (indent 0 ++ '}' :: ['\n']))) := by
    simp [lstrip, isSpace, consumeChar]
  unfold parseFuel
  simp only [e1, e2, items_list its 1 0 ['\n'] [] fuel hok hf]

/-! ### the DAS-safe domain on the server's objects -/

mutual
/-- a value of the DAS-safe domain: safe strings, numbers with their `%.6g` token, homogeneous lists (every
    element fits the list's DAS type), nested dicts to any depth -/
def ValOk : AVal → Prop
  | .sc x => ScalarOk (typeConvert x) x
  | .list xs => ∀ x ∈ xs, ScalarOk (listType xs) x
  | .dict kvs => AttrsOk kvs
def AttrsOk : List (Text × AVal) → Prop
  | [] => True
  | (k, v) :: rest => NameOk k ∧ ValOk v ∧ AttrsOk rest
end

mutual
/-- variables: Base and Grid are leaves of the DAS (a Grid's members are never printed) -/
def VarOk : Var → Prop
  | .mk .struct n a cs => NameOk n ∧ AttrsOk a ∧ VarsOk cs
  | .mk .seq n a cs => NameOk n ∧ AttrsOk a ∧ VarsOk cs
  | .mk .base n a _ => NameOk n ∧ AttrsOk a
  | .mk .grid n a _ => NameOk n ∧ AttrsOk a
def VarsOk : List Var → Prop
  | [] => True
  | v :: rest => VarOk v ∧ VarsOk rest
end

def DsOk (ds : Dataset) : Prop := AttrsOk ds.attrs ∧ VarsOk ds.children

theorem attrsOk_iff (kvs : List (Text × AVal)) : AttrsOk kvs ↔ ∀ kv ∈ kvs, NameOk kv.1 ∧ ValOk kv.2 := by
  induction kvs with
  | nil => simp [AttrsOk]
  | cons kv rest ih =>
    obtain ⟨k, v⟩ := kv
    simp only [AttrsOk, ih, List.mem_cons, forall_eq_or_imp]
    constructor
    · rintro ⟨a, b, c⟩; exact ⟨⟨a, b⟩, c⟩
    · rintro ⟨⟨a, b⟩, c⟩; exact ⟨a, b, c⟩

theorem mem_insKey (x kv : Text × AVal) (l : Dict) : x ∈ insKey kv l ↔ x = kv ∨ x ∈ l := by
  induction l with
  | nil => simp [insKey]
  | cons y rest ih =>
    unfold insKey
    split
    · simp
    · simp only [List.mem_cons, ih]
      constructor
      · rintro (h | h | h) <;> simp [h]
      · rintro (h | h | h) <;> simp [h]

theorem mem_sortKeys (x : Text × AVal) (l : Dict) : x ∈ sortKeys l ↔ x ∈ l := by
  induction l with
  | nil => simp [sortKeys]
  | cons y rest ih => simp [sortKeys, mem_insKey, ih]

theorem attrsOk_sort (a : Dict) (h : AttrsOk a) : AttrsOk (sortKeys a) := by
  rw [attrsOk_iff] at h ⊢
  exact fun kv hkv => h kv ((mem_sortKeys kv a).mp hkv)

theorem attrsOk_filter (a : Dict) (p : Text × AVal → Bool) (h : AttrsOk a) : AttrsOk (a.filter p) := by
  rw [attrsOk_iff] at h ⊢
  exact fun kv hkv => h kv (List.mem_filter.mp hkv).1

theorem nameOk_typeConvert (x : Scalar) : NameOk (typeConvert x) := by
  have h1 : NameOk "String".toList := ⟨by decide, by decide⟩
  have h2 : NameOk "Float64".toList := ⟨by decide, by decide⟩
  have h3 : NameOk "Int32".toList := ⟨by decide, by decide⟩
  cases x with
  | str s => exact h1
  | num t f => cases f <;> first | exact h3 | exact h2

theorem nameOk_listType (xs : List Scalar) : NameOk (listType xs) := by
  have h1 : NameOk "String".toList := ⟨by decide, by decide⟩
  have h2 : NameOk "Float64".toList := ⟨by decide, by decide⟩
  have h3 : NameOk "Int32".toList := ⟨by decide, by decide⟩
  unfold listType
  split
  · exact h1
  · split <;> first | exact h2 | exact h3

mutual
theorem buildAttr_ok : (k : Text) → (v : AVal) → NameOk k → ValOk v → ItemOk (buildAttr k v)
  | k, .sc x, hk, hv => by
    simp only [ValOk] at hv
    simp only [buildAttr, ItemOk]
    exact ⟨nameOk_typeConvert x, hk, by intro y hy; simp at hy; subst hy; exact hv⟩
  | k, .list xs, hk, hv => by
    simp only [ValOk] at hv
    simp only [buildAttr, ItemOk]
    exact ⟨nameOk_listType xs, hk, hv⟩
  | k, .dict kvs, hk, hv => by
    simp only [ValOk] at hv
    simp only [buildAttr, ItemOk]
    exact ⟨hk, buildAttrs_ok kvs hv⟩
theorem buildAttrs_ok : (kvs : List (Text × AVal)) → AttrsOk kvs → ItemsOk (buildAttrs kvs)
  | [], _ => by simp [buildAttrs, ItemsOk]
  | (k, v) :: rest, h => by
    simp only [AttrsOk] at h
    simp only [buildAttrs]
    split
    · simp only [ItemsOk]; exact ⟨buildAttr_ok k v h.1 h.2.1, buildAttrs_ok rest h.2.2⟩
    · exact buildAttrs_ok rest h.2.2
end

theorem itemsOk_append (a b : List Item) (ha : ItemsOk a) (hb : ItemsOk b) : ItemsOk (a ++ b) := by
  induction a with
  | nil => simpa using hb
  | cons it more ih =>
    simp only [ItemsOk] at ha
    simp only [List.cons_append, ItemsOk]
    exact ⟨ha.1, ih ha.2⟩

mutual
theorem dasVar_ok : (v : Var) → VarOk v → ItemOk (dasVar v)
  | .mk .struct n a cs, h => by
    simp only [VarOk] at h
    simp only [dasVar, ItemOk]
    exact ⟨h.1, itemsOk_append _ _ (buildAttrs_ok _ (attrsOk_sort a h.2.1)) (dasVars_ok cs h.2.2)⟩
  | .mk .seq n a cs, h => by
    simp only [VarOk] at h
    simp only [dasVar, ItemOk]
    exact ⟨h.1, itemsOk_append _ _ (buildAttrs_ok _ (attrsOk_sort a h.2.1)) (dasVars_ok cs h.2.2)⟩
  | .mk .base n a cs, h => by
    simp only [VarOk] at h
    simp only [dasVar, ItemOk]
    exact ⟨h.1, buildAttrs_ok _ (attrsOk_filter _ _ (attrsOk_sort a h.2))⟩
  | .mk .grid n a cs, h => by
    simp only [VarOk] at h
    simp only [dasVar, ItemOk]
    exact ⟨h.1, buildAttrs_ok _ (attrsOk_filter _ _ (attrsOk_sort a h.2))⟩
theorem dasVars_ok : (vs : List Var) → VarsOk vs → ItemsOk (dasVars vs)
  | [], _ => by simp [dasVars, ItemsOk]
  | v :: rest, h => by
    simp only [VarsOk] at h
    simp only [dasVars, ItemsOk]
    exact ⟨dasVar_ok v h.1, dasVars_ok rest h.2⟩
end

/-- **`parse_das(das(ds))`** for every dataset tree over the DAS-safe domain -/
theorem parse_print (ds : Dataset) (h : DsOk ds) :
    dasParse (dasText ds) = .ok (denoteItems [] (dasItems ds)) := by
  unfold dasText
  exact parse_rendered (dasItems ds)
    (itemsOk_append _ _ (buildAttrs_ok _ (attrsOk_sort _ h.1)) (dasVars_ok _ h.2))

end Pydap.Das
