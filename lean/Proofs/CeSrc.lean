/-
  The source text of the first statement of parsers/__init__.py `parse_ce` (protocol test, separator key, the
  `dap4.ce=` prefix guard), translated on every run by harness/py2lean.py into MiniPy syntax
  (PydapModel/Generated/CeSrc.lean), is the first test of the model `Handler.parseCE` (protocol dap2).
-/
import Proofs.MiniPy
import PydapModel.Handler
import PydapModel.Generated.CeSrc
set_option linter.unusedSimpArgs false
namespace Pydap
open MiniPy

/-- `parse_ce(query_string)` is called with the default `protocol="dap2"` -/
def ceEnv (q : List Char) : Env := [("protocol", .str [100, 97, 112, 50]), ("query_string", .str (codesOf q))]

theorem dap4Prefix_codes : codesOf Handler.dap4Prefix = [100, 97, 112, 52, 46, 99, 101, 61] := by decide

theorem codesOf_take (q : List Char) (n : Nat) : (codesOf q).take n = codesOf (q.take n) := by
  simp [codesOf, List.map_take]

theorem codesOf_length (q : List Char) : (codesOf q).length = q.length := by simp [codesOf]

theorem src_parse_ce_guard_eq (q : List Char) :
    runItem (ceEnv q) Gen.src_parse_ce_guard "query_string"
      = (if q ≠ [] ∧ q.take 8 = Handler.dap4Prefix then .error (.raised "ConstraintExpressionError")
         else .ok (.str (codesOf q))) ∧
    runItem (ceEnv q) Gen.src_parse_ce_guard "key"
      = (if q ≠ [] ∧ q.take 8 = Handler.dap4Prefix then .error (.raised "ConstraintExpressionError")
         else .ok (.str [38])) := by
  unfold Gen.src_parse_ce_guard ceEnv
  have hpre : decide ((codesOf q).take 8 = [100, 97, 112, 52, 46, 99, 101, 61])
      = decide (q.take 8 = Handler.dap4Prefix) := by
    rw [← dap4Prefix_codes, codesOf_take]; exact decide_eq_decide.mpr codesOf_inj
  have hpre' : decide ([100, 97, 112, 52, 46, 99, 101, 61] = (codesOf q).take 8)
      = decide (q.take 8 = Handler.dap4Prefix) := by
    rw [← hpre]; exact decide_eq_decide.mpr eq_comm
  have hlen : decide ((q.length : Int) > 0) = decide (q ≠ []) := by
    cases q <;> simp
  have hlen' : decide ((q.length : Int) ≥ 1) = decide (q ≠ []) := by
    cases q <;> simp <;> omega
  constructor <;>
  · simp (decide := true) only [runItem, exec, eval, bind_ok', lookup_cons_eq, lookup_cons_ne, lookup_setVar_eq,
      lookup_setVar_ne, truthy_bool, asInt_int, if_true, ite_truthy_bool_and, hpre, hpre', codesOf_length, hlen, hlen']
    by_cases h1 : q = [] <;> by_cases h2 : q.take 8 = Handler.dap4Prefix <;>
      simp (decide := true) [h1, h2, lookup_setVar_ne, lookup_cons_ne]

/-- when the interpreted guard raises, the model's `parseCE` answers with the same error class -/
theorem parseCE_guard (q : List Char) (h : q ≠ [] ∧ q.take 8 = Handler.dap4Prefix) :
    Handler.parseCE q = .error .ceError := by
  simp [Handler.parseCE, h]

end Pydap
