/-
  C12 — `unquote (_quote name) = name` for every name that contains no literal percent-escape
  (`%` followed by two hex digits), including names with a passed-through `dap4` prefix.
-/
import Proofs.Quote
namespace Pydap.Quote

/-! ### per-byte facts -/

theorem isHex_ne37 {y : UInt8} (h : isHex y = true) : y ≠ 37 := by
  intro e; subst e; exact absurd h (by decide)

set_option maxRecDepth 100000 in
theorem encB_cases' : ∀ b : UInt8, encB b = [b] ∨
    (encB b = [37, hexUp (b.toNat / 16), hexUp (b.toNat % 16)] ∧
      isHex (hexUp (b.toNat / 16)) = true ∧ isHex (hexUp (b.toNat % 16)) = true ∧
      UInt8.ofNat (16 * hexVal (hexUp (b.toNat / 16)) + hexVal (hexUp (b.toNat % 16))) = b) := by
  apply forall_byte
  decide

/-- a byte is encoded as itself or as a three-byte escape that decodes to it -/
theorem encB_cases (b : UInt8) : encB b = [b] ∨
    ∃ y z, encB b = [37, y, z] ∧ isHex y = true ∧ isHex z = true ∧ UInt8.ofNat (16 * hexVal y + hexVal z) = b := by
  rcases encB_cases' b with h | h
  · exact Or.inl h
  · exact Or.inr ⟨_, _, h⟩

set_option maxRecDepth 100000 in
theorem encB_hex : ∀ b : UInt8, isHex b = true → encB b = [b] := by
  apply forall_byte
  decide

/-- the first two bytes are not both hex digits (short lists: true) -/
def nh2 : Bytes → Bool
  | y :: z :: _ => !(isHex y && isHex z)
  | _ => true

theorem nh2_cons_nonhex {y : UInt8} (h : isHex y = false) (l : Bytes) : nh2 (y :: l) = true := by
  cases l <;> simp [nh2, h]

theorem noLit_cons (x : UInt8) (t : Bytes) :
    noLit (x :: t) = ((!(x == 37) || nh2 t) && noLit t) := by
  match t with
  | [] => simp [noLit, nh2]
  | [y] => simp [noLit, nh2]
  | y :: z :: t' =>
    rw [noLit]
    by_cases hx : x = 37 <;> simp [nh2, hx, Bool.or_assoc]

/-! ### `unq` step lemmas -/

theorem unq_cons_ne {x : UInt8} (h : x ≠ 37) (t : Bytes) : unq (x :: t) = x :: unq t := by
  match t with
  | [] => simp [unq]
  | [y] => simp [unq]
  | y :: z :: t' => rw [unq]; simp [h]

theorem unq_37_nohex {l : Bytes} (h : nh2 l = true) : unq (37 :: l) = 37 :: unq l := by
  match l, h with
  | [], _ => simp [unq]
  | [y], _ => simp [unq]
  | y :: z :: t', h =>
    rw [unq]
    have : ¬ (isHex y = true ∧ isHex z = true) := by
      intro ⟨hy, hz⟩; simp [nh2, hy, hz] at h
    simp [this]

theorem unq_37_hex {y z : UInt8} (hy : isHex y = true) (hz : isHex z = true) (t : Bytes) :
    unq (37 :: y :: z :: t) = UInt8.ofNat (16 * hexVal y + hexVal z) :: unq t := by
  rw [unq]; simp [hy, hz]

/-! ### Lemma A: the three `.replace` passes of `unquote` are absorbed by the percent decoder -/

section A
variable (a b r : UInt8)

theorem rep3_cons_ne {x : UInt8} (h : x ≠ 37) (t : Bytes) :
    rep3 37 a b r (x :: t) = x :: rep3 37 a b r t := by
  match t with
  | [] => simp [rep3]
  | [y] => simp [rep3]
  | y :: z :: t' => rw [rep3]; simp [h]

theorem rep3_head_nonhex (hrh : isHex r = false) {z : UInt8} (hz : isHex z = false) (t : Bytes) :
    ∃ z' t', rep3 37 a b r (z :: t) = z' :: t' ∧ isHex z' = false := by
  match t with
  | [] => exact ⟨z, [], by simp [rep3], hz⟩
  | [y] => exact ⟨z, [y], by simp [rep3], hz⟩
  | y :: w :: t' =>
    rw [rep3]
    split
    · exact ⟨r, _, rfl, hrh⟩
    · exact ⟨z, _, rfl, hz⟩

theorem nh2_rep3 (hrh : isHex r = false) {l : Bytes} (h : nh2 l = true) :
    nh2 (rep3 37 a b r l) = true := by
  match l, h with
  | [], _ => simp [rep3, nh2]
  | [y], _ => simp [rep3, nh2]
  | y :: z :: t, h =>
    by_cases hy : isHex y = true
    · have hz : isHex z = false := by simpa [nh2, hy] using h
      rw [rep3_cons_ne a b r (isHex_ne37 hy)]
      obtain ⟨z', t', e, hz'⟩ := rep3_head_nonhex a b r hrh hz t
      rw [e]
      simp [nh2, hz']
    · have hy' : isHex y = false := by simpa using hy
      obtain ⟨z', t', e, hz'⟩ := rep3_head_nonhex a b r hrh hy' (z :: t)
      rw [e]
      exact nh2_cons_nonhex hz' _

theorem unq_rep3_aux (ha : isHex a = true) (hb : isHex b = true)
    (hr : r = UInt8.ofNat (16 * hexVal a + hexVal b)) (hr37 : r ≠ 37) (hrh : isHex r = false) :
    ∀ (n : Nat) (s : Bytes), s.length ≤ n → unq (rep3 37 a b r s) = unq s := by
  intro n
  induction n with
  | zero =>
    intro s hs
    have : s = [] := List.length_eq_zero_iff.mp (Nat.le_zero.mp hs)
    subst this; simp [rep3]
  | succ n ih =>
    intro s hs
    match s, hs with
    | [], _ => simp [rep3]
    | [x], _ => simp [rep3]
    | [x, y], _ => simp [rep3]
    | x :: y :: z :: t, hs =>
      have ht : t.length ≤ n := by simp at hs; omega
      have hyzt : (y :: z :: t).length ≤ n := by simp at hs ⊢; omega
      by_cases h : x = 37 ∧ y = a ∧ z = b
      · obtain ⟨rfl, rfl, rfl⟩ := h
        rw [rep3]
        simp only [and_self, if_true]
        rw [unq_cons_ne hr37, unq_37_hex ha hb, ih t ht, hr]
      · have e : rep3 37 a b r (x :: y :: z :: t) = x :: rep3 37 a b r (y :: z :: t) := by
          rw [rep3]; simp [h]
        rw [e]
        by_cases hx : x = 37
        · subst hx
          by_cases hyz : isHex y = true ∧ isHex z = true
          · obtain ⟨hy, hz⟩ := hyz
            rw [rep3_cons_ne a b r (isHex_ne37 hy), rep3_cons_ne a b r (isHex_ne37 hz),
              unq_37_hex hy hz, unq_37_hex hy hz, ih t ht]
          · have hn : nh2 (y :: z :: t) = true := by
              cases hy : isHex y <;> cases hz : isHex z <;> simp_all [nh2]
            rw [unq_37_nohex (nh2_rep3 a b r hrh hn), unq_37_nohex hn, ih _ hyzt]
        · rw [unq_cons_ne hx, unq_cons_ne hx, ih _ hyzt]

theorem unq_rep3 (ha : isHex a = true) (hb : isHex b = true)
    (hr : r = UInt8.ofNat (16 * hexVal a + hexVal b)) (hr37 : r ≠ 37) (hrh : isHex r = false)
    (s : Bytes) : unq (rep3 37 a b r s) = unq s :=
  unq_rep3_aux a b r ha hb hr hr37 hrh s.length s (Nat.le_refl _)

end A

/-- `unquote` is plain percent-decoding -/
theorem unquote_eq (s : Str) : unquote s = unq s.flatten := by
  unfold unquote
  rw [unq_rep3 53 68 93 (by decide) (by decide) (by decide) (by decide) (by decide),
    unq_rep3 53 66 91 (by decide) (by decide) (by decide) (by decide) (by decide),
    unq_rep3 50 69 46 (by decide) (by decide) (by decide) (by decide) (by decide)]

/-! ### Lemma B: decoding a partially raw, partially quoted string -/

/-- a source byte tagged `true` is passed through raw, one tagged `false` is quoted -/
def encT (p : Bool × UInt8) : Bytes := if p.1 then [p.2] else encB p.2

theorem encT_cases (p : Bool × UInt8) : encT p = [p.2] ∨
    ∃ y z, encT p = [37, y, z] ∧ isHex y = true ∧ isHex z = true ∧ UInt8.ofNat (16 * hexVal y + hexVal z) = p.2 := by
  obtain ⟨tag, b⟩ := p
  cases tag
  · simpa [encT] using encB_cases b
  · left; simp [encT]

theorem encT_hex (p : Bool × UInt8) (h : isHex p.2 = true) : encT p = [p.2] := by
  obtain ⟨tag, b⟩ := p
  cases tag
  · simpa [encT] using encB_hex b h
  · simp [encT]

/-- the encoding of a non-hex byte starts with a non-hex byte -/
theorem encT_head_nonhex (p : Bool × UInt8) (h : isHex p.2 = false) :
    ∃ y l, encT p = y :: l ∧ isHex y = false := by
  rcases encT_cases p with e | ⟨y, z, e, _⟩
  · exact ⟨_, _, e, h⟩
  · exact ⟨_, _, e, by decide⟩

theorem nh2_enc (L : List (Bool × UInt8)) (h : nh2 (L.map (·.2)) = true) :
    nh2 (L.flatMap encT) = true := by
  match L, h with
  | [], _ => simp [nh2]
  | [c], _ =>
    rcases encT_cases c with e | ⟨y, z, e, _⟩
    · simp [e, nh2]
    · simp [e, nh2]; left; decide
  | c :: d :: L', h =>
    by_cases hc : isHex c.2 = true
    · have hd : isHex d.2 = false := by simpa [nh2, hc] using h
      obtain ⟨y, l, e, hy⟩ := encT_head_nonhex d hd
      simp only [List.flatMap_cons, encT_hex c hc, e]
      simp [nh2, hy]
    · have hc' : isHex c.2 = false := by simpa using hc
      obtain ⟨y, l, e, hy⟩ := encT_head_nonhex c hc'
      simp only [List.flatMap_cons, e, List.cons_append]
      exact nh2_cons_nonhex hy _

theorem unq_enc (L : List (Bool × UInt8)) (h : noLit (L.map (·.2)) = true) :
    unq (L.flatMap encT) = L.map (·.2) := by
  induction L with
  | nil => simp [unq]
  | cons p L' ih =>
    simp only [List.map_cons, noLit_cons, Bool.and_eq_true, Bool.or_eq_true] at h
    obtain ⟨h1, h2⟩ := h
    have ih := ih h2
    simp only [List.flatMap_cons, List.map_cons]
    rcases encT_cases p with e | ⟨y, z, e, hy, hz, hv⟩
    · rw [e]
      by_cases hp : p.2 = 37
      · have hn : nh2 (L'.map (·.2)) = true := by
          rcases h1 with h1 | h1
          · simp [hp] at h1
          · exact h1
        rw [hp]
        show unq (37 :: L'.flatMap encT) = _
        rw [unq_37_nohex (nh2_enc L' hn), ih]
      · show unq (p.2 :: L'.flatMap encT) = _
        rw [unq_cons_ne hp, ih]
    · rw [e]
      show unq (37 :: y :: z :: L'.flatMap encT) = _
      rw [unq_37_hex hy hz, ih, hv]

/-! ### reversibility -/

theorem flatMap_encT_raw (bs : Bytes) : (bs.map (fun b => (true, b))).flatMap encT = bs := by
  induction bs with
  | nil => rfl
  | cons b t ih => simp [encT] at ih ⊢; exact ih

theorem flatMap_encT_quoted (bs : Bytes) : (bs.map (fun b => (false, b))).flatMap encT = Q bs := by
  simp [Q, encT, List.flatMap_map]

/-- decoding `pre ++ Q rest` gives `pre ++ rest` -/
theorem unq_raw_quoted (pre rest : Bytes) (h : noLit (pre ++ rest) = true) :
    unq (pre ++ Q rest) = pre ++ rest := by
  have key := unq_enc (pre.map (fun b => (true, b)) ++ rest.map (fun b => (false, b)))
  have hm : (pre.map (fun b => (true, b)) ++ rest.map (fun b => (false, b))).map (·.2) = pre ++ rest := by
    simp [List.map_map, Function.comp_def]
  rw [hm, List.flatMap_append, flatMap_encT_raw, flatMap_encT_quoted] at key
  exact key h

/-- `unquote ∘ _quote` is the identity on every name without a literal percent-escape
    (the result of `unquote` is given as UTF-8 bytes) -/
theorem quote_reversible (name : Str) (h : noLit name.flatten = true) :
    unquote (quote name) = name.flatten := by
  rw [unquote_eq, quote_eq]
  by_cases hd : name.take 4 == dap4
  · simp only [hd, if_true, List.flatten_append, flatten_chars]
    have hn : name.flatten = (name.take 8).flatten ++ (name.drop 8).flatten := by
      rw [← List.flatten_append, List.take_append_drop]
    rw [hn] at h ⊢
    exact unq_raw_quoted _ _ h
  · simp only [hd, List.flatten_append, flatten_chars]
    have := unq_raw_quoted [] name.flatten (by simpa using h)
    simpa using this

/-- the guard is needed: `%41` quotes to itself and unquotes to `A` -/
example : unquote (quote [[37],[52],[49]]) ≠ ([[37],[52],[49]] : Str).flatten := by decide

/-- non-vacuity: `a .[é%` -/
example : noLit ([[97],[32],[46],[91],[0xc3,0xa9],[37]] : Str).flatten = true := by decide
example : unquote (quote [[97],[32],[46],[91],[0xc3,0xa9],[37]]) =
    ([[97],[32],[46],[91],[0xc3,0xa9],[37]] : Str).flatten := by decide

/-- non-vacuity with a passed-through prefix: `dap4 .[é%` followed by ` .` -/
example : noLit ([[100],[97],[112],[52],[32],[46],[91],[0xc3,0xa9],[37],[32],[46]] : Str).flatten = true := by
  decide
example : quote [[100],[97],[112],[52],[32],[46],[91],[0xc3,0xa9],[37],[32],[46]] =
    [[100],[97],[112],[52],[32],[46],[91],[0xc3,0xa9]] ++ chars [37,37,50,48,37,50,69] := by decide
example : unquote (quote [[100],[97],[112],[52],[32],[46],[91],[0xc3,0xa9],[37],[32],[46]]) =
    ([[100],[97],[112],[52],[32],[46],[91],[0xc3,0xa9],[37],[32],[46]] : Str).flatten := by decide

end Pydap.Quote
