import Proofs.DasStatement
/-! The repaired `add_attributes` cannot raise; attaching the dict a first `add_attributes` left behind gives every
    variable nothing (C08: `add_attributes` consumes its argument). -/
namespace Pydap.Das

theorem nestedStep_ok (A : Dict) (p : List Text) (va : Dict) : ∃ r, nestedStep A p va = .ok r := by
  unfold nestedStep
  repeat' split
  all_goals exact ⟨_, rfl⟩

theorem attachStep_ok (A : Dict) (p : List Text) (init : Dict) : ∃ r, attachStep A p init = .ok r := by
  unfold attachStep
  split <;> exact nestedStep_ok _ _ _

theorem attachAll_ok (ps : List (List Text)) : ∀ A : Dict, ∃ r, attachAll A ps = .ok r := by
  induction ps with
  | nil => intro A; exact ⟨_, rfl⟩
  | cons p ps ih =>
    intro A
    obtain ⟨⟨A1, va⟩, h1⟩ := attachStep_ok A p []
    obtain ⟨⟨A2, out⟩, h2⟩ := ih A1
    exact ⟨(A2, (p, va) :: out), by simp [attachAll, h1, h2]⟩

/-- **the repaired `add_attributes` never raises**, whatever the parsed dict and the dataset tree -/
theorem addAttributes_total (name : Text) (cs : List Var) (A : Dict) : ∃ r, addAttributes name cs A = .ok r := by
  unfold addAttributes
  obtain ⟨⟨A1, vars⟩, h1⟩ := attachAll_ok (walkVars [] cs).reverse (A.filter fun kv => !isGlobalDict kv)
  obtain ⟨⟨A2, g1⟩, h2⟩ := attachStep_ok A1 [name] (mergeGlobals A [])
  exact ⟨⟨dupdate g1 A2, vars⟩, by simp [h1, h2]⟩

/-- a visit whose id names nothing in the dict: neither the dotted id nor its first component is a key -/
theorem attachStep_miss (A : Dict) (n : Text) (rest : List Text)
    (h1 : n ∉ keys A) (h2 : dotted (n :: rest) ∉ keys A) :
    attachStep A (n :: rest) [] = .ok (A, []) := by
  have hd := dget_none_of_not_mem A _ h2
  have hn := dget_none_of_not_mem A _ h1
  cases rest with
  | nil => simp [attachStep, hd, nestedStep, reduceGet, hn]
  | cons r rs =>
    have e1 : (n :: r :: rs).dropLast = n :: (r :: rs).dropLast := by simp [List.dropLast]
    have e2 : (n :: r :: rs).getLast? = (r :: rs).getLast? := by simp [List.getLast?_cons_cons]
    cases hl : (r :: rs).getLast? with
    | none => simp [attachStep, hd, nestedStep, e2, hl]
    | some k => simp [attachStep, hd, nestedStep, e1, e2, hl, reduceGet, getItem, hn]

theorem attachAll_miss (ps : List (List Text)) (A : Dict)
    (h : ∀ p ∈ ps, ∃ n rest, p = n :: rest ∧ n ∉ keys A ∧ dotted p ∉ keys A) :
    attachAll A ps = .ok (A, ps.map fun p => (p, [])) := by
  induction ps with
  | nil => rfl
  | cons p ps ih =>
    obtain ⟨n, rest, rfl, h1, h2⟩ := h p (by simp)
    simp [attachAll, attachStep_miss A n rest h1 h2, ih (fun q hq => h q (by simp [hq]))]

mutual
theorem walkVar_head : (v : Var) → ∀ p ∈ walkVar [] v, ∃ rest, p = v.name :: rest
  | .mk k n a cs => by
    intro p hp
    simp only [walkVar, List.nil_append, List.mem_cons] at hp
    rcases hp with rfl | hp
    · exact ⟨[], rfl⟩
    · rw [walkVars_pre cs [n]] at hp
      simp only [List.mem_map] at hp
      obtain ⟨q, _, rfl⟩ := hp
      exact ⟨q, rfl⟩
theorem walkVars_head : (vs : List Var) → ∀ p ∈ walkVars [] vs, ∃ v ∈ vs, ∃ rest, p = v.name :: rest
  | [] => by intro p hp; simp [walkVars] at hp
  | v :: rest => by
    intro p hp
    simp only [walkVars, List.mem_append] at hp
    rcases hp with hp | hp
    · obtain ⟨r, hr⟩ := walkVar_head v p hp
      exact ⟨v, by simp, r, hr⟩
    · obtain ⟨w, hw, r, hr⟩ := walkVars_head rest p hp
      exact ⟨w, by simp [hw], r, hr⟩
end

/-- every visited id misses a dict whose keys are dot-free and differ from the top-level variable names -/
theorem visit_miss (cs : List Var) (R : Dict) (hnd : ∀ v ∈ cs, v.name ∉ keys R) (hdot : NoDot (keys R)) :
    attachAll R (walkVars [] cs).reverse = .ok (R, (walkVars [] cs).reverse.map fun p => (p, [])) := by
  apply attachAll_miss
  intro p hp
  obtain ⟨v, hv, rest, rfl⟩ := walkVars_head cs p (List.mem_reverse.mp hp)
  refine ⟨v.name, rest, rfl, hnd v hv, ?_⟩
  cases rest with
  | nil => simpa [dotted] using hnd v hv
  | cons r rs => exact fun hk => hdot _ hk (dotted_has_dot v.name r rs)

end Pydap.Das
