/-
  Lemmas for `C10_decode_order`: `get_groups` on a rendered spec, the names pydap splits into paths, and the
  assembly of the dataset tree as an instance of `buildTree_walk_perm` (Proofs/DmrTree.lean).
-/
import Proofs.DmrParse
import Proofs.DmrTree
import Proofs.DmrSort
namespace Pydap.Dmr

/-- group paths in `get_groups` order (depth first, a group before its subgroups) -/
def specGroups (path : List Str) : Spec → List (List Str)
  | .nil => []
  | .dim _ _ rest => specGroups path rest
  | .var _ rest => specGroups path rest
  | .attr _ rest => specGroups path rest
  | .group n body rest => (path ++ [n]) :: (specGroups (path ++ [n]) body ++ specGroups path rest)

theorem ggl_cons_other (g : XNode) (rest : List XNode) (pfx : Str) (h : g.tag ≠ "Group".toList) :
    getGroupsList (g :: rest) pfx = getGroupsList rest pfx := by
  rw [getGroupsList, if_neg h, List.nil_append]

theorem gg_items (s : Spec) (h : s.ok) : ∀ path,
    getGroupsList (renderItems s) (pathStr path ++ ['/']) = (specGroups path s).map pathStr := by
  induction s with
  | nil => intro _; rfl
  | dim n sz rest ih =>
    intro path; rw [renderItems, ggl_cons_other _ _ _ (by simp [XNode.tag]), specGroups, ih h.2]
  | var v rest ih =>
    intro path
    have e : (renderVar v).tag ≠ "Group".toList := by
      intro e
      have ht : (renderVar v).tag ∈ varTags := h.1.1
      rw [e] at ht
      exact group_tag ht
    rw [renderItems, ggl_cons_other _ _ _ e, specGroups, ih h.2]
  | attr a rest ih =>
    intro path; rw [renderItems, ggl_cons_other _ _ _ (by simp [renderAttr, XNode.tag]), specGroups, ih h.2]
  | group g body rest ihb ihr =>
    intro path
    rw [renderItems, getGroupsList, if_pos (by simp [XNode.tag]), specGroups, ihr h.2.2]
    have hgg : ∀ pfx, getGroups (XNode.mk "Group".toList [("name".toList, g)] none (renderItems body)) pfx
        = getGroupsList (renderItems body) pfx := by intro pfx; rw [getGroups]
    have hn : (XNode.mk "Group".toList [("name".toList, g)] none (renderItems body)).get "name".toList = some g := by
      simp [XNode.get, XNode.attrs, List.lookup]
    have hp : pathStr path ++ ['/'] ++ g = pathStr (path ++ [g]) := by rw [pathStr_append]; simp
    simp only [hn, Option.getD_some, hp, hgg, ihb h.2.1 (path ++ [g])]
    simp

theorem getGroups_root (pre : List (Str × Str)) (name : Str) (s : Spec) (h : s.ok) :
    getGroups (renderRoot pre name s) ['/'] = (specGroups [] s).map pathStr := by
  rw [renderRoot, getGroups]
  exact gg_items s h []

/-! ### `pathParts (_quote name)` of the names pydap builds -/

theorem quoteName_append (a b : Str) : quoteName (a ++ b) = quoteName a ++ quoteName b := by
  simp [quoteName]

theorem quoteName_pathStr (p : List Str) (h : ∀ q ∈ p, plainName q) : quoteName (pathStr p) = pathStr p := by
  induction p with
  | nil => rfl
  | cons a p ih =>
    have ha := h a (by simp)
    have : quoteName ['/'] = ['/'] := by decide
    rw [pathStr, List.cons_append, ← List.singleton_append, quoteName_append, quoteName_append, this,
      quoteName_plain a ha.2, ih (fun q hq => h q (by simp [hq]))]

theorem filter_ne_nil (p : List Str) (h : ∀ q ∈ p, q ≠ []) : p.filter (· ≠ []) = p := by
  apply List.filter_eq_self.mpr
  intro q hq
  simpa using h q hq

theorem pathParts_pathStr (p : List Str) (h : ∀ q ∈ p, plainName q) : pathParts (quoteName (pathStr p)) = p := by
  rw [quoteName_pathStr p h]
  unfold pathParts
  cases p with
  | nil => decide
  | cons a p =>
    rw [split_pathStr (a :: p) (by simp) (fun q hq => plainName_noSlash (h q hq))]
    rw [List.filter_cons_of_neg (by simp)]
    exact filter_ne_nil _ (fun q hq => (h q hq).1)

theorem pathParts_key (path : List Str) (n : Str) (hp : ∀ q ∈ path, plainName q) (hn : plainName n) :
    pathParts (quoteName (keyOf path n)) = path ++ [n] := by
  unfold keyOf
  by_cases e : path = []
  · subst e
    rw [if_pos rfl, quoteName_plain n hn.2]
    unfold pathParts
    rw [split_noSlash n (plainName_noSlash hn)]
    simp [hn.1]
  · rw [if_neg e]
    apply pathParts_pathStr
    intro q hq
    rcases List.mem_append.mp hq with h | h
    · exact hp q h
    · simp at h; subst h; exact hn

theorem pf_mono (seen seen' : List (List Str)) (l : List (List Str)) (hs : ∀ x ∈ seen, x ∈ seen')
    (h : ParentsFirst seen l) : ParentsFirst seen' l := by
  induction l generalizing seen seen' with
  | nil => trivial
  | cons g gs ih =>
    obtain ⟨h1, h2, h3⟩ := h
    refine ⟨h1, ?_, ih (seen ++ [g]) (seen' ++ [g]) ?_ h3⟩
    · rcases h2 with e | m
      · exact Or.inl e
      · exact Or.inr (hs _ m)
    · intro x hx
      rcases List.mem_append.mp hx with m | m
      · exact List.mem_append.mpr (Or.inl (hs x m))
      · exact List.mem_append.mpr (Or.inr m)

theorem pf_append (seen a b : List (List Str)) (ha : ParentsFirst seen a) (hb : ParentsFirst (seen ++ a) b) :
    ParentsFirst seen (a ++ b) := by
  induction a generalizing seen with
  | nil => simpa using hb
  | cons g gs ih =>
    obtain ⟨h1, h2, h3⟩ := ha
    refine ⟨h1, h2, ih (seen ++ [g]) h3 ?_⟩
    simpa using hb

theorem pf_spec (s : Spec) : ∀ (path : List Str) (seen : List (List Str)), (path = [] ∨ path ∈ seen) →
    ParentsFirst seen (specGroups path s) := by
  induction s with
  | nil => intro _ _ _; trivial
  | dim _ _ rest ih => intro path seen h; exact ih path seen h
  | var _ rest ih => intro path seen h; exact ih path seen h
  | attr _ rest ih => intro path seen h; exact ih path seen h
  | group n body rest ihb ihr =>
    intro path seen h
    rw [specGroups]
    refine ⟨by simp, ?_, ?_⟩
    · rw [List.dropLast_concat]; exact h
    · apply pf_append
      · exact ihb (path ++ [n]) _ (Or.inr (by simp))
      · apply ihr path
        rcases h with e | m
        · exact Or.inl e
        · exact Or.inr (by simp [m])

theorem specVars_parent (s : Spec) : ∀ (path : List Str), ∀ pv ∈ specVars path s,
    pv.1 = path ∨ pv.1 ∈ specGroups path s := by
  induction s with
  | nil => intro _ pv h; cases h
  | dim _ _ rest ih => intro path pv h; exact ih path pv h
  | attr _ rest ih => intro path pv h; exact ih path pv h
  | var v rest ih =>
    intro path pv h
    rw [specVars] at h
    rcases List.mem_cons.mp h with rfl | h'
    · exact Or.inl rfl
    · exact ih path pv h'
  | group n body rest ihb ihr =>
    intro path pv h
    rw [specVars] at h
    rw [specGroups]
    rcases List.mem_append.mp h with hb | hr
    · rcases ihb (path ++ [n]) pv hb with e | m
      · exact Or.inr (by simp [e])
      · exact Or.inr (by simp [m])
    · rcases ihr path pv hr with e | m
      · exact Or.inl e
      · exact Or.inr (by simp [m])

theorem specGroups_plain (s : Spec) (h : s.ok) : ∀ (path : List Str), (∀ q ∈ path, plainName q) →
    ∀ g ∈ specGroups path s, ∀ q ∈ g, plainName q := by
  induction s with
  | nil => intro _ _ g hg; cases hg
  | dim _ _ rest ih => intro path hp g hg; exact ih h.2 path hp g hg
  | var _ rest ih => intro path hp g hg; exact ih h.2 path hp g hg
  | attr _ rest ih => intro path hp g hg; exact ih h.2 path hp g hg
  | group n body rest ihb ihr =>
    intro path hp g hg
    have hp' : ∀ q ∈ path ++ [n], plainName q := by
      intro q hq
      rcases List.mem_append.mp hq with hq | hq
      · exact hp q hq
      · simp at hq; subst hq; exact h.1
    rw [specGroups] at hg
    rcases List.mem_cons.mp hg with rfl | hg'
    · exact hp'
    · rcases List.mem_append.mp hg' with hb | hr
      · exact ihb h.2.1 _ hp' g hb
      · exact ihr h.2.2 path hp g hr

theorem foldl_congr_mem {α β} (f g : β → α → β) (l : List α) (h : ∀ x ∈ l, ∀ t, f t x = g t x) (t : β) :
    l.foldl f t = l.foldl g t := by
  induction l generalizing t with
  | nil => rfl
  | cons x xs ih =>
    simp only [List.foldl_cons]
    rw [h x (by simp) t]
    exact ih (fun y hy => h y (by simp [hy])) _

/-- full path of a declared variable -/
def nodePath (pv : List Str × SVar) : List Str := pv.1 ++ [pv.2.name]

/-- no two declarations (groups or variables) share a full path -/
def distinctNodes (s : Spec) : Prop := (specGroups [] s ++ (specVars [] s).map nodePath).Nodup

theorem distinctVars_of_nodes (s : Spec) (hok : s.ok) (h : distinctNodes s) : distinctVars s := by
  unfold distinctVars
  have hnil : ∀ q ∈ ([] : List Str), plainName q := by intro q hq; cases hq
  have hv : ((specVars [] s).map nodePath).Nodup := (List.nodup_append.mp h).2.1
  apply nodup_map_of_inj _ _ _ hv
  intro a ha b hb e
  obtain ⟨ha1, ha2, _⟩ := specVars_mem s hok [] hnil a ha
  obtain ⟨hb1, hb2, _⟩ := specVars_mem s hok [] hnil b hb
  have hall : ∀ (pv : List Str × SVar), (∀ q ∈ pv.1, plainName q) → pv.2.ok → ∀ q ∈ nodePath pv, '/' ∉ q := by
    intro pv h1 h2 q hq
    rcases List.mem_append.mp hq with m | m
    · exact plainName_noSlash (h1 q m)
    · simp at m; subst m; exact plainName_noSlash h2.2.1
  have s1 := split_pathStr (nodePath a) (by simp [nodePath]) (hall a ha1 ha2)
  have s2 := split_pathStr (nodePath b) (by simp [nodePath]) (hall b hb1 hb2)
  have e' : pathStr (nodePath a) = pathStr (nodePath b) := e
  rw [e'] at s1
  have := s1.symm.trans s2
  simpa using this

theorem datasetWalk_perm (pre : List (Str × Str)) (name : Str) (s : Spec)
    (hok : s.ok) (hres : refsResolve s) (hn : distinctNodes s) (hd : distinctDims s) :
    ∃ ws, datasetWalk (renderRoot pre name s) = .ok ws ∧ ws.Perm (expectVars s) := by
  have hv := distinctVars_of_nodes s hok hn
  have hnil : ∀ q ∈ ([] : List Str), plainName q := by intro q hq; cases hq
  unfold datasetWalk
  rw [parseVars_render pre name s hok hres hv hd, getGroups_root pre name s hok]
  refine ⟨_, rfl, ?_⟩
  unfold buildTree
  simp only []
  -- the two folds, on paths
  have hg : ((specGroups [] s).map pathStr).foldl (fun t g => insertAt (pathParts (quoteName g)) Leaf.group t) Forest.nil
      = (specGroups [] s).foldl (fun t g => insertAt g Leaf.group t) Forest.nil := by
    rw [List.foldl_map]
    apply foldl_congr_mem
    intro g hg t
    rw [pathParts_pathStr g (specGroups_plain s hok [] hnil g hg)]
  rw [hg]
  have hvv : (expectVars s).foldl (fun t r => insertAt (pathParts (quoteName r.key)) (Leaf.var r) t)
        ((specGroups [] s).foldl (fun t g => insertAt g Leaf.group t) Forest.nil)
      = ((specVars [] s).map fun pv => (nodePath pv, expectVar pv.1 pv.2)).foldl (fun t v => insertAt v.1 (Leaf.var v.2) t)
        ((specGroups [] s).foldl (fun t g => insertAt g Leaf.group t) Forest.nil) := by
    unfold expectVars
    rw [List.foldl_map, List.foldl_map]
    apply foldl_congr_mem
    intro pv hpv t
    obtain ⟨h1, h2, _⟩ := specVars_mem s hok [] hnil pv hpv
    simp only [expectVar, nodePath]
    rw [pathParts_key pv.1 pv.2.name h1 h2.2.1]
  rw [hvv]
  have := buildTree_walk_perm (specGroups [] s) ((specVars [] s).map fun pv => (nodePath pv, expectVar pv.1 pv.2))
    (by simpa [distinctNodes, List.map_map, Function.comp_def] using hn)
    (pf_spec s [] [] (Or.inl rfl))
    (by
      intro v hvm
      obtain ⟨pv, hpv, rfl⟩ := List.mem_map.mp hvm
      refine ⟨by simp [nodePath], ?_⟩
      simp only [nodePath, List.dropLast_concat]
      rcases specVars_parent s [] pv hpv with e | m
      · exact Or.inl e
      · exact Or.inr m)
  simpa [expectVars, List.map_map, Function.comp_def] using this

theorem getVariables_root (pre : List (Str × Str)) (name : Str) (s : Spec) (hok : s.ok) :
    getVariables (renderRoot pre name s) [] = (specVars [] s).map entryOf := by
  have hlk := lookup_name_isSome pre name
  rw [renderRoot, getVariables]
  cases hl : (pre ++ [("name".toList, name)]).lookup "name".toList with
  | none => rw [hl] at hlk; cases hlk
  | some g => simp only [ne_eq, not_true_eq_false, if_false]; exact gv_items s [] hok

theorem varKeys_nodup (s : Spec) (hok : s.ok) (hv : distinctVars s) :
    (((specVars [] s).map entryOf).map (·.1)).Nodup := by
  have hnil : ∀ q ∈ ([] : List Str), plainName q := by intro q hq; cases hq
  rw [List.map_map]
  apply nodup_map_of_inj _ _ _ hv
  intro a ha b hb e
  exact keyOf_inj _ _ _ _ (specVars_mem s hok [] hnil a ha).2.1.2.1 (specVars_mem s hok [] hnil b hb).2.1.2.1 e

theorem walkKey_expect (path : List Str) (v : SVar) (hn : plainName v.name) :
    walkKey (expectVar path v) = keyOf path v.name := by
  unfold walkKey expectVar keyOf
  by_cases e : path = []
  · simp [e, quoteName_plain v.name hn.2]
  · simp [e, quoteName_plain v.name hn.2, fqn, pathStr_append]

theorem quoteName_key (path : List Str) (n : Str) (hp : ∀ q ∈ path, plainName q) (hn : plainName n) :
    quoteName (keyOf path n) = keyOf path n := by
  unfold keyOf
  by_cases e : path = []
  · rw [if_pos e]; exact quoteName_plain n hn.2
  · rw [if_neg e]
    apply quoteName_pathStr
    intro q hq
    rcases List.mem_append.mp hq with h | h
    · exact hp q h
    · simp at h; subst h; exact hn

theorem decodeOrder_render (pre : List (Str × Str)) (name : Str) (s : Spec)
    (hok : s.ok) (hres : refsResolve s) (hn : distinctNodes s) (hd : distinctDims s) :
    decodeOrder (renderRoot pre name s) = .ok (expectVars s) := by
  have hv := distinctVars_of_nodes s hok hn
  have hnil : ∀ q ∈ ([] : List Str), plainName q := by intro q hq; cases hq
  obtain ⟨ws, hws, hperm⟩ := datasetWalk_perm pre name s hok hres hn hd
  unfold decodeOrder
  rw [hws, getVariables_root pre name s hok, dictOfLog_nodup _ (varKeys_nodup s hok hv)]
  have hq : ((specVars [] s).map entryOf).map (fun kv => quoteName kv.1) = ((specVars [] s).map entryOf).map (·.1) := by
    rw [List.map_map, List.map_map]
    apply List.map_congr_left
    intro pv hpv
    obtain ⟨h1, h2, _⟩ := specVars_mem s hok [] hnil pv hpv
    exact quoteName_key pv.1 pv.2.name h1 h2.2.1
  rw [hq]
  simp only [bind, Except.bind, pure, Except.pure]
  congr 1
  apply sortBy_perm_eq walkKey _ _ _ _ (varKeys_nodup s hok hv) hperm
  unfold expectVars
  rw [List.map_map, List.map_map]
  apply List.map_congr_left
  intro pv hpv
  simp only [Function.comp, entryOf]
  exact walkKey_expect pv.1 pv.2 (specVars_mem s hok [] hnil pv hpv).2.1.2.1

end Pydap.Dmr
