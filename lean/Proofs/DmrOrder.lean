/-
  Lemmas for `C10_decode_order`: `get_groups` on a rendered spec, the names pydap splits into paths, and the
  assembly of the dataset tree as an instance of `buildTree_walk_perm` (Proofs/DmrTree.lean).
-/
import Proofs.DmrParse
import Proofs.DmrTree
import Proofs.DmrSort
namespace Pydap.Dmr

/-- group paths as declared, in `get_groups` order (depth first, a group before its subgroups) -/
def specGroupsRaw (path : List Str) : Spec → List (List Str)
  | .nil => []
  | .dim _ _ rest => specGroupsRaw path rest
  | .var _ rest => specGroupsRaw path rest
  | .attr _ rest => specGroupsRaw path rest
  | .group n body rest => (path ++ [n]) :: (specGroupsRaw (path ++ [n]) body ++ specGroupsRaw path rest)

/-- the same group paths as pydap stores them (every name quoted, as in `specVars`) -/
def specGroups (path : List Str) : Spec → List (List Str)
  | .nil => []
  | .dim _ _ rest => specGroups path rest
  | .var _ rest => specGroups path rest
  | .attr _ rest => specGroups path rest
  | .group n body rest =>
    (path ++ [quoteName n]) :: (specGroups (path ++ [quoteName n]) body ++ specGroups path rest)

theorem specGroupsRaw_map (s : Spec) : ∀ path : List Str,
    (specGroupsRaw path s).map (List.map quoteName) = specGroups (path.map quoteName) s := by
  induction s with
  | nil => intro _; rfl
  | dim _ _ rest ih => intro path; exact ih path
  | var _ rest ih => intro path; exact ih path
  | attr _ rest ih => intro path; exact ih path
  | group n body rest ihb ihr =>
    intro path
    simp only [specGroupsRaw, specGroups, List.map_cons, List.map_append, ihr path]
    have := ihb (path ++ [n])
    simp only [List.map_append, List.map_cons, List.map_nil] at this
    rw [this]
    simp

theorem specGroupsRaw_good (s : Spec) (h : s.ok) : ∀ (path : List Str), (∀ q ∈ path, goodName q) →
    ∀ g ∈ specGroupsRaw path s, ∀ q ∈ g, goodName q := by
  induction s with
  | nil => intro _ _ g hg; cases hg
  | dim _ _ rest ih => intro path hp g hg; exact ih h.2 path hp g hg
  | var _ rest ih => intro path hp g hg; exact ih h.2 path hp g hg
  | attr _ rest ih => intro path hp g hg; exact ih h.2 path hp g hg
  | group n body rest ihb ihr =>
    intro path hp g hg
    have hp' : ∀ q ∈ path ++ [n], goodName q := by
      intro q hq
      rcases List.mem_append.mp hq with hq | hq
      · exact hp q hq
      · simp at hq; subst hq; exact h.1
    rw [specGroupsRaw] at hg
    rcases List.mem_cons.mp hg with rfl | hg'
    · exact hp'
    · rcases List.mem_append.mp hg' with hb | hr
      · exact ihb h.2.1 _ hp' g hb
      · exact ihr h.2.2 path hp g hr

theorem ggl_cons_other (g : XNode) (rest : List XNode) (pfx : Str) (h : g.tag ≠ "Group".toList) :
    getGroupsList (g :: rest) pfx = getGroupsList rest pfx := by
  rw [getGroupsList, if_neg h, List.nil_append]

theorem gg_items (s : Spec) (h : s.ok) : ∀ path,
    getGroupsList (renderItems s) (pathStr path ++ ['/']) = (specGroupsRaw path s).map pathStr := by
  induction s with
  | nil => intro _; rfl
  | dim n sz rest ih =>
    intro path; rw [renderItems, ggl_cons_other _ _ _ (by simp [XNode.tag]), specGroupsRaw, ih h.2]
  | var v rest ih =>
    intro path
    have e : (renderVar v).tag ≠ "Group".toList := by
      intro e
      have ht : (renderVar v).tag ∈ varTags := h.1.1
      rw [e] at ht
      exact group_tag ht
    rw [renderItems, ggl_cons_other _ _ _ e, specGroupsRaw, ih h.2]
  | attr a rest ih =>
    intro path; rw [renderItems, ggl_cons_other _ _ _ (by simp [renderAttr, XNode.tag]), specGroupsRaw, ih h.2]
  | group g body rest ihb ihr =>
    intro path
    rw [renderItems, getGroupsList, if_pos (by simp [XNode.tag]), specGroupsRaw, ihr h.2.2]
    have hgg : ∀ pfx, getGroups (XNode.mk "Group".toList [("name".toList, g)] none (renderItems body)) pfx
        = getGroupsList (renderItems body) pfx := by intro pfx; rw [getGroups]
    have hn : (XNode.mk "Group".toList [("name".toList, g)] none (renderItems body)).get "name".toList = some g := by
      simp [XNode.get, XNode.attrs, List.lookup]
    have hp : pathStr path ++ ['/'] ++ g = pathStr (path ++ [g]) := by rw [pathStr_append]; simp
    simp only [hn, Option.getD_some, hp, hgg, ihb h.2.1 (path ++ [g])]
    simp

theorem getGroups_root (pre : List (Str × Str)) (name : Str) (s : Spec) (h : s.ok) :
    getGroups (renderRoot pre name s) ['/'] = (specGroupsRaw [] s).map pathStr := by
  rw [renderRoot, getGroups]
  exact gg_items s h []

/-! ### `pathParts (_quote name)` of the names pydap builds -/

theorem qn_pathStr (p : List Str) : qn (pathStr p) = pathStr (p.map qn) := by
  induction p with
  | nil => rfl
  | cons a p ih =>
    show qn (('/' :: a) ++ pathStr p) = _
    rw [qn_append, qn_cons, qc_slash, ih]; rfl

theorem isBytes_pathStr (p : List Str) (h : ∀ q ∈ p, isBytes q) : isBytes (pathStr p) := by
  induction p with
  | nil => intro c hc; cases hc
  | cons a p ih =>
    intro c hc
    simp only [pathStr, List.mem_cons, List.mem_append] at hc
    rcases hc with (rfl | hc) | hc
    · decide
    · exact h a (by simp) c hc
    · exact ih (fun q hq => h q (by simp [hq])) c hc

theorem filter_ne_nil (p : List Str) (h : ∀ q ∈ p, q ≠ []) : p.filter (· ≠ []) = p := by
  apply List.filter_eq_self.mpr
  intro q hq
  simpa using h q hq

theorem pathParts_pathStr (p : List Str) (h : ∀ q ∈ p, segName q) : pathParts (pathStr p) = p := by
  unfold pathParts
  cases p with
  | nil => decide
  | cons a p =>
    rw [split_pathStr (a :: p) (by simp) (fun q hq => segName_noSlash (h q hq))]
    rw [List.filter_cons_of_neg (by simp)]
    exact filter_ne_nil _ (fun q hq => (h q hq).1)

/-- `_quote` of a path of names: every component quoted, the separators kept -/
theorem quoteName_pathStr (p : List Str) (h : ∀ q ∈ p, goodName q) :
    quoteName (pathStr p) = pathStr (p.map quoteName) := by
  have hm : p.map quoteName = p.map qn := List.map_congr_left (fun q hq => goodName_quote (h q hq))
  cases p with
  | nil => exact quoteName_eq_qn [] (by intro c hc; cases hc) (by decide)
  | cons a p =>
    rw [hm, ← qn_pathStr]
    have hb := isBytes_pathStr (a :: p) (fun q hq => (h q hq).2.2.1)
    rw [pathStr] at hb ⊢
    rw [List.cons_append, quoteName_slash _ (fun c hc => hb c (by simp [hc])), qn_cons, qc_slash]; rfl

/-- the path under which `createGroup(_quote(fqname))` stores a group -/
theorem pathParts_group (g : List Str) (h : ∀ q ∈ g, goodName q) :
    pathParts (quoteName (pathStr g)) = g.map quoteName := by
  rw [quoteName_pathStr g h]
  apply pathParts_pathStr
  intro q hq
  obtain ⟨r, hr, rfl⟩ := List.mem_map.mp hq
  exact (goodName_qseg (h r hr)).1

theorem map_qn_fix (p : List Str) (h : ∀ q ∈ p, qseg q) : p.map qn = p := by
  induction p with
  | nil => rfl
  | cons a p ih => rw [List.map_cons, (h a (by simp)).2.2.1, ih (fun q hq => h q (by simp [hq]))]

/-- `_quote` of a variable key: the (already quoted) group path is kept, the name is quoted -/
theorem quoteName_key (path : List Str) (n : Str) (hp : ∀ q ∈ path, qseg q) (hn : goodName n) :
    quoteName (keyOf path n) = keyOf path (quoteName n) := by
  unfold keyOf
  by_cases e : path = []
  · rw [if_pos e, if_pos e]
  · rw [if_neg e, if_neg e]
    cases path with
    | nil => exact absurd rfl e
    | cons a p =>
      have hb := isBytes_pathStr ((a :: p) ++ [n]) (by
        intro q hq
        rcases List.mem_append.mp hq with m | m
        · exact (hp q m).2.1
        · simp at m; subst m; exact hn.2.2.1)
      unfold fqn
      rw [List.cons_append, pathStr] at hb ⊢
      rw [List.cons_append, quoteName_slash _ (fun c hc => hb c (by simp [hc]))]
      have hq : qn ('/' :: (a ++ pathStr (p ++ [n]))) = '/' :: qn (a ++ pathStr (p ++ [n])) := by
        rw [qn_cons, qc_slash]; rfl
      rw [← hq]
      have : '/' :: (a ++ pathStr (p ++ [n])) = pathStr ((a :: p) ++ [n]) := by simp [pathStr]
      rw [this, qn_pathStr, List.map_append, map_qn_fix (a :: p) hp, goodName_quote hn]
      rfl

theorem pathParts_key (path : List Str) (n : Str) (hp : ∀ q ∈ path, qseg q) (hn : goodName n) :
    pathParts (quoteName (keyOf path n)) = path ++ [quoteName n] := by
  rw [quoteName_key path n hp hn]
  have hq := (goodName_qseg hn).1
  unfold keyOf
  by_cases e : path = []
  · subst e
    rw [if_pos rfl]
    unfold pathParts
    rw [split_noSlash _ (segName_noSlash hq)]
    simp [hq.1]
  · rw [if_neg e]
    apply pathParts_pathStr
    intro q hq'
    rcases List.mem_append.mp hq' with h | h
    · exact (hp q h).1
    · simp at h; subst h; exact hq

theorem pf_mono (seen seen' : List (List Str)) (l : List (List Str)) (hs : ∀ x ∈ seen, x ∈ seen')
    (h : ParentsFirst seen l) : ParentsFirst seen' l := by
  induction l generalizing seen seen' with
  | nil => trivial
  | cons g gs ih =>
    obtain ⟨h1, h2, h3⟩ := h
    refine ⟨h1, ?_, ih (seen ++ [g]) (seen' ++ [g]) ?_ h3⟩
    · rcases h2 with e | m
      · exact Or.inl e
      · exact Or.inr (hs _ m)
    · intro x hx
      rcases List.mem_append.mp hx with m | m
      · exact List.mem_append.mpr (Or.inl (hs x m))
      · exact List.mem_append.mpr (Or.inr m)

theorem pf_append (seen a b : List (List Str)) (ha : ParentsFirst seen a) (hb : ParentsFirst (seen ++ a) b) :
    ParentsFirst seen (a ++ b) := by
  induction a generalizing seen with
  | nil => simpa using hb
  | cons g gs ih =>
    obtain ⟨h1, h2, h3⟩ := ha
    refine ⟨h1, h2, ih (seen ++ [g]) h3 ?_⟩
    simpa using hb

theorem pf_spec (s : Spec) : ∀ (path : List Str) (seen : List (List Str)), (path = [] ∨ path ∈ seen) →
    ParentsFirst seen (specGroups path s) := by
  induction s with
  | nil => intro _ _ _; trivial
  | dim _ _ rest ih => intro path seen h; exact ih path seen h
  | var _ rest ih => intro path seen h; exact ih path seen h
  | attr _ rest ih => intro path seen h; exact ih path seen h
  | group n body rest ihb ihr =>
    intro path seen h
    rw [specGroups]
    refine ⟨by simp, ?_, ?_⟩
    · rw [List.dropLast_concat]; exact h
    · apply pf_append
      · exact ihb (path ++ [quoteName n]) _ (Or.inr (by simp))
      · apply ihr path
        rcases h with e | m
        · exact Or.inl e
        · exact Or.inr (by simp [m])

theorem specVars_parent (s : Spec) : ∀ (path : List Str), ∀ pv ∈ specVars path s,
    pv.1 = path ∨ pv.1 ∈ specGroups path s := by
  induction s with
  | nil => intro _ pv h; cases h
  | dim _ _ rest ih => intro path pv h; exact ih path pv h
  | attr _ rest ih => intro path pv h; exact ih path pv h
  | var v rest ih =>
    intro path pv h
    rw [specVars] at h
    rcases List.mem_cons.mp h with rfl | h'
    · exact Or.inl rfl
    · exact ih path pv h'
  | group n body rest ihb ihr =>
    intro path pv h
    rw [specVars] at h
    rw [specGroups]
    rcases List.mem_append.mp h with hb | hr
    · rcases ihb (path ++ [quoteName n]) pv hb with e | m
      · exact Or.inr (by simp [e])
      · exact Or.inr (by simp [m])
    · rcases ihr path pv hr with e | m
      · exact Or.inl e
      · exact Or.inr (by simp [m])

theorem specGroups_qseg (s : Spec) (h : s.ok) : ∀ (path : List Str), (∀ q ∈ path, qseg q) →
    ∀ g ∈ specGroups path s, ∀ q ∈ g, qseg q := by
  induction s with
  | nil => intro _ _ g hg; cases hg
  | dim _ _ rest ih => intro path hp g hg; exact ih h.2 path hp g hg
  | var _ rest ih => intro path hp g hg; exact ih h.2 path hp g hg
  | attr _ rest ih => intro path hp g hg; exact ih h.2 path hp g hg
  | group n body rest ihb ihr =>
    intro path hp g hg
    have hp' : ∀ q ∈ path ++ [quoteName n], qseg q := by
      intro q hq
      rcases List.mem_append.mp hq with hq | hq
      · exact hp q hq
      · simp at hq; subst hq; exact goodName_qseg h.1
    rw [specGroups] at hg
    rcases List.mem_cons.mp hg with rfl | hg'
    · exact hp'
    · rcases List.mem_append.mp hg' with hb | hr
      · exact ihb h.2.1 _ hp' g hb
      · exact ihr h.2.2 path hp g hr

theorem foldl_congr_mem {α β} (f g : β → α → β) (l : List α) (h : ∀ x ∈ l, ∀ t, f t x = g t x) (t : β) :
    l.foldl f t = l.foldl g t := by
  induction l generalizing t with
  | nil => rfl
  | cons x xs ih =>
    simp only [List.foldl_cons]
    rw [h x (by simp) t]
    exact ih (fun y hy => h y (by simp [hy])) _

/-- full path of a declared variable as the dataset stores it: quoted group path, quoted name -/
def nodePath (pv : List Str × SVar) : List Str := pv.1 ++ [quoteName pv.2.name]

/-- no two declarations (groups or variables) share a stored full path -/
def distinctNodes (s : Spec) : Prop := (specGroups [] s ++ (specVars [] s).map nodePath).Nodup

theorem hnilq : ∀ q ∈ ([] : List Str), qseg q := by intro q hq; cases hq

theorem distinctVars_of_nodes (s : Spec) (hok : s.ok) (h : distinctNodes s) : distinctVars s := by
  unfold distinctVars
  have hv : ((specVars [] s).map nodePath).Nodup := (List.nodup_append.mp h).2.1
  apply nodup_map_of_inj _ _ _ hv
  intro a ha b hb e
  obtain ⟨ha1, ha2, _⟩ := specVars_mem s hok [] hnilq a ha
  obtain ⟨hb1, hb2, _⟩ := specVars_mem s hok [] hnilq b hb
  have hall : ∀ (pv : List Str × SVar), (∀ q ∈ pv.1, qseg q) → pv.2.ok → ∀ q ∈ pv.1 ++ [pv.2.name], '/' ∉ q := by
    intro pv h1 h2 q hq
    rcases List.mem_append.mp hq with m | m
    · exact segName_noSlash (h1 q m).1
    · simp at m; subst m; exact h2.2.1.2.1
  have s1 := split_pathStr (a.1 ++ [a.2.name]) (by simp) (hall a ha1 ha2)
  have s2 := split_pathStr (b.1 ++ [b.2.name]) (by simp) (hall b hb1 hb2)
  have e' : pathStr (a.1 ++ [a.2.name]) = pathStr (b.1 ++ [b.2.name]) := e
  rw [e'] at s1
  have := s1.symm.trans s2
  have hh : a.1 ++ [a.2.name] = b.1 ++ [b.2.name] := by simpa using this
  have hl := List.append_inj' hh rfl
  simp only [nodePath]
  rw [hl.1]
  have : a.2.name = b.2.name := by simpa using hl.2
  rw [this]

/-- the two folds of `buildTree` on the rendered spec, on stored paths -/
theorem buildTree_spec (s : Spec) (hok : s.ok) :
    (expectVars s).foldl (fun t r => insertAt (pathParts (quoteName r.key)) (Leaf.var r) t)
        (((specGroupsRaw [] s).map pathStr).foldl (fun t g => insertAt (pathParts (quoteName g)) Leaf.group t) Forest.nil)
      = ((specVars [] s).map fun pv => (nodePath pv, expectVar pv.1 pv.2)).foldl (fun t v => insertAt v.1 (Leaf.var v.2) t)
        ((specGroups [] s).foldl (fun t g => insertAt g Leaf.group t) Forest.nil) := by
  have hnil : ∀ q ∈ ([] : List Str), goodName q := by intro q hq; cases hq
  have hg : ((specGroupsRaw [] s).map pathStr).foldl (fun t g => insertAt (pathParts (quoteName g)) Leaf.group t) Forest.nil
      = (specGroups [] s).foldl (fun t g => insertAt g Leaf.group t) Forest.nil := by
    have := specGroupsRaw_map s []
    simp only [List.map_nil] at this
    rw [← this, List.foldl_map, List.foldl_map]
    apply foldl_congr_mem
    intro g hg t
    rw [pathParts_group g (specGroupsRaw_good s hok [] hnil g hg)]
  rw [hg]
  unfold expectVars
  rw [List.foldl_map, List.foldl_map]
  apply foldl_congr_mem
  intro pv hpv t
  obtain ⟨h1, h2, _⟩ := specVars_mem s hok [] hnilq pv hpv
  simp only [expectVar, nodePath]
  rw [pathParts_key pv.1 pv.2.name h1 h2.2.1]

theorem nodes_hvs (s : Spec) : ∀ v ∈ (specVars [] s).map (fun pv => (nodePath pv, expectVar pv.1 pv.2)),
    v.1 ≠ [] ∧ (v.1.dropLast = [] ∨ v.1.dropLast ∈ specGroups [] s) := by
  intro v hvm
  obtain ⟨pv, hpv, rfl⟩ := List.mem_map.mp hvm
  refine ⟨by simp [nodePath], ?_⟩
  simp only [nodePath, List.dropLast_concat]
  rcases specVars_parent s [] pv hpv with e | m
  · exact Or.inl e
  · exact Or.inr m

theorem datasetWalk_perm (pre : List (Str × Str)) (name : Str) (s : Spec)
    (hok : s.ok) (hres : refsResolve s) (hn : distinctNodes s) (hd : distinctDims s) :
    ∃ ws, datasetWalk (renderRoot pre name s) = .ok ws ∧ ws.Perm (expectVars s) := by
  have hv := distinctVars_of_nodes s hok hn
  unfold datasetWalk
  rw [parseVars_render pre name s hok hres hv hd, getGroups_root pre name s hok]
  refine ⟨_, rfl, ?_⟩
  unfold buildTree
  simp only []
  rw [buildTree_spec s hok]
  have := buildTree_walk_perm (specGroups [] s) ((specVars [] s).map fun pv => (nodePath pv, expectVar pv.1 pv.2))
    (by simpa [distinctNodes, List.map_map, Function.comp_def] using hn)
    (pf_spec s [] [] (Or.inl rfl)) (nodes_hvs s)
  simpa [expectVars, List.map_map, Function.comp_def] using this

theorem getVariables_root (pre : List (Str × Str)) (name : Str) (s : Spec) (hok : s.ok) :
    getVariables (renderRoot pre name s) [] = (specVars [] s).map entryOf := by
  have hlk := lookup_name_isSome pre name
  rw [renderRoot, getVariables]
  cases hl : (pre ++ [("name".toList, name)]).lookup "name".toList with
  | none => rw [hl] at hlk; cases hlk
  | some g => simp only [ne_eq, not_true_eq_false, if_false]; exact gv_items s [] hok

theorem varKeys_nodup (s : Spec) (hok : s.ok) (hv : distinctVars s) :
    (((specVars [] s).map entryOf).map (·.1)).Nodup := by
  rw [List.map_map]
  apply nodup_map_of_inj _ _ _ hv
  intro a ha b hb e
  exact keyOf_inj _ _ _ _ (goodName_seg (specVars_mem s hok [] hnilq a ha).2.1.2.1)
    (goodName_seg (specVars_mem s hok [] hnilq b hb).2.1.2.1) e

/-- the `order` table of `unpack_dap4_data` is keyed by the quoted names: distinct stored paths, distinct keys -/
theorem quotedKeys_nodup (s : Spec) (hok : s.ok) (hn : distinctNodes s) :
    (((specVars [] s).map entryOf).map (fun kv => quoteName kv.1)).Nodup := by
  have hv : ((specVars [] s).map nodePath).Nodup := (List.nodup_append.mp hn).2.1
  rw [List.map_map]
  apply nodup_map_of_inj _ _ _ hv
  intro a ha b hb e
  obtain ⟨ha1, ha2, _⟩ := specVars_mem s hok [] hnilq a ha
  obtain ⟨hb1, hb2, _⟩ := specVars_mem s hok [] hnilq b hb
  have e' : quoteName (keyOf a.1 a.2.name) = quoteName (keyOf b.1 b.2.name) := e
  have := congrArg pathParts e'
  rwa [pathParts_key a.1 a.2.name ha1 ha2.2.1, pathParts_key b.1 b.2.name hb1 hb2.2.1] at this

theorem walkKey_expect (path : List Str) (v : SVar) (hp : ∀ q ∈ path, qseg q) (hn : goodName v.name) :
    walkKey (expectVar path v) = quoteName (keyOf path v.name) := by
  rw [quoteName_key path v.name hp hn]
  unfold walkKey expectVar keyOf
  by_cases e : path = []
  · simp [e]
  · simp [e, fqn, pathStr_append]

theorem decodeOrder_render (pre : List (Str × Str)) (name : Str) (s : Spec)
    (hok : s.ok) (hres : refsResolve s) (hn : distinctNodes s) (hd : distinctDims s) :
    decodeOrder (renderRoot pre name s) = .ok (expectVars s) := by
  have hv := distinctVars_of_nodes s hok hn
  obtain ⟨ws, hws, hperm⟩ := datasetWalk_perm pre name s hok hres hn hd
  unfold decodeOrder
  rw [hws, getVariables_root pre name s hok, dictOfLog_nodup _ (varKeys_nodup s hok hv)]
  simp only [bind, Except.bind, pure, Except.pure]
  congr 1
  apply sortBy_perm_eq walkKey _ _ _ _ (quotedKeys_nodup s hok hn) hperm
  unfold expectVars
  rw [List.map_map, List.map_map]
  apply List.map_congr_left
  intro pv hpv
  simp only [Function.comp, entryOf]
  obtain ⟨h1, h2, _⟩ := specVars_mem s hok [] hnilq pv hpv
  exact walkKey_expect pv.1 pv.2 h1 h2.2.1

end Pydap.Dmr
