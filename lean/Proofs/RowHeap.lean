/-
  C13 — the maps `IterData` runs over the source records never store into a source object
  (`PydapModel/RowHeap.lean`): frame lemmas for `recurse`, `fix_nested`, the map chain, the type peek and the
  iteration, and the embedding of an evaluation into the machine of `Sched.lean`.
-/
import PydapModel.RowHeap
import PydapModel.Sched
import PydapModel.RequestRows
namespace Pydap.RowHeap
open Pydap.Sched

/-- `h'` extends `h`: the same source objects, and every object the request had allocated is still there
    unchanged (new ones may have been added) -/
structure Ext (h h' : RHeap) : Prop where
  src : h'.src = h.src
  len : h.own.length ≤ h'.own.length
  own : ∀ (i : Nat) (o : PObj), h.own[i]? = some o → h'.own[i]? = some o

/-- every logged store goes to an object allocated after the `n` objects that existed before -/
def LogOk (n : Nat) (log : List Store) : Prop := ∀ s ∈ log, ∃ i, s.target = .own i ∧ n ≤ i

theorem Ext.refl (h : RHeap) : Ext h h := ⟨rfl, Nat.le_refl _, fun _ _ x => x⟩

theorem Ext.trans {a b c : RHeap} (h1 : Ext a b) (h2 : Ext b c) : Ext a c :=
  ⟨h2.src.trans h1.src, Nat.le_trans h1.len h2.len, fun i o x => h2.own i o (h1.own i o x)⟩

theorem LogOk.nil (n : Nat) : LogOk n [] := by intro s hs; cases hs

theorem LogOk.mono {n m : Nat} {log : List Store} (hnm : n ≤ m) (h : LogOk m log) : LogOk n log := by
  intro s hs
  obtain ⟨i, h1, h2⟩ := h s hs
  exact ⟨i, h1, Nat.le_trans hnm h2⟩

theorem LogOk.append {n : Nat} {a b : List Store} (ha : LogOk n a) (hb : LogOk n b) : LogOk n (a ++ b) := by
  intro s hs
  rcases List.mem_append.mp hs with h | h
  · exact ha s h
  · exact hb s h

theorem alloc_ext (h : RHeap) (o : PObj) : Ext h (h.alloc o).1 := by
  refine ⟨rfl, ?_, ?_⟩
  · simp [RHeap.alloc]
  · intro i x hx
    simp only [RHeap.alloc]
    have hi : i < h.own.length := by
      rcases Nat.lt_or_ge i h.own.length with hlt | hge
      · exact hlt
      · rw [List.getElem?_eq_none hge] at hx; cases hx
    rw [List.getElem?_append_left hi]; exact hx

theorem alloc_snd (h : RHeap) (o : PObj) : (h.alloc o).2 = .own h.own.length := rfl

theorem alloc_own_length (h : RHeap) (o : PObj) : (h.alloc o).1.own.length = h.own.length + 1 := by
  simp [RHeap.alloc]

theorem alloc_get_new (h : RHeap) (o : PObj) : (h.alloc o).1.get (.own h.own.length) = some o := by
  simp [RHeap.alloc, RHeap.get]

/-- a store into an object of the request that did not exist in `h` keeps `h'` an extension of `h` -/
theorem ext_store_own {h h2 h3 : RHeap} {a i : Nat} {v : PVal} (hE : Ext h h2) (ha : h.own.length ≤ a)
    (hs : h2.store (.own a) i v = .ok h3) : Ext h h3 := by
  simp only [RHeap.store] at hs
  split at hs
  · cases hs
  · rename_i o ho
    split at hs
    · cases hs
    · rename_i o' ho'
      cases hs
      refine ⟨hE.src, ?_, ?_⟩
      · simp only [List.length_set]; exact hE.len
      · intro j x hx
        have hj : j < h.own.length := by
          rcases Nat.lt_or_ge j h.own.length with hlt | hge
          · exact hlt
          · rw [List.getElem?_eq_none hge] at hx; cases hx
        have hne : a ≠ j := by omega
        simp only [List.getElem?_set_ne hne]
        exact hE.own j x hx

/-- a store into an object of the request changes no source object and keeps the number of objects -/
theorem store_own_src {h2 h3 : RHeap} {a i : Nat} {v : PVal} (hs : h2.store (.own a) i v = .ok h3) :
    h3.src = h2.src ∧ h3.own.length = h2.own.length := by
  simp only [RHeap.store] at hs
  split at hs
  · cases hs
  · split at hs
    · cases hs
    · cases hs; simp

/-! ### `recurse` -/

/-- the frame of `recurse`, also when it raises: the heap it leaves extends the heap it started from (same
    source objects, the request's earlier objects unchanged) and its store goes to an object it allocated -/
theorem recurse_frame (h : RHeap) (col : Nat) (p : Pred) (row : PVal) :
    Ext h (recurse h col p row).heap ∧ LogOk h.own.length (recurse h col p row).log := by
  unfold recurse recurseWith
  have hcopy : copies (fun _ => true) h row = true := by
    unfold copies; cases repOf h row <;> rfl
  simp only [hcopy, ↓reduceIte]
  split
  · exact ⟨Ext.refl h, LogOk.nil _⟩
  · rename_i cells hcells
    have e1 := alloc_ext h ⟨.list, cells⟩
    split
    · exact ⟨e1, LogOk.nil _⟩
    · split
      · exact ⟨e1, LogOk.nil _⟩
      · split
        · exact ⟨e1, LogOk.nil _⟩
        · rename_i kept hkept
          have e2 := Ext.trans e1 (alloc_ext (h.alloc ⟨.list, cells⟩).1 ⟨.list, kept⟩)
          split
          · exact ⟨e2, LogOk.nil _⟩
          · rename_i h3 hst
            rw [alloc_snd] at hst
            have e3 := ext_store_own e2 (Nat.le_refl _) hst
            have hlog : ∀ rd, LogOk h.own.length
                [(⟨(h.alloc ⟨.list, cells⟩).2, col, rd⟩ : Store)] := by
              intro rd s hs
              simp only [List.mem_singleton] at hs
              subst hs
              exact ⟨h.own.length, rfl, Nat.le_refl _⟩
            split
            · exact ⟨e3, hlog _⟩
            · exact ⟨Ext.trans e3 (alloc_ext h3 _), hlog _⟩

/-- `recurse` computed: when the row can be listed, has a cell `col`, that cell can be iterated and every test
    succeeds, the request has three more objects — the copy of the row with cell `col` replaced, the list of the
    records that passed, the tuple that is returned — and one store, into the copy -/
theorem recurse_eq (h : RHeap) (col : Nat) (p : Pred) (row : PVal) (cells : List PVal) (cell : PVal)
    (recs kept : List PVal)
    (h1 : h.items row = .ok cells) (h2 : cells[col]? = some cell)
    (h3 : (h.alloc ⟨.list, cells⟩).1.items cell = .ok recs)
    (h4 : filterRecs (h.alloc ⟨.list, cells⟩).1 p recs = .ok kept) :
    recurse h col p row =
      ⟨⟨h.src, h.own ++ [⟨.list, cells.set col (.ref (.own (h.own.length + 1)))⟩, ⟨.list, kept⟩,
                          ⟨.tuple, cells.set col (.ref (.own (h.own.length + 1)))⟩]⟩,
       [⟨.own h.own.length, col, locsOf row ++ locsOf cell⟩], .ok (.ref (.own (h.own.length + 2)))⟩ := by
  have hcl : col < cells.length := by
    rcases Nat.lt_or_ge col cells.length with hlt | hge
    · exact hlt
    · rw [List.getElem?_eq_none hge] at h2; cases h2
  have hcopy : copies (fun _ => true) h row = true := by
    unfold copies; cases repOf h row <;> rfl
  have hst : ((h.alloc ⟨.list, cells⟩).1.alloc ⟨.list, kept⟩).1.store (h.alloc ⟨.list, cells⟩).2 col
      (.ref ((h.alloc ⟨.list, cells⟩).1.alloc ⟨.list, kept⟩).2)
      = .ok ⟨h.src, h.own ++ [⟨.list, cells.set col (.ref (.own (h.own.length + 1)))⟩, ⟨.list, kept⟩]⟩ := by
    simp only [RHeap.store, RHeap.alloc]
    have hget : (h.own ++ [⟨.list, cells⟩] ++ [⟨.list, kept⟩])[h.own.length]? = some ⟨.list, cells⟩ := by
      rw [List.getElem?_append_left (by simp)]
      simp
    rw [hget]
    have hrep : ¬ ((Rep.list = Rep.tuple) ∨ (Rep.list = Rep.iterdata)) := by decide
    simp only [setObj, hrep, if_false, hcl, if_true]
    simp
  have hit : (⟨h.src, h.own ++ [⟨.list, cells.set col (.ref (.own (h.own.length + 1)))⟩, ⟨.list, kept⟩]⟩ : RHeap).items
      (.ref (h.alloc ⟨.list, cells⟩).2) = .ok (cells.set col (.ref (.own (h.own.length + 1)))) := by
    simp [RHeap.items, RHeap.get, RHeap.alloc]
  unfold recurse recurseWith
  simp only [hcopy, ↓reduceIte, h1, h2, h3, h4, hst, hit]
  simp [RHeap.alloc]

/-- what `recurse` returns when it returns: a NEW tuple whose cells are the cells of the source row except cell
    `col`, which is a NEW list holding — by reference — exactly the inner records of the source that pass the test -/
theorem recurse_ok (h : RHeap) (col : Nat) (p : Pred) (row out : PVal)
    (hv : (recurse h col p row).val = .ok out) :
    ∃ cells cell recs kept,
      h.items row = .ok cells ∧ cells[col]? = some cell ∧
      (h.alloc ⟨.list, cells⟩).1.items cell = .ok recs ∧
      filterRecs (h.alloc ⟨.list, cells⟩).1 p recs = .ok kept ∧
      out = .ref (.own (h.own.length + 2)) ∧
      (recurse h col p row).heap.get (.own (h.own.length + 2))
        = some ⟨.tuple, cells.set col (.ref (.own (h.own.length + 1)))⟩ ∧
      (recurse h col p row).heap.get (.own (h.own.length + 1)) = some ⟨.list, kept⟩ ∧
      (recurse h col p row).log = [⟨.own h.own.length, col, locsOf row ++ locsOf cell⟩] := by
  have hv' := hv
  unfold recurse recurseWith at hv'
  have hcopy : copies (fun _ => true) h row = true := by
    unfold copies; cases repOf h row <;> rfl
  simp only [hcopy, ↓reduceIte] at hv'
  split at hv'
  · cases hv'
  · rename_i cells hcells
    split at hv'
    · cases hv'
    · rename_i cell hcell
      split at hv'
      · cases hv'
      · rename_i recs hrecs
        split at hv'
        · cases hv'
        · rename_i kept hkept
          have e := recurse_eq h col p row cells cell recs kept hcells hcell hrecs hkept
          rw [e] at hv ⊢
          cases hv
          refine ⟨cells, cell, recs, kept, hcells, hcell, hrecs, hkept, rfl, ?_, ?_, rfl⟩
          · simp [RHeap.get]
          · simp [RHeap.get]

/-! ### the map chain, the peek, the iteration -/

theorem fixCells_ext (fl : List Bool) : ∀ (h : RHeap) (cs : List PVal), Ext h (fixCells h fl cs).1 := by
  induction fl with
  | nil => intro h cs; simp only [fixCells]; exact Ext.refl h
  | cons f fs ih =>
    intro h cs
    cases cs with
    | nil => simp only [fixCells]; exact Ext.refl h
    | cons c cs =>
      cases f with
      | false => simp only [fixCells]; exact ih h cs
      | true => simp only [fixCells]; exact Ext.trans (alloc_ext h _) (ih _ cs)

theorem applyMap_frame (m : RMap) (h : RHeap) (v : PVal) :
    Ext h (applyMap m h v).heap ∧ LogOk h.own.length (applyMap m h v).log := by
  cases m with
  | nest col p => exact recurse_frame h col p v
  | ident => exact ⟨Ext.refl h, LogOk.nil _⟩
  | fixNested fl =>
    simp only [applyMap]
    split
    · exact ⟨Ext.refl h, LogOk.nil _⟩
    · exact ⟨Ext.trans (fixCells_ext fl h _) (alloc_ext _ _), LogOk.nil _⟩
  | item col =>
    simp only [applyMap]
    split <;> exact ⟨Ext.refl h, LogOk.nil _⟩

theorem applyMaps_frame (ms : List RMap) : ∀ (h : RHeap) (v : PVal),
    Ext h (applyMaps ms h v).heap ∧ LogOk h.own.length (applyMaps ms h v).log := by
  induction ms with
  | nil => intro h v; exact ⟨Ext.refl h, LogOk.nil _⟩
  | cons m ms ih =>
    intro h v
    have a := applyMap_frame m h v
    simp only [applyMaps]
    split
    · exact a
    · rename_i v' _
      have b := ih (applyMap m h v).heap v'
      exact ⟨Ext.trans a.1 b.1, LogOk.append a.2 (LogOk.mono a.1.len b.2)⟩

theorem dtypePeek_frame (ms : List RMap) (h : RHeap) (stream : List PVal) :
    Ext h (dtypePeek ms h stream).heap ∧ LogOk h.own.length (dtypePeek ms h stream).log := by
  cases stream with
  | nil => exact ⟨Ext.refl h, LogOk.nil _⟩
  | cons r rs => exact applyMaps_frame ms h r

theorem iterAll_frame (fs : List RFilt) (ms : List RMap) (stream : List PVal) : ∀ (h : RHeap),
    Ext h (iterAll fs ms h stream).heap ∧ LogOk h.own.length (iterAll fs ms h stream).log := by
  induction stream with
  | nil => intro h; exact ⟨Ext.refl h, LogOk.nil _⟩
  | cons r rs ih =>
    intro h
    simp only [iterAll]
    split
    · exact ⟨Ext.refl h, LogOk.nil _⟩
    · exact ih h
    · have a := applyMaps_frame ms h r
      split
      · exact a
      · have b := ih (applyMaps ms h r).heap
        exact ⟨Ext.trans a.1 b.1, LogOk.append a.2 (LogOk.mono a.1.len b.2)⟩

theorem serveRows_frame (fs : List RFilt) (ms : List RMap) (stream : List PVal) (k : Nat) : ∀ (h : RHeap),
    Ext h (serveRows fs ms h stream k).heap ∧ LogOk h.own.length (serveRows fs ms h stream k).log := by
  induction k with
  | zero => intro h; exact iterAll_frame fs ms stream h
  | succ k ih =>
    intro h
    have a := dtypePeek_frame ms h stream
    simp only [serveRows]
    split
    · exact a
    · have b := ih (dtypePeek ms h stream).heap
      exact ⟨Ext.trans a.1 b.1, LogOk.append a.2 (LogOk.mono a.1.len b.2)⟩

/-! ### the evaluation as a thread program of the machine of `Sched.lean` -/

theorem rowProgram_writes_owned (src : List PObj) (stream : List PVal) (filts : List RFilt) (maps : List RMap)
    (peeks t : Nat) : ∀ s ∈ rowProgram src stream filts maps peeks t, ∀ l ∈ s.writes, l.1 = some t := by
  intro s hs l hl
  simp only [rowProgram, List.mem_append, List.mem_map, List.mem_singleton] at hs
  rcases hs with ⟨st, hst, rfl⟩ | rfl
  · have := (serveRows_frame filts maps stream peeks ⟨src, []⟩).2 st hst
    obtain ⟨i, hi, _⟩ := this
    simp only [Store.toStep, List.mem_singleton] at hl
    subst hl
    rw [hi]; rfl
  · simp [emitRows] at hl

theorem gloc_owner (t : Nat) (l : Loc) : (gloc t l).1 = some t ∨ (gloc t l).1 = none := by
  cases l <;> simp [gloc]

theorem rowProgram_reads (src : List PObj) (stream : List PVal) (filts : List RFilt) (maps : List RMap)
    (peeks t : Nat) : ∀ s ∈ rowProgram src stream filts maps peeks t, ∀ l ∈ s.reads, l.1 = some t ∨ l.1 = none := by
  intro s hs l hl
  simp only [rowProgram, List.mem_append, List.mem_map, List.mem_singleton] at hs
  rcases hs with ⟨st, _, rfl⟩ | rfl
  · simp only [Store.toStep, List.mem_map] at hl
    obtain ⟨x, _, rfl⟩ := hl
    exact gloc_owner t x
  · simp only [emitRows, List.mem_map] at hl
    obtain ⟨x, _, rfl⟩ := hl
    exact gloc_owner t x

/-- any family of requests, each with its own maps, evaluated over one served source, is disciplined -/
theorem rows_disciplined (src : List PObj) (stream : List PVal) (filts : Nat → List RFilt) (maps : Nat → List RMap)
    (peeks : Nat → Nat) :
    Disciplined (fun l : GLoc => l.1) (fun t => rowProgram src stream (filts t) (maps t) (peeks t) t) := by
  refine ⟨?_, ?_⟩
  · intro t s hs l hl
    exact rowProgram_writes_owned src stream (filts t) (maps t) (peeks t) t s hs l hl
  · intro t s hs l hl
    rcases rowProgram_reads src stream (filts t) (maps t) (peeks t) t s hs l hl with h | h
    · exact Or.inl h
    · right
      intro u s' hs' hw
      have := rowProgram_writes_owned src stream (filts u) (maps u) (peeks u) u s' hs' l hw
      rw [h] at this
      cases this

/-! ### a whole request: pipeline stores and source-record evaluation in one program -/

theorem mem_mapLoc_writes {L L' V O E : Type} (f : L → L') (s : Step L V O E) (l : L') :
    l ∈ (Step.mapLoc f s).writes ↔ ∃ x ∈ s.writes, f x = l := by
  simp [Step.mapLoc]

theorem mem_mapLoc_reads {L L' V O E : Type} (f : L → L') (s : Step L V O E) (l : L') :
    l ∈ (Step.mapLoc f s).reads ↔ ∃ x ∈ s.reads, f x = l := by
  simp [Step.mapLoc]

/-- two disciplined program families over disjoint location types, run one after the other by each thread, are
    a disciplined family over the sum of the location types -/
theorem disciplined_join {L1 L2 V O E : Type} (o1 : L1 → Option Nat) (o2 : L2 → Option Nat)
    (P1 : Nat → List (Step L1 V O E)) (P2 : Nat → List (Step L2 V O E))
    (h1 : Disciplined o1 P1) (h2 : Disciplined o2 P2) :
    Disciplined (Sum.elim o1 o2)
      (fun t => (P1 t).map (Step.mapLoc Sum.inl) ++ (P2 t).map (Step.mapLoc Sum.inr)) := by
  refine ⟨?_, ?_⟩
  · intro t s hs l hl
    simp only [List.mem_append, List.mem_map] at hs
    rcases hs with ⟨s1, hs1, rfl⟩ | ⟨s2, hs2, rfl⟩
    · obtain ⟨x, hx, rfl⟩ := (mem_mapLoc_writes _ _ _).mp hl
      exact h1.writes_owned t s1 hs1 x hx
    · obtain ⟨x, hx, rfl⟩ := (mem_mapLoc_writes _ _ _).mp hl
      exact h2.writes_owned t s2 hs2 x hx
  · intro t s hs l hl
    simp only [List.mem_append, List.mem_map] at hs
    rcases hs with ⟨s1, hs1, rfl⟩ | ⟨s2, hs2, rfl⟩
    · obtain ⟨x, hx, rfl⟩ := (mem_mapLoc_reads _ _ _).mp hl
      rcases h1.reads_ok t s1 hs1 x hx with h | h
      · exact Or.inl h
      · right
        intro u s' hs' hw
        simp only [List.mem_append, List.mem_map] at hs'
        rcases hs' with ⟨s1', hs1', rfl⟩ | ⟨s2', hs2', rfl⟩
        · obtain ⟨y, hy, hxy⟩ := (mem_mapLoc_writes _ _ _).mp hw
          cases hxy
          exact h u s1' hs1' hy
        · obtain ⟨y, _, hxy⟩ := (mem_mapLoc_writes _ _ _).mp hw
          cases hxy
    · obtain ⟨x, hx, rfl⟩ := (mem_mapLoc_reads _ _ _).mp hl
      rcases h2.reads_ok t s2 hs2 x hx with h | h
      · exact Or.inl h
      · right
        intro u s' hs' hw
        simp only [List.mem_append, List.mem_map] at hs'
        rcases hs' with ⟨s1', hs1', rfl⟩ | ⟨s2', hs2', rfl⟩
        · obtain ⟨y, _, hxy⟩ := (mem_mapLoc_writes _ _ _).mp hw
          cases hxy
        · obtain ⟨y, hy, hxy⟩ := (mem_mapLoc_writes _ _ _).mp hw
          cases hxy
          exact h u s2' hs2' hy

end Pydap.RowHeap

namespace Pydap.RowHeap

/-! ### the result in terms of the source heap alone (for heaps without dangling references) -/

/-- the value is a number or names an existing object -/
def Resolves (h : RHeap) : PVal → Prop
  | .atom _ => True
  | .ref l => ∃ o, h.get l = some o

/-- no object holds a dangling reference -/
def Closed (h : RHeap) : Prop := ∀ l o, h.get l = some o → ∀ v ∈ o.items, Resolves h v

theorem get_alloc_of_get {h : RHeap} {l : Loc} {o : PObj} (x : PObj) (hg : h.get l = some o) :
    (h.alloc x).1.get l = some o := by
  cases l with
  | src i => exact hg
  | own i =>
    simp only [RHeap.get] at hg
    exact (alloc_ext h x).own i o hg

theorem items_alloc {h : RHeap} {v : PVal} (x : PObj) (hr : Resolves h v) :
    (h.alloc x).1.items v = h.items v := by
  cases v with
  | atom a => rfl
  | ref l =>
    obtain ⟨o, ho⟩ := hr
    simp only [RHeap.items, ho, get_alloc_of_get x ho]

theorem evalPred_alloc {h : RHeap} {r : PVal} (x : PObj) (p : Pred) (hr : Resolves h r) :
    evalPred (h.alloc x).1 p r = evalPred h p r := by
  simp only [evalPred, getItem, items_alloc x hr]

theorem filterRecs_alloc {h : RHeap} (x : PObj) (p : Pred) :
    ∀ recs : List PVal, (∀ r ∈ recs, Resolves h r) → filterRecs (h.alloc x).1 p recs = filterRecs h p recs := by
  intro recs
  induction recs with
  | nil => intro _; rfl
  | cons r rs ih =>
    intro hall
    simp only [filterRecs, evalPred_alloc x p (hall r (List.mem_cons_self ..)),
      ih (fun q hq => hall q (List.mem_cons_of_mem _ hq))]

theorem items_resolve {h : RHeap} (hc : Closed h) {v : PVal} {xs : List PVal} (hi : h.items v = .ok xs) :
    ∀ x ∈ xs, Resolves h x := by
  cases v with
  | atom a => simp [RHeap.items] at hi
  | ref l =>
    simp only [RHeap.items] at hi
    split at hi
    · rename_i o ho
      cases hi
      exact hc l o ho
    · cases hi

/-- on a heap without dangling references the result of `recurse` is described by the SOURCE heap alone: the new
    list holds exactly the records of the source's cell `col` that pass the test evaluated on the source -/
theorem recurse_ok_closed (h : RHeap) (hc : Closed h) (col : Nat) (p : Pred) (row out : PVal)
    (hv : (recurse h col p row).val = .ok out) :
    ∃ cells cell recs kept,
      h.items row = .ok cells ∧ cells[col]? = some cell ∧ h.items cell = .ok recs ∧
      filterRecs h p recs = .ok kept ∧
      (recurse h col p row).heap.get (.own (h.own.length + 2))
        = some ⟨.tuple, cells.set col (.ref (.own (h.own.length + 1)))⟩ ∧
      (recurse h col p row).heap.get (.own (h.own.length + 1)) = some ⟨.list, kept⟩ ∧
      out = .ref (.own (h.own.length + 2)) := by
  obtain ⟨cells, cell, recs, kept, h1, h2, h3, h4, h5, h6, h7, _⟩ := recurse_ok h col p row out hv
  have hcell : Resolves h cell := items_resolve hc h1 cell (List.mem_of_getElem? h2)
  rw [items_alloc _ hcell] at h3
  rw [filterRecs_alloc _ p recs (items_resolve hc h3)] at h4
  exact ⟨cells, cell, recs, kept, h1, h2, h3, h4, h6, h7, h5⟩

end Pydap.RowHeap
