/-
  C17: one `__getitem__` step simulates one reference step; chains; iteration.
-/
import Proofs.IterData
namespace Pydap.IterData
open Pydap

variable {A : Type}

theorem rel_table_maps {cmp : Op → A → A → Bool} {id : Name} {all : List Name} {s : Stream A} {st : Ref A}
    (hrel : Rel cmp id all s st) {vs : List Name} (hl : st.layout = .table vs)
    (r : List A) (hr : r.length = all.length) :
    ∃ cells, vs.mapM (cellOf all r) = some cells ∧ evalMaps s.imap (.row r) = .ok (.row cells) := by
  obtain ⟨it, h1, h2⟩ := hrel.maps r hr
  rw [hl] at h1
  simp only [refItem] at h1
  cases hc : vs.mapM (cellOf all r) with
  | none => simp [hc] at h1
  | some cells =>
    simp [hc] at h1
    subst h1
    exact ⟨cells, rfl, h2⟩

theorem step_str {cmp : Op → A → A → Bool} {lit : List Char → Option A} {id : Name} {all : List Name}
    {s : Stream A} {st st' : Ref A} {key : Name}
    (hrel : Rel cmp id all s st) (hstep : refStep lit id all st (.str key) = some st') :
    ∃ s', getitem lit s (.str key) = .ok s' ∧ Rel cmp id all s' st' ∧ s'.src = s.src := by
  simp only [refStep] at hstep
  cases hl : st.layout with
  | column k => simp [hl] at hstep
  | table vs =>
    simp only [hl] at hstep
    by_cases hk : key ∈ vs
    · simp [hk] at hstep
      subst hstep
      have ht := hrel.tmpl
      simp only [hl] at ht
      obtain ⟨htm, hlev, hsub⟩ := ht
      refine ⟨{ s with level := s.level + 1, template := .base (id ++ '.' :: key),
                       imap := s.imap ++ [.item (vs.idxOf key) (s.level + 1)] }, ?_, ?_, rfl⟩
      · simp [getitem, htm, indexOf?_of_mem hk]
      · refine ⟨hrel.root, hrel.filt, ?_, ?_, hrel.sl⟩
        · intro r hr
          obtain ⟨cells, hc, hm⟩ := rel_table_maps hrel hl r hr
          obtain ⟨v, hv1, _⟩ := cellOf_some all r hr (hsub key hk)
          have hcell := optMapM_getElem? (cellOf all r) vs cells hc (vs.idxOf key) key (getElem?_idxOf hk)
          refine ⟨.cell v, by simp [refItem, hv1], ?_⟩
          show evalMaps (s.imap ++ [.item (vs.idxOf key) (s.level + 1)]) (.row r) = _
          rw [evalMaps_append, hm, hlev]
          show evalMap (.item (vs.idxOf key) 1) (.row cells) = _
          simp [evalMap, getCell, hcell, hv1]
          rfl
        · show (_ : Tmpl) = _ ∧ s.level + 1 = 1 ∧ _
          exact ⟨rfl, by omega, hsub key hk⟩
    · simp [hk] at hstep

theorem all_mem_mapM_indexOf (vs : List Name) :
    ∀ ks : List Name, (∀ k ∈ ks, k ∈ vs) → ks.mapM (indexOf? vs) = some (ks.map vs.idxOf)
  | [], _ => rfl
  | k :: ks, h => by
    rw [List.mapM_cons, indexOf?_of_mem (h k (by simp)),
      all_mem_mapM_indexOf vs ks (fun x hx => h x (by simp [hx]))]
    rfl

theorem step_list {cmp : Op → A → A → Bool} {lit : List Char → Option A} {id : Name} {all : List Name}
    {s : Stream A} {st st' : Ref A} {keys : List Name}
    (hrel : Rel cmp id all s st) (hstep : refStep lit id all st (.list keys) = some st') :
    ∃ s', getitem lit s (.list keys) = .ok s' ∧ Rel cmp id all s' st' ∧ s'.src = s.src := by
  simp only [refStep] at hstep
  cases hl : st.layout with
  | column k => simp [hl] at hstep
  | table vs =>
    simp only [hl] at hstep
    by_cases hk : keys.all (· ∈ vs) = true
    · simp only [hk, if_true, Option.some.injEq] at hstep
      subst hstep
      have hmem : ∀ k ∈ keys, k ∈ vs := by
        intro k hkm
        have := List.all_eq_true.mp hk k hkm
        simpa using this
      have ht := hrel.tmpl
      simp only [hl] at ht
      obtain ⟨htm, hlev, hsub⟩ := ht
      have hcols := all_mem_mapM_indexOf vs keys hmem
      refine ⟨{ s with template := .seq { id := id, all := all, visible := keys },
                       imap := s.imap ++ [.proj (keys.map vs.idxOf) (s.level + 1)] }, ?_, ?_, rfl⟩
      · simp [getitem, htm, hcols]
      · refine ⟨hrel.root, hrel.filt, ?_, ?_, hrel.sl⟩
        · intro r hr
          obtain ⟨cells, hc, hm⟩ := rel_table_maps hrel hl r hr
          obtain ⟨out, h1, h2⟩ := proj_by_name all vs r cells hc keys _ hcols
          refine ⟨.row out, by simp [refItem, h1], ?_⟩
          show evalMaps (s.imap ++ [.proj (keys.map vs.idxOf) (s.level + 1)]) (.row r) = _
          rw [evalMaps_append, hm, hlev]
          show evalMap (.proj (keys.map vs.idxOf) 1) (.row cells) = _
          simp only [evalMap, if_true, h2]
          rfl
        · show (_ : Tmpl) = _ ∧ s.level = 0 ∧ _
          exact ⟨rfl, hlev, fun k hk' => hsub k (hmem k hk')⟩
    · simp [hk] at hstep

theorem step_slice {cmp : Op → A → A → Bool} {id : Name} {all : List Name}
    {s : Stream A} {st : Ref A} (sl : PSlice) (hrel : Rel cmp id all s st) :
    Rel cmp id all { s with islice := s.islice ++ [sl] } { st with slices := st.slices ++ [sl] } :=
  ⟨hrel.root, hrel.filt, hrel.maps, hrel.tmpl, by show s.islice ++ [sl] = st.slices ++ [sl]; rw [hrel.sl]⟩

/-- the filter built for a clause the reference resolves evaluates the resolved clause -/
theorem buildFilter_resolved {lit : List Char → Option A} {id : Name} {all vs : List Name} {c : Cond} {rc : RCond A}
    (hres : resolve lit id all c = some rc) :
    ∃ f : Filt A, buildFilter lit c ⟨id, all, vs⟩ = .ok (f, .ident) ∧
      ∀ (cmp : Op → A → A → Bool) (r : List A), r.length = all.length →
        evalFilt cmp f r = .ok (refCond cmp all r rc) := by
  unfold resolve at hres
  cases hsp : rsplitDot c.id1 with
  | none => simp [hsp] at hres
  | some p =>
    obtain ⟨p1, c1⟩ := p
    simp only [hsp] at hres
    by_cases hp : p1 = id ∧ c1 ∈ all
    · obtain ⟨rfl, hc1⟩ := hp
      simp only [hc1, and_self, if_true] at hres
      obtain ⟨hid1, hnd⟩ := rsplitDot_some _ _ _ hsp
      have hdrop : c.id1.drop (p1.length + 1) = c1 := by
        rw [hid1]
        have : p1 ++ '.' :: c1 = (p1 ++ ['.']) ++ c1 := by simp
        rw [this]
        have hlen : p1.length + 1 = (p1 ++ ['.']).length := by simp
        rw [hlen, List.drop_left]
      have htok : splitOnChar '.' (c.id1.drop (p1.length + 1)) = [c1] := by
        rw [hdrop]; exact splitOnChar_no_sep '.' c1 hnd
      by_cases h2 : rsplitHead c.id2 = p1
      · simp only [h2, if_true] at hres
        by_cases hm : lastTok c.id2 ∈ all
        · simp only [hm, if_true, Option.some.injEq] at hres
          subst hres
          refine ⟨⟨all.idxOf c1, c.op, .col (all.idxOf (lastTok c.id2))⟩, ?_, ?_⟩
          · simp [buildFilter, htok, indexOf?_of_mem hc1, h2, indexOf?_of_mem hm]
          · intro cmp r hr
            obtain ⟨x, hx1, hx2⟩ := cellOf_some all r hr hc1
            obtain ⟨y, hy1, hy2⟩ := cellOf_some all r hr hm
            simp [evalFilt, evalOperand, hx2, hy2, refCond, hx1, hy1]
            rfl
        · simp [hm] at hres
      · simp only [h2, if_false] at hres
        cases hlit : lit c.id2 with
        | none => simp [hlit] at hres
        | some v =>
          simp [hlit] at hres
          subst hres
          refine ⟨⟨all.idxOf c1, c.op, .lit v⟩, ?_, ?_⟩
          · simp [buildFilter, htok, indexOf?_of_mem hc1, h2, hlit]
          · intro cmp r hr
            obtain ⟨x, hx1, hx2⟩ := cellOf_some all r hr hc1
            simp [evalFilt, evalOperand, hx2, refCond, hx1]
            rfl
    · simp [hp] at hres

theorem step_cond {cmp : Op → A → A → Bool} {lit : List Char → Option A} {id : Name} {all : List Name}
    {s : Stream A} {st st' : Ref A} {c : Cond}
    (hrel : Rel cmp id all s st) (hstep : refStep lit id all st (.cond c) = some st') :
    ∃ s', getitem lit s (.cond c) = .ok s' ∧ Rel cmp id all s' st' ∧ s'.src = s.src := by
  simp only [refStep] at hstep
  cases hres : resolve lit id all c with
  | none => simp [hres] at hstep
  | some rc =>
    simp [hres] at hstep
    subst hstep
    obtain ⟨f, hb, hf⟩ := buildFilter_resolved (vs := s.root.visible) hres
    have hroot : s.root = ⟨id, all, s.root.visible⟩ := by
      obtain ⟨h1, h2⟩ := hrel.root
      cases hr : s.root with
      | mk i a v => rw [hr] at h1 h2; simp only at h1 h2; subst h1 h2; rfl
    refine ⟨{ s with ifilter := s.ifilter ++ [f], imap := .ident :: s.imap }, ?_, ?_, rfl⟩
    · simp only [getitem]; rw [hroot, hb]; rfl
    · refine ⟨hrel.root, ?_, ?_, hrel.tmpl, hrel.sl⟩
      · intro r hr
        have := evalFilts_append cmp s.ifilter f r _ _ (hrel.filt r hr) (hf cmp r hr)
        show evalFilts cmp (s.ifilter ++ [f]) r = .ok ((st.conds ++ [rc]).all (refCond cmp all r))
        rw [this, List.all_append]
        simp
      · intro r hr
        -- the clause's map is the identity on the source row, in front of the recorded maps
        exact hrel.maps r hr

theorem step_sim {cmp : Op → A → A → Bool} {lit : List Char → Option A} {id : Name} {all : List Name}
    {s : Stream A} {st st' : Ref A} (k : Key)
    (hrel : Rel cmp id all s st) (hstep : refStep lit id all st k = some st') :
    ∃ s', getitem lit s k = .ok s' ∧ Rel cmp id all s' st' ∧ s'.src = s.src := by
  cases k with
  | str key => exact step_str hrel hstep
  | list keys => exact step_list hrel hstep
  | int i =>
    simp only [refStep, Option.some.injEq] at hstep
    subst hstep
    exact ⟨_, rfl, step_slice _ hrel, rfl⟩
  | slice sl =>
    simp only [refStep, Option.some.injEq] at hstep
    subst hstep
    exact ⟨_, rfl, step_slice _ hrel, rfl⟩
  | cond c => exact step_cond hrel hstep

theorem chain_sim {cmp : Op → A → A → Bool} {lit : List Char → Option A} {id : Name} {all : List Name} :
    ∀ (ops : List Key) (s : Stream A) (st st' : Ref A), Rel cmp id all s st →
      refRun lit id all st ops = some st' →
      ∃ s', chain lit s ops = .ok s' ∧ Rel cmp id all s' st' ∧ s'.src = s.src
  | [], s, st, st', hrel, h => by
    simp only [refRun, Option.some.injEq] at h
    subst h
    exact ⟨s, rfl, hrel, rfl⟩
  | k :: ks, s, st, st', hrel, h => by
    simp only [refRun] at h
    cases hs : refStep lit id all st k with
    | none => simp [hs] at h
    | some st1 =>
      simp only [hs, Option.bind] at h
      obtain ⟨s1, h1, hrel1, hsrc1⟩ := step_sim k hrel hs
      obtain ⟨s', h2, hrel', hsrc'⟩ := chain_sim ks s1 st1 st' hrel1 h
      refine ⟨s', ?_, hrel', hsrc'.trans hsrc1⟩
      simp only [chain, h1]
      exact h2

/-- iterating a stream that records `st` yields the reference rows of `st` -/
theorem iter_of_rel {cmp : Op → A → A → Bool} {id : Name} {all : List Name} {s : Stream A} {st : Ref A}
    (hrel : Rel cmp id all s st) (hsrc : ∀ r ∈ s.src, r.length = all.length) :
    iter cmp s = refEval cmp all st s.src := by
  have hf := filterE_ok (evalFilts cmp s.ifilter) (fun r => st.conds.all (refCond cmp all r)) s.src
    (fun r hr => hrel.filt r (hsrc r hr))
  obtain ⟨items, hi1, hi2⟩ := mapE_of_option (fun r => evalMaps s.imap (.row r))
    (fun r => refItem all r st.layout) .indexError
    (s.src.filter fun r => st.conds.all (refCond cmp all r))
    (fun r hr => hrel.maps r (hsrc r (List.mem_filter.mp hr).1))
  unfold iter refEval
  rw [hf, hi1]
  show (mapE _ _ >>= fun items => applySlices s.islice items) = _
  rw [hi2, hrel.sl]
  rfl

/-- a freshly built stream over a well-shaped table records the empty program -/
theorem rel_init (cmp : Op → A → A → Bool) (id : Name) (all : List Name) (hnd : all.Nodup)
    (src : List (List A)) (csv : Bool) :
    Rel cmp id all (if csv then mkCSVData src ⟨id, all, all⟩ else mkIterData src ⟨id, all, all⟩)
      ⟨[], .table all, []⟩ := by
  have hitem : ∀ r : List A, r.length = all.length → refItem all r (.table all) = some (.row r) := by
    intro r hr
    have : all.mapM (cellOf all r) = some r := by
      apply optMapM_of_getElem _ _ _ hr.symm
      intro i hi
      have hmem : all[i] ∈ all := List.getElem_mem hi
      simp [cellOf, indexOf?_of_mem hmem, hnd.idxOf_getElem i hi]
    simp [refItem, this]
  cases csv with
  | true =>
    refine ⟨⟨rfl, rfl⟩, fun r _ => rfl, fun r hr => ⟨.row r, hitem r hr, rfl⟩, ⟨rfl, rfl, fun k hk => hk⟩, rfl⟩
  | false =>
    refine ⟨⟨rfl, rfl⟩, fun r _ => rfl, fun r hr => ⟨.row r, hitem r hr, ?_⟩, ⟨rfl, rfl, fun k hk => hk⟩, rfl⟩
    show evalMaps [.fixNested all.length] (.row r) = _
    simp [evalMaps, evalMap, ← hr]
    rfl

end Pydap.IterData
