/-
  `C10_e2e_index`: the DAP4 chain request → selection → gather → serialisation → chunking → decode → lookup
  returns numpy's selection (PydapModel/Dap4E2E.lean).
-/
import PydapModel.Dap4E2E
import Proofs.Dap4Ce
import Proofs.Dap4
import Proofs.Dap4Index
import Proofs.DmrLookup
import Proofs.EndToEnd
namespace Pydap.Dap4
open Pydap Pydap.Dmr Pydap.E2E

/-! ### the request side -/

theorem selShape_all (shape : List Nat) :
    selShape (selList shape (padPre [] shape.length)) = shape := by
  induction shape with
  | nil => rfl
  | cons n ns ih =>
    have : padPre [] (n :: ns).length = PSlice.all :: padPre [] ns.length := by
      simp [padPre, List.replicate_succ]
    rw [this, selList]
    simp only [selShape, List.map_cons] at ih ⊢
    rw [ih, Pydap.Dap4Index.sel_all]; simp

theorem padPre_map (shape : List Nat) :
    (padPre [] shape.length).map Idx.sl = shape.map fun _ => Idx.sl PSlice.all := by
  induction shape with
  | nil => rfl
  | cons n ns ih =>
    have : padPre [] (n :: ns).length = PSlice.all :: padPre [] ns.length := by
      simp [padPre, List.replicate_succ]
    rw [this, List.map_cons, ih]; rfl

/-- the slices the DAP4 proxy requests are C02's request list for the whole-array pre-constraint -/
theorem proxy4Slices_reqList (shape : List Nat) (idx E : List Idx)
    (hfix : ∀ cshape : List Nat, cshape.length = shape.length → fixSlice idx cshape = zipFix E cshape)
    (hv : ValidList shape (padPre [] shape.length) E) :
    proxy4Slices shape idx = reqList shape (padPre [] shape.length) E := by
  unfold proxy4Slices
  rw [hfix shape rfl, ← padPre_map]
  have := combine_zipFix shape (padPre [] shape.length) E hv
  rwa [selShape_all] at this

/-- **request → positions**: the server reads the request back and slices the source at C02's positions -/
theorem serve4_request (src : Source) (idx E : List Idx) (hid : IdOk src.id)
    (hfix : ∀ cshape : List Nat, cshape.length = src.shape.length → fixSlice idx cshape = zipFix E cshape)
    (hv : ValidList src.shape (padPre [] src.shape.length) E) :
    serve4 src (proxy4Request src.id src.shape idx)
      = .ok (selList src.shape (reqList src.shape (padPre [] src.shape.length) E)) := by
  unfold serve4 proxy4Request
  rw [proxy4Slices_reqList src.shape idx E hfix hv,
    parseCE4_request src.id _ hid (reqList_norm src.shape _ E hv)]
  simp only [if_true]
  rw [npSlices_full src.shape _ (reqList_length src.shape _ E hv)]

/-! ### the DMR of the answer -/

theorem specVars_answer (gs : List Str) (v : SVar) : ∀ path : List Str,
    specVars path (answerSpec gs v) = [(path ++ gs.map quoteName, v)] := by
  induction gs with
  | nil => intro path; simp [answerSpec, specVars]
  | cons g gs ih => intro path; simp [answerSpec, specVars, ih]

theorem declDims_answer (gs : List Str) (v : SVar) : ∀ path : List Str, declDims path (answerSpec gs v) = [] := by
  induction gs with
  | nil => intro path; simp [answerSpec, declDims]
  | cons g gs ih => intro path; simp [answerSpec, declDims, ih]

theorem specGroups_answer_len (gs : List Str) (v : SVar) : ∀ path : List Str,
    ∀ g ∈ specGroups path (answerSpec gs v), path.length < g.length ∧ g.length ≤ path.length + gs.length := by
  induction gs with
  | nil => intro path g hg; simp [answerSpec, specGroups] at hg
  | cons a gs ih =>
    intro path g hg
    simp only [answerSpec, specGroups, List.append_nil, List.mem_cons] at hg
    rcases hg with rfl | hg
    · simp
    · have := ih (path ++ [quoteName a]) g hg
      simp only [List.length_append, List.length_cons, List.length_nil] at this ⊢
      omega

theorem specGroups_answer_nodup (gs : List Str) (v : SVar) : ∀ path : List Str,
    (specGroups path (answerSpec gs v)).Nodup := by
  induction gs with
  | nil => intro path; simp [answerSpec, specGroups]
  | cons a gs ih =>
    intro path
    simp only [answerSpec, specGroups, List.append_nil, List.nodup_cons]
    refine ⟨?_, ih _⟩
    intro hm
    have := (specGroups_answer_len gs v (path ++ [quoteName a]) _ hm).1
    simp at this

theorem answer_ok (gs : List Str) (v : SVar) (hg : ∀ g ∈ gs, goodName g) (hv : v.ok) : (answerSpec gs v).ok := by
  induction gs with
  | nil => exact ⟨hv, trivial⟩
  | cons a gs ih => exact ⟨hg a (by simp), ih (fun g h => hg g (by simp [h])), trivial⟩

theorem answerVar_ok (tag name : Str) (cshape : List Nat) (ht : tag ∈ varTags) (hn : goodName name) :
    (answerVar tag name cshape).ok := ⟨ht, hn, by simp [answerVar], by simp [answerVar]⟩

theorem answer_refs (gs : List Str) (tag name : Str) (cshape : List Nat) :
    refsResolve (answerSpec gs (answerVar tag name cshape)) := by
  intro pv hpv fq sz hm
  rw [specVars_answer] at hpv
  simp only [List.mem_singleton] at hpv
  subst hpv
  simp [answerVar] at hm

theorem answer_nodes (gs : List Str) (v : SVar) : distinctNodes (answerSpec gs v) := by
  unfold distinctNodes
  rw [specVars_answer]
  apply List.nodup_append.mpr
  refine ⟨specGroups_answer_nodup gs v [], by simp, ?_⟩
  intro a ha b hb e
  simp only [List.map_cons, List.map_nil, List.mem_singleton] at hb
  subst hb; subst e
  have := (specGroups_answer_len gs v [] _ ha).2
  simp [nodePath] at this

theorem answer_dims (gs : List Str) (v : SVar) : distinctDims (answerSpec gs v) := by
  unfold distinctDims; rw [declDims_answer]; simp

theorem expectVars_answer (gs : List Str) (v : SVar) :
    expectVars (answerSpec gs v) = [expectVar (gs.map quoteName) v] := by
  unfold expectVars; rw [specVars_answer]; simp

/-- the shape the answer's record carries, and its element count -/
theorem answer_shape (qpath : List Str) (tag name : Str) (cshape : List Nat) :
    (expectVar qpath (answerVar tag name cshape)).shape = cshape.map Int.ofNat := by
  simp [expectVar, answerVar, List.map_map, Function.comp_def, SDim.size]

theorem foldl_prod (l : List Nat) : ∀ a : Nat, (l.map Int.ofNat).foldl (fun a n => a * n.toNat) a = a * Xdr.prod l := by
  induction l with
  | nil => intro a; simp [Xdr.prod]
  | cons n ns ih => intro a; simp only [List.map_cons, List.foldl_cons, Xdr.prod, ih]; simp [Nat.mul_assoc]

/-- the proxy's id (`var.path + "/" + var.name`, stored names) is a spelling of the variable's stored path -/
theorem pathParts_walkKey (qpath : List Str) (v : SVar) (hp : ∀ q ∈ qpath, qseg q) (hn : goodName v.name) :
    pathParts (walkKey (expectVar qpath v)) = qpath ++ [quoteName v.name] := by
  rw [walkKey_expect qpath v hp hn]
  exact pathParts_key qpath v.name hp hn

theorem map_quote_fix (p : List Str) (h : ∀ q ∈ p, qseg q) : p.map quoteName = p := by
  conv => rhs; rw [← List.map_id p]
  apply List.map_congr_left
  intro q hq
  exact (h q hq).2.2.2

theorem qseg_map (gs : List Str) (h : ∀ g ∈ gs, goodName g) : ∀ q ∈ gs.map quoteName, qseg q := by
  intro q hq
  obtain ⟨g, hg, rfl⟩ := List.mem_map.mp hq
  exact goodName_qseg (h g hg)

/-! ### the composed chain -/

theorem walkKey_answer (qpath : List Str) (tag name : Str) (cs cs' : List Nat) :
    walkKey (expectVar qpath (answerVar tag name cs)) = walkKey (expectVar qpath (answerVar tag name cs')) := by
  simp [walkKey, expectVar, answerVar]

theorem decodeOrder_answer (tree : Bytes → XNode) (dmrOf : List Nat → Bytes) (pre : List (Str × Str)) (dsname : Str)
    (gpath : List Str) (tag name : Str) (cs : List Nat)
    (hg : ∀ g ∈ gpath, goodName g) (ht : tag ∈ varTags) (hn : goodName name)
    (htree : tree (dmrOf cs) = renderRoot pre dsname (answerSpec gpath (answerVar tag name cs))) :
    decodeOrder (tree (dmrOf cs)) = .ok [expectVar (gpath.map quoteName) (answerVar tag name cs)] := by
  rw [htree, decodeOrder_render pre dsname _ (answer_ok gpath _ hg (answerVar_ok tag name cs ht hn))
    (answer_refs gpath tag name cs) (answer_nodes gpath _) (answer_dims gpath _), expectVars_answer]

theorem getitem_answer (tree : Bytes → XNode) (dmrOf : List Nat → Bytes) (pre : List (Str × Str)) (dsname : Str)
    (gpath : List Str) (tag name : Str) (cs : List Nat)
    (hg : ∀ g ∈ gpath, goodName g) (ht : tag ∈ varTags) (hn : goodName name)
    (htree : tree (dmrOf cs) = renderRoot pre dsname (answerSpec gpath (answerVar tag name cs))) :
    ∃ t, datasetTree (tree (dmrOf cs)) = .ok t ∧
      getitemPath (walkKey (expectVar (gpath.map quoteName) (answerVar tag name cs))) t
        = some (expectVar (gpath.map quoteName) (answerVar tag name cs)) := by
  obtain ⟨t, h1, h2⟩ := datasetTree_find pre dsname _ (answer_ok gpath _ hg (answerVar_ok tag name cs ht hn))
    (answer_refs gpath tag name cs) (answer_nodes gpath _) (answer_dims gpath _)
  refine ⟨t, by rw [htree]; exact h1, ?_⟩
  have hq := qseg_map gpath hg
  have := h2 (gpath.map quoteName, answerVar tag name cs) (by rw [specVars_answer]; simp)
  unfold getitemPath
  rw [pathParts_walkKey _ _ hq hn, List.map_append, map_quote_fix _ hq]
  simpa [nodePath, quoteName_idem] using this

/-- **the chain, generic in numpy's expansion `E` of the index** -/
theorem fetchIndex4_spec (little : Bool) (src : Source) (idx E : List Idx)
    (tree : Bytes → XNode) (itemsize : VarRec → Nat) (dmrOf : List Nat → Bytes) (cut : Bytes → List Bytes)
    (crc : List Nat → Nat) (pre : List (Str × Str)) (dsname : Str) (gpath : List Str) (tag name : Str)
    (hlen : src.vals.length = Xdr.prod src.shape) (hval : ∀ v ∈ src.vals, v < 256 ^ src.width)
    (hg : ∀ g ∈ gpath, goodName g) (ht : tag ∈ varTags) (hn : goodName name)
    (hidv : src.id = walkKey (expectVar (gpath.map quoteName) (answerVar tag name [])))
    (hid : IdOk src.id)
    (hfix : ∀ cshape : List Nat, cshape.length = src.shape.length → fixSlice idx cshape = zipFix E cshape)
    (hv : ValidList src.shape (padPre [] src.shape.length) E)
    (hcut : ∀ b, (cut b).flatten = b ∧ cut b ≠ [] ∧ SmallChunks (cut b))
    (hcrc : ∀ vs, crc vs < 256 ^ 4)
    (htree : ∀ cs vs, numpyIndex src.shape src.vals (padPre [] src.shape.length) E = some (cs, vs) →
      tree (dmrOf cs) = renderRoot pre dsname (answerSpec gpath (answerVar tag name cs)))
    (hdmr : ∀ cs vs, numpyIndex src.shape src.vals (padPre [] src.shape.length) E = some (cs, vs) →
      (dmrOf cs).length < 16777216)
    (hitem : ∀ cs, itemsize (expectVar (gpath.map quoteName) (answerVar tag name cs)) = src.width) :
    ∃ cshape vs, numpyIndex src.shape src.vals (padPre [] src.shape.length) E = some (cshape, vs) ∧
      fetchIndex4 tree itemsize (refServer4 little src dmrOf cut crc) src.id src.shape idx
        = .ok (cshape.map Int.ofNat, vs) := by
  have hq := reqList_length src.shape _ E hv
  have hnp := numpyIndex_of_positions src.shape src.vals (padPre [] src.shape.length) E
    (reqList src.shape (padPre [] src.shape.length) E) hq hlen (selList_reqList src.shape _ E hv)
  refine ⟨_, _, hnp, ?_⟩
  have htree' := htree _ _ hnp
  have hdmr' := hdmr _ _ hnp
  clear htree hdmr
  revert htree' hdmr' hnp
  generalize hR : selList src.shape (reqList src.shape (padPre [] src.shape.length) E) = R
  intro _ htree' hdmr'
  have hrange : InRange src.shape R := by rw [← hR]; exact inRange_selList src.shape _ hq
  have hgl := gather_length src.shape R src.vals hrange hlen
  unfold fetchIndex4 refServer4
  rw [serve4_request src idx E hid hfix hv, hR]
  simp only [Except.map, answer4]
  have hdo := decodeOrder_answer tree dmrOf pre dsname gpath tag name (selShape R) hg ht hn htree'
  have hl : (fun b => match decodeOrder (tree b) with
      | .ok rs => Except.ok (rs.map (layoutRec itemsize))
      | .error _ => Except.error Dap4.Err.keyError) (dmrOf (selShape R))
      = .ok ([(⟨src.width, gather src.shape R src.vals, crc (gather src.shape R src.vals)⟩ : Sent)].map Sent.layout) := by
    simp only [hdo, List.map_cons, List.map_nil, layoutRec, Sent.layout, hitem, answer_shape, foldl_prod, hgl,
      Nat.one_mul]
  have hs : ∀ s ∈ [(⟨src.width, gather src.shape R src.vals, crc (gather src.shape R src.vals)⟩ : Sent)], SentOk s := by
    intro s hs
    simp only [List.mem_singleton] at hs
    subst hs
    exact ⟨fun v hvm => hval v (gather_mem _ _ _ v hvm), hcrc _⟩
  obtain ⟨hc1, hc2, hc3⟩ := hcut (serialise little
    [⟨src.width, gather src.shape R src.vals, crc (gather src.shape R src.vals)⟩])
  rw [unpackResponse_encode little _ (dmrOf (selShape R)) _ _ hdmr' hl hs hc3 hc2 hc1]
  obtain ⟨t, ht1, ht2⟩ := getitem_answer tree dmrOf pre dsname gpath tag name (selShape R) hg ht hn htree'
  rw [hidv, walkKey_answer _ tag name [] (selShape R)]
  simp only [hdo, ht1, ht2, List.map_cons, List.map_nil, List.zip_cons_cons, List.zip_nil_right, List.find?_cons,
    beq_self_eq_true, answer_shape]

end Pydap.Dap4
