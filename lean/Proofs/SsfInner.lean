/-
  C19, round 6: the dataset the inner request of the function branch hands to the middleware.
  The inner request has no projection, so `BaseHandler.parse` projects every key: on a dataset whose
  names are keys (pairwise distinct — they are the keys of a Python dict) that is the dataset itself
  with the selection applied, and `apply_projection` on the ordinary items of the request then works on
  the same source the handler works on for the request without the calls.
-/
import PydapModel.Ssf
import Proofs.HandlerWF
namespace Pydap.Ssf
open Pydap Pydap.Handler

/-- what a pydap dataset is by construction: variable names are dict keys, so are the column names of a
    sequence, and every record has one value per column -/
def SeqKeyed : Var → Prop
  | .seq _ cols rows => (cols.map (·.1)).Nodup ∧ ∀ r ∈ rows, r.length = cols.length
  | _ => True

def Keyed (ds : Dataset) : Prop := (ds.vars.map Var.name).Nodup ∧ ∀ v ∈ ds.vars, SeqKeyed v

def allKeys (ds : Dataset) : List ProjItem := ds.vars.map fun v => ProjItem.path [(v.name, [])]

theorem find_mid (pre suf : List Var) (v : Var) (h : v.name ∉ pre.map Var.name) :
    findVar (pre ++ v :: suf) v.name = some v := by
  induction pre with
  | nil => simp [findVar]
  | cons p ps ih =>
    have hp : ¬ p.name = v.name := fun e => h (by simp [e])
    have := ih (fun e => h (by simp only [List.map_cons, List.mem_cons]; exact Or.inr e))
    simpa [findVar, hp] using this

theorem collect_key (ds : Dataset) (pre suf : List Var) (v : Var) (hv : ds.vars = pre ++ v :: suf)
    (h : v.name ∉ pre.map Var.name) : collect1 ds pre (.path [(v.name, [])]) = .ok (pre ++ [v]) := by
  have hf := find_mid pre suf v h
  rw [← hv] at hf
  have hc : (pre.map Var.name).contains v.name = false := by simpa using h
  have hfil : pre.filter (fun x => x.name ≠ v.name) = pre := by
    apply List.filter_eq_self.mpr
    intro x hx
    have : x.name ≠ v.name := fun e => h (by rw [← e]; exact List.mem_map_of_mem hx)
    simpa using this
  simp only [collect1, collect1Core, hf]
  cases v with
  | base b => simp only [setVar]; rw [hfil]
  | struct n ms => simp only [hc]; rfl
  | grid n a ms => simp only [hc]; rfl
  | seq n cols rows => simp only [hc]; rfl

theorem collect_all (ds : Dataset) : ∀ (suf pre : List Var), ds.vars = pre ++ suf → (ds.vars.map Var.name).Nodup →
    (suf.map fun v => ProjItem.path [(v.name, [])]).foldlM (collect1 ds) pre = .ok (pre ++ suf)
  | [], pre, _, _ => by simp [pure, Except.pure]
  | v :: suf, pre, hv, hn => by
    have hnot : v.name ∉ pre.map Var.name := by
      rw [hv, List.map_append, List.map_cons] at hn
      have := (List.nodup_append.mp hn).2.2
      intro e
      exact this _ e _ (by simp) rfl
    rw [List.map_cons, List.foldlM_cons, collect_key ds pre suf v hv hnot]
    have := collect_all ds suf (pre ++ [v]) (by simp [hv]) hn
    simpa [bind, Except.bind] using this

theorem slice_all (out : List Var) : ∀ (l : List Var),
    (l.map fun v => ProjItem.path [(v.name, [])]).foldlM slice1 out = .ok out
  | [] => by simp [pure, Except.pure]
  | v :: l => by
    rw [List.map_cons, List.foldlM_cons]
    have : slice1 out (.path [(v.name, [])]) = .ok out := by simp [slice1]
    rw [this]
    simpa [bind, Except.bind] using slice_all out l

theorem colIndex_self : ∀ (pre suf : List (Str × Str)) (c : Str × Str), c.1 ∉ pre.map (·.1) →
    colIndex (pre ++ c :: suf) c.1 = some pre.length
  | [], suf, c, _ => by simp [colIndex, List.findIdx?_cons]
  | p :: pre, suf, c, h => by
    have hp : ¬ p.1 = c.1 := fun e => h (by simp [e])
    have ih := colIndex_self pre suf c (fun e => h (by simp only [List.map_cons, List.mem_cons]; exact Or.inr e))
    simp only [colIndex, List.cons_append, List.findIdx?_cons, hp, decide_false] at ih ⊢
    simp [ih]

theorem mapM_some_cons {α β : Type} (f : α → Option β) (a : α) (l : List α) (b : β) (bs : List β)
    (h1 : f a = some b) (h2 : l.mapM f = some bs) : (a :: l).mapM f = some (b :: bs) := by
  simp [List.mapM_cons, h1, h2]

theorem colIndex_all (all : List (Str × Str)) : ∀ (suf pre : List (Str × Str)), all = pre ++ suf → (all.map (·.1)).Nodup →
    suf.mapM (fun c => colIndex all c.1) = some ((List.range suf.length).map (· + pre.length))
  | [], _, _, _ => by simp
  | c :: suf, pre, ha, hn => by
    have hnot : c.1 ∉ pre.map (·.1) := by
      rw [ha, List.map_append, List.map_cons] at hn
      have := (List.nodup_append.mp hn).2.2
      intro e
      exact this _ e _ (by simp) rfl
    have h1 : colIndex all c.1 = some pre.length := by rw [ha]; exact colIndex_self pre suf c hnot
    have h2 := colIndex_all all suf (pre ++ [c]) (by simp [ha]) hn
    rw [mapM_some_cons _ c suf _ _ h1 h2]
    simp only [List.length_cons, List.length_append, List.length_nil, Nat.zero_add, List.range_succ_eq_map, List.map_cons,
      Nat.zero_add, List.map_map, Option.some.injEq, List.cons.injEq, true_and]
    apply List.map_congr_left
    intro i _
    simp only [Function.comp]
    omega

theorem row_all : ∀ (suf pre : List Val),
    ((List.range suf.length).map (· + pre.length)).mapM (fun i => (pre ++ suf)[i]?) = some suf
  | [], _ => by simp
  | x :: suf, pre => by
    have ih := row_all suf (pre ++ [x])
    simp only [List.append_assoc, List.cons_append, List.nil_append, List.length_append, List.length_cons, List.length_nil,
      Nat.zero_add] at ih
    simp only [List.length_cons, List.range_succ_eq_map, List.map_cons, List.map_map]
    apply mapM_some_cons
    · simp
    · have e : (List.map ((fun x => x + pre.length) ∘ Nat.succ) (List.range suf.length)) =
          (List.map (fun x => x + (pre.length + 1)) (List.range suf.length)) := by
        apply List.map_congr_left; intro i _; simp only [Function.comp]; omega
      rw [e]; exact ih

theorem rows_all (n : Nat) : ∀ (rows : List (List Val)), (∀ r ∈ rows, r.length = n) →
    rows.mapM (fun r => ((List.range n).map (· + 0)).mapM (fun i => r[i]?)) = some rows
  | [], _ => by simp
  | r :: rows, h => by
    apply mapM_some_cons
    · have := row_all r []
      rw [h r (by simp)] at this
      simpa using this
    · exact rows_all n rows (fun x hx => h x (by simp [hx]))

theorem fixSeq_key (ds : Dataset) (hk : Keyed ds) (v : Var) (hv : v ∈ ds.vars) : fixSeqData ds v = .ok v := by
  obtain ⟨pre, suf, hsplit⟩ := List.append_of_mem hv
  have hnot : v.name ∉ pre.map Var.name := by
    have hn := hk.1
    rw [hsplit, List.map_append, List.map_cons] at hn
    have := (List.nodup_append.mp hn).2.2
    intro e
    exact this _ e _ (by simp) rfl
  have hf := find_mid pre suf v hnot
  rw [← hsplit] at hf
  cases v with
  | seq n cols rows =>
    have hs := hk.2 _ hv
    simp only [SeqKeyed] at hs
    have hc := colIndex_all cols cols [] (by simp) hs.1
    have hr := rows_all cols.length rows hs.2
    simp only [List.length_nil] at hc
    simp only [Var.name] at hf
    simp only [fixSeqData, hf, hc, hr]
  | base b => rfl
  | struct n ms => rfl
  | grid n a ms => rfl

theorem mapM_id_of_forall {α : Type} (f : α → Except Exc α) : ∀ (l : List α), (∀ x ∈ l, f x = .ok x) → l.mapM f = .ok l
  | [], _ => rfl
  | x :: xs, h => by
    rw [List.mapM_cons, h x (by simp), mapM_id_of_forall f xs (fun z hz => h z (by simp [hz]))]
    rfl

/-- **the inner request's dataset**: projecting every key of a keyed dataset gives the dataset back -/
theorem applyProjection_allKeys (ds : Dataset) (hk : Keyed ds) : applyProjection (allKeys ds) ds = .ok ds := by
  unfold applyProjection allKeys
  have h1 := collect_all ds ds.vars [] (by simp) hk.1
  simp only [List.nil_append] at h1
  rw [h1]
  simp only [bind, Except.bind]
  rw [mapM_id_of_forall _ _ (fixSeq_key ds hk)]
  simp only [slice_all]
  rfl

/-! ### the selection keeps a dataset keyed -/

theorem mapM_map_eq {α β γ : Type} (f : α → Except Exc β) (g : β → γ) (g' : α → γ)
    (hf : ∀ x y, f x = .ok y → g y = g' x) : ∀ (l : List α) (ys : List β), l.mapM f = .ok ys → ys.map g = l.map g'
  | [], ys, h => by
    simp only [List.mapM_nil, pure, Except.pure, Except.ok.injEq] at h
    subst h; rfl
  | a :: l, ys, h => by
    rw [List.mapM_cons] at h
    cases h1 : f a with
    | error e => simp [h1, bind, Except.bind] at h
    | ok b =>
      cases h2 : l.mapM f with
      | error e => simp [h1, h2, bind, Except.bind] at h
      | ok bs =>
        simp only [h1, h2, bind, Except.bind, pure, Except.pure, Except.ok.injEq] at h
        subst h
        simp [hf a b h1, mapM_map_eq f g g' hf l bs h2]

theorem applySelVar_name (sel : List Str) (v v' : Var) (h : applySelVar sel v = .ok v') : v'.name = v.name := by
  cases v with
  | seq n cols rows =>
    simp only [applySelVar, bind, Except.bind, pure, Except.pure] at h
    cases hf : List.foldlM (filterRows n cols) rows (sel.filter (relevant n)) with
    | error e => simp [hf] at h
    | ok rows' => simp only [hf, Except.ok.injEq] at h; subst h; rfl
  | base b => simp only [applySelVar, Except.ok.injEq] at h; subst h; rfl
  | struct n ms => simp only [applySelVar, Except.ok.injEq] at h; subst h; rfl
  | grid n a ms => simp only [applySelVar, Except.ok.injEq] at h; subst h; rfl

theorem applySelVar_keyed (sel : List Str) (v v' : Var) (hv : SeqKeyed v) (h : applySelVar sel v = .ok v') : SeqKeyed v' := by
  cases v with
  | seq n cols rows =>
    simp only [applySelVar, bind, Except.bind, pure, Except.pure] at h
    cases hf : List.foldlM (filterRows n cols) rows (sel.filter (relevant n)) with
    | error e => simp [hf] at h
    | ok rows' =>
      simp only [hf, Except.ok.injEq] at h
      subst h
      have := foldlM_inv (filterRows n cols) (fun rs => ∀ r ∈ rs, r ∈ rows)
        (fun b a b' hb hfa r hr => hb r (filterRows_mem n cols b b' a hfa r hr)) _ rows rows' (fun r hr => hr) hf
      exact ⟨hv.1, fun r hr => hv.2 r (this r hr)⟩
  | base b => simp only [applySelVar, Except.ok.injEq] at h; subst h; exact hv
  | struct n ms => simp only [applySelVar, Except.ok.injEq] at h; subst h; exact hv
  | grid n a ms => simp only [applySelVar, Except.ok.injEq] at h; subst h; exact hv

theorem applySelection_keyed (sel : List Str) (ds ds1 : Dataset) (hk : Keyed ds)
    (h : applySelection sel ds = .ok ds1) : Keyed ds1 := by
  simp only [applySelection, bind, Except.bind, pure, Except.pure] at h
  cases hm : ds.vars.mapM (applySelVar sel) with
  | error e => simp [hm] at h
  | ok vs =>
    simp only [hm, Except.ok.injEq] at h
    subst h
    refine ⟨?_, ?_⟩
    · show (vs.map Var.name).Nodup
      rw [mapM_map_eq _ Var.name Var.name (applySelVar_name sel) _ _ hm]; exact hk.1
    · intro v hv
      obtain ⟨x, hx, hfx⟩ := mapM_ok_mem _ _ _ hm v hv
      exact applySelVar_keyed sel x v (hk.2 x hx) hfx

/-- **the parsed dataset of the inner request** (no projection) is the dataset with the selection applied -/
theorem constrain_nil (ds : Dataset) (sel : List Str) (hk : Keyed ds) : constrain ds [] sel = applySelection sel ds := by
  unfold constrain
  cases h : applySelection sel ds with
  | error e => rfl
  | ok ds1 =>
    simp only [bind, Except.bind, ↓reduceIte, pure, Except.pure]
    exact applyProjection_allKeys ds1 (applySelection_keyed sel ds ds1 hk h)

/-- the handler's answer to a request with a non-empty projection, over the dataset with the selection applied -/
theorem constrain_cons (ds ds1 : Dataset) (proj : List ProjItem) (sel : List Str) (hp : proj ≠ [])
    (h : applySelection sel ds = .ok ds1) :
    constrain ds proj sel = (match proj.mapM (fixShorthand1 ds1) with
      | .ok items => applyProjection items ds1
      | .error e => .error e) := by
  unfold constrain
  simp only [h, bind, Except.bind, hp, ↓reduceIte]
  cases proj.mapM (fixShorthand1 ds1) <;> rfl

/-! ### the inner query string parses back to the function-free clauses -/

theorem splitOnChar_ne_nil' (sep : Char) : ∀ l : List Char, splitOnChar sep l ≠ []
  | [] => by simp [splitOnChar]
  | c :: cs => by
    unfold splitOnChar
    split
    · simp
    · split <;> simp

theorem split_clause (sep : Char) : ∀ (p r : Str), sep ∉ p → splitOnChar sep (p ++ sep :: r) = p :: splitOnChar sep r
  | [], r, _ => by
    simp only [List.nil_append, splitOnChar]
    cases hr : splitOnChar sep r with
    | nil => exact absurd hr (splitOnChar_ne_nil' sep r)
    | cons g gs => simp
  | c :: p, r, h => by
    have hc : c ≠ sep := fun e => h (by simp [e])
    have hp : sep ∉ p := fun e => h (by simp [e])
    simp only [List.cons_append, splitOnChar, split_clause sep p r hp, hc, ↓reduceIte]

theorem split_single (sep : Char) : ∀ (p : Str), sep ∉ p → splitOnChar sep p = [p]
  | [], _ => rfl
  | c :: p, h => by
    have hc : c ≠ sep := fun e => h (by simp [e])
    have hp : sep ∉ p := fun e => h (by simp [e])
    simp only [splitOnChar, split_single sep p hp, hc, ↓reduceIte]

theorem split_join : ∀ (l : List Str), l ≠ [] → (∀ s ∈ l, '&' ∉ s) → splitOnChar '&' (joinWith ['&'] l) = l
  | [], h, _ => absurd rfl h
  | [x], _, h => by simp only [joinWith]; exact split_single '&' x (h x (by simp))
  | x :: y :: l, _, h => by
    have := split_join (y :: l) (by simp) (fun s hs => h s (by simp [hs]))
    have e : joinWith ['&'] (x :: y :: l) = x ++ '&' :: joinWith ['&'] (y :: l) := by simp [joinWith]
    rw [e, split_clause '&' x _ (h x (by simp)), this]

theorem join_noPct : ∀ (l : List Str), (∀ s ∈ l, '%' ∉ s) → ∀ c ∈ joinWith ['&'] l, c ≠ '%'
  | [], _, c, hc => by simp [joinWith] at hc
  | [x], h, c, hc => by
    simp only [joinWith] at hc
    intro e; exact h x (by simp) (e ▸ hc)
  | x :: y :: l, h, c, hc => by
    simp only [joinWith, List.mem_append, List.mem_singleton] at hc
    rcases hc with (hc | hc) | hc
    · intro e; exact h x (by simp) (e ▸ hc)
    · rw [hc]; decide
    · exact join_noPct (y :: l) (fun s hs => h s (by simp [hs])) c hc

theorem unqAux_noPct' : ∀ (s : Str), (∀ c ∈ s, c ≠ '%') → unqAux 0 s = s
  | [], _ => rfl
  | c :: s, h => by
    rw [unqAux, if_neg (h c (by simp)), unqAux_noPct' s (fun x hx => h x (by simp [hx]))]

/-- clauses as `parse_ce` hands them over — not empty, free of `&` — that are no calls, hold no `%` (nothing to
    unquote a second time), the first one a comparison: the inner query string parses back to exactly these clauses
    and an empty projection -/
theorem parseCE_stripped (sel : List Str) (hs : ∀ s ∈ sel, s ≠ [] ∧ '&' ∉ s ∧ '%' ∉ s ∧ isCallSel s = false)
    (hh : ∀ s ∈ sel.head?, s.any isRelChar = true) (hd : (stripped sel).take 8 ≠ dap4Prefix) :
    parseCE (stripped sel) = .ok ([], sel) := by
  have hf : sel.filter (fun s => !isCallSel s) = sel :=
    List.filter_eq_self.mpr (fun s h => by simp [(hs s h).2.2.2])
  unfold parseCE
  rw [if_neg (fun h => hd h.2)]
  unfold stripped at *
  rw [hf] at *
  cases sel with
  | nil => simp [joinWith, unquote, unqAux, splitOnChar]
  | cons t0 rest =>
    have hu : unquote (joinWith ['&'] (t0 :: rest)) = joinWith ['&'] (t0 :: rest) :=
      unqAux_noPct' _ (join_noPct _ (fun s h => (hs s h).2.2.1))
    have hsp := split_join (t0 :: rest) (by simp) (fun s h => (hs s h).2.1)
    have hne : (t0 :: rest).filter (· ≠ []) = t0 :: rest :=
      List.filter_eq_self.mpr (fun s h => by simpa using (hs s h).1)
    simp only [hu, hsp, hne]
    rw [if_pos (hh t0 (by simp))]

end Pydap.Ssf
