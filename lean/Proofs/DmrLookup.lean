/-
  `C11_addressable`: on the dataset assembled from a rendered spec every declared variable is found at its
  group path (instance of `buildTree_find`, Proofs/DmrFind.lean).
-/
import Proofs.DmrOrder
import Proofs.DmrFind
namespace Pydap.Dmr

theorem datasetTree_find (pre : List (Str × Str)) (name : Str) (s : Spec)
    (hok : s.ok) (hres : refsResolve s) (hn : distinctNodes s) (hd : distinctDims s) :
    ∃ t, datasetTree (renderRoot pre name s) = .ok t ∧
      ∀ pv ∈ specVars [] s, Forest.findVar (nodePath pv) t = some (expectVar pv.1 pv.2) := by
  have hv := distinctVars_of_nodes s hok hn
  unfold datasetTree
  rw [parseVars_render pre name s hok hres hv hd, getGroups_root pre name s hok]
  refine ⟨_, rfl, ?_⟩
  unfold buildTree
  simp only []
  rw [buildTree_spec s hok]
  have := buildTree_find (specGroups [] s) ((specVars [] s).map fun pv => (nodePath pv, expectVar pv.1 pv.2))
    (by simpa [distinctNodes, List.map_map, Function.comp_def] using hn)
    (pf_spec s [] [] (Or.inl rfl)) (nodes_hvs s)
  intro pv hpv
  exact this (nodePath pv, expectVar pv.1 pv.2) (List.mem_map.mpr ⟨pv, hpv, rfl⟩)

/-- `dataset[path]` for any spelling of the path whose components quote to the stored ones -/
theorem getitemPath_parts (parts : List Str) (hs : ∀ q ∈ parts, segName q) (t : Forest) :
    getitemPath (pathStr parts) t = Forest.findVar (parts.map quoteName) t := by
  unfold getitemPath
  rw [pathParts_pathStr parts hs]

end Pydap.Dmr
