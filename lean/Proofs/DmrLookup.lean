/-
  `C11_addressable`: on the dataset assembled from a rendered spec every declared variable is found at its
  group path (instance of `buildTree_find`, Proofs/DmrFind.lean).
-/
import Proofs.DmrOrder
import Proofs.DmrFind
namespace Pydap.Dmr

theorem datasetTree_find (pre : List (Str × Str)) (name : Str) (s : Spec)
    (hok : s.ok) (hres : refsResolve s) (hn : distinctNodes s) (hd : distinctDims s) :
    ∃ t, datasetTree (renderRoot pre name s) = .ok t ∧
      ∀ pv ∈ specVars [] s, Forest.findVar (pv.1 ++ [pv.2.name]) t = some (expectVar pv.1 pv.2) := by
  have hv := distinctVars_of_nodes s hok hn
  have hnil : ∀ q ∈ ([] : List Str), plainName q := by intro q hq; cases hq
  unfold datasetTree
  rw [parseVars_render pre name s hok hres hv hd, getGroups_root pre name s hok]
  refine ⟨_, rfl, ?_⟩
  unfold buildTree
  simp only []
  have hg : ((specGroups [] s).map pathStr).foldl (fun t g => insertAt (pathParts (quoteName g)) Leaf.group t) Forest.nil
      = (specGroups [] s).foldl (fun t g => insertAt g Leaf.group t) Forest.nil := by
    rw [List.foldl_map]
    apply foldl_congr_mem
    intro g hg t
    rw [pathParts_pathStr g (specGroups_plain s hok [] hnil g hg)]
  rw [hg]
  have hvv : (expectVars s).foldl (fun t r => insertAt (pathParts (quoteName r.key)) (Leaf.var r) t)
        ((specGroups [] s).foldl (fun t g => insertAt g Leaf.group t) Forest.nil)
      = ((specVars [] s).map fun pv => (nodePath pv, expectVar pv.1 pv.2)).foldl (fun t v => insertAt v.1 (Leaf.var v.2) t)
        ((specGroups [] s).foldl (fun t g => insertAt g Leaf.group t) Forest.nil) := by
    unfold expectVars
    rw [List.foldl_map, List.foldl_map]
    apply foldl_congr_mem
    intro pv hpv t
    obtain ⟨h1, h2, _⟩ := specVars_mem s hok [] hnil pv hpv
    simp only [expectVar, nodePath]
    rw [pathParts_key pv.1 pv.2.name h1 h2.2.1]
  rw [hvv]
  have := buildTree_find (specGroups [] s) ((specVars [] s).map fun pv => (nodePath pv, expectVar pv.1 pv.2))
    (by simpa [distinctNodes, List.map_map, Function.comp_def] using hn)
    (pf_spec s [] [] (Or.inl rfl))
    (by
      intro v hvm
      obtain ⟨pv, hpv, rfl⟩ := List.mem_map.mp hvm
      refine ⟨by simp [nodePath], ?_⟩
      simp only [nodePath, List.dropLast_concat]
      rcases specVars_parent s [] pv hpv with e | m
      · exact Or.inl e
      · exact Or.inr m)
  intro pv hpv
  exact this (nodePath pv, expectVar pv.1 pv.2) (List.mem_map.mpr ⟨pv, hpv, rfl⟩)

end Pydap.Dmr
