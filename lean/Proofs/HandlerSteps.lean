/-
  Ownership facts about the handler pipeline model (`PydapModel/HandlerSteps.lean`).
-/
import PydapModel.HandlerSteps
import Proofs.Sched
namespace Pydap.HandlerSteps
open Pydap.Sched

/-- the executable ownership audit of a thread program (the driver's `hs-audit`) -/
def auditProg (t : Nat) (prog : List (Step Ref Val Val String)) : Bool :=
  prog.all fun s => s.writes.all (fun r => r.own == some t) && s.reads.all (fun r => r.own == some t || r.own == none)

theorem audit_sound (P : Nat → List (Step Ref Val Val String)) (h : ∀ t, auditProg t (P t) = true) :
    Disciplined Ref.own P := by
  have hw : ∀ t s, s ∈ P t → ∀ l, l ∈ s.writes → l.own = some t := by
    intro t s hs l hl
    have := h t
    simp only [auditProg, List.all_eq_true, Bool.and_eq_true] at this
    have := (this s hs).1 l hl
    simpa using this
  refine ⟨hw, ?_⟩
  intro t s hs l hl
  have := h t
  simp only [auditProg, List.all_eq_true, Bool.and_eq_true] at this
  have := (this s hs).2 l hl
  simp only [Bool.or_eq_true, beq_iff_eq] at this
  rcases this with h1 | h1
  · exact Or.inl h1
  · right
    intro t' s' hs' hl'
    have := hw t' s' hs' l hl'
    rw [h1] at this
    cases this

mutual
/-- the object and attribute-dict references of a tree (what `_set_id`, `__setitem__`, `_set_data` store into) -/
def objRefs : Node → List Ref
  | .base r a _ _ _ => [r, a]
  | .cont _ r a _ _ _ ks => [r, a] ++ objRefsKids ks
def objRefsKids : Kids → List Ref
  | .nil => []
  | .cons n ks => objRefs n ++ objRefsKids ks
end

mutual
/-- the data references of a tree -/
def dataRefs : Node → List Ref
  | .base _ _ d _ _ => [d]
  | .cont _ _ _ d _ _ ks => d :: dataRefsKids ks
def dataRefsKids : Kids → List Ref
  | .nil => []
  | .cons n ks => dataRefs n ++ dataRefsKids ks
end

theorem ref_mem_objRefs (n : Node) : n.ref ∈ objRefs n := by
  cases n <;> simp [Node.ref, objRefs]

mutual
theorem setId_targets (st : String) (n : Node) : ∀ e ∈ setId st n, e.target ∈ objRefs n := by
  cases n with
  | base r a d name arr => intro e he; simp [setId, ev] at he; subst he; simp [objRefs]
  | cont k r a d name vis ks =>
    intro e he
    simp only [setId, List.mem_cons] at he
    rcases he with he | he
    · subst he; simp [objRefs, ev]
    · have := setIdKids_targets st vis ks e he
      simp [objRefs, this]
theorem setIdKids_targets (st : String) (vis : List String) (ks : Kids) :
    ∀ e ∈ setIdKids st vis ks, e.target ∈ objRefsKids ks := by
  cases ks with
  | nil => intro e he; simp [setIdKids] at he
  | cons n ks =>
    intro e he
    simp only [setIdKids, List.mem_append] at he
    rcases he with he | he
    · split at he
      · have := setId_targets st n e he; simp [objRefsKids, this]
      · simp at he
    · have := setIdKids_targets st vis ks e he; simp [objRefsKids, this]
end

theorem initDap_targets (st cls : String) (r a : Ref) (src : List Ref) :
    ∀ e ∈ initDap st cls r a src, e.target = r ∨ e.target = a := by
  intro e he
  simp only [initDap, List.mem_cons, List.not_mem_nil, or_false] at he
  rcases he with he | he | he | he <;> subst he <;> simp [ev]

theorem initBase_targets (st : String) (r a : Ref) (src : List Ref) :
    ∀ e ∈ initBase st r a src, e.target = r ∨ e.target = a := by
  intro e he
  simp only [initBase, List.mem_append, List.mem_map] at he
  rcases he with he | ⟨f, _, he⟩
  · exact initDap_targets _ _ _ _ _ e he
  · subst he; simp [ev]

theorem initCont_targets (st : String) (k : Kind) (r a : Ref) (src : List Ref) :
    ∀ e ∈ initCont st k r a src, e.target = r ∨ e.target = a := by
  intro e he
  simp only [initCont, List.mem_append, List.mem_map] at he
  rcases he with he | ⟨f, _, he⟩
  · exact initDap_targets _ _ _ _ _ e he
  · subst he; simp [ev]

theorem setItem_targets (st : String) (parent : Ref) (c : Node) :
    ∀ e ∈ setItem st parent c, e.target = parent ∨ e.target ∈ objRefs c := by
  intro e he
  simp only [setItem, List.mem_append, List.mem_cons, List.not_mem_nil, or_false] at he
  rcases he with (he | he) | he
  · subst he; simp [ev]
  · subst he; simp [ev]
  · exact Or.inr (setId_targets st c e he)

mutual
/-- `copy.copy` — every object and attribute dict of the copy is owned by the copying request -/
theorem copy_priv (t : Nat) (st : String) (n : Node) :
    ∀ x ∈ objRefs (copyNode t st n).1, x.own = some t := by
  cases n with
  | base r a d name arr => intro x hx; simp [copyNode, objRefs, fresh] at hx; rcases hx with h | h <;> subst h <;> rfl
  | cont k r a d name vis ks =>
    intro x hx
    simp only [copyNode, objRefs, List.mem_append, List.mem_cons, List.not_mem_nil, or_false] at hx
    rcases hx with (h | h) | h
    · subst h; rfl
    · subst h; rfl
    · exact copyKids_priv t st _ ks x h
theorem copyKids_priv (t : Nat) (st : String) (parent : Ref) (ks : Kids) :
    ∀ x ∈ objRefsKids (copyKids t st parent ks).1, x.own = some t := by
  cases ks with
  | nil => intro x hx; simp [copyKids, objRefsKids] at hx
  | cons n ks =>
    intro x hx
    simp only [copyKids, objRefsKids, List.mem_append] at hx
    rcases hx with h | h
    · exact copy_priv t st n x h
    · exact copyKids_priv t st parent ks x h
end

mutual
/-- `copy.copy` — structure cloned, data shared: the copy holds exactly the source's data objects -/
theorem copy_shares_data (t : Nat) (st : String) (n : Node) :
    dataRefs (copyNode t st n).1 = dataRefs n := by
  cases n with
  | base r a d name arr => simp [copyNode, dataRefs]
  | cont k r a d name vis ks => simp [copyNode, dataRefs, copyKids_shares_data t st _ ks]
theorem copyKids_shares_data (t : Nat) (st : String) (parent : Ref) (ks : Kids) :
    dataRefsKids (copyKids t st parent ks).1 = dataRefsKids ks := by
  cases ks with
  | nil => simp [copyKids, dataRefsKids]
  | cons n ks => simp [copyKids, dataRefsKids, copy_shares_data t st n, copyKids_shares_data t st parent ks]
end

mutual
/-- `copy.copy` — every store goes to an object owned by the copying request -/
theorem copy_writes_owned (t : Nat) (st : String) (n : Node) :
    ∀ e ∈ (copyNode t st n).2, e.target.own = some t := by
  cases n with
  | base r a d name arr =>
    intro e he
    simp only [copyNode, List.mem_append, List.mem_cons, List.not_mem_nil, or_false] at he
    rcases he with he | he
    · rcases initBase_targets _ _ _ _ e he with h | h <;> rw [h] <;> rfl
    · subst he; rfl
  | cont k r a d name vis ks =>
    intro e he
    simp only [copyNode, List.mem_append, List.mem_cons, List.not_mem_nil, or_false] at he
    rcases he with (he | he) | he
    · rcases initCont_targets _ _ _ _ _ e he with h | h <;> rw [h] <;> rfl
    · subst he; rfl
    · exact copyKids_writes_owned t st _ rfl ks e he
theorem copyKids_writes_owned (t : Nat) (st : String) (parent : Ref) (hp : parent.own = some t) (ks : Kids) :
    ∀ e ∈ (copyKids t st parent ks).2, e.target.own = some t := by
  cases ks with
  | nil => intro e he; simp [copyKids] at he
  | cons n ks =>
    intro e he
    simp only [copyKids, List.mem_append] at he
    rcases he with (he | he) | he
    · exact copy_writes_owned t st n e he
    · rcases setItem_targets st parent _ e he with h | h
      · rw [h]; exact hp
      · exact copy_priv t st n _ h
    · exact copyKids_writes_owned t st parent hp ks e he
end

end Pydap.HandlerSteps
