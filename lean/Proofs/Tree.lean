/-
  C12 — lemmas about the tree model: `_set_id` propagation, `__setitem__`, `__delitem__`, copies.
-/
import PydapModel.Heap
import Proofs.Quote
namespace Pydap.Tree
open Pydap.Quote

/-! ### `_set_id` propagation -/

theorem setIdKids_keys (pk : Kind) (pid : Str) (vis : List Str) (f : Forest) :
    (setIdKids pk pid vis f).keys = f.keys := by
  induction f generalizing pk pid vis with
  | nil => rfl
  | cons h kids rest ihk ihr =>
    simp only [setIdKids]
    split <;> simp [Forest.keys, ihr]

theorem setIdKids_nil_iff (pk : Kind) (pid : Str) (vis : List Str) (f : Forest) :
    (setIdKids pk pid vis f == .nil) = (f == .nil) := by
  cases f with
  | nil => rfl
  | cons h kids rest =>
    simp only [setIdKids]
    split <;> rfl

theorem setIdKids_shape (pk : Kind) (pid : Str) (vis : List Str) (f : Forest) :
    shapeOk (setIdKids pk pid vis f) = shapeOk f := by
  induction f generalizing pk pid vis with
  | nil => rfl
  | cons h kids rest ihk ihr =>
    simp only [setIdKids]
    split
    · simp only [shapeOk, setIdKids_keys, ihk, ihr, visOk, setIdKids_nil_iff]
    · simp only [shapeOk, setIdKids_keys, ihr]

/-- after `_set_id` every listed descendant carries the id derived from its parent -/
theorem setIdKids_ids (pk : Kind) (pid : Str) (vis : List Str) (f : Forest)
    (pk0 : Kind) (pid0 : Str) (vis0 : List Str) (h0 : idsOk pk0 pid0 vis0 f = true) :
    idsOk pk pid vis (setIdKids pk pid vis f) = true := by
  induction f generalizing pk pid vis pk0 pid0 vis0 with
  | nil => rfl
  | cons h kids rest ihk ihr =>
    simp only [idsOk, Bool.and_eq_true] at h0
    obtain ⟨⟨_, hk⟩, hr⟩ := h0
    simp only [setIdKids]
    split
    · rename_i hl
      simp only [idsOk, hl, Bool.and_eq_true]
      refine ⟨⟨by simp, ihk _ _ _ _ _ _ hk⟩, ihr _ _ _ _ _ _ hr⟩
    · rename_i hl
      simp only [idsOk, Bool.and_eq_true]
      refine ⟨⟨by simp [hl], hk⟩, ihr _ _ _ _ _ _ hr⟩

end Pydap.Tree
